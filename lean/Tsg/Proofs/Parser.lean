/-
  Generic facts about parser programs (`PP`): sequencing, and the position invariant —
  every state a parser program passes through or observes is the position of a prefix of the text.
-/
import Tsg.Syntax.Parser

namespace PP

theorem bind_eq {α β : Type} (p : PP α) (f : α → PP β) : (p >>= f) = PP.bind p f := rfl
theorem pure_eq {α : Type} (a : α) : (pure a : PP α) = PP.pure a := rfl

/-- semantics of sequencing -/
theorem run_bind {α β : Type} (p : PP α) (f : α → PP β) (s : PS) :
    run (PP.bind p f) s =
      match run p s with
      | (.ok a, s') => run (f a) s'
      | (.error e, s') => (.error e, s') := by
  induction p generalizing s with
  | pure a => simp [PP.bind, run]
  | fail e => simp [PP.bind, run]
  | next k ih =>
    simp only [PP.bind, run]
    cases s.rest with
    | nil => exact ih none f s
    | cons c r => exact ih (some c) f _
  | view k ih => simp only [PP.bind, run]; exact ih s f s
  | attempt m k _ ihk =>
    simp only [PP.bind, run]
    cases hm : run m s with
    | mk r s' =>
      cases r with
      | ok b => exact ihk (.ok b) f s'
      | error e =>
        cases e with
        | err e => exact ihk (.error e) f s'
        | need q => rfl
        | outOfFuel => rfl
        | panic x => rfl

theorem run_bind_ok {α β : Type} {p : PP α} {f : α → PP β} {s s' : PS} {a : α}
    (h : run p s = (.ok a, s')) : run (p >>= f) s = run (f a) s' := by
  rw [bind_eq, run_bind, h]

theorem run_bind_err {α β : Type} {p : PP α} {f : α → PP β} {s s' : PS} {e : PFail}
    (h : run p s = (.error e, s')) : run (p >>= f) s = (.error e, s') := by
  rw [bind_eq, run_bind, h]

/-! ### position of a prefix -/

/-- `(row, column, byte offset)` after reading the characters `pre` from the start of a text -/
def stepPos (p : Nat × Nat × Nat) (c : Char) : Nat × Nat × Nat :=
  if c = '\n' then (p.1 + 1, 0, p.2.2 + c.utf8Size) else (p.1, p.2.1 + 1, p.2.2 + c.utf8Size)

def posOf (pre : List Char) : Nat × Nat × Nat := pre.foldl stepPos (0, 0, 0)

theorem posOf_snoc (pre : List Char) (c : Char) : posOf (pre ++ [c]) = stepPos (posOf pre) c := by
  simp [posOf, List.foldl_append]

/-- the state is the parser's position after the prefix `pre` of `text` -/
def At (text pre : List Char) (s : PS) : Prop :=
  text = pre ++ s.rest ∧ (s.row, s.col, s.off) = posOf pre

/-- the state is the position of some prefix of `text` -/
def Tracks (text : List Char) (s : PS) : Prop := ∃ pre, At text pre s

theorem at_advance {text pre : List Char} {s : PS} {c : Char} {r : List Char}
    (h : At text pre s) (hr : s.rest = c :: r) : At text (pre ++ [c]) (advance s c r) := by
  obtain ⟨h1, h2⟩ := h
  constructor
  · unfold advance; split <;> simp [h1, hr]
  · rw [posOf_snoc, ← h2]
    unfold advance stepPos
    split <;> rfl

/-- **position invariant**: a parser program started at the position of a prefix ends at the position of a
    longer prefix -/
theorem run_at {α : Type} (p : PP α) (text pre : List Char) (s : PS) (h : At text pre s) :
    ∃ more, At text (pre ++ more) (run p s).2 := by
  induction p generalizing s pre with
  | pure a => exact ⟨[], by simpa [run] using h⟩
  | fail e => exact ⟨[], by simpa [run] using h⟩
  | next k ih =>
    simp only [run]
    cases hr : s.rest with
    | nil => exact ih none pre s h
    | cons c r =>
      obtain ⟨more, hm⟩ := ih (some c) (pre ++ [c]) _ (at_advance h hr)
      exact ⟨c :: more, by simpa using hm⟩
  | view k ih => simp only [run]; exact ih s pre s h
  | attempt m k ihm ihk =>
    simp only [run]
    obtain ⟨m1, h1⟩ := ihm pre s h
    cases hm : run m s with
    | mk r s' =>
      rw [hm] at h1
      cases r with
      | ok b =>
        obtain ⟨m2, h2⟩ := ihk (.ok b) (pre ++ m1) s' h1
        exact ⟨m1 ++ m2, by simpa using h2⟩
      | error e =>
        cases e with
        | err e =>
          obtain ⟨m2, h2⟩ := ihk (.error e) (pre ++ m1) s' h1
          exact ⟨m1 ++ m2, by simpa using h2⟩
        | need q => exact ⟨m1, h1⟩
        | outOfFuel => exact ⟨m1, h1⟩
        | panic x => exact ⟨m1, h1⟩

theorem run_tracks {α : Type} (p : PP α) (text : List Char) (s : PS) (h : Tracks text s) :
    Tracks text (run p s).2 := by
  obtain ⟨pre, hp⟩ := h
  obtain ⟨more, hm⟩ := run_at p text pre s hp
  exact ⟨_, hm⟩

/-- states a program observes through `view` when run from `s` -/
inductive Observes : {α : Type} → PP α → PS → PS → Prop where
  | viewHere {α : Type} (k : PS → PP α) (s : PS) : Observes (.view k) s s
  | viewLater {α : Type} (k : PS → PP α) (s v : PS) : Observes (k s) s v → Observes (.view k) s v
  | nextNil {α : Type} (k : Option Char → PP α) (s v : PS) : s.rest = [] → Observes (k none) s v → Observes (.next k) s v
  | nextCons {α : Type} (k : Option Char → PP α) (s v : PS) (c : Char) (r : List Char) :
      s.rest = c :: r → Observes (k (some c)) (advance s c r) v → Observes (.next k) s v
  | attemptIn {α β : Type} (m : PP β) (k : Except PErrK β → PP α) (s v : PS) : Observes m s v → Observes (.attempt m k) s v
  | attemptOk {α β : Type} (m : PP β) (k : Except PErrK β → PP α) (s s' v : PS) (b : β) :
      run m s = (.ok b, s') → Observes (k (.ok b)) s' v → Observes (.attempt m k) s v
  | attemptErr {α β : Type} (m : PP β) (k : Except PErrK β → PP α) (s s' v : PS) (e : PErrK) :
      run m s = (.error (.err e), s') → Observes (k (.error e)) s' v → Observes (.attempt m k) s v

/-- every state a program ever looks at (the only source of recorded locations) is the position of a prefix
    of the text that extends the starting prefix -/
theorem observes_at {α : Type} (p : PP α) (text pre : List Char) (s v : PS) (h : At text pre s)
    (ho : Observes p s v) : ∃ more, At text (pre ++ more) v := by
  induction ho generalizing pre with
  | viewHere k s => exact ⟨[], by simpa using h⟩
  | viewLater k s v _ ih => exact ih pre h
  | nextNil k s v _ _ ih => exact ih pre h
  | nextCons k s v c r hr _ ih =>
    obtain ⟨more, hm⟩ := ih (pre ++ [c]) (at_advance h hr)
    exact ⟨c :: more, by simpa using hm⟩
  | attemptIn m k s v _ ih => exact ih pre h
  | attemptOk m k s s' v b hm _ ih =>
    obtain ⟨m1, h1⟩ := run_at m text pre s h
    rw [hm] at h1
    obtain ⟨m2, h2⟩ := ih (pre ++ m1) h1
    exact ⟨m1 ++ m2, by simpa using h2⟩
  | attemptErr m k s s' v e hm _ ih =>
    obtain ⟨m1, h1⟩ := run_at m text pre s h
    rw [hm] at h1
    obtain ⟨m2, h2⟩ := ih (pre ++ m1) h1
    exact ⟨m1 ++ m2, by simpa using h2⟩

/-! ### what `posOf` computes -/

theorem rev_ind {α : Type} {P : List α → Prop} (hnil : P []) (hsnoc : ∀ l a, P l → P (l ++ [a])) : ∀ l, P l := by
  have : ∀ l : List α, P l.reverse := by
    intro l
    induction l with
    | nil => exact hnil
    | cons a l ih => rw [List.reverse_cons]; exact hsnoc _ _ ih
  intro l
  have h := this l.reverse
  rwa [List.reverse_reverse] at h

theorem posOf_nil : posOf [] = (0, 0, 0) := rfl

/-- row = number of line feeds read -/
theorem posOf_row (pre : List Char) : (posOf pre).1 = pre.count '\n' := by
  induction pre using rev_ind with
  | hnil => rfl
  | hsnoc pre c ih =>
    rw [posOf_snoc, List.count_append]
    unfold stepPos
    split
    · next hc => simp [hc, ih]
    · next hc => simp [ih, List.count_cons, hc]

/-- column = number of characters read since the last line feed -/
theorem posOf_col (pre : List Char) : (posOf pre).2.1 = (pre.reverse.takeWhile (· ≠ '\n')).length := by
  induction pre using rev_ind with
  | hnil => rfl
  | hsnoc pre c ih =>
    rw [posOf_snoc]
    unfold stepPos
    split
    · next hc => simp [hc]
    · next hc => simp [hc, ih]

/-- offset = UTF-8 length of the characters read -/
theorem posOf_off (pre : List Char) : (posOf pre).2.2 = (pre.map Char.utf8Size).sum := by
  induction pre using rev_ind with
  | hnil => rfl
  | hsnoc pre c ih =>
    rw [posOf_snoc]
    unfold stepPos
    split <;> simp [ih, List.sum_append]

end PP
