/-
  The parser model never runs out of fuel: `Parser.parse` gives every loop and every recursive descent
  function 8·(|text|+2) units, and each unit of fuel is spent either right before a character is
  consumed or on one of at most four calls between two consumptions.

  `Bounded p n`: from every state with at most `n` remaining characters, `p` does not end in `outOfFuel`.
  `Progress p`: whenever `p` succeeds it has consumed at least one character.
-/
import Tsg.Proofs.ParserSafe
import Tsg.Proofs.ParserLex

namespace PP

/-- the remaining input only shrinks -/
theorem run_rest_suffix {α : Type} (p : PP α) (s : PS) : ∃ consumed, s.rest = consumed ++ (run p s).2.rest := by
  induction p generalizing s with
  | pure a => exact ⟨[], by simp [run]⟩
  | fail e => exact ⟨[], by simp [run]⟩
  | next k ih =>
    cases hr : s.rest with
    | nil =>
      have hrun : run (.next k) s = run (k none) s := by simp only [run, hr]
      rw [hrun, ← hr]
      exact ih none s
    | cons c r =>
      have hrun : run (.next k) s = run (k (some c)) (advance s c r) := by simp only [run, hr]
      rw [hrun]
      obtain ⟨m, hm⟩ := ih (some c) (advance s c r)
      have : (advance s c r).rest = r := by unfold advance; split <;> rfl
      rw [this] at hm
      exact ⟨c :: m, by rw [List.cons_append, ← hm]⟩
  | view k ih => simp only [run]; exact ih s s
  | attempt m k ihm ihk =>
    simp only [run]
    obtain ⟨m1, h1⟩ := ihm s
    cases hm : run m s with
    | mk r s' =>
      rw [hm] at h1
      cases r with
      | ok b =>
        obtain ⟨m2, h2⟩ := ihk (.ok b) s'
        exact ⟨m1 ++ m2, by simp only at h1; rw [h1, h2]; simp⟩
      | error e =>
        cases e with
        | err e =>
          obtain ⟨m2, h2⟩ := ihk (.error e) s'
          exact ⟨m1 ++ m2, by simp only at h1; rw [h1, h2]; simp⟩
        | need q => exact ⟨m1, h1⟩
        | outOfFuel => exact ⟨m1, h1⟩
        | panic x => exact ⟨m1, h1⟩

theorem run_rest_le {α : Type} (p : PP α) (s : PS) : (run p s).2.rest.length ≤ s.rest.length := by
  obtain ⟨c, hc⟩ := run_rest_suffix p s
  rw [hc]; simp

/-- from every state with at most `n` characters left, `p` does not run out of fuel -/
structure Bounded {α : Type} (p : PP α) (n : Nat) : Prop where
  out : ∀ s : PS, s.rest.length ≤ n → (run p s).1 ≠ .error .outOfFuel

/-- a successful run consumed at least one character -/
def Progress {α : Type} (p : PP α) : Prop :=
  ∀ s a s', run p s = (.ok a, s') → s'.rest.length < s.rest.length

theorem Bounded.mono {α : Type} {p : PP α} {n m : Nat} (h : Bounded p n) (hm : m ≤ n) : Bounded p m :=
  ⟨fun s hs => h.out s (Nat.le_trans hs hm)⟩

theorem Bounded.pure {α : Type} (a : α) (n : Nat) : Bounded (Pure.pure a : PP α) n := by
  constructor
  intro s _
  show (run (PP.pure a) s).1 ≠ _
  simp [run]
theorem Bounded.pure' {α : Type} (a : α) (n : Nat) : Bounded (PP.pure a : PP α) n := by
  constructor; intro s _; simp [run]
theorem Bounded.fail {α : Type} (f : PFail) (hf : f ≠ .outOfFuel) (n : Nat) : Bounded (PP.fail f : PP α) n := by
  constructor; intro s _; simp only [run]; intro h; injection h with h; exact hf h
theorem Bounded.failE {α : Type} (e : PErrK) (n : Nat) : Bounded (PP.failE e : PP α) n :=
  Bounded.fail _ (by intro h; cases h) n
theorem Bounded.need {α : Type} (q : PQ) (n : Nat) : Bounded (PP.fail (.need q) : PP α) n :=
  Bounded.fail _ (by intro h; cases h) n
theorem Bounded.panic {α : Type} (x : String) (n : Nat) : Bounded (PP.fail (.panic x) : PP α) n :=
  Bounded.fail _ (by intro h; cases h) n
theorem Bounded.getS (n : Nat) : Bounded PP.getS n := by constructor; intro s _; simp [PP.getS, run]
theorem Bounded.nextC (n : Nat) : Bounded PP.nextC n := by
  constructor; intro s _; simp only [PP.nextC, run]; cases s.rest <;> simp [run]

/-- sequencing without assuming progress: the continuation faces at most as many characters -/
theorem Bounded.bind {α β : Type} {p : PP α} {f : α → PP β} {n : Nat}
    (hp : Bounded p n) (hf : ∀ a, Bounded (f a) n) : Bounded (p >>= f) n := by
  constructor
  intro s hs
  rw [bind_eq, run_bind]
  cases h1 : run p s with
  | mk r s1 =>
    cases r with
    | ok a =>
      have hle : s1.rest.length ≤ s.rest.length := by have := run_rest_le p s; rw [h1] at this; exact this
      exact (hf a).out s1 (Nat.le_trans hle hs)
    | error e =>
      have := hp.out s hs
      rw [h1] at this
      simpa using this

/-- sequencing after progress: the continuation faces strictly fewer characters -/
theorem Bounded.bindP {α β : Type} {p : PP α} {f : α → PP β} {n : Nat}
    (hp : Bounded p (n + 1)) (hpr : Progress p) (hf : ∀ a, Bounded (f a) n) : Bounded (p >>= f) (n + 1) := by
  constructor
  intro s hs
  rw [bind_eq, run_bind]
  cases h1 : run p s with
  | mk r s1 =>
    cases r with
    | ok a =>
      have hlt := hpr s a s1 h1
      exact (hf a).out s1 (by omega)
    | error e =>
      have := hp.out s hs
      rw [h1] at this
      simpa using this

/-- with no characters left a program that needs progress to succeed cannot reach its continuation -/
theorem Bounded.bindP0 {α β : Type} {p : PP α} {f : α → PP β}
    (hp : Bounded p 0) (hpr : Progress p) : Bounded (p >>= f) 0 := by
  constructor
  intro s hs
  rw [bind_eq, run_bind]
  cases h1 : run p s with
  | mk r s1 =>
    cases r with
    | ok a =>
      have hlt := hpr s a s1 h1
      omega
    | error e =>
      have := hp.out s hs
      rw [h1] at this
      simpa using this

theorem Bounded.ite {α : Type} {c : Prop} [Decidable c] {a b : PP α} {n : Nat} (ha : Bounded a n) (hb : Bounded b n) :
    Bounded (if c then a else b) n := by
  split <;> assumption

theorem Bounded.attempt {α β : Type} {m : PP β} {k : Except PErrK β → PP α} {n : Nat}
    (hm : Bounded m n) (hk : ∀ r, Bounded (k r) n) : Bounded (.attempt m k) n := by
  constructor
  intro s hs
  simp only [run]
  have hle := run_rest_le m s
  cases h1 : run m s with
  | mk r s1 =>
    rw [h1] at hle
    cases r with
    | ok b => exact (hk (.ok b)).out s1 (Nat.le_trans hle hs)
    | error e =>
      cases e with
      | err e => exact (hk (.error e)).out s1 (Nat.le_trans hle hs)
      | need q => simp
      | outOfFuel =>
        have := hm.out s hs
        rw [h1] at this
        exact absurd rfl this
      | panic x => simp

theorem Bounded.attemptP {β : Type} {m : PP β} {n : Nat} (hm : Bounded m n) : Bounded (PP.attemptP m) n :=
  Bounded.attempt hm (fun r => Bounded.pure' r n)

/-! progress -/

theorem Progress.bind_left {α β : Type} {p : PP α} {f : α → PP β} (hp : Progress p) : Progress (p >>= f) := by
  intro s b s' h
  rw [bind_eq, run_bind] at h
  cases h1 : run p s with
  | mk r s1 =>
    rw [h1] at h
    cases r with
    | ok a =>
      have h2 := hp s a s1 h1
      have h3 := run_rest_le (f a) s1
      have h4 : run (f a) s1 = (.ok b, s') := h
      rw [h4] at h3
      simp only at h3
      omega
    | error e => simp at h

theorem Progress.bind_right {α β : Type} {p : PP α} {f : α → PP β} (hf : ∀ a, Progress (f a)) : Progress (p >>= f) := by
  intro s b s' h
  rw [bind_eq, run_bind] at h
  cases h1 : run p s with
  | mk r s1 =>
    rw [h1] at h
    cases r with
    | ok a =>
      have h2 := hf a s1 b s' h
      have h3 := run_rest_le p s
      rw [h1] at h3
      simp only at h3
      omega
    | error e => simp at h

theorem Progress.fail {α : Type} (f : PFail) : Progress (PP.fail f : PP α) := by
  intro s a s' h; simp [run] at h

theorem Progress.failE {α : Type} (e : PErrK) : Progress (PP.failE e : PP α) := Progress.fail _

theorem Progress.ite {α : Type} {c : Prop} [Decidable c] {a b : PP α} (ha : Progress a) (hb : Progress b) :
    Progress (if c then a else b) := by
  split <;> assumption

end PP

namespace Parser
open PP (Bounded Progress)

/-- one step of the syntactic argument for programs that contain no `outOfFuel` leaf -/
macro "bnd_step" : tactic =>
  `(tactic| first
    | with_reducible exact Bounded.pure _ _ | with_reducible exact Bounded.pure' _ _ | with_reducible exact Bounded.failE _ _
    | with_reducible exact Bounded.need _ _ | with_reducible exact Bounded.panic _ _
    | with_reducible exact Bounded.getS _ | with_reducible exact Bounded.nextC _
    | with_reducible assumption
    | (with_reducible apply Bounded.attemptP)
    | (with_reducible apply Bounded.bind)
    | (with_reducible apply Bounded.ite)
    | (intro _)
    | split
    | (dsimp only))

macro "bnd" : tactic => `(tactic| repeat bnd_step)
macro "bnd_with " t:tactic : tactic => `(tactic| repeat (first | (with_reducible ($t:tactic)) | bnd_step))

theorem b_peek (n : Nat) : Bounded peek n := by unfold peek; bnd
theorem b_tryPeek (n : Nat) : Bounded tryPeek n := by unfold tryPeek; bnd
theorem b_next (n : Nat) : Bounded next n := by unfold next; bnd
theorem b_skip (n : Nat) : Bounded skip n := by
  unfold skip; exact Bounded.bind (b_next n) (fun _ => Bounded.pure _ _)

theorem b_consumeWhitespace (o : POracle) (fuel : Nat) (ic : Bool) (n : Nat) : Bounded (consumeWhitespace o fuel ic) n := by
  induction fuel generalizing ic with
  | zero => unfold consumeWhitespace; bnd
  | succ fuel ih =>
    unfold consumeWhitespace
    have h1 := b_tryPeek n
    have h2 := b_skip n
    bnd_with (exact ih _)

theorem b_ws (o : POracle) (n : Nat) : Bounded (ws o) n := b_consumeWhitespace o _ _ n

theorem b_consumeWhile (f : Char → Bool) (fuel : Nat) (acc : List Char) (n : Nat) : Bounded (consumeWhile f fuel acc) n := by
  induction fuel generalizing acc with
  | zero => unfold consumeWhile; bnd
  | succ fuel ih =>
    unfold consumeWhile
    have h1 := b_tryPeek n
    have h2 := b_skip n
    bnd_with (exact ih _)

theorem b_consumeWhileAll (o : POracle) (f : Char → Bool) (n : Nat) : Bounded (consumeWhileAll o f) n := b_consumeWhile f _ _ n

theorem b_consumeN (k n : Nat) : Bounded (consumeN k) n := by
  induction k with
  | zero => unfold consumeN; bnd
  | succ k ih => unfold consumeN; exact Bounded.bind (b_skip n) (fun _ => ih)

theorem b_consumeToken (tok : String) (n : Nat) : Bounded (consumeToken tok) n := by
  unfold consumeToken
  have h := b_consumeN tok.length n
  bnd

theorem b_consumeKeyword (o : POracle) (tok : String) (n : Nat) : Bounded (consumeKeyword o tok) n := by
  unfold consumeKeyword
  have h := b_consumeN tok.length n
  bnd

theorem b_parseName (o : POracle) (w : String) (n : Nat) : Bounded (parseName o w) n := by
  unfold parseName
  have h1 := b_next n
  have h2 := b_consumeWhileAll o (isIdent o) n
  bnd

theorem b_parseIdentifier (o : POracle) (w : String) (n : Nat) : Bounded (parseIdentifier o w) n := b_parseName o w n

theorem b_parseIntegerConstant (o : POracle) (n : Nat) : Bounded (parseIntegerConstant o) n := by
  unfold parseIntegerConstant
  have h2 := b_consumeWhileAll o isDigit n
  bnd

theorem b_parseLiteral (o : POracle) (n : Nat) : Bounded (parseLiteral o) n := by
  unfold parseLiteral
  have h1 := b_consumeToken "#" n
  have h2 := b_parseName o "literal" n
  bnd

theorem b_parseRegexCapture (o : POracle) (n : Nat) : Bounded (parseRegexCapture o) n := by
  unfold parseRegexCapture
  have h1 := b_consumeToken "$" n
  have h2 := b_consumeWhileAll o isDigit n
  bnd

theorem b_parseCapture (o : POracle) (n : Nat) : Bounded (parseCapture o) n := by
  unfold parseCapture
  have h1 := b_consumeToken "@" n
  have h2 := b_next n
  have h3 := b_consumeWhileAll o (isIdent o) n
  bnd

theorem b_parseQuantifier (o : POracle) (n : Nat) : Bounded (parseQuantifier o) n := by
  unfold parseQuantifier
  have h1 := b_tryPeek n
  have h2 := b_skip n
  bnd

/-! ### progress of the consuming primitives -/

theorem p_next : Progress next := by
  intro s a s' h
  cases hr : s.rest with
  | nil => rw [run_next_nil hr] at h; simp at h
  | cons c r =>
    rw [run_next_cons hr] at h
    simp only [Prod.mk.injEq] at h
    obtain ⟨_, rfl⟩ := h
    simp

theorem p_skip : Progress skip := by
  unfold skip; exact Progress.bind_left p_next

theorem p_consumeN (k : Nat) (hk : 0 < k) : Progress (consumeN k) := by
  cases k with
  | zero => omega
  | succ k => unfold consumeN; exact Progress.bind_left p_skip

theorem p_consumeToken (tok : String) (hk : 0 < tok.length) : Progress (consumeToken tok) := by
  unfold consumeToken
  apply Progress.bind_right
  intro s
  exact Progress.ite (p_consumeN _ hk) (Progress.failE _)

theorem p_parseName (o : POracle) (w : String) : Progress (parseName o w) := by
  unfold parseName; exact Progress.bind_left p_next

/-! ### the two character loops that can run out of fuel -/

theorem b_parseStringLoop (fuel : Nat) (esc : Bool) (acc : List Char) (n : Nat) (h : n < fuel) :
    Bounded (parseStringLoop fuel esc acc) n := by
  induction fuel generalizing esc acc n with
  | zero => omega
  | succ fuel ih =>
    unfold parseStringLoop
    cases n with
    | zero => exact Bounded.bindP0 (b_next 0) p_next
    | succ n =>
      apply Bounded.bindP (b_next _) p_next
      intro ch
      have hi : ∀ e a, Bounded (parseStringLoop fuel e a) n := fun e a => ih e a n (by omega)
      bnd_with (exact hi _ _)

theorem b_parseString (o : POracle) (n : Nat) (h : n ≤ o.fuel) : Bounded (parseString o) n := by
  unfold parseString
  cases n with
  | zero => exact Bounded.bindP0 (b_consumeToken _ 0) (p_consumeToken _ (by decide))
  | succ n =>
    apply Bounded.bindP (b_consumeToken _ _) (p_consumeToken _ (by decide))
    intro _
    exact b_parseStringLoop _ _ _ n (by omega)

theorem p_parseString (o : POracle) : Progress (parseString o) := by
  unfold parseString; exact Progress.bind_left (p_consumeToken _ (by decide))

theorem b_skipQuery (fuel depth : Nat) (a b c : Bool) (acc : List Char) (n : Nat) (h : n < fuel) :
    Bounded (skipQuery fuel depth a b c acc) n := by
  induction fuel generalizing depth a b c acc n with
  | zero => omega
  | succ fuel ih =>
    unfold skipQuery
    apply Bounded.bind (b_peek n)
    intro ch
    cases n with
    | zero =>
      have h0 : ∀ {β : Type} (f : Unit → PP β), Bounded (skip >>= f) 0 := fun f => Bounded.bindP0 (b_skip 0) p_skip
      bnd_with (exact h0 _)
    | succ n =>
      have hi : ∀ d x y z w, Bounded (skipQuery fuel d x y z w) n := fun d x y z w => ih d x y z w n (by omega)
      have hs : ∀ {β : Type} (f : Unit → PP β), (∀ u, Bounded (f u) n) → Bounded (skip >>= f) (n + 1) :=
        fun f hf => Bounded.bindP (b_skip _) p_skip hf
      bnd_with (first | exact hi _ _ _ _ _ | (apply hs; intro _))

end Parser

namespace PP

/-- sequencing after progress, for any bound (with nothing left, progress is impossible) -/
theorem Bounded.bindP' {α β : Type} {p : PP α} {f : α → PP β} {n : Nat}
    (hp : Bounded p n) (hpr : Progress p) (hf : ∀ a, Bounded (f a) (n - 1)) : Bounded (p >>= f) n := by
  cases n with
  | zero => exact Bounded.bindP0 hp hpr
  | succ n => exact Bounded.bindP hp hpr (fun a => by simpa using hf a)

theorem run_attemptP_ok {β : Type} (m : PP β) (s s' : PS) (r : Except PErrK β)
    (h : run (attemptP m) s = (.ok r, s')) :
    (∃ b, r = .ok b ∧ run m s = (.ok b, s')) ∨ (∃ e, r = .error e ∧ run m s = (.error (.err e), s')) := by
  simp only [attemptP, run] at h
  cases hm : run m s with
  | mk x s1 =>
    rw [hm] at h
    cases x with
    | ok b =>
      simp only [run, Prod.mk.injEq, Except.ok.injEq] at h
      exact Or.inl ⟨b, h.1.symm, by rw [h.2]⟩
    | error e =>
      cases e with
      | err e =>
        simp only [run, Prod.mk.injEq, Except.ok.injEq] at h
        exact Or.inr ⟨e, h.1.symm, by rw [h.2]⟩
      | need q => simp at h
      | outOfFuel => simp at h
      | panic x => simp at h

/-- `if let Ok(_) = attempt { … } else { … }`: progress when the attempt progresses on success and the
    fallback progresses -/
theorem Progress.attempt_bind {α β : Type} {m : PP β} {k : Except PErrK β → PP α}
    (hok : Progress m) (herr : ∀ e, Progress (k (.error e))) : Progress (attemptP m >>= k) := by
  intro s a s' h
  rw [bind_eq, run_bind] at h
  cases h1 : run (attemptP m) s with
  | mk x s1 =>
    rw [h1] at h
    cases x with
    | error e => simp at h
    | ok r =>
      have h2 : run (k r) s1 = (.ok a, s') := h
      rcases run_attemptP_ok m s s1 r h1 with ⟨b, rfl, hb⟩ | ⟨e, rfl, he⟩
      · have := hok s b s1 hb
        have h3 := run_rest_le (k (.ok b)) s1
        rw [h2] at h3
        simp only at h3
        omega
      · have := herr e s1 a s' h2
        have h3 := run_rest_le m s
        rw [he] at h3
        simp only at h3
        omega

theorem Progress.pure_false {α : Type} : ¬ Progress (Pure.pure (default : Unit) : PP Unit) ∨ True := Or.inr trivial

end PP

namespace Parser
open PP (Bounded Progress)

/-- progress of a program that first looks at the next character -/
theorem progress_peek_bind {α : Type} {f : Char → PP α}
    (h : ∀ c s a s', s.rest.head? = some c → PP.run (f c) s = (.ok a, s') → s'.rest.length < s.rest.length) :
    Progress (peek >>= f) := by
  intro s a s' hr
  rw [PP.bind_eq, PP.run_bind] at hr
  cases hs : s.rest with
  | nil => rw [run_peek_nil hs] at hr; simp at hr
  | cons c r =>
    rw [run_peek_cons hs] at hr
    have := h c s a s' (by simp [hs]) hr
    rw [hs] at this
    exact this

theorem consumeWhile_progress (f : Char → Bool) (fuel : Nat) (acc : List Char) (s s' : PS) (a : List Char) (c : Char)
    (hh : s.rest.head? = some c) (hc : f c = true) (h : PP.run (consumeWhile f (fuel + 1) acc) s = (.ok a, s')) :
    s'.rest.length < s.rest.length := by
  cases hs : s.rest with
  | nil => simp [hs] at hh
  | cons c' r =>
    have : c' = c := by simpa [hs] using hh
    subst this
    have hrun : PP.run (consumeWhile f (fuel + 1) acc) s = PP.run (skip >>= fun _ => consumeWhile f fuel (c' :: acc)) s := by
      simp only [consumeWhile, run_bind', run_tryPeek, hs, List.head?_cons, hc, if_true]
    rw [hrun] at h
    have := Progress.bind_left (f := fun _ => consumeWhile f fuel (c' :: acc)) p_skip s a s' h
    rw [hs] at this
    exact this

theorem p_parseLiteral (o : POracle) : Progress (parseLiteral o) := by
  unfold parseLiteral
  exact Progress.bind_right (fun _ => Progress.bind_left (p_consumeToken _ (by decide)))

theorem p_parseRegexCapture (o : POracle) : Progress (parseRegexCapture o) := by
  unfold parseRegexCapture
  exact Progress.bind_right (fun _ => Progress.bind_left (p_consumeToken _ (by decide)))

theorem p_parseCapture (o : POracle) : Progress (parseCapture o) := by
  unfold parseCapture
  exact Progress.bind_right (fun _ => Progress.bind_left (p_consumeToken _ (by decide)))

theorem p_parseCall (o : POracle) (fuel : Nat) : Progress (parseCall o fuel) := by
  cases fuel with
  | zero => unfold parseCall; exact Progress.fail _
  | succ fuel => unfold parseCall; exact Progress.bind_left (p_consumeToken _ (by decide))

theorem p_parseCollection (o : POracle) (b : Bool) (fuel : Nat) : Progress (parseCollection o b fuel) := by
  cases fuel with
  | zero => unfold parseCollection; exact Progress.fail _
  | succ fuel =>
    unfold parseCollection
    apply Progress.bind_right; intro s0
    dsimp only
    apply Progress.bind_left
    cases b
    · exact p_consumeToken _ (by decide)
    · exact p_consumeToken _ (by decide)

/-- **every expression consumes input** (given that the character loops have at least one unit of fuel) -/
theorem p_parseExpression (o : POracle) (hf : 1 ≤ o.fuel) (fuel : Nat) : Progress (parseExpression o fuel) := by
  cases fuel with
  | zero => unfold parseExpression; exact Progress.fail _
  | succ fuel =>
    unfold parseExpression
    apply progress_peek_bind
    intro c s a s' hh hr
    -- whichever alternative is taken, the primary expression consumes at least one character
    have key : ∀ (prim : PP Expr) (k : Expr → PP Expr), Progress prim → Progress (prim >>= k) :=
      fun prim k hp => Progress.bind_left hp
    dsimp only at hr
    by_cases h1 : c = '#'
    · simp only [h1, if_true] at hr
      exact key _ _ (p_parseLiteral o) s a s' hr
    · simp only [h1, if_false] at hr
      by_cases h2 : c = '"'
      · simp only [h2, if_true] at hr
        exact Progress.bind_left (p_parseString o) s a s' hr
      · simp only [h2, if_false] at hr
        by_cases h3 : c = '@'
        · simp only [h3, if_true] at hr
          exact key _ _ (p_parseCapture o) s a s' hr
        · simp only [h3, if_false] at hr
          by_cases h4 : c = '$'
          · simp only [h4, if_true] at hr
            exact key _ _ (p_parseRegexCapture o) s a s' hr
          · simp only [h4, if_false] at hr
            by_cases h5 : c = '('
            · simp only [h5, if_true] at hr
              exact key _ _ (p_parseCall o fuel) s a s' hr
            · simp only [h5, if_false] at hr
              by_cases h6 : c = '['
              · simp only [h6, if_true] at hr
                exact key _ _ (by unfold parseList; exact p_parseCollection o true fuel) s a s' hr
              · simp only [h6, if_false] at hr
                by_cases h7 : c = '{'
                · simp only [h7, if_true] at hr
                  exact key _ _ (by unfold parseSet; exact p_parseCollection o false fuel) s a s' hr
                · simp only [h7, if_false] at hr
                  by_cases h8 : isDigit c = true
                  · simp only [h8, if_true] at hr
                    -- the integer literal: its first digit is the character just seen
                    rw [PP.bind_eq, PP.run_bind] at hr
                    cases hi : PP.run (parseIntegerConstant o) s with
                    | mk x s1 =>
                      rw [hi] at hr
                      cases x with
                      | error e => simp at hr
                      | ok e =>
                        have hk : PP.run (ws o >>= fun _ => scopedChain o fuel e) s1 = (.ok a, s') := hr
                        have hle := PP.run_rest_le (ws o >>= fun _ => scopedChain o fuel e) s1
                        rw [hk] at hle
                        simp only at hle
                        -- the digit loop consumed
                        have hlt : s1.rest.length < s.rest.length := by
                          unfold parseIntegerConstant at hi
                          simp only [run_bind', run_getS, consumeWhileAll] at hi
                          obtain ⟨k, hk2⟩ : ∃ k, o.fuel = k + 1 := ⟨o.fuel - 1, by omega⟩
                          rw [hk2] at hi
                          cases hw : PP.run (consumeWhile isDigit (k + 1) []) s with
                          | mk y s2 =>
                            rw [hw] at hi
                            cases y with
                            | error e2 => simp at hi
                            | ok ds =>
                              have := consumeWhile_progress isDigit k [] s s2 ds c hh h8 hw
                              simp only at hi
                              split at hi
                              · simp only [run_pure, Prod.mk.injEq] at hi
                                rw [← hi.2]; exact this
                              · simp at hi
                        omega
                  · simp only [h8, Bool.false_eq_true, if_false] at hr
                    by_cases h9 : isIdentStart o c = true
                    · simp only [h9, if_true] at hr
                      exact Progress.bind_right (fun _ => Progress.bind_left (p_parseName o _)) s a s' hr
                    · simp only [h9, Bool.false_eq_true, if_false] at hr
                      exact Progress.bind_right (fun _ => Progress.bind_left (Progress.failE _)) s a s' hr

end Parser

namespace Parser
open PP (Bounded Progress)

/-- fuel bounds of the expression parsers: `8·n + rank < fuel` suffices for `n` remaining characters -/
structure ExprBounds (o : POracle) (fuel : Nat) : Prop where
  expr : ∀ n, n ≤ o.fuel → 8 * n + 1 < fuel → Bounded (parseExpression o fuel) n
  chain : ∀ n, n ≤ o.fuel → 8 * n + 0 < fuel → ∀ e, Bounded (scopedChain o fuel e) n
  call : ∀ n, n ≤ o.fuel → 8 * n + 0 < fuel → Bounded (parseCall o fuel) n
  args : ∀ n, n ≤ o.fuel → 8 * n + 2 < fuel → Bounded (parseCallArgs o fuel) n
  seq : ∀ n, n ≤ o.fuel → 8 * n + 2 < fuel → ∀ m, Bounded (parseSequence o m fuel) n
  coll : ∀ n, n ≤ o.fuel → 8 * n + 0 < fuel → ∀ b, Bounded (parseCollection o b fuel) n
  var : ∀ n, n ≤ o.fuel → 8 * n + 2 < fuel → Bounded (parseVariable o fuel) n
  uvar : ∀ n, n ≤ o.fuel → 8 * n + 3 < fuel → Bounded (parseUnscopedVariable o fuel) n

theorem exprBounds (o : POracle) (hf : 1 ≤ o.fuel) : ∀ fuel, ExprBounds o fuel := by
  intro fuel
  induction fuel with
  | zero =>
    exact ⟨fun _ _ h => by omega, fun _ _ h => by omega, fun _ _ h => by omega, fun _ _ h => by omega,
      fun _ _ h => by omega, fun _ _ h => by omega, fun _ _ h => by omega, fun _ _ h => by omega⟩
  | succ fuel ih =>
    have pE := p_parseExpression o hf fuel
    refine ⟨?_, ?_, ?_, ?_, ?_, ?_, ?_, ?_⟩
    · -- parseExpression
      intro n hn h
      unfold parseExpression
      have hC := ih.call n hn (by omega)
      have hL : Bounded (parseList o fuel) n := by unfold parseList; exact ih.coll n hn (by omega) true
      have hS : Bounded (parseSet o fuel) n := by unfold parseSet; exact ih.coll n hn (by omega) false
      have hCh := ih.chain n hn (by omega)
      have h1 := b_peek n
      have h2 := b_parseLiteral o n
      have h3 := b_parseString o n hn
      have h4 := b_parseCapture o n
      have h5 := b_parseRegexCapture o n
      have h6 := b_parseIntegerConstant o n
      have h7 := b_ws o n
      bnd_with (first | exact hCh _ | exact b_parseIdentifier o _ _)
    · -- scopedChain
      intro n hn h e
      unfold scopedChain
      apply Bounded.bind (b_tryPeek n); intro c
      apply Bounded.ite
      · cases n with
        | zero => exact Bounded.bindP0 (b_skip 0) p_skip
        | succ k =>
          apply Bounded.bindP (b_skip _) p_skip; intro _
          have hCh := ih.chain k (by omega) (by omega)
          have h7 := b_ws o k
          bnd_with (first | exact hCh _ | exact b_parseIdentifier o _ _)
      · exact Bounded.pure _ _
    · -- parseCall
      intro n hn h
      unfold parseCall
      cases n with
      | zero => exact Bounded.bindP0 (b_consumeToken _ 0) (p_consumeToken _ (by decide))
      | succ k =>
        apply Bounded.bindP (b_consumeToken _ _) (p_consumeToken _ (by decide)); intro _
        have hA := ih.args k (by omega) (by omega)
        have h7 := b_ws o k
        bnd_with (first | exact b_consumeToken _ _ | exact b_parseIdentifier o _ _)
    · -- parseCallArgs
      intro n hn h
      unfold parseCallArgs
      apply Bounded.bind (b_peek n); intro c
      apply Bounded.ite (Bounded.pure _ _)
      have hE := ih.expr n hn (by omega)
      cases n with
      | zero => exact Bounded.bindP0 hE pE
      | succ k =>
        apply Bounded.bindP hE pE; intro e
        have hA := ih.args k (by omega) (by omega)
        have h7 := b_ws o k
        bnd
    · -- parseSequence
      intro n hn h m
      unfold parseSequence
      apply Bounded.bind (b_peek n); intro c
      apply Bounded.ite (Bounded.pure _ _)
      have hE := ih.expr n hn (by omega)
      cases n with
      | zero => exact Bounded.bindP0 hE pE
      | succ k =>
        apply Bounded.bindP hE pE; intro e
        have hQ := ih.seq k (by omega) (by omega)
        have h7 := b_ws o k
        have h1 := b_peek k
        bnd_with (first | exact hQ _ | exact b_consumeToken _ _)
    · -- parseCollection
      intro n hn h b
      unfold parseCollection
      apply Bounded.bind (Bounded.getS n); intro s0
      dsimp only
      have hp : ∀ t : String, 0 < t.length → Progress (consumeToken t) := fun t ht => p_consumeToken t ht
      cases n with
      | zero => exact Bounded.bindP0 (b_consumeToken _ 0) (by cases b <;> exact p_consumeToken _ (by decide))
      | succ k =>
        apply Bounded.bindP (b_consumeToken _ _) (by cases b <;> exact p_consumeToken _ (by decide)); intro _
        have hE := ih.expr k (by omega) (by omega)
        have hQ := ih.seq k (by omega) (by omega)
        have hU := ih.uvar k (by omega) (by omega)
        have h7 := b_ws o k
        bnd_with (first | exact hQ _ | exact b_consumeToken _ _)
    · -- parseVariable
      intro n hn h
      unfold parseVariable
      have hE := ih.expr n hn (by omega)
      bnd
    · -- parseUnscopedVariable
      intro n hn h
      unfold parseUnscopedVariable
      have hV := ih.var n hn (by omega)
      bnd

end Parser

namespace PP

/-- `let r ← attempt m; k r`: after a successful attempt the rest faces strictly fewer characters -/
theorem Bounded.attempt_bindP {α β : Type} {m : PP β} {k : Except PErrK β → PP α} {n : Nat}
    (hm : Bounded m (n + 1)) (hpr : Progress m) (hok : ∀ b, Bounded (k (.ok b)) n) (herr : ∀ e, Bounded (k (.error e)) (n + 1)) :
    Bounded (PP.attemptP m >>= k) (n + 1) := by
  constructor
  intro s hs
  rw [bind_eq, run_bind]
  cases h1 : run (PP.attemptP m) s with
  | mk x s1 =>
    cases x with
    | error e =>
      have := (PP.Bounded.attemptP hm).out s hs
      rw [h1] at this
      simpa using this
    | ok r =>
      rcases run_attemptP_ok m s s1 r h1 with ⟨b, rfl, hb⟩ | ⟨e, rfl, he⟩
      · have hlt := hpr s b s1 hb
        exact (hok b).out s1 (by omega)
      · have hle := run_rest_le m s
        rw [he] at hle
        exact (herr e).out s1 (Nat.le_trans hle hs)

/-- the same with nothing left: the attempt cannot succeed -/
theorem Bounded.attempt_bindP0 {α β : Type} {m : PP β} {k : Except PErrK β → PP α}
    (hm : Bounded m 0) (hpr : Progress m) (herr : ∀ e, Bounded (k (.error e)) 0) :
    Bounded (PP.attemptP m >>= k) 0 := by
  constructor
  intro s hs
  rw [bind_eq, run_bind]
  cases h1 : run (PP.attemptP m) s with
  | mk x s1 =>
    cases x with
    | error e =>
      have := (PP.Bounded.attemptP hm).out s hs
      rw [h1] at this
      simpa using this
    | ok r =>
      rcases run_attemptP_ok m s s1 r h1 with ⟨b, rfl, hb⟩ | ⟨e, rfl, he⟩
      · have hlt := hpr s b s1 hb
        omega
      · have hle := run_rest_le m s
        rw [he] at hle
        exact (herr e).out s1 (Nat.le_trans hle hs)

end PP

namespace Parser
open PP (Bounded Progress)

theorem b_parseAttribute (o : POracle) (fuel n : Nat) (hn : n ≤ o.fuel) (hf : 1 ≤ o.fuel) (h : 8 * n + 1 < fuel) :
    Bounded (parseAttribute o fuel) n := by
  unfold parseAttribute
  have hE := (exprBounds o hf fuel).expr n hn h
  have h1 := b_ws o n
  have h2 := b_tryPeek n
  bnd_with (first | exact b_consumeToken _ _ | exact b_parseIdentifier o _ _)

theorem b_parseAttributesLoop (o : POracle) (fuel m n : Nat) (hn : n ≤ o.fuel) (hf : 1 ≤ o.fuel) (h : 8 * n + 1 < fuel)
    (hm : n < m) : Bounded (parseAttributesLoop o fuel m) n := by
  induction m generalizing n with
  | zero => omega
  | succ m ih =>
    unfold parseAttributesLoop
    apply Bounded.bind (b_tryPeek n); intro c
    apply Bounded.ite
    · cases n with
      | zero => exact Bounded.bindP0 (b_skip 0) p_skip
      | succ k =>
        apply Bounded.bindP (b_skip _) p_skip; intro _
        have hA := b_parseAttribute o fuel k (by omega) hf (by omega)
        have hL := ih k (by omega) (by omega) (by omega)
        have h1 := b_ws o k
        bnd
    · exact Bounded.pure _ _

theorem b_parseAttributes (o : POracle) (fuel n : Nat) (hn : n ≤ o.fuel) (hf : 1 ≤ o.fuel) (h : 8 * n + 1 < fuel) :
    Bounded (parseAttributes o fuel) n := by
  unfold parseAttributes
  have hA := b_parseAttribute o fuel n hn hf h
  have hL := b_parseAttributesLoop o fuel fuel n hn hf h (by omega)
  have h1 := b_ws o n
  bnd

theorem b_parseCondition (o : POracle) (fuel n : Nat) (hn : n ≤ o.fuel) (hf : 1 ≤ o.fuel) (h : 8 * n + 1 < fuel) :
    Bounded (parseCondition o fuel) n := by
  unfold parseCondition
  have hE := (exprBounds o hf fuel).expr n hn h
  have h1 := b_ws o n
  have h3 := b_consumeKeyword o "some" n
  have h4 := b_consumeKeyword o "none" n
  bnd

theorem b_parseConditions (o : POracle) (fuel m n : Nat) (hn : n ≤ o.fuel) (hf : 1 ≤ o.fuel) (h : 8 * n + 1 < fuel)
    (hm : n < m) : Bounded (parseConditions o fuel m) n := by
  induction m generalizing n with
  | zero => omega
  | succ m ih =>
    unfold parseConditions
    apply Bounded.bind (b_parseCondition o fuel n hn hf h); intro c
    apply Bounded.bind (b_ws o n); intro _
    apply Bounded.bind (b_tryPeek n); intro nx
    apply Bounded.ite
    · cases n with
      | zero => exact Bounded.bindP0 (b_consumeToken _ 0) (p_consumeToken _ (by decide))
      | succ k =>
        apply Bounded.bindP (b_consumeToken _ _) (p_consumeToken _ (by decide)); intro _
        have hL := ih k (by omega) (by omega) (by omega)
        have h1 := b_ws o k
        bnd
    · exact Bounded.pure _ _

theorem p_parseStatement (o : POracle) (fuel : Nat) : Progress (parseStatement o fuel) := by
  cases fuel with
  | zero => unfold parseStatement; exact Progress.fail _
  | succ fuel =>
    unfold parseStatement
    apply Progress.bind_right; intro s0
    dsimp only
    exact Progress.bind_left (p_parseName o _)

theorem p_parseStatements (o : POracle) (fuel : Nat) : Progress (parseStatements o fuel) := by
  cases fuel with
  | zero => unfold parseStatements; exact Progress.fail _
  | succ fuel => unfold parseStatements; exact Progress.bind_left (p_consumeToken _ (by decide))

/-- fuel bounds of the statement parsers -/
structure StmtBounds (o : POracle) (fuel : Nat) : Prop where
  stmts : ∀ n, n ≤ o.fuel → 8 * n + 0 < fuel → Bounded (parseStatements o fuel) n
  loop : ∀ n, n ≤ o.fuel → 8 * n + 1 < fuel → Bounded (parseStatementsLoop o fuel) n
  elifs : ∀ n, n ≤ o.fuel → 8 * n + 0 < fuel → ∀ l, Bounded (parseElifs o l fuel) n
  stmt : ∀ n, n ≤ o.fuel → 8 * n + 0 < fuel → Bounded (parseStatement o fuel) n
  print : ∀ n, n ≤ o.fuel → 8 * n + 0 < fuel → Bounded (parsePrintArgs o fuel) n
  arms : ∀ n, n ≤ o.fuel → 8 * n + 0 < fuel → ∀ l, Bounded (parseScanArmsChecked o l fuel) n

theorem stmtBounds (o : POracle) (hf : 1 ≤ o.fuel) : ∀ fuel, StmtBounds o fuel := by
  intro fuel
  induction fuel with
  | zero =>
    exact ⟨fun _ _ h => by omega, fun _ _ h => by omega, fun _ _ h => by omega, fun _ _ h => by omega,
      fun _ _ h => by omega, fun _ _ h => by omega⟩
  | succ fuel ih =>
    have eb := exprBounds o hf fuel
    refine ⟨?_, ?_, ?_, ?_, ?_, ?_⟩
    · -- parseStatements
      intro n hn h
      unfold parseStatements
      cases n with
      | zero => exact Bounded.bindP0 (b_consumeToken _ 0) (p_consumeToken _ (by decide))
      | succ k =>
        apply Bounded.bindP (b_consumeToken _ _) (p_consumeToken _ (by decide)); intro _
        have hL := ih.loop k (by omega) (by omega)
        have h1 := b_ws o k
        bnd_with (exact b_consumeToken _ _)
    · -- parseStatementsLoop
      intro n hn h
      unfold parseStatementsLoop
      apply Bounded.bind (b_peek n); intro c
      apply Bounded.ite (Bounded.pure _ _)
      have hS := ih.stmt n hn (by omega)
      cases n with
      | zero => exact Bounded.bindP0 hS (p_parseStatement o fuel)
      | succ k =>
        apply Bounded.bindP hS (p_parseStatement o fuel); intro st
        have hL := ih.loop k (by omega) (by omega)
        have h1 := b_ws o k
        bnd
    · -- parseElifs
      intro n hn h l
      unfold parseElifs
      cases n with
      | zero =>
        apply Bounded.attempt_bindP0 (b_consumeToken "elif" 0) (p_consumeToken "elif" (by decide))
        intro e; dsimp only; exact Bounded.pure _ _
      | succ k =>
        apply Bounded.attempt_bindP (b_consumeToken "elif" _) (p_consumeToken "elif" (by decide))
        · intro u
          have h1 := b_ws o k
          have hC := b_parseConditions o fuel fuel k (by omega) hf (by omega) (by omega)
          have hB := ih.stmts k (by omega) (by omega)
          have hE := ih.elifs k (by omega) (by omega)
          have hg := Bounded.getS k
          dsimp only
          bnd_with (exact hE _)
        · intro e; dsimp only; exact Bounded.pure _ _
    · -- parseStatement
      intro n hn h
      unfold parseStatement
      apply Bounded.bind (Bounded.getS n); intro s0
      dsimp only
      cases n with
      | zero => exact Bounded.bindP0 (b_parseName o _ 0) (p_parseName o _)
      | succ k =>
        apply Bounded.bindP (b_parseName o _ _) (p_parseName o _); intro keyword
        have hk : k ≤ o.fuel := by omega
        have h1 := b_ws o k
        have hE := eb.expr k hk (by omega)
        have hV := eb.var k hk (by omega)
        have hU := eb.uvar k hk (by omega)
        have hAt := b_parseAttributes o fuel k hk hf (by omega)
        have hC := b_parseConditions o fuel fuel k hk hf (by omega) (by omega)
        have hB := ih.stmts k hk (by omega)
        have hP := ih.print k hk (by omega)
        have hp := b_peek k
        have hg := Bounded.getS k
        bnd_with (first | exact b_consumeToken _ _ | exact ih.elifs k hk (by omega) _ | exact ih.arms k hk (by omega) _)
    · -- parsePrintArgs
      intro n hn h
      unfold parsePrintArgs
      apply Bounded.bind (b_tryPeek n); intro c
      apply Bounded.ite
      · cases n with
        | zero => exact Bounded.bindP0 (b_consumeToken _ 0) (p_consumeToken _ (by decide))
        | succ k =>
          apply Bounded.bindP (b_consumeToken _ _) (p_consumeToken _ (by decide)); intro _
          have h1 := b_ws o k
          have hE := eb.expr k (by omega) (by omega)
          have hP := ih.print k (by omega) (by omega)
          bnd
      · exact Bounded.pure _ _
    · -- parseScanArmsChecked
      intro n hn h l
      unfold parseScanArmsChecked
      apply Bounded.bind (b_peek n); intro c
      apply Bounded.ite (Bounded.pure _ _)
      apply Bounded.bind (Bounded.getS n); intro s0
      cases n with
      | zero => exact Bounded.bindP0 (b_parseString o 0 (by omega)) (p_parseString o)
      | succ k =>
        apply Bounded.bindP (b_parseString o _ hn) (p_parseString o); intro pattern
        have h1 := b_ws o k
        have hB := ih.stmts k (by omega) (by omega)
        have hA := ih.arms k (by omega) (by omega)
        bnd_with (exact hA _)

end Parser

namespace Parser
open PP (Bounded Progress)

theorem b_parseGlobal (o : POracle) (n : Nat) (hn : n ≤ o.fuel) : Bounded (parseGlobal o) n := by
  unfold parseGlobal
  have h1 := b_parseQuantifier o n
  have h2 := b_ws o n
  have h3 := b_parseString o n hn
  bnd_with (first | exact b_consumeToken _ _ | exact b_parseIdentifier o _ _)

theorem b_parseShorthand (o : POracle) (fuel n : Nat) (hn : n ≤ o.fuel) (hf : 1 ≤ o.fuel) (h : 8 * n + 3 < fuel) :
    Bounded (parseShorthand o fuel) n := by
  unfold parseShorthand
  have h1 := (exprBounds o hf fuel).uvar n hn h
  have h2 := b_ws o n
  have h3 := b_parseAttributes o fuel n hn hf (by omega)
  bnd_with (first | exact b_consumeToken _ _ | exact b_parseIdentifier o _ _)

theorem b_parseStanza (o : POracle) (fuel n : Nat) (hn : n < o.fuel) (hf : 1 ≤ o.fuel) (h : 8 * n + 0 < fuel) :
    Bounded (parseStanza o fuel) n := by
  unfold parseStanza
  have h1 := b_skipQuery o.fuel 0 false false false [] n hn
  have h2 := b_ws o n
  have h3 := (stmtBounds o hf fuel).stmts n (by omega) h
  bnd

theorem p_parseStanza (o : POracle) (fuel : Nat) : Progress (parseStanza o fuel) := by
  unfold parseStanza
  apply Progress.bind_right; intro s0
  apply Progress.bind_right; intro qtext
  dsimp only
  split
  · exact Progress.fail _
  · exact Progress.fail _
  · exact Progress.failE _
  · split
    · exact Progress.failE _
    · split
      · exact Progress.fail _
      · exact Progress.bind_right (fun _ => Progress.bind_left (p_parseStatements o fuel))

theorem b_parseFileLoop (o : POracle) (fuel m : Nat) (file : File) (n : Nat) (hn : n < o.fuel) (hf : 1 ≤ o.fuel)
    (h : 8 * n + 3 < fuel) (hm : n < m) : Bounded (parseFileLoop o fuel m file) n := by
  induction m generalizing n file with
  | zero => omega
  | succ m ih =>
    unfold parseFileLoop
    apply Bounded.bind (b_tryPeek n); intro c
    cases c with
    | none => exact Bounded.pure _ _
    | some ch =>
      dsimp only
      cases n with
      | zero =>
        -- nothing is left: no attempt and no stanza can succeed
        apply Bounded.attempt_bindP0 (b_consumeToken "attribute" 0) (p_consumeToken _ (by decide)); intro e1
        dsimp only
        apply Bounded.attempt_bindP0 (b_consumeToken "global" 0) (p_consumeToken _ (by decide)); intro e2
        dsimp only
        apply Bounded.attempt_bindP0 (b_consumeToken "inherit" 0) (p_consumeToken _ (by decide)); intro e3
        dsimp only
        exact Bounded.bindP0 (b_parseStanza o fuel 0 hn hf (by omega)) (p_parseStanza o fuel)
      | succ k =>
        have hk : k < o.fuel := by omega
        have h2 := b_ws o k
        have hL : ∀ f, Bounded (parseFileLoop o fuel m f) k := fun f => ih f k hk (by omega) (by omega)
        apply Bounded.attempt_bindP (b_consumeToken "attribute" _) (p_consumeToken _ (by decide))
        · intro u
          dsimp only
          have h3 := b_parseShorthand o fuel k (by omega) hf (by omega)
          bnd_with (exact hL _)
        · intro e1
          dsimp only
          apply Bounded.attempt_bindP (b_consumeToken "global" _) (p_consumeToken _ (by decide))
          · intro u
            dsimp only
            have h3 := b_parseGlobal o k (by omega)
            bnd_with (exact hL _)
          · intro e2
            dsimp only
            apply Bounded.attempt_bindP (b_consumeToken "inherit" _) (p_consumeToken _ (by decide))
            · intro u
              dsimp only
              bnd_with (first | exact hL _ | exact b_consumeToken _ _ | exact b_parseIdentifier o _ _)
            · intro e3
              dsimp only
              apply Bounded.bindP (b_parseStanza o fuel (k + 1) hn hf (by omega)) (p_parseStanza o fuel)
              intro st
              bnd_with (exact hL _)

theorem b_parseFile (o : POracle) (fuel n : Nat) (hn : n < o.fuel) (h : 8 * n + 3 < fuel) : Bounded (parseFile o fuel) n := by
  unfold parseFile
  exact Bounded.bind (b_ws o n) (fun _ => b_parseFileLoop o fuel fuel _ n hn (by omega) h (by omega))

/-- **the parser never runs out of fuel**: with the fuel `Parser.parse` supplies, `outOfFuel` is unreachable
    for every text and every behaviour of the outside world -/
theorem parse_never_out_of_fuel (o : POracle) (text : String) : parse o text ≠ .error .outOfFuel := by
  unfold parse
  dsimp only
  have hlen : (initState text).rest.length = text.length := by simp [initState, String.length_toList]
  have hb := b_parseFile { o with fuel := text.length + 2 } (8 * (text.length + 2)) text.length
    (by show text.length < text.length + 2; omega) (by omega)
  exact hb.out (initState text) (by omega)

end Parser
