/-
  Lexical layer of the parser model: what the character loops consume.
  `advL s cs` is the state after consuming the characters `cs`; every lemma gives the exact final state.
-/
import Tsg.Proofs.Parser

namespace Parser
open PP

/-- the state after consuming `cs` -/
def advL (s : PS) : List Char → PS
  | [] => s
  | c :: cs => advL (advance s c s.rest.tail) cs

@[simp] theorem advL_nil (s : PS) : advL s [] = s := rfl
@[simp] theorem advL_cons (s : PS) (c : Char) (cs : List Char) : advL s (c :: cs) = advL (advance s c s.rest.tail) cs := rfl

@[simp] theorem advance_rest (s : PS) (c : Char) (r : List Char) : (advance s c r).rest = r := by
  unfold advance; split <;> rfl

theorem advL_append (s : PS) (a b : List Char) : advL s (a ++ b) = advL (advL s a) b := by
  induction a generalizing s with
  | nil => rfl
  | cons c a ih => simp [ih]

theorem advL_rest (s : PS) (cs tail : List Char) (h : s.rest = cs ++ tail) : (advL s cs).rest = tail := by
  induction cs generalizing s with
  | nil => simpa using h
  | cons c cs ih =>
    simp only [advL_cons]
    apply ih
    simp [h]

/-! ### primitives -/

@[simp] theorem run_pure {α : Type} (a : α) (s : PS) : run (Pure.pure a : PP α) s = (.ok a, s) := rfl
@[simp] theorem run_pure' {α : Type} (a : α) (s : PS) : run (PP.pure a : PP α) s = (.ok a, s) := rfl
@[simp] theorem run_failE {α : Type} (e : PErrK) (s : PS) : run (failE e : PP α) s = (.error (.err e), s) := rfl
@[simp] theorem run_fail {α : Type} (e : PFail) (s : PS) : run (PP.fail e : PP α) s = (.error e, s) := rfl
@[simp] theorem run_getS (s : PS) : run getS s = (.ok s, s) := rfl

theorem run_bind' {α β : Type} (p : PP α) (f : α → PP β) (s : PS) :
    run (p >>= f) s =
      match run p s with
      | (.ok a, s') => run (f a) s'
      | (.error e, s') => (.error e, s') := run_bind p f s

@[simp] theorem run_tryPeek (s : PS) : run tryPeek s = (.ok s.rest.head?, s) := by
  simp [tryPeek, run_bind']

theorem run_peek_cons {s : PS} {c : Char} {r : List Char} (h : s.rest = c :: r) : run peek s = (.ok c, s) := by
  simp [peek, run_bind', h]

theorem run_peek_nil {s : PS} (h : s.rest = []) : run peek s = (.error (.err (.unexpectedEOF (locOf s))), s) := by
  simp [peek, run_bind', h]

theorem run_next_cons {s : PS} {c : Char} {r : List Char} (h : s.rest = c :: r) :
    run next s = (.ok c, advance s c r) := by
  simp [next, run_bind', h, nextC, run]

theorem run_next_nil {s : PS} (h : s.rest = []) : run next s = (.error (.err (.unexpectedEOF (locOf s))), s) := by
  simp [next, run_bind', h]

theorem run_skip_cons {s : PS} {c : Char} {r : List Char} (h : s.rest = c :: r) :
    run skip s = (.ok (), advance s c r) := by
  simp [skip, run_bind', run_next_cons h]

/-! ### `consume_while` -/

theorem run_consumeWhile (f : Char → Bool) (fuel : Nat) (acc cs tail : List Char) (s : PS)
    (hs : s.rest = cs ++ tail) (hcs : ∀ c ∈ cs, f c = true) (htail : ∀ c, tail.head? = some c → f c = false)
    (hfuel : cs.length ≤ fuel) :
    run (consumeWhile f fuel acc) s = (.ok (acc.reverse ++ cs), advL s cs) := by
  induction cs generalizing fuel acc s with
  | nil =>
    cases fuel with
    | zero => simp [consumeWhile]
    | succ fuel =>
      simp only [consumeWhile, run_bind', run_tryPeek]
      cases ht : tail with
      | nil => simp [hs, ht]
      | cons t tl =>
        have := htail t (by simp [ht])
        simp [hs, ht, this]
  | cons c cs ih =>
    cases fuel with
    | zero => simp at hfuel
    | succ fuel =>
      have hc : f c = true := hcs c (by simp)
      have hsr : s.rest = c :: (cs ++ tail) := by simpa using hs
      simp only [consumeWhile, run_bind', run_tryPeek, hsr, List.head?_cons, hc, if_true, run_skip_cons hsr]
      rw [ih fuel (c :: acc) (advance s c (cs ++ tail)) (by simp) (fun x hx => hcs x (by simp [hx])) (by simpa using hfuel)]
      simp [hsr]

/-! ### `consume_token` -/

theorem run_consumeN (n : Nat) (cs tail : List Char) (s : PS) (hs : s.rest = cs ++ tail) (hn : cs.length = n) :
    run (consumeN n) s = (.ok (), advL s cs) := by
  induction cs generalizing n s with
  | nil => subst hn; simp [consumeN]
  | cons c cs ih =>
    subst hn
    have hsr : s.rest = c :: (cs ++ tail) := by simpa using hs
    simp only [List.length_cons, consumeN, run_bind', run_skip_cons hsr]
    rw [ih cs.length (advance s c (cs ++ tail)) (by simp) rfl]
    simp [hsr]

theorem run_consumeToken_ok (tok : String) (tail : List Char) (s : PS) (hs : s.rest = tok.toList ++ tail) :
    run (consumeToken tok) s = (.ok (), advL s tok.toList) := by
  have hp : tok.toList.isPrefixOf s.rest = true := by
    rw [hs]; simp [List.isPrefixOf_iff_prefix]
  unfold consumeToken
  simp only [run_bind', run_getS]
  rw [if_pos hp]
  exact run_consumeN _ _ tail s hs String.length_toList

theorem run_consumeToken_err (tok : String) (s : PS) (hs : tok.toList.isPrefixOf s.rest = false) :
    run (consumeToken tok) s = (.error (.err (.expectedToken tok (locOf s))), s) := by
  unfold consumeToken
  simp only [run_bind', run_getS]
  rw [if_neg (by simp [hs])]
  rfl

/-! ### whitespace and comments -/

/-- what `consume_whitespace` leaves of the input -/
def skipWs (o : POracle) : List Char → Bool → List Char
  | [], _ => []
  | c :: r, true => skipWs o r (c != '\n')
  | c :: r, false => if c = ';' then skipWs o r true else if !isWs o c then c :: r else skipWs o r false

/-- the characters `consume_whitespace` consumes -/
def wsPrefix (o : POracle) : List Char → Bool → List Char
  | [], _ => []
  | c :: r, true => c :: wsPrefix o r (c != '\n')
  | c :: r, false => if c = ';' then c :: wsPrefix o r true else if !isWs o c then [] else c :: wsPrefix o r false

theorem wsPrefix_append_skipWs (o : POracle) (cs : List Char) (ic : Bool) : wsPrefix o cs ic ++ skipWs o cs ic = cs := by
  induction cs generalizing ic with
  | nil => cases ic <;> rfl
  | cons c r ih =>
    cases ic with
    | true => simp [wsPrefix, skipWs, ih]
    | false =>
      simp only [wsPrefix, skipWs]
      split
      · simp [ih]
      · split <;> simp [ih]

theorem run_consumeWhitespace (o : POracle) (fuel : Nat) (ic : Bool) (s : PS) (hfuel : s.rest.length ≤ fuel) :
    run (consumeWhitespace o fuel ic) s = (.ok (), advL s (wsPrefix o s.rest ic)) := by
  induction fuel generalizing ic s with
  | zero =>
    have : s.rest = [] := by
      cases h : s.rest with
      | nil => rfl
      | cons _ _ => simp [h] at hfuel
    cases ic <;> simp [consumeWhitespace, this, wsPrefix]
  | succ fuel ih =>
    cases hr : s.rest with
    | nil => cases ic <;> simp [consumeWhitespace, run_bind', hr, wsPrefix]
    | cons c r =>
      have hlen : (advance s c r).rest.length ≤ fuel := by
        simp only [advance_rest]; simp [hr] at hfuel; omega
      cases ic with
      | true =>
        simp only [consumeWhitespace, run_bind', run_tryPeek, hr, List.head?_cons, if_true, run_skip_cons hr, wsPrefix, advL_cons,
          List.tail_cons]
        rw [ih _ _ hlen]; simp
      | false =>
        simp only [consumeWhitespace, run_bind', run_tryPeek, hr, List.head?_cons, wsPrefix]
        by_cases h1 : c = ';'
        · simp only [h1, if_true, Bool.false_eq_true, if_false, run_bind']
          rw [← h1, run_skip_cons hr]
          simp only [advL_cons, hr, List.tail_cons]
          rw [ih _ _ hlen]; simp
        · simp only [h1, if_false, Bool.false_eq_true]
          by_cases h2 : isWs o c
          · simp only [h2, Bool.not_true, Bool.false_eq_true, if_false, run_bind', run_skip_cons hr, advL_cons, hr, List.tail_cons]
            rw [ih _ _ hlen]; simp
          · simp [h2]

theorem run_ws (o : POracle) (s : PS) (hfuel : s.rest.length ≤ o.fuel) :
    run (ws o) s = (.ok (), advL s (wsPrefix o s.rest false)) := run_consumeWhitespace o _ _ s hfuel

/-- a layout gap: whitespace characters and `;` comments -/
inductive Gap (o : POracle) : List Char → Prop where
  | nil : Gap o []
  | ws (c : Char) (g : List Char) : isWs o c = true → Gap o g → Gap o (c :: g)
  | comment (body g : List Char) : (∀ c ∈ body, c ≠ '\n') → Gap o g → Gap o (';' :: body ++ '\n' :: g)

theorem isWs_semicolon (o : POracle) : isWs o ';' = false := by
  simp [isWs]

theorem skipWs_comment (o : POracle) (body rest : List Char) (h : ∀ c ∈ body, c ≠ '\n') :
    skipWs o (body ++ '\n' :: rest) true = skipWs o rest false := by
  induction body with
  | nil => simp [skipWs]
  | cons c body ih =>
    have hc : c ≠ '\n' := h c (by simp)
    simp only [List.cons_append, skipWs]
    have : (c != '\n') = true := by simpa using hc
    rw [this]
    exact ih (fun x hx => h x (by simp [hx]))

theorem wsPrefix_comment (o : POracle) (body rest : List Char) (h : ∀ c ∈ body, c ≠ '\n') :
    wsPrefix o (body ++ '\n' :: rest) true = body ++ '\n' :: wsPrefix o rest false := by
  induction body with
  | nil => simp [wsPrefix]
  | cons c body ih =>
    have hc : c ≠ '\n' := h c (by simp)
    simp only [List.cons_append, wsPrefix]
    have : (c != '\n') = true := by simpa using hc
    rw [this, ih (fun x hx => h x (by simp [hx]))]

/-- a gap in front of a token start is consumed entirely, and nothing more -/
theorem wsPrefix_gap (o : POracle) (g : List Char) (hg : Gap o g) (c : Char) (r : List Char)
    (hc1 : c ≠ ';') (hc2 : isWs o c = false) : wsPrefix o (g ++ c :: r) false = g := by
  induction hg with
  | nil => simp [wsPrefix, hc1, hc2]
  | ws w g hw _ ih =>
    have : w ≠ ';' := by intro h; rw [h, isWs_semicolon] at hw; cases hw
    simp [wsPrefix, this, hw, ih]
  | comment body g hb _ ih =>
    simp only [List.cons_append, wsPrefix, if_true, List.append_assoc]
    rw [wsPrefix_comment o body _ hb, ih]

/-- a gap at the end of the text is consumed entirely (also when the text ends inside a comment) -/
theorem wsPrefix_gap_eof (o : POracle) (g : List Char) (hg : Gap o g) : wsPrefix o g false = g := by
  induction hg with
  | nil => rfl
  | ws w g hw _ ih =>
    have : w ≠ ';' := by intro h; rw [h, isWs_semicolon] at hw; cases hw
    simp [wsPrefix, this, hw, ih]
  | comment body g hb _ ih =>
    simp only [List.cons_append, wsPrefix]
    rw [if_pos trivial, wsPrefix_comment o body _ hb, ih]

/-- after skipping, the input is empty or starts with a token character -/
theorem skipWs_head (o : POracle) (cs : List Char) (c : Char) (r : List Char) (h : skipWs o cs false = c :: r) :
    c ≠ ';' ∧ isWs o c = false := by
  have key : ∀ (cs : List Char) (ic : Bool), skipWs o cs ic = c :: r → c ≠ ';' ∧ isWs o c = false := by
    intro cs
    induction cs with
    | nil => intro ic h; cases ic <;> simp [skipWs] at h
    | cons x xs ih =>
      intro ic h
      cases ic with
      | true => exact ih _ (by simpa [skipWs] using h)
      | false =>
        simp only [skipWs] at h
        split at h
        · exact ih _ h
        · split at h
          · next h1 h2 =>
            simp only [List.cons.injEq] at h
            obtain ⟨rfl, _⟩ := h
            exact ⟨h1, by simpa using h2⟩
          · exact ih _ h
  exact key cs false h

/-- the consumed characters always form a gap, except for a trailing unterminated comment -/
theorem skipWs_idem (o : POracle) (cs : List Char) : skipWs o (skipWs o cs false) false = skipWs o cs false := by
  cases h : skipWs o cs false with
  | nil => rfl
  | cons c r =>
    obtain ⟨h1, h2⟩ := skipWs_head o cs c r h
    simp [skipWs, h1, h2]

end Parser
