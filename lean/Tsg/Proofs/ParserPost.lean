/-
  Postconditions of parser programs (`Ensures p Q`: whenever `p` succeeds, its result satisfies `Q`), used to show
  that every stanza the parser returns carries the full-match capture in its capture table.
-/
import Tsg.Proofs.ParserSafe

namespace PP

structure Ensures {α : Type} (p : PP α) (Q : α → Prop) : Prop where
  out : ∀ s a s', run p s = (.ok a, s') → Q a

theorem Ensures.pure {α : Type} {Q : α → Prop} (a : α) (h : Q a) : Ensures (Pure.pure a : PP α) Q := by
  constructor
  intro s b s' hr
  have h0 : run (Pure.pure a : PP α) s = (.ok a, s) := rfl
  rw [h0] at hr
  injection hr with h1 _
  injection h1 with h1
  subst h1; exact h

theorem Ensures.fail {α : Type} {Q : α → Prop} (f : PFail) : Ensures (PP.fail f : PP α) Q := by
  constructor
  intro s b s' hr
  have h0 : run (PP.fail f : PP α) s = (.error f, s) := rfl
  rw [h0] at hr
  injection hr with h1 _
  cases h1

theorem Ensures.bind {α β : Type} {p : PP α} {f : α → PP β} {Q : α → Prop} {R : β → Prop}
    (hp : Ensures p Q) (hf : ∀ a, Q a → Ensures (f a) R) : Ensures (p >>= f) R := by
  constructor
  intro s b s' hr
  rw [bind_eq, run_bind] at hr
  cases h1 : run p s with
  | mk r s1 =>
    rw [h1] at hr
    cases r with
    | ok a => exact (hf a (hp.out s a s1 h1)).out s1 b s' hr
    | error e => simp at hr

theorem Ensures.trivial {α : Type} (p : PP α) : Ensures p (fun _ => True) := ⟨fun _ _ _ _ => True.intro⟩

theorem Ensures.ite {α : Type} {c : Prop} [Decidable c] {a b : PP α} {Q : α → Prop} (ha : Ensures a Q) (hb : Ensures b Q) :
    Ensures (if c then a else b) Q := by
  split <;> assumption

end PP

namespace Parser
open PP (Ensures)

/-- the stanza's own capture table has the full-match capture -/
def HasFullMatch (st : Stanza) : Prop := fullMatchName ∈ st.captures.map (·.1)

theorem mem_of_findIdx? (caps : List (String × Quant)) (ix : Nat) (h : caps.findIdx? (·.1 = fullMatchName) = some ix) :
    fullMatchName ∈ caps.map (·.1) := by
  obtain ⟨hlt, hp, _⟩ := List.findIdx?_eq_some_iff_getElem.mp h
  exact List.mem_map.mpr ⟨caps[ix], List.getElem_mem hlt, by simpa using hp⟩

theorem ensures_parseStanza (o : POracle) (fuel : Nat) : Ensures (parseStanza o fuel) HasFullMatch := by
  unfold parseStanza
  apply Ensures.bind (Ensures.trivial _); intro s0 _
  apply Ensures.bind (Ensures.trivial _); intro qtext _
  dsimp only
  cases hq : o.query (String.ofList qtext ++ "@" ++ fullMatchName) with
  | none => exact Ensures.fail _
  | some ans =>
    cases ans with
    | bindingPanic => exact Ensures.fail _
    | invalid r c off => exact Ensures.fail _
    | valid patterns caps =>
      dsimp only
      split
      · exact Ensures.fail _
      · cases hf : caps.findIdx? (·.1 = fullMatchName) with
        | none => exact Ensures.fail _
        | some ix =>
          dsimp only
          apply Ensures.bind (Ensures.trivial _); intro _ _
          apply Ensures.bind (Ensures.trivial _); intro stmts _
          apply Ensures.bind (Ensures.trivial _); intro s2 _
          exact Ensures.pure _ (mem_of_findIdx? caps ix hf)

def AllFullMatch (f : File) : Prop := ∀ st ∈ f.stanzas, HasFullMatch st

theorem allFullMatch_snoc {file : File} {st : Stanza} (h : AllFullMatch file) (hst : HasFullMatch st) :
    AllFullMatch { file with stanzas := file.stanzas ++ [st] } := by
  intro s hs
  simp only [List.mem_append, List.mem_singleton] at hs
  cases hs with
  | inl hin => exact h s hin
  | inr heq => subst heq; exact hst

theorem ensures_parseFileLoop (o : POracle) (fuel n : Nat) (file : File) (h : AllFullMatch file) :
    Ensures (parseFileLoop o fuel n file) AllFullMatch := by
  induction n generalizing file with
  | zero => unfold parseFileLoop; exact Ensures.fail _
  | succ n ih =>
    unfold parseFileLoop
    apply Ensures.bind (Ensures.trivial _); intro c _
    cases c with
    | none => exact Ensures.pure _ h
    | some ch =>
      dsimp only
      apply Ensures.bind (Ensures.trivial _); intro r1 _
      have hjp : ∀ file', AllFullMatch file' → Ensures (ws o >>= fun _ => parseFileLoop o fuel n file') AllFullMatch :=
        fun file' hf' => Ensures.bind (Ensures.trivial _) (fun _ _ => ih file' hf')
      cases r1 with
      | ok u =>
        dsimp only
        apply Ensures.bind (Ensures.trivial _); intro _ _
        apply Ensures.bind (Ensures.trivial _); intro sh _
        exact Ensures.bind (Ensures.pure (Q := AllFullMatch) _ h) hjp
      | error e1 =>
        dsimp only
        apply Ensures.bind (Ensures.trivial _); intro r2 _
        cases r2 with
        | ok u =>
          dsimp only
          apply Ensures.bind (Ensures.trivial _); intro _ _
          apply Ensures.bind (Ensures.trivial _); intro g _
          exact Ensures.bind (Ensures.pure (Q := AllFullMatch) _ h) hjp
        | error e2 =>
          dsimp only
          apply Ensures.bind (Ensures.trivial _); intro r3 _
          cases r3 with
          | ok u =>
            dsimp only
            apply Ensures.bind (Ensures.trivial _); intro _ _
            apply Ensures.bind (Ensures.trivial _); intro _ _
            apply Ensures.bind (Ensures.trivial _); intro name _
            exact Ensures.bind (Ensures.pure (Q := AllFullMatch) _ h) hjp
          | error e3 =>
            dsimp only
            apply Ensures.bind (ensures_parseStanza o fuel); intro st hst
            exact Ensures.bind (Ensures.pure (Q := AllFullMatch) _ (allFullMatch_snoc h hst)) hjp

theorem ensures_parseFile (o : POracle) (fuel : Nat) : Ensures (parseFile o fuel) AllFullMatch := by
  unfold parseFile
  apply Ensures.bind (Ensures.trivial _); intro _ _
  exact ensures_parseFileLoop o fuel fuel _ (by intro st hst; cases hst)

/-- every stanza of a successfully parsed file has the full-match capture in its table -/
theorem parse_allFullMatch (o : POracle) (text : String) (f : File) (h : parse o text = .ok f) : AllFullMatch f := by
  unfold parse at h
  dsimp only at h
  cases hr : PP.run (parseFile { o with fuel := text.length + 2 } (8 * (text.length + 2))) (initState text) with
  | mk r1 s' =>
    rw [hr] at h
    dsimp only at h
    subst h
    exact (ensures_parseFile _ _).out _ _ _ hr

end Parser
