/-
  Round trip for atomic expressions and scoped-variable chains: for every way of writing
  `atom gap (. gap name gap)*`, `parse_expression` returns exactly the written expression, with the locations
  of the places where its parts start, and consumes exactly the written text.
-/
import Tsg.Proofs.ParserTok

namespace Parser
open PP

/-- an atomic expression as written -/
inductive Atom where
  | falseLit | nullLit | trueLit
  | int (ds : List Char)
  | str (chars body : List Char)
  | capture (c : Char) (rest : List Char)
  | regexCap (ds : List Char)
  | var (c : Char) (rest : List Char)

namespace Atom

def text : Atom → List Char
  | falseLit => "#false".toList
  | nullLit => "#null".toList
  | trueLit => "#true".toList
  | int ds => ds
  | str _ body => '"' :: body ++ ['"']
  | capture c rest => '@' :: c :: rest
  | regexCap ds => '$' :: ds
  | var c rest => c :: rest

/-- the expression it denotes when written at the position of state `s` -/
def expr (s : PS) : Atom → Expr
  | falseLit => .falseLit
  | nullLit => .nullLit
  | trueLit => .trueLit
  | int ds => .int (digitsToNat ds)
  | str chars _ => .str (String.ofList chars)
  | capture c rest => .capture (String.ofList (c :: rest)) .zero usizeMax usizeMax (locOf s)
  | regexCap ds => .regexCap (digitsToNat ds)
  | var c rest => .var (String.ofList (c :: rest)) (locOf s)

/-- well-formedness of the spelling -/
def WF (o : POracle) : Atom → Prop
  | falseLit | nullLit | trueLit => True
  | int ds => ds ≠ [] ∧ (∀ c ∈ ds, isDigit c = true) ∧ digitsToNat ds < 2 ^ 32
  | str chars body => StrRepr chars body
  | capture c rest => isIdentStart o c = true ∧ ∀ x ∈ rest, isIdent o x = true
  | regexCap ds => ds ≠ [] ∧ (∀ c ∈ ds, isDigit c = true) ∧ digitsToNat ds < 2 ^ 64
  | var c rest => isIdentStart o c = true ∧ ∀ x ∈ rest, isIdent o x = true

/-- what may follow the atom: a name must not run into more identifier characters, a number into more digits -/
def Follow (o : POracle) : Atom → Option Char → Prop
  | falseLit | nullLit | trueLit | capture _ _ | var _ _ => fun n => ∀ x, n = some x → isIdent o x = false
  | int _ | regexCap _ => fun n => ∀ x, n = some x → isDigit x = false
  | str _ _ => fun _ => True

end Atom

/-! ### the atoms -/

theorem identStart_ne (o : POracle) (c : Char) (h : isIdentStart o c = true) :
    c ≠ '#' ∧ c ≠ '"' ∧ c ≠ '@' ∧ c ≠ '$' ∧ c ≠ '(' ∧ c ≠ '[' ∧ c ≠ '{' ∧ isDigit c = false := by
  simp only [isIdentStart, isAlpha, Bool.or_eq_true, decide_eq_true_eq] at h
  have key : ∀ x : Char, x.toNat < 128 → ¬ (x = '_' ∨ (('a' ≤ x ∧ x ≤ 'z') ∨ ('A' ≤ x ∧ x ≤ 'Z'))) → c = x → False := by
    intro x hx hnot hcx
    subst hcx
    rcases h with h | h
    · exact hnot (Or.inl h)
    · simp only [hx, if_true, Bool.or_eq_true, Bool.and_eq_true, decide_eq_true_eq] at h
      exact hnot (Or.inr h)
  refine ⟨?_, ?_, ?_, ?_, ?_, ?_, ?_, ?_⟩
  all_goals first
    | (intro hc; exact key _ (by decide) (by decide) hc)
    | skip
  -- not a digit
  cases hd : isDigit c with
  | false => rfl
  | true =>
    exfalso
    simp only [isDigit, Bool.and_eq_true, decide_eq_true_eq] at hd
    have hlt : c.toNat < 128 := by
      have : c ≤ '9' := hd.2
      have h9 : ('9' : Char).toNat = 57 := by decide
      have : c.toNat ≤ ('9' : Char).toNat := this
      omega
    rcases h with h | h
    · subst h; revert hd; decide
    · simp only [hlt, if_true, Bool.or_eq_true, Bool.and_eq_true, decide_eq_true_eq] at h
      have h0 : ('0' : Char).toNat = 48 := by decide
      have h9 : ('9' : Char).toNat = 57 := by decide
      have ha : ('a' : Char).toNat = 97 := by decide
      have hA : ('A' : Char).toNat = 65 := by decide
      have hz : ('Z' : Char).toNat = 90 := by decide
      have c9 : c.toNat ≤ 57 := by have : c.toNat ≤ ('9' : Char).toNat := hd.2; omega
      rcases h with ⟨h1, _⟩ | ⟨h1, _⟩
      · have : ('a' : Char).toNat ≤ c.toNat := h1; omega
      · have : ('A' : Char).toNat ≤ c.toNat := h1; omega


theorem run_consumeWhileAll (o : POracle) (f : Char → Bool) (cs tail : List Char) (s : PS)
    (hs : s.rest = cs ++ tail) (hcs : ∀ c ∈ cs, f c = true) (htail : ∀ c, tail.head? = some c → f c = false)
    (hfuel : cs.length ≤ o.fuel) : run (consumeWhileAll o f) s = (.ok cs, advL s cs) := by
  unfold consumeWhileAll
  rw [run_consumeWhile f o.fuel [] cs tail s hs hcs htail hfuel]
  simp

theorem run_parseLiteral (o : POracle) (name : String) (e : Expr) (s : PS) (tail : List Char)
    (hname : name = "false" ∧ e = .falseLit ∨ name = "null" ∧ e = .nullLit ∨ name = "true" ∧ e = .trueLit)
    (hs : s.rest = '#' :: name.toList ++ tail) (hfol : ∀ x, tail.head? = some x → isIdent o x = false) (hfuel : 5 ≤ o.fuel) :
    run (parseLiteral o) s = (.ok e, advL s ('#' :: name.toList)) := by
  unfold parseLiteral
  have hs' : s.rest = "#".toList ++ (name.toList ++ tail) := by simpa using hs
  simp only [run_bind', run_getS, run_consumeToken_ok "#" _ s hs']
  have hrest : (advL s "#".toList).rest = name.toList ++ tail := advL_rest _ _ _ hs'
  rcases hname with ⟨rfl, rfl⟩ | ⟨rfl, rfl⟩ | ⟨rfl, rfl⟩
  · have := run_parseName o "literal" 'f' ['a', 'l', 's', 'e'] tail (advL s "#".toList) (by simpa using hrest)
      (by simp [isIdentStart, isAlpha]) (by intro x hx; simp at hx; rcases hx with rfl | rfl | rfl | rfl <;> simp [isIdent, isAlnum]) hfol (by simp; omega)
    simp only [this]
    simp
  · have := run_parseName o "literal" 'n' ['u', 'l', 'l'] tail (advL s "#".toList) (by simpa using hrest)
      (by simp [isIdentStart, isAlpha]) (by intro x hx; simp at hx; rcases hx with rfl | rfl | rfl <;> simp [isIdent, isAlnum]) hfol (by simp; omega)
    simp only [this]
    simp
  · have := run_parseName o "literal" 't' ['r', 'u', 'e'] tail (advL s "#".toList) (by simpa using hrest)
      (by simp [isIdentStart, isAlpha]) (by intro x hx; simp at hx; rcases hx with rfl | rfl | rfl <;> simp [isIdent, isAlnum]) hfol (by simp; omega)
    simp only [this]
    simp


theorem run_parseCapture (o : POracle) (c : Char) (rest tail : List Char) (s : PS)
    (hs : s.rest = '@' :: c :: rest ++ tail) (hc : isIdentStart o c = true) (hr : ∀ x ∈ rest, isIdent o x = true)
    (hfol : ∀ x, tail.head? = some x → isIdent o x = false) (hfuel : rest.length ≤ o.fuel) :
    run (parseCapture o) s =
      (.ok (.capture (String.ofList (c :: rest)) .zero usizeMax usizeMax (locOf s)), advL s ('@' :: c :: rest)) := by
  unfold parseCapture
  have hs' : s.rest = "@".toList ++ (c :: rest ++ tail) := by simpa using hs
  have h1 : (advL s "@".toList).rest = c :: (rest ++ tail) := by
    have := advL_rest _ _ _ hs'; simpa using this
  simp only [run_bind', run_getS, run_consumeToken_ok "@" _ s hs', run_next_cons h1, hc, Bool.not_true,
    Bool.false_eq_true, if_false]
  rw [run_consumeWhileAll o (isIdent o) rest tail _ (by simp) hr hfol hfuel]
  have ht : s.rest.tail.tail = rest ++ tail := by simp [hs]
  simp [usizeMax, ht]

theorem run_parseRegexCapture (o : POracle) (ds tail : List Char) (s : PS)
    (hs : s.rest = '$' :: ds ++ tail) (hne : ds ≠ []) (hd : ∀ c ∈ ds, isDigit c = true) (hv : digitsToNat ds < 2 ^ 64)
    (hfol : ∀ x, tail.head? = some x → isDigit x = false) (hfuel : ds.length ≤ o.fuel) :
    run (parseRegexCapture o) s = (.ok (.regexCap (digitsToNat ds)), advL s ('$' :: ds)) := by
  unfold parseRegexCapture
  have hs' : s.rest = "$".toList ++ (ds ++ tail) := by simpa using hs
  have h1 : (advL s "$".toList).rest = ds ++ tail := advL_rest _ _ _ hs'
  simp only [run_bind', run_getS, run_consumeToken_ok "$" _ s hs']
  rw [run_consumeWhileAll o isDigit ds tail _ h1 hd hfol hfuel]
  have : ds.isEmpty = false := by cases ds <;> simp_all
  simp [this, hv]

/-- **atoms**: whatever atom is written at the start of the input, `parse_expression` reads exactly it and goes
    on with the layout and scoped-variable loop -/
theorem run_parseExpression_atom (o : POracle) (fuel : Nat) (a : Atom) (s : PS) (tail : List Char)
    (hs : s.rest = a.text ++ tail) (hwf : a.WF o) (hfol : a.Follow o tail.head?) (hfuel : a.text.length ≤ o.fuel)
    (hf5 : 5 ≤ o.fuel) :
    run (parseExpression o (fuel + 1)) s =
      run (ws o >>= fun _ => scopedChain o fuel (a.expr s)) (advL s a.text) := by
  unfold parseExpression
  cases a with
  | falseLit =>
    have hs' : s.rest = '#' :: "false".toList ++ tail := by simpa [Atom.text] using hs
    have := run_parseLiteral o "false" .falseLit s tail (Or.inl ⟨rfl, rfl⟩) hs' hfol hf5
    simp only [run_bind', run_peek_cons hs', if_true, this]
    rfl
  | nullLit =>
    have hs' : s.rest = '#' :: "null".toList ++ tail := by simpa [Atom.text] using hs
    have := run_parseLiteral o "null" .nullLit s tail (Or.inr (Or.inl ⟨rfl, rfl⟩)) hs' hfol hf5
    simp only [run_bind', run_peek_cons hs', if_true, this]
    rfl
  | trueLit =>
    have hs' : s.rest = '#' :: "true".toList ++ tail := by simpa [Atom.text] using hs
    have := run_parseLiteral o "true" .trueLit s tail (Or.inr (Or.inr ⟨rfl, rfl⟩)) hs' hfol hf5
    simp only [run_bind', run_peek_cons hs', if_true, this]
    rfl
  | int ds =>
    obtain ⟨hne, hd, hv⟩ := hwf
    cases ds with
    | nil => exact absurd rfl hne
    | cons d ds' =>
      have hs' : s.rest = d :: (ds' ++ tail) := by simpa [Atom.text] using hs
      have hdd : isDigit d = true := hd d (by simp)
      have hne' : d ≠ '#' ∧ d ≠ '"' ∧ d ≠ '@' ∧ d ≠ '$' ∧ d ≠ '(' ∧ d ≠ '[' ∧ d ≠ '{' := by
        simp only [isDigit, Bool.and_eq_true, decide_eq_true_eq] at hdd
        refine ⟨?_, ?_, ?_, ?_, ?_, ?_, ?_⟩ <;> (intro h; subst h; revert hdd; decide)
      obtain ⟨n1, n2, n3, n4, n5, n6, n7⟩ := hne'
      have := run_parseIntegerConstant o (d :: ds') tail s (by simpa [Atom.text] using hs) hd hfol (by simpa [Atom.text] using hfuel)
      simp only [run_bind', run_peek_cons hs', n1, n2, n3, n4, n5, n6, n7, if_false, hdd, if_true, this, hv]
      rfl
  | str chars body =>
    have hs' : s.rest = '"' :: (body ++ '"' :: tail) := by simpa [Atom.text] using hs
    have := run_parseString o chars body tail s hwf (by simpa using hs') (by simp [Atom.text] at hfuel; omega)
    simp only [run_bind', run_peek_cons hs', show ('"' = '#') = False by simp, if_false, if_true, this, run_pure]
    simp [Atom.text, Atom.expr]
  | capture c rest =>
    obtain ⟨hc, hr⟩ := hwf
    have hs' : s.rest = '@' :: (c :: rest ++ tail) := by simpa [Atom.text] using hs
    have := run_parseCapture o c rest tail s (by simpa using hs') hc hr hfol (by simp [Atom.text] at hfuel; omega)
    simp only [run_bind', run_peek_cons hs', show ('@' = '#') = False by simp, show ('@' = '"') = False by simp, if_false, if_true, this]
    rfl
  | regexCap ds =>
    obtain ⟨hne, hd, hv⟩ := hwf
    have hs' : s.rest = '$' :: (ds ++ tail) := by simpa [Atom.text] using hs
    have := run_parseRegexCapture o ds tail s (by simpa using hs') hne hd hv hfol (by simp [Atom.text] at hfuel; omega)
    simp only [run_bind', run_peek_cons hs', show ('$' = '#') = False by simp, show ('$' = '"') = False by simp,
      show ('$' = '@') = False by simp, if_false, if_true, this]
    rfl
  | var c rest =>
    obtain ⟨hc, hr⟩ := hwf
    have hs' : s.rest = c :: (rest ++ tail) := by simpa [Atom.text] using hs
    obtain ⟨n1, n2, n3, n4, n5, n6, n7, n8⟩ := identStart_ne o c hc
    have := run_parseName o "variable name" c rest tail s (by simpa using hs') hc hr hfol (by simp [Atom.text] at hfuel; omega)
    simp only [run_bind', run_peek_cons hs', n1, n2, n3, n4, n5, n6, n7, n8, if_false, Bool.false_eq_true, hc, if_true,
      run_getS, parseIdentifier, this, run_pure]
    rfl


/-! ### layout and scoped-variable chains -/

/-- what may follow a gap: the end of the input or a token character -/
def TokenStart (o : POracle) (r : List Char) : Prop :=
  r = [] ∨ ∃ c r', r = c :: r' ∧ c ≠ ';' ∧ isWs o c = false

theorem run_ws_gap (o : POracle) (g r : List Char) (s : PS) (hs : s.rest = g ++ r) (hg : Gap o g) (hr : TokenStart o r)
    (hfuel : s.rest.length ≤ o.fuel) : run (ws o) s = (.ok (), advL s g) := by
  rw [run_ws o s hfuel, hs]
  rcases hr with rfl | ⟨c, r', rfl, h1, h2⟩
  · simp [wsPrefix_gap_eof o g hg]
  · rw [wsPrefix_gap o g hg c r' h1 h2]

/-- one `. name` step of a scoped variable, with its layout -/
structure Seg where
  g1 : List Char
  c : Char
  rest : List Char
  g2 : List Char

def Seg.text (sg : Seg) : List Char := '.' :: sg.g1 ++ sg.c :: sg.rest ++ sg.g2

def segsText : List Seg → List Char
  | [] => []
  | sg :: more => sg.text ++ segsText more

/-- the expression written by `e` followed by the segments; `s` is the position of the first `.` -/
def chainExpr (s : PS) (e : Expr) : List Seg → Expr
  | [] => e
  | sg :: more =>
    chainExpr (advL s sg.text) (.scopedVar e (String.ofList (sg.c :: sg.rest)) (locOf (advL s ('.' :: sg.g1)))) more

/-- well-formed chain in front of `tail` -/
def SegsWF (o : POracle) : List Seg → List Char → Prop
  | [], tail => TokenStart o tail ∧ tail.head? ≠ some '.'
  | sg :: more, tail =>
    Gap o sg.g1 ∧ Gap o sg.g2 ∧ isIdentStart o sg.c = true ∧ (∀ x ∈ sg.rest, isIdent o x = true) ∧
    sg.c ≠ ';' ∧ isWs o sg.c = false ∧
    (∀ x, (sg.g2 ++ segsText more ++ tail).head? = some x → isIdent o x = false) ∧
    TokenStart o (segsText more ++ tail) ∧
    SegsWF o more tail

theorem run_scopedChain (o : POracle) (segs : List Seg) : ∀ (fuel : Nat) (e : Expr) (s : PS) (tail : List Char),
    s.rest = segsText segs ++ tail → SegsWF o segs tail → segs.length < fuel → s.rest.length ≤ o.fuel →
    run (scopedChain o fuel e) s = (.ok (chainExpr s e segs), advL s (segsText segs)) := by
  induction segs with
  | nil =>
    intro fuel e s tail hs hwf hfuel hof
    cases fuel with
    | zero => simp at hfuel
    | succ fuel =>
      simp only [segsText, List.nil_append] at hs
      obtain ⟨_, hdot⟩ := hwf
      unfold scopedChain
      simp only [run_bind', run_tryPeek, hs]
      have : (tail.head? = some '.') = False := by simpa using hdot
      simp [this, chainExpr, segsText]
  | cons sg more ih =>
    intro fuel e s tail hs hwf hfuel hof
    cases fuel with
    | zero => simp at hfuel
    | succ fuel =>
      obtain ⟨hg1, hg2, hc, hr, hsemi, hws, hfol, htok, hmore⟩ := hwf
      -- the input, piece by piece
      have hs0 : s.rest = '.' :: (sg.g1 ++ (sg.c :: (sg.rest ++ (sg.g2 ++ (segsText more ++ tail))))) := by
        simp [hs, segsText, Seg.text]
      let s1 := advance s '.' (sg.g1 ++ (sg.c :: (sg.rest ++ (sg.g2 ++ (segsText more ++ tail)))))
      have hs1 : s1.rest = sg.g1 ++ (sg.c :: (sg.rest ++ (sg.g2 ++ (segsText more ++ tail)))) := advance_rest _ _ _
      have hlen1 : s1.rest.length ≤ o.fuel := by rw [hs1]; rw [hs0] at hof; simp at hof ⊢; omega
      have hws1 := run_ws_gap o sg.g1 _ s1 hs1 hg1 (Or.inr ⟨sg.c, _, rfl, hsemi, hws⟩) hlen1
      let s2 := advL s1 sg.g1
      have hs2 : s2.rest = sg.c :: sg.rest ++ (sg.g2 ++ (segsText more ++ tail)) := by
        have := advL_rest s1 sg.g1 _ hs1; simpa using this
      have hname := run_parseName o "scoped variable name" sg.c sg.rest (sg.g2 ++ (segsText more ++ tail)) s2 hs2 hc hr
        (by simpa [List.append_assoc] using hfol) (by rw [hs0] at hof; simp at hof; omega)
      let s3 := advL s2 (sg.c :: sg.rest)
      have hs3 : s3.rest = sg.g2 ++ (segsText more ++ tail) := advL_rest s2 _ _ hs2
      have hlen3 : s3.rest.length ≤ o.fuel := by rw [hs3]; rw [hs0] at hof; simp at hof ⊢; omega
      have hws3 := run_ws_gap o sg.g2 _ s3 hs3 hg2 htok hlen3
      let s4 := advL s3 sg.g2
      have hs4 : s4.rest = segsText more ++ tail := advL_rest s3 _ _ hs3
      have hlen4 : s4.rest.length ≤ o.fuel := by rw [hs4]; rw [hs0] at hof; simp at hof ⊢; omega
      have hrec := ih fuel (.scopedVar e (String.ofList (sg.c :: sg.rest)) (locOf s2)) s4 tail hs4 hmore (by simp at hfuel; omega) hlen4
      -- positions
      have e1 : advL s ('.' :: sg.g1) = s2 := by simp [s2, s1, hs0]
      have e4 : advL s sg.text = s4 := by
        simp only [Seg.text, s4, s3, s2, s1]
        rw [show ('.' :: sg.g1 ++ sg.c :: sg.rest ++ sg.g2) = ['.'] ++ (sg.g1 ++ ((sg.c :: sg.rest) ++ sg.g2)) by simp]
        simp [advL_append, hs0]
      unfold scopedChain
      simp only [run_bind', run_tryPeek, hs0, List.head?_cons, if_true, run_skip_cons hs0]
      rw [show advance s '.' (sg.g1 ++ (sg.c :: (sg.rest ++ (sg.g2 ++ (segsText more ++ tail))))) = s1 from rfl, hws1]
      simp only [run_getS, parseIdentifier]
      rw [show advL s1 sg.g1 = s2 from rfl, hname]
      simp only
      rw [show advL s2 (sg.c :: sg.rest) = s3 from rfl, hws3]
      simp only
      rw [show advL s3 sg.g2 = s4 from rfl, hrec]
      simp only [chainExpr, segsText, e1, e4, advL_append]


/-- the text of `atom gap (. gap name gap)*` -/
def chainText (a : Atom) (g0 : List Char) (segs : List Seg) : List Char := a.text ++ g0 ++ segsText segs

/-- **Round trip for atoms and scoped variables.** However the expression `atom.name₁.name₂…` is laid out — any
gaps (whitespace, comments) after the atom, after every dot and after every name — `parse_expression` returns
exactly that expression: the atom's value, the names in order, the capture/variable location = position of its first
character, each scoped variable's location = position of the first character of its name; and it consumes exactly
the written text including the trailing layout. -/
theorem run_parseExpression_chain (o : POracle) (fuel : Nat) (a : Atom) (g0 : List Char) (segs : List Seg)
    (s : PS) (tail : List Char)
    (hs : s.rest = chainText a g0 segs ++ tail)
    (hwf : a.WF o) (hfol : a.Follow o (g0 ++ segsText segs ++ tail).head?)
    (hg0 : Gap o g0) (htok : TokenStart o (segsText segs ++ tail)) (hsegs : SegsWF o segs tail)
    (hfuel : segs.length < fuel) (hof : s.rest.length ≤ o.fuel) (hf5 : 5 ≤ o.fuel) :
    run (parseExpression o (fuel + 1)) s =
      (.ok (chainExpr (advL s (a.text ++ g0)) (a.expr s) segs), advL s (chainText a g0 segs)) := by
  have hs0 : s.rest = a.text ++ (g0 ++ segsText segs ++ tail) := by simp [hs, chainText]
  have hlen : a.text.length ≤ o.fuel := by rw [hs0] at hof; simp at hof; omega
  rw [run_parseExpression_atom o fuel a s (g0 ++ segsText segs ++ tail) hs0 hwf hfol hlen hf5]
  have hs1 : (advL s a.text).rest = g0 ++ (segsText segs ++ tail) := by
    have := advL_rest s a.text _ hs0; simpa using this
  have hlen1 : (advL s a.text).rest.length ≤ o.fuel := by rw [hs1]; rw [hs0] at hof; simp at hof ⊢; omega
  have hws := run_ws_gap o g0 _ (advL s a.text) hs1 hg0 htok hlen1
  have hs2 : (advL (advL s a.text) g0).rest = segsText segs ++ tail := advL_rest _ _ _ hs1
  have hlen2 : (advL (advL s a.text) g0).rest.length ≤ o.fuel := by rw [hs2]; rw [hs0] at hof; simp at hof ⊢; omega
  have hch := run_scopedChain o segs fuel (a.expr s) _ tail hs2 hsegs hfuel hlen2
  simp only [run_bind', hws, hch, chainText, advL_append]


/-! ### nested expressions: calls and list / set literals -/

/-- `cs` is a complete expression text (with its trailing layout) that `parse_expression` reads as `mk s` from any
state `s`, with `n` units of fuel, whenever the next character satisfies `F` -/
def ExprText (o : POracle) (n : Nat) (cs : List Char) (mk : PS → Expr) (F : Option Char → Prop) : Prop :=
  ∀ (fuel : Nat) (s : PS) (tail : List Char), n ≤ fuel → s.rest = cs ++ tail → F tail.head? →
    s.rest.length ≤ o.fuel → 5 ≤ o.fuel →
    run (parseExpression o fuel) s = (.ok (mk s), advL s cs)

/-- follower condition of `atom gap (. gap name gap)*` -/
def ChainFollow (o : POracle) (a : Atom) (g0 : List Char) (segs : List Seg) (nx : Option Char) : Prop :=
  ∀ tail : List Char, tail.head? = nx →
    a.Follow o (g0 ++ segsText segs ++ tail).head? ∧ TokenStart o (segsText segs ++ tail) ∧ SegsWF o segs tail

theorem exprText_chain (o : POracle) (a : Atom) (g0 : List Char) (segs : List Seg) (hwf : a.WF o) (hg0 : Gap o g0) :
    ExprText o (segs.length + 2) (chainText a g0 segs)
      (fun s => chainExpr (advL s (a.text ++ g0)) (a.expr s) segs) (ChainFollow o a g0 segs) := by
  intro fuel s tail hn hs hF hof hf5
  obtain ⟨h1, h2, h3⟩ := hF tail rfl
  obtain ⟨f, rfl⟩ : ∃ f, fuel = f + 1 := ⟨fuel - 1, by omega⟩
  exact run_parseExpression_chain o f a g0 segs s tail hs hwf h1 hg0 h2 h3 (by omega) hof hf5

/-- a sequence of expression texts, each with its reader -/
structure Item where
  n : Nat
  cs : List Char
  rd : PS → Expr
  F : Option Char → Prop

def itemsText : List Item → List Char
  | [] => []
  | it :: more => it.cs ++ itemsText more

/-- the expressions read from the items when the first starts at `s` -/
def itemsExprs (s : PS) : List Item → List Expr
  | [] => []
  | it :: more => it.rd s :: itemsExprs (advL s it.cs) more

def itemsFuel : List Item → Nat
  | [] => 0
  | it :: more => max it.n (itemsFuel more)

/-- each item is an expression text whose follower (the next item's first character, or `close`) is acceptable, and
no item begins with the closing character -/
def ItemsOK (o : POracle) (close : Char) : List Item → Prop
  | [] => True
  | it :: more =>
    ExprText o it.n it.cs it.rd it.F ∧ it.F ((itemsText more ++ [close]).head?) ∧ it.cs.head? ≠ some close ∧
    (∃ c r, it.cs = c :: r ∧ c ≠ ';' ∧ isWs o c = false) ∧
    ItemsOK o close more

/-- `parse_call`'s argument loop reads the items -/
theorem run_parseCallArgs (o : POracle) (items : List Item) : ∀ (fuel : Nat) (s : PS) (tail : List Char),
    s.rest = itemsText items ++ ')' :: tail → ItemsOK o ')' items → items.length + itemsFuel items < fuel →
    s.rest.length ≤ o.fuel → 5 ≤ o.fuel →
    run (parseCallArgs o fuel) s = (.ok (itemsExprs s items), advL s (itemsText items)) := by
  induction items with
  | nil =>
    intro fuel s tail hs _ hfuel _ _
    cases fuel with
    | zero => simp at hfuel
    | succ fuel =>
      have hs' : s.rest = ')' :: tail := by simpa [itemsText] using hs
      unfold parseCallArgs
      simp [run_bind', run_peek_cons hs', itemsExprs, itemsText]
  | cons it more ih =>
    intro fuel s tail hs hok hfuel hof hf5
    cases fuel with
    | zero => simp at hfuel
    | succ fuel =>
      obtain ⟨hit, hF, hhead, ⟨c0, r0, hc0, hsemi0, hws0⟩, hmore⟩ := hok
      have hs0 : s.rest = it.cs ++ (itemsText more ++ ')' :: tail) := by simp [hs, itemsText]
      have hpeek : s.rest = c0 :: (r0 ++ (itemsText more ++ ')' :: tail)) := by rw [hs0, hc0]; simp
      have hcne : (c0 = ')') = False := by
        have : it.cs.head? = some c0 := by rw [hc0]; rfl
        rw [this] at hhead
        simpa using hhead
      have hFt : it.F (itemsText more ++ ')' :: tail).head? := by
        have : (itemsText more ++ ')' :: tail).head? = (itemsText more ++ [')']).head? := by
          cases itemsText more <;> simp
        rw [this]; exact hF
      have hrun := hit fuel s (itemsText more ++ ')' :: tail) (by simp [itemsFuel] at hfuel; omega) hs0 hFt hof hf5
      have hs1 : (advL s it.cs).rest = itemsText more ++ ')' :: tail := advL_rest s it.cs _ hs0
      have hlen1 : (advL s it.cs).rest.length ≤ o.fuel := by rw [hs1]; rw [hs0] at hof; simp at hof ⊢; omega
      -- what follows is the next item or the closing parenthesis: a token start, so `ws` consumes nothing
      have htok : TokenStart o (itemsText more ++ ')' :: tail) := by
        cases more with
        | nil => exact Or.inr ⟨')', tail, by simp [itemsText], by decide, by simp [isWs]⟩
        | cons it2 more2 =>
          obtain ⟨_, _, _, ⟨c2, r2, hc2, hsemi2, hws2⟩, _⟩ := hmore
          exact Or.inr ⟨c2, r2 ++ (itemsText more2 ++ ')' :: tail), by simp [itemsText, hc2], hsemi2, hws2⟩
      have hws := run_ws_gap o [] _ (advL s it.cs) (by simpa using hs1) Gap.nil htok hlen1
      have hrec := ih fuel (advL s it.cs) tail hs1 hmore (by simp [itemsFuel] at hfuel; omega) hlen1 hf5
      unfold parseCallArgs
      simp only [run_bind', run_peek_cons hpeek, hcne, if_false, hrun, hws, advL_nil, hrec, run_pure]
      simp [itemsExprs, itemsText, advL_append]


/-- `cs` is a primary expression (an atom, a call, a list or set literal) that `parse_expression` reads as `rd s`
before it goes on with the layout and the scoped-variable loop -/
def PrimText (o : POracle) (n : Nat) (cs : List Char) (rd : PS → Expr) (F : Option Char → Prop) : Prop :=
  ∀ (fuel : Nat) (s : PS) (tail : List Char), n ≤ fuel → s.rest = cs ++ tail → F tail.head? →
    s.rest.length ≤ o.fuel → 5 ≤ o.fuel →
    run (parseExpression o (fuel + 1)) s = run (ws o >>= fun _ => scopedChain o fuel (rd s)) (advL s cs)

theorem primText_atom (o : POracle) (a : Atom) (hwf : a.WF o) : PrimText o 0 a.text (fun s => a.expr s) (a.Follow o) := by
  intro fuel s tail _ hs hF hof hf5
  have hlen : a.text.length ≤ o.fuel := by rw [hs] at hof; simp at hof; omega
  exact run_parseExpression_atom o fuel a s tail hs hwf hF hlen hf5

/-- follower condition of `primary gap (. gap name gap)*` -/
def PrimChainFollow (o : POracle) (F : Option Char → Prop) (g0 : List Char) (segs : List Seg) (nx : Option Char) : Prop :=
  ∀ tail : List Char, tail.head? = nx →
    F (g0 ++ segsText segs ++ tail).head? ∧ TokenStart o (segsText segs ++ tail) ∧ SegsWF o segs tail

/-- any primary, followed by layout and scoped-variable steps, is a complete expression text -/
theorem exprText_of_prim (o : POracle) (n : Nat) (cs : List Char) (rd : PS → Expr) (F : Option Char → Prop)
    (hp : PrimText o n cs rd F) (g0 : List Char) (segs : List Seg) (hg0 : Gap o g0) :
    ExprText o (max n segs.length + 2) (cs ++ g0 ++ segsText segs)
      (fun s => chainExpr (advL s (cs ++ g0)) (rd s) segs) (PrimChainFollow o F g0 segs) := by
  intro fuel s tail hn hs hF hof hf5
  obtain ⟨h1, h2, h3⟩ := hF tail rfl
  obtain ⟨f, rfl⟩ : ∃ f, fuel = f + 1 := ⟨fuel - 1, by omega⟩
  have hs0 : s.rest = cs ++ (g0 ++ segsText segs ++ tail) := by simp [hs]
  rw [hp f s (g0 ++ segsText segs ++ tail) (by omega) hs0 h1 hof hf5]
  have hs1 : (advL s cs).rest = g0 ++ (segsText segs ++ tail) := by
    have := advL_rest s cs _ hs0; simpa using this
  have hlen1 : (advL s cs).rest.length ≤ o.fuel := by rw [hs1]; rw [hs0] at hof; simp at hof ⊢; omega
  have hws := run_ws_gap o g0 _ (advL s cs) hs1 hg0 h2 hlen1
  have hs2 : (advL (advL s cs) g0).rest = segsText segs ++ tail := advL_rest _ _ _ hs1
  have hlen2 : (advL (advL s cs) g0).rest.length ≤ o.fuel := by rw [hs2]; rw [hs0] at hof; simp at hof ⊢; omega
  have hch := run_scopedChain o segs f (rd s) _ tail hs2 h3 (by omega) hlen2
  simp only [run_bind', hws, hch, advL_append]

/-! #### calls -/

/-- `( gap name gap arg* )` -/
def callText (g1 : List Char) (fc : Char) (frest g2 : List Char) (items : List Item) : List Char :=
  '(' :: g1 ++ fc :: frest ++ g2 ++ itemsText items ++ [')']

theorem primText_call (o : POracle) (g1 : List Char) (fc : Char) (frest g2 : List Char) (items : List Item)
    (hg1 : Gap o g1) (hg2 : Gap o g2) (hfc : isIdentStart o fc = true) (hfr : ∀ x ∈ frest, isIdent o x = true)
    (hsemi : fc ≠ ';') (hws : isWs o fc = false)
    (hfol : ∀ x, (g2 ++ itemsText items ++ [')']).head? = some x → isIdent o x = false)
    (htok : TokenStart o (itemsText items ++ [')'])) (hitems : ItemsOK o ')' items) :
    PrimText o (items.length + itemsFuel items + 2) (callText g1 fc frest g2 items)
      (fun s => .call (String.ofList (fc :: frest)) (itemsExprs (advL s ('(' :: g1 ++ fc :: frest ++ g2)) items))
      (fun _ => True) := by
  intro fuel s tail hn hs _ hof hf5
  obtain ⟨f, rfl⟩ : ∃ f, fuel = f + 1 := ⟨fuel - 1, by omega⟩
  have hs0 : s.rest = '(' :: (g1 ++ (fc :: (frest ++ (g2 ++ (itemsText items ++ ')' :: tail))))) := by
    simp [hs, callText]
  have hsT : s.rest = "(".toList ++ (g1 ++ (fc :: (frest ++ (g2 ++ (itemsText items ++ ')' :: tail))))) := by simpa using hs0
  let s1 := advL s "(".toList
  have hs1 : s1.rest = g1 ++ (fc :: (frest ++ (g2 ++ (itemsText items ++ ')' :: tail)))) := advL_rest s _ _ hsT
  have hlen1 : s1.rest.length ≤ o.fuel := by rw [hs1]; rw [hs0] at hof; simp at hof ⊢; omega
  have hws1 := run_ws_gap o g1 _ s1 hs1 hg1 (Or.inr ⟨fc, _, rfl, hsemi, hws⟩) hlen1
  let s2 := advL s1 g1
  have hs2 : s2.rest = fc :: frest ++ (g2 ++ (itemsText items ++ ')' :: tail)) := by
    have := advL_rest s1 g1 _ hs1; simpa using this
  have hfol' : ∀ x, (g2 ++ (itemsText items ++ ')' :: tail)).head? = some x → isIdent o x = false := by
    intro x hx
    apply hfol x
    have : (g2 ++ (itemsText items ++ ')' :: tail)).head? = (g2 ++ itemsText items ++ [')']).head? := by
      cases g2 <;> cases itemsText items <;> simp
    rw [← this]; exact hx
  have hname := run_parseName o "function name" fc frest _ s2 hs2 hfc hfr hfol' (by rw [hs0] at hof; simp at hof; omega)
  let s3 := advL s2 (fc :: frest)
  have hs3 : s3.rest = g2 ++ (itemsText items ++ ')' :: tail) := advL_rest s2 _ _ hs2
  have hlen3 : s3.rest.length ≤ o.fuel := by rw [hs3]; rw [hs0] at hof; simp at hof ⊢; omega
  have htok' : TokenStart o (itemsText items ++ ')' :: tail) := by
    rcases htok with h | ⟨c, r, h, h1, h2⟩
    · cases hi : itemsText items <;> simp [hi] at h
    · cases hi : itemsText items with
      | nil => exact Or.inr ⟨')', tail, by simp, by decide, by simp [isWs]⟩
      | cons c' r' =>
        rw [hi] at h
        simp at h
        exact Or.inr ⟨c', r' ++ ')' :: tail, by simp, by rw [h.1]; exact h1, by rw [h.1]; exact h2⟩
  have hws3 := run_ws_gap o g2 _ s3 hs3 hg2 htok' hlen3
  let s4 := advL s3 g2
  have hs4 : s4.rest = itemsText items ++ ')' :: tail := advL_rest s3 _ _ hs3
  have hlen4 : s4.rest.length ≤ o.fuel := by rw [hs4]; rw [hs0] at hof; simp at hof ⊢; omega
  have hargs := run_parseCallArgs o items f s4 tail hs4 hitems (by omega) hlen4 hf5
  let s5 := advL s4 (itemsText items)
  have hs5 : s5.rest = ")".toList ++ tail := by have := advL_rest s4 _ _ hs4; simpa using this
  have hclose := run_consumeToken_ok ")" tail s5 hs5
  have e4 : advL s ('(' :: g1 ++ fc :: frest ++ g2) = s4 := by
    simp only [s4, s3, s2, s1]
    rw [show ('(' :: g1 ++ fc :: frest ++ g2) = "(".toList ++ (g1 ++ ((fc :: frest) ++ g2)) by simp]
    simp [advL_append]
  have e5 : advL s (callText g1 fc frest g2 items) = advL s5 ")".toList := by
    simp only [s5, s4, s3, s2, s1, callText]
    rw [show ('(' :: g1 ++ fc :: frest ++ g2 ++ itemsText items ++ [')']) =
      "(".toList ++ (g1 ++ ((fc :: frest) ++ (g2 ++ (itemsText items ++ ")".toList)))) by simp]
    simp [advL_append]
  unfold parseExpression
  have hne : ('(' = '#') = False ∧ ('(' = '"') = False ∧ ('(' = '@') = False ∧ ('(' = '$') = False := by simp
  simp only [run_bind', run_peek_cons hs0, hne.1, hne.2.1, hne.2.2.1, hne.2.2.2, if_false, if_true]
  unfold parseCall
  simp only [run_bind', run_consumeToken_ok "(" _ s hsT]
  rw [show advL s "(".toList = s1 from rfl, hws1]
  simp only [parseIdentifier]
  rw [show advL s1 g1 = s2 from rfl, hname]
  simp only
  rw [show advL s2 (fc :: frest) = s3 from rfl, hws3]
  simp only
  rw [show advL s3 g2 = s4 from rfl, hargs]
  simp only
  rw [show advL s4 (itemsText items) = s5 from rfl, hclose]
  simp only [run_pure, e4, e5]


/-! #### list and set literals -/

/-- an element of a sequence with what separates it from the next: `, gap`, or nothing before the closing bracket -/
structure SItem where
  it : Item
  comma : Option (List Char)

def SItem.sep (si : SItem) : List Char :=
  match si.comma with
  | some g => ',' :: g
  | none => []

def seqText : List SItem → List Char
  | [] => []
  | si :: more => si.it.cs ++ si.sep ++ seqText more

def seqExprs (s : PS) : List SItem → List Expr
  | [] => []
  | si :: more => si.it.rd s :: seqExprs (advL s (si.it.cs ++ si.sep)) more

def seqFuel : List SItem → Nat
  | [] => 0
  | si :: more => max si.it.n (seqFuel more)

def SeqOK (o : POracle) (close : Char) : List SItem → Prop
  | [] => True
  | si :: more =>
    ExprText o si.it.n si.it.cs si.it.rd si.it.F ∧ si.it.F ((si.sep ++ seqText more ++ [close]).head?) ∧
    si.it.cs.head? ≠ some close ∧ (∃ c r, si.it.cs = c :: r ∧ c ≠ ';' ∧ isWs o c = false) ∧
    (si.comma = none → more = []) ∧
    (∀ g, si.comma = some g → Gap o g ∧ TokenStart o (seqText more ++ [close])) ∧
    SeqOK o close more

theorem tokenStart_close (o : POracle) (close : Char) (hc : close = ']' ∨ close = '}') (tail : List Char) :
    TokenStart o (close :: tail) := by
  rcases hc with rfl | rfl
  · exact Or.inr ⟨']', tail, rfl, by decide, by simp [isWs]⟩
  · exact Or.inr ⟨'}', tail, rfl, by decide, by simp [isWs]⟩

theorem tokenStart_append (o : POracle) (a : List Char) (close : Char) (tail : List Char)
    (h : TokenStart o (a ++ [close])) (hc : TokenStart o (close :: tail)) : TokenStart o (a ++ close :: tail) := by
  cases a with
  | nil => simpa using hc
  | cons c r =>
    rcases h with h | ⟨c', r', h, h1, h2⟩
    · simp at h
    · simp at h
      exact Or.inr ⟨c, r ++ close :: tail, by simp, by rw [h.1]; exact h1, by rw [h.1]; exact h2⟩

theorem head_append_close (a : List Char) (close : Char) (tail : List Char) :
    (a ++ close :: tail).head? = (a ++ [close]).head? := by
  cases a <;> simp

theorem run_parseSequence (o : POracle) (close : Char) (hclose : close = ']' ∨ close = '}') (l : List SItem) :
    ∀ (fuel : Nat) (s : PS) (tail : List Char),
    s.rest = seqText l ++ close :: tail → SeqOK o close l → l.length + seqFuel l < fuel →
    s.rest.length ≤ o.fuel → 5 ≤ o.fuel →
    run (parseSequence o close fuel) s = (.ok (seqExprs s l), advL s (seqText l)) := by
  induction l with
  | nil =>
    intro fuel s tail hs _ hfuel _ _
    cases fuel with
    | zero => simp at hfuel
    | succ fuel =>
      have hs' : s.rest = close :: tail := by simpa [seqText] using hs
      unfold parseSequence
      simp [run_bind', run_peek_cons hs', seqExprs, seqText]
  | cons si more ih =>
    intro fuel s tail hs hok hfuel hof hf5
    cases fuel with
    | zero => simp at hfuel
    | succ fuel =>
      obtain ⟨hit, hF, hhead, ⟨c0, r0, hc0, hsemi0, hws0⟩, hlast, hcomma, hmore⟩ := hok
      have hs0 : s.rest = si.it.cs ++ (si.sep ++ seqText more ++ close :: tail) := by simp [hs, seqText]
      have hpeek : s.rest = c0 :: (r0 ++ (si.sep ++ seqText more ++ close :: tail)) := by rw [hs0, hc0]; simp
      have hcne : (c0 = close) = False := by
        have : si.it.cs.head? = some c0 := by rw [hc0]; rfl
        rw [this] at hhead
        simpa using hhead
      have hFt : si.it.F (si.sep ++ seqText more ++ close :: tail).head? := by
        rw [head_append_close]; exact hF
      have hrun := hit fuel s _ (by simp [seqFuel] at hfuel; omega) hs0 hFt hof hf5
      let s1 := advL s si.it.cs
      have hs1 : s1.rest = si.sep ++ seqText more ++ close :: tail := advL_rest s _ _ hs0
      have hlen1 : s1.rest.length ≤ o.fuel := by rw [hs1]; rw [hs0] at hof; simp at hof ⊢; omega
      unfold parseSequence
      simp only [run_bind', run_peek_cons hpeek, hcne, if_false, hrun]
      cases hcm : si.comma with
      | none =>
        -- the last element, directly before the closing bracket
        have hm : more = [] := hlast hcm
        subst hm
        have hsep : si.sep = [] := by simp [SItem.sep, hcm]
        have hs1' : s1.rest = close :: tail := by simpa [hsep, seqText] using hs1
        have hws := run_ws_gap o [] _ s1 (by simpa using hs1') Gap.nil (tokenStart_close o close hclose tail) hlen1
        have hrec := ih fuel s1 tail (by simpa [seqText] using hs1') trivial (by simp [seqFuel] at hfuel ⊢; omega) hlen1 hf5
        have hrec' : run (parseSequence o close fuel) (advL s si.it.cs) = (.ok [], advL s si.it.cs) := by
          have := hrec; simpa [seqExprs, seqText, s1] using this
        rw [show advL s si.it.cs = s1 from rfl, hws]
        simp only [advL_nil, run_peek_cons hs1', ne_eq, not_true_eq_false, if_false, run_pure]
        simp only [run_bind', s1, hrec', run_pure]
        simp [seqExprs, seqText, hsep]
      | some g =>
        obtain ⟨hg, htok⟩ := hcomma g hcm
        have hsep : si.sep = ',' :: g := by simp [SItem.sep, hcm]
        have hs1' : s1.rest = ',' :: (g ++ (seqText more ++ close :: tail)) := by simpa [hsep] using hs1
        have hws := run_ws_gap o [] _ s1 (by simpa using hs1') Gap.nil (Or.inr ⟨',', _, rfl, by decide, by simp [isWs]⟩) hlen1
        have hcc : (',' ≠ close) := by rcases hclose with rfl | rfl <;> decide
        have hsT : s1.rest = ",".toList ++ (g ++ (seqText more ++ close :: tail)) := by simpa using hs1'
        have hcons := run_consumeToken_ok "," _ s1 hsT
        let s2 := advL s1 ",".toList
        have hs2 : s2.rest = g ++ (seqText more ++ close :: tail) := advL_rest s1 _ _ hsT
        have hlen2 : s2.rest.length ≤ o.fuel := by rw [hs2]; rw [hs0] at hof; simp [hsep] at hof ⊢; omega
        have hws2 := run_ws_gap o g _ s2 hs2 hg (tokenStart_append o _ close tail htok (tokenStart_close o close hclose tail)) hlen2
        let s3 := advL s2 g
        have hs3 : s3.rest = seqText more ++ close :: tail := advL_rest s2 _ _ hs2
        have hlen3 : s3.rest.length ≤ o.fuel := by rw [hs3]; rw [hs0] at hof; simp [hsep] at hof ⊢; omega
        have hrec := ih fuel s3 tail hs3 hmore (by simp [seqFuel] at hfuel ⊢; omega) hlen3 hf5
        have e3 : advL s (si.it.cs ++ si.sep) = s3 := by
          simp only [s3, s2, s1, hsep]
          rw [show (si.it.cs ++ ',' :: g) = si.it.cs ++ (",".toList ++ g) by simp]
          simp [advL_append]
        rw [show advL s si.it.cs = s1 from rfl, hws]
        simp only [advL_nil, run_peek_cons hs1', ne_eq, hcc, not_false_eq_true, if_true, run_bind', hcons]
        rw [show advL s1 ",".toList = s2 from rfl, hws2]
        simp only
        rw [show advL s2 g = s3 from rfl, hrec]
        simp only [run_pure, seqExprs, seqText, e3, advL_append]


theorem run_attempt_token_ok (tok : String) (tail : List Char) (s : PS) (hs : s.rest = tok.toList ++ tail) :
    run (attemptP (consumeToken tok)) s = (.ok (.ok ()), advL s tok.toList) := by
  simp only [attemptP, run, run_consumeToken_ok tok tail s hs]

theorem run_attempt_token_err (tok : String) (s : PS) (hs : tok.toList.isPrefixOf s.rest = false) :
    run (attemptP (consumeToken tok)) s = (.ok (.error (.expectedToken tok (locOf s))), s) := by
  simp only [attemptP, run, run_consumeToken_err tok s hs]

/-- the three shapes of a list / set literal -/
inductive CollForm where
  | empty
  | single (it : Item)
  | many (first : Item) (g : List Char) (rest : List SItem)

def openC (isList : Bool) : Char := if isList then '[' else '{'
def closeC (isList : Bool) : Char := if isList then ']' else '}'

def CollForm.inner : CollForm → List Char
  | .empty => []
  | .single it => it.cs
  | .many first g rest => first.cs ++ ',' :: g ++ seqText rest

def collText (isList : Bool) (g1 : List Char) (f : CollForm) : List Char :=
  openC isList :: g1 ++ f.inner ++ [closeC isList]

/-- the elements read, when the first one starts at `s` -/
def CollForm.exprs (s : PS) : CollForm → List Expr
  | .empty => []
  | .single it => [it.rd s]
  | .many first g rest => first.rd s :: seqExprs (advL s (first.cs ++ ',' :: g)) rest

def CollForm.fuel : CollForm → Nat
  | .empty => 0
  | .single it => it.n
  | .many first _ rest => max first.n (rest.length + seqFuel rest + 1)

def CollForm.OK (o : POracle) (isList : Bool) : CollForm → Prop
  | .empty => True
  | .single it =>
    ExprText o it.n it.cs it.rd it.F ∧ it.F (some (closeC isList)) ∧ it.cs.head? ≠ some (closeC isList) ∧
    (∃ c r, it.cs = c :: r ∧ c ≠ ';' ∧ isWs o c = false)
  | .many first g rest =>
    ExprText o first.n first.cs first.rd first.F ∧ first.F (some ',') ∧ first.cs.head? ≠ some (closeC isList) ∧
    (∃ c r, first.cs = c :: r ∧ c ≠ ';' ∧ isWs o c = false) ∧
    Gap o g ∧ TokenStart o (seqText rest ++ [closeC isList]) ∧ SeqOK o (closeC isList) rest

theorem closeC_cases (isList : Bool) : closeC isList = ']' ∨ closeC isList = '}' := by
  cases isList <;> simp [closeC]

theorem primText_collection (o : POracle) (isList : Bool) (g1 : List Char) (f : CollForm)
    (hg1 : Gap o g1) (hok : f.OK o isList) :
    PrimText o (f.fuel + 2) (collText isList g1 f)
      (fun s => (if isList then Expr.list else Expr.set) (f.exprs (advL s (openC isList :: g1)))) (fun _ => True) := by
  intro fuel s tail hn hs _ hof hf5
  have hclose := closeC_cases isList
  have hs0 : s.rest = openC isList :: (g1 ++ (f.inner ++ closeC isList :: tail)) := by simp [hs, collText]
  have hopenT : (if isList then "[" else "{").toList = [openC isList] := by cases isList <;> rfl
  have hcloseT : (if isList then "]" else "}").toList = [closeC isList] := by cases isList <;> rfl
  have hsT : s.rest = (if isList then "[" else "{").toList ++ (g1 ++ (f.inner ++ closeC isList :: tail)) := by
    rw [hopenT]; simpa using hs0
  have hopen := run_consumeToken_ok (if isList then "[" else "{") _ s hsT
  let s1 := advL s [openC isList]
  have hs1 : s1.rest = g1 ++ (f.inner ++ closeC isList :: tail) := by
    have := advL_rest s _ _ hsT; rw [hopenT] at this; exact this
  have hlen1 : s1.rest.length ≤ o.fuel := by rw [hs1]; rw [hs0] at hof; simp at hof ⊢; omega
  have e1 : advL s (openC isList :: g1) = advL s1 g1 := by
    rw [show (openC isList :: g1) = [openC isList] ++ g1 by simp, advL_append]
  -- what follows the first gap is a token start in every form
  have htok1 : TokenStart o (f.inner ++ closeC isList :: tail) := by
    cases f with
    | empty => simpa [CollForm.inner] using tokenStart_close o _ hclose tail
    | single it =>
      obtain ⟨_, _, _, ⟨c, r, hc, h1, h2⟩⟩ := hok
      exact Or.inr ⟨c, r ++ closeC isList :: tail, by simp [CollForm.inner, hc], h1, h2⟩
    | many first g rest =>
      obtain ⟨_, _, _, ⟨c, r, hc, h1, h2⟩, _⟩ := hok
      exact Or.inr ⟨c, r ++ (',' :: g ++ seqText rest ++ closeC isList :: tail), by simp [CollForm.inner, hc], h1, h2⟩
  have hws1 := run_ws_gap o g1 _ s1 hs1 hg1 htok1 hlen1
  let s2 := advL s1 g1
  have hs2 : s2.rest = f.inner ++ closeC isList :: tail := advL_rest s1 _ _ hs1
  have hlen2 : s2.rest.length ≤ o.fuel := by rw [hs2]; rw [hs0] at hof; simp at hof ⊢; omega
  have hne : (openC isList = '#') = False ∧ (openC isList = '"') = False ∧ (openC isList = '@') = False ∧
      (openC isList = '$') = False ∧ (openC isList = '(') = False := by cases isList <;> simp [openC]
  unfold parseExpression
  simp only [run_bind', run_peek_cons hs0, hne.1, hne.2.1, hne.2.2.1, hne.2.2.2.1, hne.2.2.2.2, if_false]
  have hdisp : ∀ (K : Expr → PP Expr) (X : PP Expr),
      (if openC isList = '[' then parseList o fuel >>= K else if openC isList = '{' then parseSet o fuel >>= K else X) =
      (parseCollection o isList fuel >>= K) := by
    intro K X; cases isList <;> simp [openC, parseList, parseSet]
  rw [hdisp]
  obtain ⟨fu, rfl⟩ : ∃ fu, fuel = fu + 1 := ⟨fuel - 1, by omega⟩
  rw [run_bind']
  have key : run (parseCollection o isList (fu + 1)) s =
      (.ok ((if isList then Expr.list else Expr.set) (f.exprs (advL s (openC isList :: g1)))), advL s (collText isList g1 f)) := by
    unfold parseCollection
    simp only [run_bind', run_getS, hopen]
    rw [hopenT, show advL s [openC isList] = s1 from rfl, hws1]
    simp only
    rw [show advL s1 g1 = s2 from rfl]
    cases f with
    | empty =>
      have hs2' : s2.rest = (if isList then "]" else "}").toList ++ tail := by rw [hcloseT]; simpa [CollForm.inner] using hs2
      rw [run_attempt_token_ok _ tail s2 hs2']
      simp only [run_pure, hcloseT]
      have : advL s (collText isList g1 .empty) = advL s2 [closeC isList] := by
        simp only [collText, CollForm.inner, s2, s1]
        rw [show (openC isList :: g1 ++ [] ++ [closeC isList]) = [openC isList] ++ (g1 ++ [closeC isList]) by simp]
        simp [advL_append]
      rw [this]
      cases isList <;> simp [CollForm.exprs]
    | single it =>
      obtain ⟨hit, hF, hhead, ⟨c, r, hc, h1, h2⟩⟩ := hok
      have hs2i : s2.rest = it.cs ++ closeC isList :: tail := by simpa [CollForm.inner] using hs2
      have hnp : (if isList then "]" else "}").toList.isPrefixOf s2.rest = false := by
        rw [hcloseT, hs2i, hc]
        have : it.cs.head? = some c := by rw [hc]; rfl
        rw [this] at hhead
        have hcc : c ≠ closeC isList := by simpa using hhead
        simp [List.isPrefixOf, Ne.symm hcc]
      rw [run_attempt_token_err _ s2 hnp]
      simp only
      have hrun := hit (fu) s2 (closeC isList :: tail) (by simp [CollForm.fuel] at hn; omega) hs2i (by simpa using hF) hlen2 hf5
      simp only [run_bind', hrun]
      let s3 := advL s2 it.cs
      have hs3 : s3.rest = closeC isList :: tail := advL_rest s2 _ _ hs2i
      have hlen3 : s3.rest.length ≤ o.fuel := by rw [hs3]; rw [hs0] at hof; simp at hof ⊢; omega
      have hws3 := run_ws_gap o [] _ s3 (by simpa using hs3) Gap.nil (tokenStart_close o _ hclose tail) hlen3
      rw [show advL s2 it.cs = s3 from rfl, hws3]
      simp only [advL_nil]
      have hs3' : s3.rest = (if isList then "]" else "}").toList ++ tail := by rw [hcloseT]; simpa using hs3
      rw [run_attempt_token_ok _ tail s3 hs3']
      simp only [run_pure, hcloseT]
      have : advL s (collText isList g1 (.single it)) = advL s3 [closeC isList] := by
        simp only [collText, CollForm.inner, s3, s2, s1]
        rw [show (openC isList :: g1 ++ it.cs ++ [closeC isList]) = [openC isList] ++ (g1 ++ (it.cs ++ [closeC isList])) by simp]
        simp [advL_append]
      rw [this, e1]
      cases isList <;> simp [CollForm.exprs, s2]
    | many first g rest =>
      obtain ⟨hit, hF, hhead, ⟨c, r, hc, h1, h2⟩, hg, htokr, hseq⟩ := hok
      have hs2i : s2.rest = first.cs ++ (',' :: (g ++ (seqText rest ++ closeC isList :: tail))) := by
        simpa [CollForm.inner] using hs2
      have hofl : first.cs.length + (1 + (g.length + ((seqText rest).length + (1 + tail.length)))) ≤ o.fuel := by
        have := hlen2; rw [hs2i] at this; simp at this; omega
      have hnp : (if isList then "]" else "}").toList.isPrefixOf s2.rest = false := by
        rw [hcloseT, hs2i, hc]
        have : first.cs.head? = some c := by rw [hc]; rfl
        rw [this] at hhead
        have hcc : c ≠ closeC isList := by simpa using hhead
        simp [List.isPrefixOf, Ne.symm hcc]
      have hrun := hit (fu) s2 _ (by simp [CollForm.fuel] at hn; omega) hs2i (by simpa using hF) hlen2 hf5
      let s3 := advL s2 first.cs
      have hs3 : s3.rest = ',' :: (g ++ (seqText rest ++ closeC isList :: tail)) := advL_rest s2 _ _ hs2i
      have hlen3 : s3.rest.length ≤ o.fuel := by rw [hs3]; simp; omega
      have hws3 := run_ws_gap o [] _ s3 (by simpa using hs3) Gap.nil (Or.inr ⟨',', _, rfl, by decide, by simp [isWs]⟩) hlen3
      have hnp3 : (if isList then "]" else "}").toList.isPrefixOf s3.rest = false := by
        rw [hcloseT, hs3]
        rcases hclose with h | h <;> simp [List.isPrefixOf, h]
      have hs3T : s3.rest = ",".toList ++ (g ++ (seqText rest ++ closeC isList :: tail)) := by simpa using hs3
      let s4 := advL s3 ",".toList
      have hs4 : s4.rest = g ++ (seqText rest ++ closeC isList :: tail) := advL_rest s3 _ _ hs3T
      have hlen4 : s4.rest.length ≤ o.fuel := by rw [hs4]; simp; omega
      have hws4 := run_ws_gap o g _ s4 hs4 hg (tokenStart_append o _ _ tail htokr (tokenStart_close o _ hclose tail)) hlen4
      let s5 := advL s4 g
      have hs5 : s5.rest = seqText rest ++ closeC isList :: tail := advL_rest s4 _ _ hs4
      have hlen5 : s5.rest.length ≤ o.fuel := by rw [hs5]; simp; omega
      have hseqrun := run_parseSequence o (closeC isList) hclose rest fu s5 tail hs5 hseq
        (by simp [CollForm.fuel] at hn; omega) hlen5 hf5
      have hcc : (if isList then ']' else '}') = closeC isList := by cases isList <;> rfl
      let s6 := advL s5 (seqText rest)
      have hs6 : s6.rest = closeC isList :: tail := advL_rest s5 _ _ hs5
      have hlen6 : s6.rest.length ≤ o.fuel := by rw [hs6]; simp; omega
      have hws6 := run_ws_gap o [] _ s6 (by simpa using hs6) Gap.nil (tokenStart_close o _ hclose tail) hlen6
      have hs6' : s6.rest = (if isList then "]" else "}").toList ++ tail := by rw [hcloseT]; simpa using hs6
      have hclose6 := run_consumeToken_ok _ tail s6 hs6'
      have e5 : advL s2 (first.cs ++ ',' :: g) = s5 := by
        simp only [s5, s4, s3]
        rw [show (first.cs ++ ',' :: g) = first.cs ++ (",".toList ++ g) by simp]
        simp [advL_append]
      have etot : advL s (collText isList g1 (.many first g rest)) = advL s6 [closeC isList] := by
        simp only [collText, CollForm.inner, s6, s5, s4, s3, s2, s1]
        rw [show (openC isList :: g1 ++ (first.cs ++ ',' :: g ++ seqText rest) ++ [closeC isList]) =
          [openC isList] ++ (g1 ++ (first.cs ++ (",".toList ++ (g ++ (seqText rest ++ [closeC isList]))))) by simp]
        simp [advL_append]
      simp only [run_bind', run_attempt_token_err _ s2 hnp, hrun]
      rw [show advL s2 first.cs = s3 from rfl, hws3]
      simp only [advL_nil, run_bind', run_attempt_token_err _ s3 hnp3, run_attempt_token_ok "," _ s3 hs3T]
      rw [show advL s3 ",".toList = s4 from rfl, hws4]
      simp only
      rw [show advL s4 g = s5 from rfl, hcc, hseqrun]
      simp only
      rw [show advL s5 (seqText rest) = s6 from rfl, hws6]
      simp only [advL_nil, hclose6, run_pure, hcloseT]
      rw [etot, e1]
      cases isList <;> simp [CollForm.exprs, e5, s2]
  rw [key]
  simp only [run_bind']


/-! #### comprehensions -/

/-- `open gap elem "for" gap var gap "in" gap value close` -/
def compText (isList : Bool) (g1 : List Char) (elem : Item) (gFor : List Char) (vc : Char) (vrest gV gIn : List Char)
    (value : Item) : List Char :=
  openC isList :: g1 ++ elem.cs ++ "for".toList ++ gFor ++ vc :: vrest ++ gV ++ "in".toList ++ gIn ++ value.cs ++ [closeC isList]

theorem primText_comprehension (o : POracle) (isList : Bool) (g1 : List Char) (elem : Item) (gFor : List Char)
    (vc : Char) (vrest gV gIn : List Char) (value : Item)
    (hg1 : Gap o g1) (hgFor : Gap o gFor) (hgV : Gap o gV) (hgIn : Gap o gIn)
    (helem : ExprText o elem.n elem.cs elem.rd elem.F) (hFe : elem.F (some 'f'))
    (hehead : elem.cs.head? ≠ some (closeC isList)) (hetok : ∃ c r, elem.cs = c :: r ∧ c ≠ ';' ∧ isWs o c = false)
    (hvc : isIdentStart o vc = true) (hvr : ∀ x ∈ vrest, isIdent o x = true) (hvsemi : vc ≠ ';') (hvws : isWs o vc = false)
    (hvfol : ∀ x, (gV ++ "in".toList).head? = some x → isIdent o x = false)
    (hvalue : ExprText o value.n value.cs value.rd value.F) (hFv : value.F (some (closeC isList)))
    (hvtok : ∃ c r, value.cs = c :: r ∧ c ≠ ';' ∧ isWs o c = false) :
    PrimText o (max elem.n value.n + 5) (compText isList g1 elem gFor vc vrest gV gIn value)
      (fun s =>
        let sE := advL s (openC isList :: g1)
        let sV := advL sE (elem.cs ++ "for".toList ++ gFor)
        let sX := advL sV (vc :: vrest ++ gV ++ "in".toList ++ gIn)
        if isList then Expr.listComp (elem.rd sE) (String.ofList (vc :: vrest)) (locOf sV) (value.rd sX) (locOf s)
        else Expr.setComp (elem.rd sE) (String.ofList (vc :: vrest)) (locOf sV) (value.rd sX) (locOf s))
      (fun _ => True) := by
  intro fuel s tail hn hs _ hof hf5
  have hclose := closeC_cases isList
  obtain ⟨ec, er, hec, hesemi, hews⟩ := hetok
  obtain ⟨xc, xr, hxc, hxsemi, hxws⟩ := hvtok
  -- the input, piece by piece
  have hs0 : s.rest = openC isList :: (g1 ++ (elem.cs ++ ("for".toList ++ (gFor ++ (vc :: vrest ++ (gV ++ ("in".toList ++
      (gIn ++ (value.cs ++ closeC isList :: tail))))))))) := by
    simp [hs, compText]
  have hopenT : (if isList then "[" else "{").toList = [openC isList] := by cases isList <;> rfl
  have hcloseT : (if isList then "]" else "}").toList = [closeC isList] := by cases isList <;> rfl
  have hsT : s.rest = (if isList then "[" else "{").toList ++ (g1 ++ (elem.cs ++ ("for".toList ++ (gFor ++ (vc :: vrest ++
      (gV ++ ("in".toList ++ (gIn ++ (value.cs ++ closeC isList :: tail))))))))) := by
    rw [hopenT]; simpa using hs0
  have hopen := run_consumeToken_ok (if isList then "[" else "{") _ s hsT
  have L : s.rest.length = 1 + (g1.length + (elem.cs.length + (3 + (gFor.length + (1 + (vrest.length + (gV.length + (2 +
      (gIn.length + (value.cs.length + (1 + tail.length))))))))))) := by
    rw [hs0]; simp; omega
  let s1 := advL s [openC isList]
  have hs1 : s1.rest = g1 ++ (elem.cs ++ ("for".toList ++ (gFor ++ (vc :: vrest ++ (gV ++ ("in".toList ++
      (gIn ++ (value.cs ++ closeC isList :: tail)))))))) := by
    have := advL_rest s _ _ hsT; rw [hopenT] at this; exact this
  have hws1 := run_ws_gap o g1 _ s1 hs1 hg1 (Or.inr ⟨ec, _, by rw [hec]; rfl, hesemi, hews⟩) (by rw [hs1]; simp; omega)
  let s2 := advL s1 g1
  have hs2 : s2.rest = elem.cs ++ ("for".toList ++ (gFor ++ (vc :: vrest ++ (gV ++ ("in".toList ++
      (gIn ++ (value.cs ++ closeC isList :: tail))))))) := advL_rest s1 _ _ hs1
  have hlen2 : s2.rest.length ≤ o.fuel := by rw [hs2]; simp; omega
  obtain ⟨fu, rfl⟩ : ∃ fu, fuel = fu + 1 := ⟨fuel - 1, by omega⟩
  have hnp : (if isList then "]" else "}").toList.isPrefixOf s2.rest = false := by
    rw [hcloseT, hs2, hec]
    have : elem.cs.head? = some ec := by rw [hec]; rfl
    rw [this] at hehead
    have hcc : ec ≠ closeC isList := by simpa using hehead
    simp [List.isPrefixOf, Ne.symm hcc]
  have hrunE := helem fu s2 _ (by omega) hs2 (by simpa using hFe) hlen2 hf5
  let s3 := advL s2 elem.cs
  have hs3 : s3.rest = "for".toList ++ (gFor ++ (vc :: vrest ++ (gV ++ ("in".toList ++
      (gIn ++ (value.cs ++ closeC isList :: tail)))))) := advL_rest s2 _ _ hs2
  have hs3' : s3.rest = 'f' :: ('o' :: 'r' :: (gFor ++ (vc :: vrest ++ (gV ++ ("in".toList ++
      (gIn ++ (value.cs ++ closeC isList :: tail))))))) := by simpa using hs3
  have hws3 := run_ws_gap o [] _ s3 (by simpa using hs3') Gap.nil (Or.inr ⟨'f', _, rfl, by decide, by simp [isWs]⟩)
    (by rw [hs3]; simp; omega)
  have hnp3 : (if isList then "]" else "}").toList.isPrefixOf s3.rest = false := by
    rw [hcloseT, hs3']
    rcases hclose with h | h <;> simp [List.isPrefixOf, h]
  have hnpc : ",".toList.isPrefixOf s3.rest = false := by rw [hs3']; simp [List.isPrefixOf]
  have hfor := run_consumeToken_ok "for" _ s3 hs3
  let s4 := advL s3 "for".toList
  have hs4 : s4.rest = gFor ++ (vc :: vrest ++ (gV ++ ("in".toList ++ (gIn ++ (value.cs ++ closeC isList :: tail))))) :=
    advL_rest s3 _ _ hs3
  have hws4 := run_ws_gap o gFor _ s4 hs4 hgFor (Or.inr ⟨vc, _, rfl, hvsemi, hvws⟩) (by rw [hs4]; simp; omega)
  let s5 := advL s4 gFor
  have hs5 : s5.rest = (Atom.var vc vrest).text ++ (gV ++ ("in".toList ++ (gIn ++ (value.cs ++ closeC isList :: tail)))) := by
    have := advL_rest s4 _ _ hs4; simpa [Atom.text] using this
  have hlen5 : s5.rest.length ≤ o.fuel := by rw [hs5]; simp [Atom.text]; omega
  -- the loop variable: an unscoped variable followed by its layout and `in`
  obtain ⟨fu2, rfl⟩ : ∃ fu2, fu = fu2 + 4 := ⟨fu - 4, by omega⟩
  have hvar := run_parseExpression_chain o (fu2 + 1) (Atom.var vc vrest) gV [] s5
    ("in".toList ++ (gIn ++ (value.cs ++ closeC isList :: tail)))
    (by simpa [chainText, segsText] using hs5) ⟨hvc, hvr⟩
    (by
      intro x hx
      apply hvfol x
      have : (gV ++ segsText [] ++ ("in".toList ++ (gIn ++ (value.cs ++ closeC isList :: tail)))).head? = (gV ++ "in".toList).head? := by
        cases gV <;> simp [segsText]
      rw [← this]; exact hx)
    hgV (Or.inr ⟨'i', 'n' :: (gIn ++ (value.cs ++ closeC isList :: tail)), by simp [segsText], by decide, by simp [isWs]⟩)
    ⟨Or.inr ⟨'i', 'n' :: (gIn ++ (value.cs ++ closeC isList :: tail)), by simp, by decide, by simp [isWs]⟩, by simp⟩ (by simp) hlen5 hf5
  let s6 := advL s5 ((Atom.var vc vrest).text ++ gV)
  have hs6 : s6.rest = "in".toList ++ (gIn ++ (value.cs ++ closeC isList :: tail)) := by
    apply advL_rest s5; rw [hs5]; simp
  have hin := run_consumeToken_ok "in" _ s6 hs6
  have hws6 := run_ws_gap o [] _ s6 (by simpa using hs6) Gap.nil (Or.inr ⟨'i', 'n' :: (gIn ++ (value.cs ++ closeC isList :: tail)), by simp, by decide, by simp [isWs]⟩)
    (by rw [hs6]; simp; omega)
  let s7 := advL s6 "in".toList
  have hs7 : s7.rest = gIn ++ (value.cs ++ closeC isList :: tail) := advL_rest s6 _ _ hs6
  have hws7 := run_ws_gap o gIn _ s7 hs7 hgIn (Or.inr ⟨xc, _, by rw [hxc]; rfl, hxsemi, hxws⟩) (by rw [hs7]; simp; omega)
  let s8 := advL s7 gIn
  have hs8 : s8.rest = value.cs ++ closeC isList :: tail := advL_rest s7 _ _ hs7
  have hrunV := hvalue (fu2 + 4) s8 _ (by omega) hs8 (by simpa using hFv) (by rw [hs8]; simp; omega) hf5
  let s9 := advL s8 value.cs
  have hs9 : s9.rest = closeC isList :: tail := advL_rest s8 _ _ hs8
  have hws9 := run_ws_gap o [] _ s9 (by simpa using hs9) Gap.nil (tokenStart_close o _ hclose tail) (by rw [hs9]; simp; omega)
  have hs9' : s9.rest = (if isList then "]" else "}").toList ++ tail := by rw [hcloseT]; simpa using hs9
  have hclose9 := run_consumeToken_ok _ tail s9 hs9'
  -- positions
  have eE : advL s (openC isList :: g1) = s2 := by
    rw [show (openC isList :: g1) = [openC isList] ++ g1 by simp, advL_append]
  have eV : advL s2 (elem.cs ++ "for".toList ++ gFor) = s5 := by simp [advL_append, s5, s4, s3]
  have eX : advL s5 (vc :: vrest ++ gV ++ "in".toList ++ gIn) = s8 := by
    simp only [s8, s7, s6, Atom.text]
    rw [show (vc :: vrest ++ gV ++ "in".toList ++ gIn) = (vc :: vrest ++ gV) ++ ("in".toList ++ gIn) by simp]
    simp [advL_append]
  have etot : advL s (compText isList g1 elem gFor vc vrest gV gIn value) = advL s9 [closeC isList] := by
    simp only [compText, s9, s8, s7, s6, s5, s4, s3, s2, s1, Atom.text]
    rw [show (openC isList :: g1 ++ elem.cs ++ "for".toList ++ gFor ++ vc :: vrest ++ gV ++ "in".toList ++ gIn ++ value.cs ++ [closeC isList]) =
      [openC isList] ++ (g1 ++ (elem.cs ++ ("for".toList ++ (gFor ++ ((vc :: vrest ++ gV) ++ ("in".toList ++ (gIn ++ (value.cs ++ [closeC isList])))))))) by simp]
    simp [advL_append]
  -- run
  have hne : (openC isList = '#') = False ∧ (openC isList = '"') = False ∧ (openC isList = '@') = False ∧
      (openC isList = '$') = False ∧ (openC isList = '(') = False := by cases isList <;> simp [openC]
  have hdisp : ∀ (K : Expr → PP Expr) (X : PP Expr),
      (if openC isList = '[' then parseList o (fu2 + 4 + 1) >>= K else if openC isList = '{' then parseSet o (fu2 + 4 + 1) >>= K else X) =
      (parseCollection o isList (fu2 + 4 + 1) >>= K) := by
    intro K X; cases isList <;> simp [openC, parseList, parseSet]
  unfold parseExpression
  simp only [run_bind', run_peek_cons hs0, hne.1, hne.2.1, hne.2.2.1, hne.2.2.2.1, hne.2.2.2.2, if_false]
  rw [hdisp, run_bind']
  have key : run (parseCollection o isList (fu2 + 4 + 1)) s =
      (.ok (if isList then Expr.listComp (elem.rd s2) (String.ofList (vc :: vrest)) (locOf s5) (value.rd s8) (locOf s)
            else Expr.setComp (elem.rd s2) (String.ofList (vc :: vrest)) (locOf s5) (value.rd s8) (locOf s)),
       advL s (compText isList g1 elem gFor vc vrest gV gIn value)) := by
    unfold parseCollection
    simp only [run_bind', run_getS, hopen]
    rw [hopenT, show advL s [openC isList] = s1 from rfl, hws1]
    simp only
    rw [show advL s1 g1 = s2 from rfl]
    simp only [run_bind', run_attempt_token_err _ s2 hnp, hrunE]
    rw [show advL s2 elem.cs = s3 from rfl, hws3]
    simp only [advL_nil, run_bind', run_attempt_token_err _ s3 hnp3, run_attempt_token_err "," s3 hnpc, hfor]
    rw [show advL s3 "for".toList = s4 from rfl, hws4]
    simp only
    rw [show advL s4 gFor = s5 from rfl]
    unfold parseUnscopedVariable parseVariable
    simp only [run_bind', run_getS, hvar]
    simp only [chainExpr, Atom.expr, chainText, segsText, List.append_nil, run_pure]
    rw [show advL s5 ((Atom.var vc vrest).text ++ gV) = s6 from rfl, hws6]
    simp only [advL_nil, hin]
    rw [show advL s6 "in".toList = s7 from rfl, hws7]
    simp only
    rw [show advL s7 gIn = s8 from rfl, hrunV]
    simp only
    rw [show advL s8 value.cs = s9 from rfl, hws9]
    simp only [advL_nil, hclose9, run_pure, hcloseT, etot]
  rw [key]
  simp only [run_bind', eE, eV, eX]

end Parser
