/-
  Round trip for the top-level items of a file (globals, attribute shorthands, inherit, stanzas) and for whole files.
-/
import Tsg.Proofs.ParserRoundStmt

namespace Parser
open PP

/-! ### the query text of a stanza -/

/-- scanning modes of `skip_query` -/
inductive QMode where
  | plain | str | esc | comment
  deriving DecidableEq, Repr

/-- one character of query text; `none`: the brace that opens the stanza body -/
def qstep : QMode → Char → Option QMode
  | .esc, _ => some .str
  | .str, c => if c = '\\' then some .esc else if c = '"' || c = '\n' then some .plain else some .str
  | .comment, c => if c != '\n' then some .comment else some .plain
  | .plain, c =>
    if c = '"' then some .str else if c = '(' then some .plain else if c = ')' then some .plain
    else if c = '{' then none else if c = ';' then some .comment else some .plain

def qscan : QMode → List Char → Option QMode
  | m, [] => some m
  | m, c :: cs => match qstep m c with
    | none => none
    | some m' => qscan m' cs

def QMode.inString : QMode → Bool | .str | .esc => true | _ => false
def QMode.inEscape : QMode → Bool | .esc => true | _ => false
def QMode.inComment : QMode → Bool | .comment => true | _ => false

/-- `skip_query` returns exactly the text in front of the first `{` that is outside strings and comments -/
theorem run_skipQuery : ∀ (q : List Char) (m : QMode) (fuel depth : Nat) (acc tail : List Char) (s : PS),
    qscan m q = some .plain → s.rest = q ++ '{' :: tail → q.length < fuel →
    run (skipQuery fuel depth m.inString m.inEscape m.inComment acc) s = (.ok (acc.reverse ++ q), advL s q) := by
  intro q
  induction q with
  | nil =>
    intro m fuel depth acc tail s hscan hs hfu
    obtain ⟨f, rfl⟩ : ∃ f, fuel = f + 1 := ⟨fuel - 1, by omega⟩
    simp only [qscan, Option.some.injEq] at hscan
    subst hscan
    have hs' : s.rest = '{' :: tail := by simpa using hs
    unfold skipQuery
    simp [run_bind', run_peek_cons hs', QMode.inString, QMode.inEscape, QMode.inComment, advL]
  | cons c cs ih =>
    intro m fuel depth acc tail s hscan hs hfu
    obtain ⟨f, rfl⟩ : ∃ f, fuel = f + 1 := ⟨fuel - 1, by omega⟩
    have hs' : s.rest = c :: (cs ++ '{' :: tail) := by simpa using hs
    have hskip : run skip s = (.ok (), advL s [c]) := by
      rw [run_skip_cons hs']; simp [hs']
    have hs1 : (advL s [c]).rest = cs ++ '{' :: tail := advL_rest s [c] _ (by simpa using hs')
    simp only [qscan] at hscan
    have key : ∀ (m' : QMode) (d' : Nat), qscan m' cs = some .plain →
        run (skipQuery f d' m'.inString m'.inEscape m'.inComment (c :: acc)) (advL s [c]) =
          (.ok (acc.reverse ++ c :: cs), advL s (c :: cs)) := by
      intro m' d' h'
      rw [ih m' f d' (c :: acc) tail _ h' hs1 (by simp at hfu; omega)]
      simp
    unfold skipQuery
    simp only [run_bind', run_peek_cons hs']
    cases m with
    | esc =>
      simp only [qstep] at hscan
      simp only [QMode.inEscape, if_true, run_bind', hskip]
      exact key .str depth hscan
    | str =>
      simp only [qstep] at hscan
      simp only [QMode.inEscape, QMode.inString, Bool.false_eq_true, if_false, if_true]
      by_cases h1 : c = '\\'
      · subst h1
        simp only [if_true, run_bind', hskip] at hscan ⊢
        exact key .esc depth hscan
      · simp only [h1, if_false] at hscan ⊢
        by_cases h2 : (c = '"' || c = '\n') = true
        · simp only [h2, if_true, run_bind', hskip] at hscan ⊢
          exact key .plain depth hscan
        · have h2' : (c = '"' || c = '\n') = false := by simpa using h2
          simp only [h2', Bool.false_eq_true, if_false, run_bind', hskip] at hscan ⊢
          exact key .str depth hscan
    | comment =>
      simp only [qstep] at hscan
      simp only [QMode.inEscape, QMode.inString, QMode.inComment, Bool.false_eq_true, if_false, if_true, run_bind', hskip]
      by_cases h1 : (c != '\n') = true
      · simp only [h1, if_true] at hscan ⊢
        exact key .comment depth hscan
      · simp only [h1, if_false] at hscan
        have h1' : (c != '\n') = false := by simpa using h1
        rw [h1']
        exact key .plain depth hscan
    | plain =>
      simp only [qstep] at hscan
      simp only [QMode.inEscape, QMode.inString, QMode.inComment, Bool.false_eq_true, if_false]
      by_cases h1 : c = '"'
      · subst h1
        simp only [if_true, run_bind', hskip] at hscan ⊢
        exact key .str depth hscan
      · simp only [h1, if_false] at hscan ⊢
        by_cases h2 : c = '('
        · subst h2
          simp only [if_true, run_bind', hskip] at hscan ⊢
          exact key .plain (depth + 1) hscan
        · simp only [h2, if_false] at hscan ⊢
          by_cases h3 : c = ')'
          · subst h3
            simp only [if_true, run_bind', hskip] at hscan ⊢
            exact key .plain (depth - 1) hscan
          · simp only [h3, if_false] at hscan ⊢
            by_cases h4 : c = '{'
            · simp [h4] at hscan
            · simp only [h4, if_false] at hscan ⊢
              by_cases h5 : c = ';'
              · subst h5
                simp only [if_true, run_bind', hskip] at hscan ⊢
                exact key .comment depth hscan
              · simp only [h5, if_false, run_bind', hskip] at hscan ⊢
                exact key .plain depth hscan


/-! ### top-level items -/

/-- a stanza as written: query text, then the block -/
structure StanzaItem where
  q : List Char
  gB : List Char
  body : List (StmtItem × List Char)
  patterns : Nat
  caps : List (String × Quant)
  ix : Nat

def StanzaItem.text (st : StanzaItem) : List Char := st.q ++ blockText st.gB st.body

def StanzaItem.rd (st : StanzaItem) (s : PS) : Stanza :=
  { stmts := bodyRd (advL s (st.q ++ '{' :: st.gB)) st.body, fullMatchStanzaIx := st.ix, fullMatchFileIx := usizeMax,
    rangeStart := locOf s, rangeEnd := locOf (advL s st.text), captures := st.caps }

/-- the query text ends outside strings and comments in front of the body; tree-sitter accepts it (with the
full-match capture appended) as one pattern -/
def StanzaItem.OK (o : POracle) (st : StanzaItem) (t : List Char) : Prop :=
  qscan .plain st.q = some .plain ∧
  o.query (String.ofList st.q ++ "@" ++ fullMatchName) = some (.valid st.patterns st.caps) ∧ st.patterns ≤ 1 ∧
  st.caps.findIdx? (·.1 = fullMatchName) = some st.ix ∧
  Gap o st.gB ∧ BodyOK o t st.body ∧ TokenStart o (bodyText st.body ++ '}' :: t)

theorem spells_stanza (o : POracle) (st : StanzaItem) (fuel : Nat) (s : PS) (hfu : bodyFuel st.body + 1 < fuel) (hf5 : 5 ≤ o.fuel) :
    SpellsAt o (parseStanza o fuel) s st.text (st.rd s) (fun t => st.OK o t) := by
  refine ⟨fun tail hs hf hl => ?_⟩
  obtain ⟨hscan, hq, hpat, hix, hgB, hbody, htok⟩ := hf
  have hs' : s.rest = st.q ++ '{' :: (st.gB ++ (bodyText st.body ++ '}' :: tail)) := by
    simpa [StanzaItem.text, blockText] using hs
  have hskip := run_skipQuery st.q .plain o.fuel 0 [] _ s hscan hs' (by rw [hs'] at hl; simp at hl; omega)
  have hs1 : (advL s st.q).rest = blockText st.gB st.body ++ tail := by
    have := advL_rest s st.q _ hs'; simpa [blockText] using this
  have hl1 : (advL s st.q).rest.length ≤ o.fuel := by rw [hs1]; rw [hs] at hl; simp [StanzaItem.text] at hl ⊢; omega
  have hws := run_ws_gap o [] _ _ (by simpa using hs1) Gap.nil
    (by simp only [blockText]; exact tokenStart_cons '{' _ (by decide) (by simp [isWs])) hl1
  have hblock := (spells_block o st.gB st.body fuel _ hgB hfu hf5).run_eq _ hs1 ⟨hbody, htok⟩ hl1
  unfold parseStanza
  simp only [run_bind', run_getS]
  simp only [QMode.inString, QMode.inEscape, QMode.inComment] at hskip
  rw [hskip]
  simp only [List.reverse_nil, List.nil_append, hq]
  have hp : ¬ (st.patterns > 1) := by omega
  simp only [hp, if_false, hix, run_bind']
  rw [hws]
  simp only [advL_nil]
  rw [hblock]
  simp [StanzaItem.rd, StanzaItem.text, advL_append]


/-- the character consumed by `parse_quantifier` after the name of a global, and what it means -/
def quantOf (c : Char) : Quant :=
  if c = '?' then .zeroOrOne else if c = '*' then .zeroOrMore else if c = '+' then .oneOrMore else .one

/-- a global declaration after its keyword: `NAME q gap (= gap "default")?`; `qc` is `?`, `*`, `+` or a whitespace character -/
structure GlobalItem where
  nc : Char
  nrest : List Char
  qc : Char
  g1 : List Char
  dflt : Option (List Char × List Char × List Char)   -- gap after `=`, characters, literal body

def GlobalItem.text (g : GlobalItem) : List Char :=
  g.nc :: g.nrest ++ (g.qc :: (g.g1 ++ (match g.dflt with
    | none => []
    | some (g2, _, lit) => "=".toList ++ (g2 ++ ('"' :: lit ++ ['"'])))))

theorem GlobalItem.text_cons (g : GlobalItem) : ∃ r, g.text = g.nc :: r := ⟨_, rfl⟩

def GlobalItem.rd (g : GlobalItem) (s : PS) : Global :=
  { name := String.ofList (g.nc :: g.nrest), quant := quantOf g.qc,
    default := g.dflt.map (fun d => String.ofList d.2.1), loc := locOf s }

def GlobalItem.OK (o : POracle) (g : GlobalItem) (t : List Char) : Prop :=
  isIdentStart o g.nc = true ∧ (∀ x ∈ g.nrest, isIdent o x = true) ∧ isIdent o g.qc = false ∧
  (g.qc = '?' ∨ g.qc = '*' ∨ g.qc = '+' ∨ isWs o g.qc = true) ∧ Gap o g.g1 ∧
  match g.dflt with
  | none => TokenStart o t ∧ "=".toList.isPrefixOf t = false
  | some (g2, chars, lit) => Gap o g2 ∧ StrRepr chars lit

theorem spells_global (o : POracle) (g : GlobalItem) (s : PS) :
    SpellsAt o (parseGlobal o) s g.text (g.rd s) (fun t => g.OK o t) := by
  refine ⟨fun tail hs hf hl => ?_⟩
  obtain ⟨hnc, hnr, hqid, hq, hg1, hd⟩ := hf
  have hs' : s.rest = g.nc :: g.nrest ++ (g.qc :: (g.g1 ++ ((match g.dflt with
      | none => []
      | some (g2, _, lit) => "=".toList ++ (g2 ++ ('"' :: lit ++ ['"']))) ++ tail))) := by
    simpa [GlobalItem.text] using hs
  have hname := (SpellsAt.name (o := o) "global variable" g.nc g.nrest s hnc hnr).run_eq _ hs'
    (by intro x hx; simp at hx; subst hx; exact hqid) hl
  let s1 := advL s (g.nc :: g.nrest)
  have hs1 : s1.rest = g.qc :: (g.g1 ++ ((match g.dflt with
      | none => []
      | some (g2, _, lit) => "=".toList ++ (g2 ++ ('"' :: lit ++ ['"']))) ++ tail)) := advL_rest _ _ _ hs'
  have hl1 : s1.rest.length ≤ o.fuel := by rw [hs1]; rw [hs'] at hl; simp at hl ⊢; omega
  have hquant : run (parseQuantifier o) s1 = (.ok (quantOf g.qc), advL s1 [g.qc]) := by
    unfold parseQuantifier
    simp only [run_bind', run_tryPeek, hs1, List.head?_cons, run_skip_cons hs1]
    have hadv : advance s1 g.qc (g.g1 ++ ((match g.dflt with
      | none => []
      | some (g2, _, lit) => "=".toList ++ (g2 ++ ('"' :: lit ++ ['"']))) ++ tail)) = advL s1 [g.qc] := by simp [hs1]
    rw [hadv]
    rcases hq with h | h | h | h
    · simp [h, quantOf]
    · simp [h, quantOf]
    · simp [h, quantOf]
    · by_cases h1 : g.qc = '?'
      · simp [h1, quantOf]
      · by_cases h2 : g.qc = '*'
        · simp [h2, quantOf]
        · by_cases h3 : g.qc = '+'
          · simp [h3, quantOf]
          · simp [h1, h2, h3, h, quantOf]
  let s2 := advL s1 [g.qc]
  have hs2 : s2.rest = g.g1 ++ ((match g.dflt with
      | none => []
      | some (g2, _, lit) => "=".toList ++ (g2 ++ ('"' :: lit ++ ['"']))) ++ tail) := advL_rest s1 [g.qc] _ (by simpa using hs1)
  have hl2 : s2.rest.length ≤ o.fuel := by rw [hs2]; rw [hs1] at hl1; simp at hl1 ⊢; omega
  unfold parseGlobal parseIdentifier
  simp only [run_bind', run_getS, hname]
  rw [show advL s (g.nc :: g.nrest) = s1 from rfl, hquant]
  simp only
  rw [show advL s1 [g.qc] = s2 from rfl]
  cases hdf : g.dflt with
  | none =>
    rw [hdf] at hd hs2
    obtain ⟨htok, hne⟩ := hd
    have hs2' : s2.rest = g.g1 ++ tail := by simpa using hs2
    have hws := run_ws_gap o g.g1 _ s2 hs2' hg1 htok hl2
    have hs3 : (advL s2 g.g1).rest = tail := advL_rest _ _ _ hs2'
    rw [hws]
    simp only
    rw [run_attempt_token_err "=" _ (by rw [hs3]; exact hne)]
    simp [GlobalItem.rd, GlobalItem.text, hdf, advL_append, s2, s1]
  | some d =>
    obtain ⟨g2, chars, lit⟩ := d
    rw [hdf] at hd hs2
    obtain ⟨hg2, hstr⟩ := hd
    have hs2' : s2.rest = g.g1 ++ ("=".toList ++ (g2 ++ ('"' :: lit ++ '"' :: tail))) := by simpa using hs2
    have hws := run_ws_gap o g.g1 _ s2 hs2' hg1 (Or.inr ⟨'=', g2 ++ ('"' :: lit ++ '"' :: tail), by simp, by decide, by simp [isWs]⟩) hl2
    have hs3 : (advL s2 g.g1).rest = "=".toList ++ (g2 ++ ('"' :: lit ++ '"' :: tail)) := advL_rest _ _ _ hs2'
    have hl3 : (advL s2 g.g1).rest.length ≤ o.fuel := by rw [hs3]; rw [hs2'] at hl2; simp at hl2 ⊢; omega
    have hs4 : (advL (advL s2 g.g1) "=".toList).rest = g2 ++ ('"' :: lit ++ '"' :: tail) := advL_rest _ _ _ hs3
    have hl4 : (advL (advL s2 g.g1) "=".toList).rest.length ≤ o.fuel := by rw [hs4]; rw [hs3] at hl3; simp at hl3 ⊢; omega
    have hws4 := run_ws_gap o g2 _ _ hs4 hg2 (Or.inr ⟨'"', lit ++ '"' :: tail, by simp, by decide, by simp [isWs]⟩) hl4
    have hs5 : (advL (advL (advL s2 g.g1) "=".toList) g2).rest = '"' :: lit ++ '"' :: tail := advL_rest _ _ _ hs4
    have hl5 : (advL (advL (advL s2 g.g1) "=".toList) g2).rest.length ≤ o.fuel := by rw [hs5]; rw [hs4] at hl4; simp at hl4 ⊢; omega
    have hstrrun := run_parseString o chars lit tail _ hstr hs5 (by rw [hs5] at hl5; simp at hl5; omega)
    rw [hws]
    simp only
    rw [run_attempt_token_ok "=" _ _ hs3]
    simp only [run_bind']
    rw [hws4]
    simp only
    rw [hstrrun]
    simp [GlobalItem.rd, GlobalItem.text, hdf, advL_append, s2, s1]


/-- an attribute shorthand after its keyword: `NAME gap = gap VAR gap => gap ATTRS` -/
structure ShorthandItem where
  nc : Char
  nrest : List Char
  gA : List Char
  gB : List Char
  vc : Char
  vrest : List Char
  gV : List Char
  gC : List Char
  first : AttrItem
  attrs : List (List Char × AttrItem)

def ShorthandItem.text (h : ShorthandItem) : List Char :=
  h.nc :: h.nrest ++ (h.gA ++ ("=".toList ++ (h.gB ++ (h.vc :: h.vrest ++ h.gV ++ ("=>".toList ++ (h.gC ++ attrsText h.first h.attrs))))))

def ShorthandItem.rd (h : ShorthandItem) (s : PS) : Shorthand :=
  let sV := advL s (h.nc :: h.nrest ++ h.gA ++ "=".toList ++ h.gB)
  let sT := advL sV (h.vc :: h.vrest ++ h.gV ++ "=>".toList ++ h.gC)
  { name := String.ofList (h.nc :: h.nrest), var := String.ofList (h.vc :: h.vrest), varLoc := locOf sV,
    attrs := attrsRd sT h.first h.attrs, loc := locOf s }

def ShorthandItem.WF (o : POracle) (h : ShorthandItem) : Prop :=
  isIdentStart o h.nc = true ∧ (∀ x ∈ h.nrest, isIdent o x = true) ∧
  (∀ x, (h.gA ++ ['=']).head? = some x → isIdent o x = false) ∧
  Gap o h.gA ∧ Gap o h.gB ∧ Gap o h.gV ∧ Gap o h.gC ∧
  isIdentStart o h.vc = true ∧ (∀ x ∈ h.vrest, isIdent o x = true) ∧ h.vc ≠ ';' ∧ isWs o h.vc = false ∧
  (∀ x, (h.gV ++ ['=']).head? = some x → isIdent o x = false) ∧
  AttrText o h.first ∧ (∃ c r, h.first.cs = c :: r ∧ c ≠ ';' ∧ isWs o c = false)

def ShorthandItem.OK (o : POracle) (h : ShorthandItem) (t : List Char) : Prop :=
  h.WF o ∧ AttrsFollow o h.first h.attrs t

def ShorthandItem.fuel (h : ShorthandItem) : Nat :=
  max (max h.first.n (attrsFuel h.attrs)) (max (h.attrs.length + 1) 4)

theorem spells_shorthand (o : POracle) (h : ShorthandItem) (fuel : Nat) (s : PS) (hwf : h.WF o) (hfu : h.fuel ≤ fuel) (hf5 : 5 ≤ o.fuel) :
    SpellsAt o (parseShorthand o fuel) s h.text (h.rd s) (AttrsFollow o h.first h.attrs) := by
  simp only [ShorthandItem.fuel] at hfu
  obtain ⟨hnc, hnr, hnfol, hgA, hgB, hgV, hgC, hvc, hvr, hvsemi, hvws, hvfol, hfirst, ⟨c, r, hc, hc1, hc2⟩⟩ := hwf
  unfold parseShorthand parseIdentifier
  refine SpellsAt.cast_val (SpellsAt.conseq
    (SpellsAt.bind0 (SpellsAt.getS' s)
      (SpellsAt.bind (SpellsAt.name "shorthand name" h.nc h.nrest s hnc hnr)
        (SpellsAt.bind (SpellsAt.ws' hgA _)
          (SpellsAt.bind (SpellsAt.token "=" _)
            (SpellsAt.bind (SpellsAt.ws' hgB _)
              (SpellsAt.bind (spells_unscopedVariable o h.vc h.vrest h.gV fuel _ hvc hvr hgV (by omega) hf5)
                (SpellsAt.bind0 (SpellsAt.ws' Gap.nil _)
                  (SpellsAt.bind (SpellsAt.token "=>" _)
                    (SpellsAt.bind (SpellsAt.ws' hgC _)
                      (SpellsAt.bindE (spells_attributes o h.first h.attrs fuel _ hfirst (by omega) (by omega) (by omega) hf5)
                        (SpellsAt.pure' _ _))))))))))) ?hF) ?val
  case val => simp [ShorthandItem.rd, advL_append]
  case hF =>
    intro t ht
    have hto : TokenStart o ("=>".toList ++ (h.gC ++ attrsText h.first h.attrs) ++ t) :=
      Or.inr ⟨'=', '>' :: (h.gC ++ (attrsText h.first h.attrs ++ t)), by simp, by decide, by simp [isWs]⟩
    refine ⟨trivial, ?_, ?_, trivial, ?_, ⟨hto, by simp, ?_⟩, hto, trivial, ?_, ht, trivial⟩
    · intro x hx
      apply hnfol x
      rw [← hx]
      cases h.gA <;> simp
    · exact tokenStart_cons '=' _ (by decide) (by simp [isWs])
    · exact tokenStart_cons h.vc _ hvsemi hvws
    · intro x hx
      apply hvfol x
      rw [← hx]
      cases h.gV <;> simp
    · exact Or.inr ⟨c, r ++ (attrsRestText h.attrs ++ t), by simp [attrsText, hc], hc1, hc2⟩


/-! ### files -/

inductive FileItem where
  | global (gK : List Char) (g : GlobalItem)
  | shorthand (gK : List Char) (h : ShorthandItem)
  | inherit (gK : List Char) (nc : Char) (nrest : List Char)
  | stanza (st : StanzaItem)

def FileItem.text : FileItem → List Char
  | .global gK g => "global".toList ++ (gK ++ g.text)
  | .shorthand gK h => "attribute".toList ++ (gK ++ h.text)
  | .inherit gK nc nrest => "inherit".toList ++ (gK ++ (".".toList ++ (nc :: nrest)))
  | .stanza st => st.text

/-- the effect of an item read at state `s` on the file built so far (`parse_into_file`) -/
def FileItem.apply (s : PS) (file : File) : FileItem → File
  | .global gK g => { file with globals := file.globals ++ [g.rd (advL s ("global".toList ++ gK))] }
  | .shorthand gK h => { file with shorthands := addShorthand file.shorthands (h.rd (advL s ("attribute".toList ++ gK))) }
  | .inherit _ nc nrest =>
    let name := String.ofList (nc :: nrest)
    { file with inherited := if file.inherited.contains name then file.inherited else file.inherited ++ [name] }
  | .stanza st => { file with stanzas := file.stanzas ++ [st.rd s] }

def FileItem.fuel : FileItem → Nat
  | .global _ _ => 0
  | .shorthand _ h => h.fuel
  | .inherit _ _ _ => 0
  | .stanza st => bodyFuel st.body + 2

/-- well-formedness of an item in front of `t` -/
def FileItem.OK (o : POracle) (t : List Char) : FileItem → Prop
  | .global gK g => Gap o gK ∧ g.OK o t ∧ g.nc ≠ ';' ∧ isWs o g.nc = false
  | .shorthand gK h => Gap o gK ∧ h.OK o t ∧ h.nc ≠ ';' ∧ isWs o h.nc = false
  | .inherit gK nc nrest => Gap o gK ∧ isIdentStart o nc = true ∧ (∀ x ∈ nrest, isIdent o x = true) ∧
      (∀ x, t.head? = some x → isIdent o x = false)
  | .stanza st => st.OK o t ∧ "attribute".toList.isPrefixOf (st.text ++ t) = false ∧
      "global".toList.isPrefixOf (st.text ++ t) = false ∧ "inherit".toList.isPrefixOf (st.text ++ t) = false



/-- one turn of the loop of `parse_into_file` -/
theorem run_fileLoop_step (o : POracle) (fuel n : Nat) (file : File) (it : FileItem) (g tail : List Char) (s : PS)
    (hs : s.rest = it.text ++ (g ++ tail)) (hok : it.OK o (g ++ tail)) (hg : Gap o g) (htok : TokenStart o tail)
    (hfu : it.fuel ≤ fuel) (hf5 : 5 ≤ o.fuel) (hl : s.rest.length ≤ o.fuel) :
    run (parseFileLoop o fuel (n + 1) file) s = run (parseFileLoop o fuel n (it.apply s file)) (advL s (it.text ++ g)) := by
  have hgap : ∀ (s1 : PS), s1.rest = g ++ tail → s1.rest.length ≤ o.fuel → run (ws o) s1 = (.ok (), advL s1 g) :=
    fun s1 h1 h2 => run_ws_gap o g tail s1 h1 hg htok h2
  cases it with
  | global gK gl =>
    obtain ⟨hgK, hglok, hc1, hc2⟩ := hok
    have hs' : s.rest = "global".toList ++ (gK ++ (gl.text ++ (g ++ tail))) := by
      rw [hs]
      show ("global".toList ++ (gK ++ gl.text)) ++ (g ++ tail) = _
      simp only [List.append_assoc]
    have hne : s.rest.head? = some 'g' := by simp [hs']
    have hnoattr : "attribute".toList.isPrefixOf s.rest = false := by rw [hs']; simp [List.isPrefixOf]
    have hs1 : (advL s "global".toList).rest = gK ++ (gl.text ++ (g ++ tail)) := advL_rest _ _ _ hs'
    have hl1 : (advL s "global".toList).rest.length ≤ o.fuel := by rw [hs1]; rw [hs'] at hl; simp at hl ⊢; omega
    obtain ⟨rtxt, hrtxt⟩ := gl.text_cons
    have hws1 := run_ws_gap o gK _ _ hs1 hgK (Or.inr ⟨gl.nc, rtxt ++ (g ++ tail), by rw [hrtxt]; simp, hc1, hc2⟩) hl1
    have hs2 : (advL (advL s "global".toList) gK).rest = gl.text ++ (g ++ tail) := advL_rest _ _ _ hs1
    have hl2 : (advL (advL s "global".toList) gK).rest.length ≤ o.fuel := by rw [hs2]; rw [hs1] at hl1; simp at hl1 ⊢; omega
    have hrun := (spells_global o gl _).run_eq _ hs2 hglok hl2
    have hs3 : (advL (advL (advL s "global".toList) gK) gl.text).rest = g ++ tail := advL_rest _ _ _ hs2
    have hl3 : (advL (advL (advL s "global".toList) gK) gl.text).rest.length ≤ o.fuel := by rw [hs3]; rw [hs2] at hl2; simp at hl2 ⊢; omega
    conv => lhs; unfold parseFileLoop
    simp only [run_bind', run_tryPeek, hne]
    rw [run_attempt_token_err "attribute" s hnoattr]
    simp only [run_bind']
    rw [run_attempt_token_ok "global" _ s hs']
    simp only [run_bind']
    rw [hws1]
    simp only
    rw [hrun]
    simp only [run_pure]
    rw [hgap _ hs3 hl3]
    simp only
    have e1 : advL s ((FileItem.global gK gl).text ++ g) = advL (advL (advL (advL s "global".toList) gK) gl.text) g := by
      show advL s (("global".toList ++ (gK ++ gl.text)) ++ g) = _
      rw [advL_append, advL_append, advL_append]
    have e2 : FileItem.apply s file (FileItem.global gK gl) =
        { file with globals := file.globals ++ [gl.rd (advL (advL s "global".toList) gK)] } := by
      show { file with globals := file.globals ++ [gl.rd (advL s ("global".toList ++ gK))] } = _
      rw [advL_append]
    rw [e1, e2]
  | shorthand gK h =>
    obtain ⟨hgK, ⟨hwf, hfol⟩, hc1, hc2⟩ := hok
    have hs' : s.rest = "attribute".toList ++ (gK ++ (h.text ++ (g ++ tail))) := by
      rw [hs]
      show ("attribute".toList ++ (gK ++ h.text)) ++ (g ++ tail) = _
      simp only [List.append_assoc]
    have hne : s.rest.head? = some 'a' := by simp [hs']
    have hs1 : (advL s "attribute".toList).rest = gK ++ (h.text ++ (g ++ tail)) := advL_rest _ _ _ hs'
    have hl1 : (advL s "attribute".toList).rest.length ≤ o.fuel := by rw [hs1]; rw [hs'] at hl; simp at hl ⊢; omega
    have hws1 := run_ws_gap o gK _ _ hs1 hgK
      (Or.inr ⟨h.nc, h.nrest ++ (h.gA ++ ("=".toList ++ (h.gB ++ (h.vc :: h.vrest ++ h.gV ++ ("=>".toList ++ (h.gC ++ attrsText h.first h.attrs)))))) ++ (g ++ tail),
        by simp [ShorthandItem.text], hc1, hc2⟩) hl1
    have hs2 : (advL (advL s "attribute".toList) gK).rest = h.text ++ (g ++ tail) := advL_rest _ _ _ hs1
    have hl2 : (advL (advL s "attribute".toList) gK).rest.length ≤ o.fuel := by rw [hs2]; rw [hs1] at hl1; simp at hl1 ⊢; omega
    have hrun := (spells_shorthand o h fuel _ hwf (by simpa [FileItem.fuel] using hfu) hf5).run_eq _ hs2 hfol hl2
    have hs3 : (advL (advL (advL s "attribute".toList) gK) h.text).rest = g ++ tail := advL_rest _ _ _ hs2
    have hl3 : (advL (advL (advL s "attribute".toList) gK) h.text).rest.length ≤ o.fuel := by rw [hs3]; rw [hs2] at hl2; simp at hl2 ⊢; omega
    conv => lhs; unfold parseFileLoop
    simp only [run_bind', run_tryPeek, hne]
    rw [run_attempt_token_ok "attribute" _ s hs']
    simp only [run_bind']
    rw [hws1]
    simp only
    rw [hrun]
    simp only [run_pure]
    rw [hgap _ hs3 hl3]
    simp only
    have e1 : advL s ((FileItem.shorthand gK h).text ++ g) = advL (advL (advL (advL s "attribute".toList) gK) h.text) g := by
      show advL s (("attribute".toList ++ (gK ++ h.text)) ++ g) = _
      rw [advL_append, advL_append, advL_append]
    have e2 : FileItem.apply s file (FileItem.shorthand gK h) =
        { file with shorthands := addShorthand file.shorthands (h.rd (advL (advL s "attribute".toList) gK)) } := by
      show { file with shorthands := addShorthand file.shorthands (h.rd (advL s ("attribute".toList ++ gK))) } = _
      rw [advL_append]
    rw [e1, e2]
  | inherit gK nc nrest =>
    obtain ⟨hgK, hnc, hnr, hfol⟩ := hok
    have hs' : s.rest = "inherit".toList ++ (gK ++ (".".toList ++ (nc :: nrest ++ (g ++ tail)))) := by
      rw [hs]
      show ("inherit".toList ++ (gK ++ (".".toList ++ (nc :: nrest)))) ++ (g ++ tail) = _
      simp only [List.append_assoc]
    have hne : s.rest.head? = some 'i' := by simp [hs']
    have hnoattr : "attribute".toList.isPrefixOf s.rest = false := by rw [hs']; simp [List.isPrefixOf]
    have hnoglob : "global".toList.isPrefixOf s.rest = false := by rw [hs']; simp [List.isPrefixOf]
    have hs1 : (advL s "inherit".toList).rest = gK ++ (".".toList ++ (nc :: nrest ++ (g ++ tail))) := advL_rest _ _ _ hs'
    have hl1 : (advL s "inherit".toList).rest.length ≤ o.fuel := by rw [hs1]; rw [hs'] at hl; simp at hl ⊢; omega
    have hws1 := run_ws_gap o gK _ _ hs1 hgK (Or.inr ⟨'.', nc :: nrest ++ (g ++ tail), by simp, by decide, by simp [isWs]⟩) hl1
    have hs2 : (advL (advL s "inherit".toList) gK).rest = ".".toList ++ (nc :: nrest ++ (g ++ tail)) := advL_rest _ _ _ hs1
    have hl2 : (advL (advL s "inherit".toList) gK).rest.length ≤ o.fuel := by rw [hs2]; rw [hs1] at hl1; simp at hl1 ⊢; omega
    have hs3 : (advL (advL (advL s "inherit".toList) gK) ".".toList).rest = nc :: nrest ++ (g ++ tail) := advL_rest _ _ _ hs2
    have hl3 : (advL (advL (advL s "inherit".toList) gK) ".".toList).rest.length ≤ o.fuel := by rw [hs3]; rw [hs2] at hl2; simp at hl2 ⊢; omega
    have hname := (SpellsAt.name (o := o) "inherit" nc nrest _ hnc hnr).run_eq _ hs3 hfol hl3
    have hs4 : (advL (advL (advL (advL s "inherit".toList) gK) ".".toList) (nc :: nrest)).rest = g ++ tail := advL_rest _ _ _ hs3
    have hl4 : (advL (advL (advL (advL s "inherit".toList) gK) ".".toList) (nc :: nrest)).rest.length ≤ o.fuel := by
      rw [hs4]; rw [hs3] at hl3; simp at hl3 ⊢; omega
    conv => lhs; unfold parseFileLoop
    simp only [run_bind', run_tryPeek, hne]
    rw [run_attempt_token_err "attribute" s hnoattr]
    simp only [run_bind']
    rw [run_attempt_token_err "global" s hnoglob]
    simp only [run_bind']
    rw [run_attempt_token_ok "inherit" _ s hs']
    simp only [run_bind']
    rw [hws1]
    simp only [run_consumeToken_ok "." _ _ hs2, parseIdentifier]
    rw [hname]
    simp only [run_pure]
    rw [hgap _ hs4 hl4]
    simp only
    have e1 : advL s ((FileItem.inherit gK nc nrest).text ++ g) =
        advL (advL (advL (advL (advL s "inherit".toList) gK) ".".toList) (nc :: nrest)) g := by
      show advL s (("inherit".toList ++ (gK ++ (".".toList ++ (nc :: nrest)))) ++ g) = _
      rw [advL_append, advL_append, advL_append, advL_append]
    rw [e1]
    rfl
  | stanza st =>
    obtain ⟨hstok, hno1, hno2, hno3⟩ := hok
    have hs' : s.rest = st.text ++ (g ++ tail) := hs
    have hne : ∃ c, s.rest.head? = some c := by
      rw [hs']; simp only [StanzaItem.text, blockText]
      cases st.q <;> simp
    obtain ⟨c, hc⟩ := hne
    have hrun := (spells_stanza o st fuel s (by simp [FileItem.fuel] at hfu; omega) hf5).run_eq _ hs' hstok hl
    have hs3 : (advL s st.text).rest = g ++ tail := advL_rest _ _ _ hs'
    have hl3 : (advL s st.text).rest.length ≤ o.fuel := by rw [hs3]; rw [hs'] at hl; simp at hl ⊢; omega
    conv => lhs; unfold parseFileLoop
    simp only [run_bind', run_tryPeek, hc]
    rw [run_attempt_token_err "attribute" s (by rw [hs']; exact hno1)]
    simp only [run_bind']
    rw [run_attempt_token_err "global" s (by rw [hs']; exact hno2)]
    simp only [run_bind']
    rw [run_attempt_token_err "inherit" s (by rw [hs']; exact hno3)]
    simp only [run_bind']
    rw [hrun]
    simp only [run_pure]
    rw [hgap _ hs3 hl3]
    simp only
    have e1 : advL s ((FileItem.stanza st).text ++ g) = advL (advL s st.text) g := by
      show advL s (st.text ++ g) = _
      rw [advL_append]
    rw [e1]
    rfl

/-- the items of a file, each followed by its layout gap -/
def fileItemsText : List (FileItem × List Char) → List Char
  | [] => []
  | (it, g) :: more => it.text ++ (g ++ fileItemsText more)

/-- the file built by reading the items from state `s` on -/
def fileItemsApply (s : PS) (file : File) : List (FileItem × List Char) → File
  | [] => file
  | (it, g) :: more => fileItemsApply (advL s (it.text ++ g)) (it.apply s file) more

def FileItemsOK (o : POracle) : List (FileItem × List Char) → Prop
  | [] => True
  | (it, g) :: more => it.OK o (g ++ fileItemsText more) ∧ Gap o g ∧ TokenStart o (fileItemsText more) ∧ FileItemsOK o more

def fileItemsFuel : List (FileItem × List Char) → Nat
  | [] => 0
  | (it, _) :: more => max it.fuel (fileItemsFuel more)

theorem run_fileLoop (o : POracle) (fuel : Nat) (hf5 : 5 ≤ o.fuel) :
    ∀ (items : List (FileItem × List Char)) (n : Nat) (file : File) (s : PS),
      items.length < n → fileItemsFuel items ≤ fuel → FileItemsOK o items → s.rest = fileItemsText items → s.rest.length ≤ o.fuel →
      run (parseFileLoop o fuel n file) s = (.ok (fileItemsApply s file items), advL s (fileItemsText items)) := by
  intro items
  induction items with
  | nil =>
    intro n file s hn _ _ hs _
    obtain ⟨m, rfl⟩ : ∃ m, n = m + 1 := ⟨n - 1, by simp at hn; omega⟩
    have hs' : s.rest = [] := by simpa [fileItemsText] using hs
    unfold parseFileLoop
    simp [run_bind', run_tryPeek, hs', fileItemsApply, fileItemsText]
  | cons x more ih =>
    intro n file s hn hfu hok hs hl
    obtain ⟨it, g⟩ := x
    obtain ⟨m, rfl⟩ : ∃ m, n = m + 1 := ⟨n - 1, by simp at hn; omega⟩
    obtain ⟨hit, hg, htok, hmore⟩ := hok
    have hs' : s.rest = it.text ++ (g ++ fileItemsText more) := by simpa [fileItemsText] using hs
    rw [run_fileLoop_step o fuel m file it g (fileItemsText more) s hs' hit hg htok (by simp [fileItemsFuel] at hfu; omega) hf5 hl]
    have hs1 : (advL s (it.text ++ g)).rest = fileItemsText more := advL_rest _ _ _ (by simpa using hs')
    have hl1 : (advL s (it.text ++ g)).rest.length ≤ o.fuel := by rw [hs1]; rw [hs'] at hl; simp at hl ⊢; omega
    rw [ih m _ _ (by simp at hn; omega) (by simp [fileItemsFuel] at hfu; omega) hmore hs1 hl1]
    simp only [fileItemsApply, fileItemsText, ← List.append_assoc, advL_append]

/-- `gap (ITEM gap)*` -/
def fileText (g0 : List Char) (items : List (FileItem × List Char)) : List Char := g0 ++ fileItemsText items

def emptyFile : File := { globals := [], inherited := [], stanzas := [], shorthands := [] }

theorem run_parseFile (o : POracle) (fuel : Nat) (g0 : List Char) (items : List (FileItem × List Char)) (s : PS)
    (hg0 : Gap o g0) (htok : TokenStart o (fileItemsText items)) (hok : FileItemsOK o items)
    (hn : items.length < fuel) (hfu : fileItemsFuel items ≤ fuel) (hf5 : 5 ≤ o.fuel)
    (hs : s.rest = fileText g0 items) (hl : s.rest.length ≤ o.fuel) :
    run (parseFile o fuel) s = (.ok (fileItemsApply (advL s g0) emptyFile items), advL s (fileText g0 items)) := by
  have hws := run_ws_gap o g0 _ s hs hg0 htok hl
  have hs1 : (advL s g0).rest = fileItemsText items := advL_rest _ _ _ hs
  have hl1 : (advL s g0).rest.length ≤ o.fuel := by rw [hs1]; rw [hs] at hl; simp [fileText] at hl ⊢; omega
  unfold parseFile
  simp only [run_bind']
  rw [hws]
  simp only
  rw [show ({ globals := [], inherited := [], stanzas := [], shorthands := [] } : File) = emptyFile from rfl,
    run_fileLoop o fuel hf5 items fuel emptyFile _ hn hfu hok hs1 hl1]
  simp [fileText, advL_append]

/-- **Round trip for whole files.** A text made of a leading gap and any sequence of globals, attribute shorthands,
inherit declarations and stanzas — each well-formed in front of what follows it, separated by arbitrary gaps — parses
to exactly the file its items denote: every statement, expression, name and location, in order. -/
theorem parse_roundtrip (o : POracle) (text : String) (g0 : List Char) (items : List (FileItem × List Char))
    (htext : text.toList = fileText g0 items)
    (hg0 : Gap { o with fuel := text.length + 2 } g0)
    (htok : TokenStart { o with fuel := text.length + 2 } (fileItemsText items))
    (hok : FileItemsOK { o with fuel := text.length + 2 } items)
    (hfu : fileItemsFuel items ≤ 8 * (text.length + 2)) (hlen : 3 ≤ text.length) :
    parse o text = .ok (fileItemsApply (advL (initState text) g0) emptyFile items) := by
  have hn : items.length < 8 * (text.length + 2) := by
    have : (fileItemsText items).length ≤ text.length := by
      rw [← String.length_toList, htext]; simp [fileText]
    have h2 : ∀ l : List (FileItem × List Char), l.length ≤ (fileItemsText l).length := by
      intro l
      induction l with
      | nil => simp
      | cons x more ih =>
        obtain ⟨it, g⟩ := x
        have hkw : ∀ (k : String) (r : List Char), 0 < k.length → 0 < (k.toList ++ r).length := by
          intro k r hk; rw [List.length_append, String.length_toList]; omega
        have hpos : 0 < it.text.length := by
          cases it with
          | global gK gl => exact hkw "global" _ (by decide)
          | shorthand gK h => exact hkw "attribute" _ (by decide)
          | inherit gK nc nrest => exact hkw "inherit" _ (by decide)
          | stanza st =>
            show 0 < (st.q ++ blockText st.gB st.body).length
            simp [blockText]; omega
        simp only [fileItemsText, List.length_cons, List.length_append]
        omega
    have := h2 items
    omega
  unfold parse
  simp only
  rw [run_parseFile { o with fuel := text.length + 2 } (8 * (text.length + 2)) g0 items (initState text) hg0 htok hok hn hfu
    (by simp; omega) (by simp [initState, htext]) (by simp [initState, String.length_toList])]

end Parser
