/-
  Round trip for statements, built with `SpellsAt` from the round trip for expressions.
-/
import Tsg.Proofs.ParserSpell

namespace Parser
open PP

/-- the variable an expression denotes on the left of `=` (`parse_variable`) -/
def exprVar : Expr → Option Var
  | .var name l => some (.unscoped name l)
  | .scopedVar scope name l => some (.scopedV scope name l)
  | _ => none

/-- a variable as written: an expression text that reads as a variable -/
structure VarItem where
  it : Item
  vr : PS → Var

def VarItem.OK (o : POracle) (v : VarItem) : Prop :=
  ExprText o v.it.n v.it.cs v.it.rd v.it.F ∧ ∀ s, exprVar (v.it.rd s) = some (v.vr s)

theorem SpellsAt.variable {o : POracle} (v : VarItem) (hv : v.OK o) (fuel : Nat) (hn : v.it.n < fuel) (hf5 : 5 ≤ o.fuel) (s : PS) :
    SpellsAt o (parseVariable o fuel) s v.it.cs (v.vr s) (fun t => v.it.F t.head?) := by
  obtain ⟨f, rfl⟩ : ∃ f, fuel = f + 1 := ⟨fuel - 1, by omega⟩
  refine ⟨fun tail hs hf hl => ?_⟩
  have h := hv.1 f s tail (by omega) hs hf hl hf5
  have hvar := hv.2 s
  unfold parseVariable
  simp only [run_bind', run_getS, h]
  cases he : v.it.rd s <;> simp [he, exprVar] at hvar ⊢ <;> simp [hvar]

/-- statement texts -/
def StmtText (o : POracle) (n : Nat) (cs : List Char) (rd : PS → Stmt) (F : List Char → Prop) : Prop :=
  ∀ (fuel : Nat) (s : PS), n ≤ fuel → 5 ≤ o.fuel → SpellsAt o (parseStatement o fuel) s cs (rd s) F

/-- a keyword at the start of a statement, followed by something that is not an identifier character -/
theorem SpellsAt.kw {o : POracle} (kw : String) (c : Char) (cs : List Char) (hkw : kw.toList = c :: cs)
    (hc : isIdentStart o c = true) (hcs : ∀ x ∈ cs, isIdent o x = true) (s : PS) :
    SpellsAt o (parseName o "keyword") s kw.toList kw (fun t => ∀ x, t.head? = some x → isIdent o x = false) := by
  have := SpellsAt.name (o := o) "keyword" c cs s hc hcs
  rw [← hkw] at this
  simpa [String.ofList_toList] using this


/-- first character of an expression text: starts a token -/
def Item.Starts (o : POracle) (it : Item) : Prop := ∃ c r, it.cs = c :: r ∧ c ≠ ';' ∧ isWs o c = false

theorem Item.Starts.tokenStart {o : POracle} {it : Item} (h : it.Starts o) (t : List Char) : TokenStart o (it.cs ++ t) := by
  obtain ⟨c, r, hc, h1, h2⟩ := h
  exact Or.inr ⟨c, r ++ t, by simp [hc], h1, h2⟩

theorem tokenStart_cons {o : POracle} (c : Char) (t : List Char) (h1 : c ≠ ';') (h2 : isWs o c = false) : TokenStart o (c :: t) :=
  Or.inr ⟨c, t, rfl, h1, h2⟩

/-- `let` / `var` / `set`: `kw gap VAR = gap EXPR` -/
inductive DeclKind where | letK | varK | setK

def DeclKind.kw : DeclKind → String
  | .letK => "let" | .varK => "var" | .setK => "set"
def DeclKind.mk : DeclKind → Var → Expr → Loc → Stmt
  | .letK => .declImm | .varK => .declMut | .setK => .assign

def declText (k : DeclKind) (g1 : List Char) (v : VarItem) (g2 : List Char) (e : Item) : List Char :=
  k.kw.toList ++ (g1 ++ (v.it.cs ++ ("=".toList ++ (g2 ++ e.cs))))

theorem stmtText_decl (o : POracle) (k : DeclKind) (g1 : List Char) (v : VarItem) (g2 : List Char) (e : Item)
    (hg1 : Gap o g1) (hg2 : Gap o g2) (hv : v.OK o) (he : ExprText o e.n e.cs e.rd e.F)
    (hkwfol : ∀ x, (g1 ++ v.it.cs).head? = some x → isIdent o x = false)
    (hvs : v.it.Starts o) (hes : e.Starts o) (hvF : v.it.F (some '=')) :
    StmtText o (max v.it.n e.n + 2) (declText k g1 v g2 e)
      (fun s =>
        let sV := advL s (k.kw.toList ++ g1)
        let sE := advL sV (v.it.cs ++ "=".toList ++ g2)
        k.mk (v.vr sV) (e.rd sE) (locOf s))
      (fun t => e.F t.head?) := by
  intro fuel s hn hf5
  obtain ⟨f, rfl⟩ : ∃ f, fuel = f + 1 := ⟨fuel - 1, by omega⟩
  have hname : SpellsAt o (parseName o "keyword") s k.kw.toList k.kw (fun t => ∀ x, t.head? = some x → isIdent o x = false) := by
    cases k
    · exact SpellsAt.kw "let" 'l' ['e', 't'] rfl (by simp [isIdentStart, isAlpha]) (by simp [isIdent, isAlnum]) s
    · exact SpellsAt.kw "var" 'v' ['a', 'r'] rfl (by simp [isIdentStart, isAlpha]) (by simp [isIdent, isAlnum]) s
    · exact SpellsAt.kw "set" 's' ['e', 't'] rfl (by simp [isIdentStart, isAlpha]) (by simp [isIdent, isAlnum]) s
  -- the tail of the statement is the same program in the three cases
  have hbody : ∀ (mk : Var → Expr → Loc → Stmt) (s1 : PS),
      SpellsAt o (do
          let v ← parseVariable o f
          ws o; consumeToken "="; ws o
          let e ← parseExpression o f
          Pure.pure (mk v e (locOf s))) s1 (v.it.cs ++ ("=".toList ++ (g2 ++ e.cs)))
        (mk (v.vr s1) (e.rd (advL s1 (v.it.cs ++ "=".toList ++ g2))) (locOf s))
        (fun t => e.F t.head?) := by
    intro mk s1
    refine SpellsAt.cast_val (SpellsAt.conseq
      (SpellsAt.bind (SpellsAt.variable v hv f (by omega) hf5 s1)
        (SpellsAt.bind0 (SpellsAt.ws' Gap.nil _)
          (SpellsAt.bind (SpellsAt.token "=" _)
            (SpellsAt.bind (SpellsAt.ws' hg2 _)
              (SpellsAt.bindE (SpellsAt.expr he f (by omega) hf5 _) (SpellsAt.pure' _ _)))))) ?_) (by simp [advL_append])
    intro t ht
    refine ⟨by simpa using hvF, ?_, trivial, ?_, ht, trivial⟩
    · exact tokenStart_cons '=' _ (by decide) (by simp [isWs])
    · exact hes.tokenStart t
  unfold parseStatement
  refine SpellsAt.cast_val (SpellsAt.conseq
    (SpellsAt.bind0 (SpellsAt.getS' s)
      (SpellsAt.bind hname
        (SpellsAt.bind (SpellsAt.ws' hg1 _) (b := k.mk (v.vr (advL (advL s k.kw.toList) g1))
            (e.rd (advL (advL (advL s k.kw.toList) g1) (v.it.cs ++ "=".toList ++ g2))) (locOf s))
          (F2 := fun t => e.F t.head?) ?body))) ?hF) ?val
  case body =>
    cases k
    · simp only [DeclKind.kw, if_true]; exact hbody Stmt.declImm _
    · simp only [DeclKind.kw, show ("var" = "let") = False by simp, if_false, if_true]; exact hbody Stmt.declMut _
    · simp only [DeclKind.kw, show ("set" = "let") = False by simp, show ("set" = "var") = False by simp, if_false, if_true]
      exact hbody Stmt.assign _
  case hF =>
    intro t ht
    refine ⟨trivial, ?_, ?_, ht⟩
    · intro x hx
      apply hkwfol x
      rw [← hx]
      obtain ⟨c, r, hc, _, _⟩ := hvs
      cases g1 <;> simp [hc]
    · simpa [List.append_assoc] using hvs.tokenStart ("=".toList ++ (g2 ++ (e.cs ++ t)))
  case val => simp [advL_append]


/-! the keyword dispatch of `parse_statement`: string-literal disequalities used to select a branch -/
theorem kw_ne :
    ("node" = "let") = False ∧ ("node" = "var") = False ∧ ("node" = "set") = False ∧
    ("edge" = "let") = False ∧ ("edge" = "var") = False ∧ ("edge" = "set") = False ∧ ("edge" = "node") = False ∧
    ("attr" = "let") = False ∧ ("attr" = "var") = False ∧ ("attr" = "set") = False ∧ ("attr" = "node") = False ∧ ("attr" = "edge") = False ∧
    ("print" = "let") = False ∧ ("print" = "var") = False ∧ ("print" = "set") = False ∧ ("print" = "node") = False ∧ ("print" = "edge") = False ∧
    ("print" = "attr") = False := by simp

/-- `node VAR` -/
def nodeText (g1 : List Char) (v : VarItem) : List Char := "node".toList ++ (g1 ++ v.it.cs)

theorem stmtText_node (o : POracle) (g1 : List Char) (v : VarItem) (hg1 : Gap o g1) (hv : v.OK o)
    (hkwfol : ∀ x, (g1 ++ v.it.cs).head? = some x → isIdent o x = false) (hvs : v.it.Starts o) :
    StmtText o (v.it.n + 2) (nodeText g1 v)
      (fun s => .createNode (v.vr (advL s ("node".toList ++ g1))) (locOf s)) (fun t => v.it.F t.head?) := by
  intro fuel s hn hf5
  obtain ⟨f, rfl⟩ : ∃ f, fuel = f + 1 := ⟨fuel - 1, by omega⟩
  have hname := SpellsAt.kw (o := o) "node" 'n' ['o', 'd', 'e'] rfl (by simp [isIdentStart, isAlpha]) (by simp [isIdent, isAlnum]) s
  unfold parseStatement
  refine SpellsAt.cast_val (SpellsAt.conseq
    (SpellsAt.bind0 (SpellsAt.getS' s)
      (SpellsAt.bind hname
        (SpellsAt.bind (SpellsAt.ws' hg1 _) (b := Stmt.createNode (v.vr (advL (advL s "node".toList) g1)) (locOf s))
          (F2 := fun t => v.it.F t.head?) ?body))) ?hF) ?val
  case body =>
    simp only [kw_ne, if_false, if_true]
    exact SpellsAt.conseq (SpellsAt.bindE (SpellsAt.variable v hv f (by omega) hf5 _) (SpellsAt.pure' _ _)) (fun t ht => ⟨ht, trivial⟩)
  case hF =>
    intro t ht
    refine ⟨trivial, ?_, ?_, ht⟩
    · intro x hx
      apply hkwfol x
      rw [← hx]
      obtain ⟨c, r, hc, _, _⟩ := hvs
      cases g1 <;> simp [hc]
    · exact hvs.tokenStart t
  case val => simp [advL_append]

/-- `edge A -> B` -/
def edgeText (g1 : List Char) (a : Item) (g2 : List Char) (b : Item) : List Char :=
  "edge".toList ++ (g1 ++ (a.cs ++ ("->".toList ++ (g2 ++ b.cs))))

theorem stmtText_edge (o : POracle) (g1 : List Char) (a : Item) (g2 : List Char) (b : Item)
    (hg1 : Gap o g1) (hg2 : Gap o g2) (ha : ExprText o a.n a.cs a.rd a.F) (hb : ExprText o b.n b.cs b.rd b.F)
    (hkwfol : ∀ x, (g1 ++ a.cs).head? = some x → isIdent o x = false)
    (has : a.Starts o) (hbs : b.Starts o) (haF : a.F (some '-')) :
    StmtText o (max a.n b.n + 1) (edgeText g1 a g2 b)
      (fun s =>
        let sA := advL s ("edge".toList ++ g1)
        let sB := advL sA (a.cs ++ "->".toList ++ g2)
        .createEdge (a.rd sA) (b.rd sB) (locOf s))
      (fun t => b.F t.head?) := by
  intro fuel s hn hf5
  obtain ⟨f, rfl⟩ : ∃ f, fuel = f + 1 := ⟨fuel - 1, by omega⟩
  have hname := SpellsAt.kw (o := o) "edge" 'e' ['d', 'g', 'e'] rfl (by simp [isIdentStart, isAlpha]) (by simp [isIdent, isAlnum]) s
  unfold parseStatement
  refine SpellsAt.cast_val (SpellsAt.conseq
    (SpellsAt.bind0 (SpellsAt.getS' s)
      (SpellsAt.bind hname
        (SpellsAt.bind (SpellsAt.ws' hg1 _)
          (b := Stmt.createEdge (a.rd (advL (advL s "edge".toList) g1))
            (b.rd (advL (advL (advL s "edge".toList) g1) (a.cs ++ "->".toList ++ g2))) (locOf s))
          (F2 := fun t => b.F t.head?) ?body))) ?hF) ?val
  case body =>
    simp only [kw_ne, if_false, if_true]
    refine SpellsAt.cast_val (SpellsAt.conseq
      (SpellsAt.bind (SpellsAt.expr ha f (by omega) hf5 _)
        (SpellsAt.bind0 (SpellsAt.ws' Gap.nil _)
          (SpellsAt.bind (SpellsAt.token "->" _)
            (SpellsAt.bind (SpellsAt.ws' hg2 _)
              (SpellsAt.bindE (SpellsAt.expr hb f (by omega) hf5 _) (SpellsAt.pure' _ _)))))) ?_) (by simp [advL_append])
    intro t ht
    refine ⟨by simpa using haF, ?_, trivial, ?_, ht, trivial⟩
    · exact tokenStart_cons '-' _ (by decide) (by simp [isWs])
    · exact hbs.tokenStart t
  case hF =>
    intro t ht
    refine ⟨trivial, ?_, ?_, ht⟩
    · intro x hx
      apply hkwfol x
      rw [← hx]
      obtain ⟨c, r, hc, _, _⟩ := has
      cases g1 <;> simp [hc]
    · simpa [List.append_assoc] using has.tokenStart ("->".toList ++ (g2 ++ (b.cs ++ t)))
  case val => simp [advL_append]


/-! ### attributes -/

/-- an attribute as written -/
structure AttrItem where
  n : Nat
  cs : List Char
  rd : PS → AttrE
  F : List Char → Prop

def AttrText (o : POracle) (a : AttrItem) : Prop :=
  ∀ (fuel : Nat) (s : PS), a.n ≤ fuel → 5 ≤ o.fuel → SpellsAt o (parseAttribute o fuel) s a.cs (a.rd s) a.F

/-- `name gap = gap EXPR` -/
def attrValued (o : POracle) (nc : Char) (nrest gA gB : List Char) (e : Item) : AttrItem :=
  { n := e.n, cs := nc :: nrest ++ (gA ++ ("=".toList ++ (gB ++ e.cs))),
    rd := fun s => (String.ofList (nc :: nrest), e.rd (advL s (nc :: nrest ++ gA ++ "=".toList ++ gB))),
    F := fun t => e.F t.head? }

theorem attrText_valued (o : POracle) (nc : Char) (nrest gA gB : List Char) (e : Item)
    (hnc : isIdentStart o nc = true) (hnr : ∀ x ∈ nrest, isIdent o x = true)
    (hgA : Gap o gA) (hgB : Gap o gB) (he : ExprText o e.n e.cs e.rd e.F) (hes : e.Starts o)
    (hnfol : ∀ x, (gA ++ ['=']).head? = some x → isIdent o x = false) :
    AttrText o (attrValued o nc nrest gA gB e) := by
  intro fuel s hn hf5
  unfold parseAttribute parseIdentifier
  refine SpellsAt.cast_val (SpellsAt.conseq
    (SpellsAt.bind (SpellsAt.name "attribute name" nc nrest s hnc hnr)
      (SpellsAt.bind (SpellsAt.ws' hgA _)
        (SpellsAt.bind0 (SpellsAt.tryPeek' _ (some '='))
          (b := (String.ofList (nc :: nrest), e.rd (advL (advL (advL (advL s (nc :: nrest)) gA) "=".toList) gB)))
          (F2 := fun t => e.F t.head?) ?body))) ?hF) ?val
  case body =>
    simp only [if_true]
    refine SpellsAt.conseq
      (SpellsAt.bind (SpellsAt.token "=" _)
        (SpellsAt.bind (SpellsAt.ws' hgB _)
          (SpellsAt.bindE (SpellsAt.expr he fuel hn hf5 _) (SpellsAt.pure' _ _)))) ?_
    intro t ht
    exact ⟨trivial, hes.tokenStart t, ht, trivial⟩
  case hF =>
    intro t ht
    refine ⟨?_, ?_, ?_, ht⟩
    · intro x hx
      apply hnfol x
      rw [← hx]
      cases gA <;> simp
    · exact tokenStart_cons '=' _ (by decide) (by simp [isWs])
    · simp
  case val => simp [attrValued, advL_append]


/-- `name gap` (the attribute is `#true`) -/
def attrBare (o : POracle) (nc : Char) (nrest gA : List Char) : AttrItem :=
  { n := 0, cs := nc :: nrest ++ gA,
    rd := fun _ => (String.ofList (nc :: nrest), .trueLit),
    F := fun t => t.head? ≠ some '=' ∧ TokenStart o t ∧ ∀ x, (gA ++ t).head? = some x → isIdent o x = false }

theorem attrText_bare (o : POracle) (nc : Char) (nrest gA : List Char)
    (hnc : isIdentStart o nc = true) (hnr : ∀ x ∈ nrest, isIdent o x = true) (hgA : Gap o gA) :
    AttrText o (attrBare o nc nrest gA) := by
  intro fuel s _ _
  refine ⟨fun tail hs hf hl => ?_⟩
  obtain ⟨hne, htok, hfol⟩ := hf
  have hs' : s.rest = nc :: nrest ++ (gA ++ tail) := by simpa [attrBare] using hs
  have h1 := (SpellsAt.name (o := o) "attribute name" nc nrest s hnc hnr).run_eq (gA ++ tail) hs' hfol hl
  have hs1 : (advL s (nc :: nrest)).rest = gA ++ tail := advL_rest s _ _ hs'
  have hl1 : (advL s (nc :: nrest)).rest.length ≤ o.fuel := by
    rw [hs1]; rw [hs'] at hl; simp at hl ⊢; omega
  have h2 := run_ws_gap o gA tail _ hs1 hgA htok hl1
  have hs2 : (advL (advL s (nc :: nrest)) gA).rest = tail := advL_rest _ _ _ hs1
  unfold parseAttribute parseIdentifier
  simp only [run_bind', h1, h2, run_tryPeek, hs2]
  rw [if_neg hne]
  simp [attrBare, advL_append]

/-- `, gap ATTR` repeated -/
def attrsRestText : List (List Char × AttrItem) → List Char
  | [] => []
  | (g, a) :: more => ',' :: g ++ (a.cs ++ attrsRestText more)

def attrsRestRd (s : PS) : List (List Char × AttrItem) → List AttrE
  | [] => []
  | (g, a) :: more =>
    let sA := advL s (',' :: g)
    a.rd sA :: attrsRestRd (advL sA a.cs) more

/-- each attribute is well-formed, its follower condition holds in front of what comes next, and a token starts there -/
def AttrsRestOK (o : POracle) (tail : List Char) : List (List Char × AttrItem) → Prop
  | [] => True
  | (g, a) :: more =>
    Gap o g ∧ AttrText o a ∧ (∃ c r, a.cs = c :: r ∧ c ≠ ';' ∧ isWs o c = false) ∧
    a.F (attrsRestText more ++ tail) ∧ TokenStart o (attrsRestText more ++ tail) ∧ AttrsRestOK o tail more

def attrsFuel : List (List Char × AttrItem) → Nat
  | [] => 0
  | (_, a) :: more => max a.n (attrsFuel more)

theorem spells_attrsLoop (o : POracle) (fuel : Nat) (hf5 : 5 ≤ o.fuel) :
    ∀ (items : List (List Char × AttrItem)) (n : Nat) (s : PS) (tail : List Char),
      items.length < n → attrsFuel items ≤ fuel → AttrsRestOK o tail items → tail.head? ≠ some ',' →
      s.rest = attrsRestText items ++ tail → s.rest.length ≤ o.fuel →
      run (parseAttributesLoop o fuel n) s = (.ok (attrsRestRd s items), advL s (attrsRestText items)) := by
  intro items
  induction items with
  | nil =>
    intro n s tail hn _ _ hne hs _
    obtain ⟨m, rfl⟩ : ∃ m, n = m + 1 := ⟨n - 1, by simp at hn; omega⟩
    have hs' : s.rest = tail := by simpa [attrsRestText] using hs
    unfold parseAttributesLoop
    simp only [run_bind', run_tryPeek, hs']
    rw [if_neg hne]
    simp [attrsRestRd, attrsRestText, advL]
  | cons it more ih =>
    intro n s tail hn hfu hok hne hs hl
    obtain ⟨g, a⟩ := it
    obtain ⟨m, rfl⟩ : ∃ m, n = m + 1 := ⟨n - 1, by simp at hn; omega⟩
    obtain ⟨hg, ha, ⟨c, r, hc, hc1, hc2⟩, haF, htok, hmore⟩ := hok
    have hs' : s.rest = ',' :: (g ++ (a.cs ++ (attrsRestText more ++ tail))) := by simpa [attrsRestText] using hs
    have hs1 : (advL s [',']).rest = g ++ (a.cs ++ (attrsRestText more ++ tail)) := advL_rest s [','] _ (by simpa using hs')
    have hl1 : (advL s [',']).rest.length ≤ o.fuel := by rw [hs1]; rw [hs'] at hl; simp at hl ⊢; omega
    have hws1 := run_ws_gap o g _ _ hs1 hg (Or.inr ⟨c, r ++ (attrsRestText more ++ tail), by simp [hc], hc1, hc2⟩) hl1
    have hs2 : (advL (advL s [',']) g).rest = a.cs ++ (attrsRestText more ++ tail) := advL_rest _ _ _ hs1
    have hl2 : (advL (advL s [',']) g).rest.length ≤ o.fuel := by rw [hs2]; rw [hs1] at hl1; simp at hl1 ⊢; omega
    have hfa : a.n ≤ fuel := by simp [attrsFuel] at hfu; omega
    have hrunA := (ha fuel _ hfa hf5).run_eq _ hs2 haF hl2
    have hs3 : (advL (advL (advL s [',']) g) a.cs).rest = attrsRestText more ++ tail := advL_rest _ _ _ hs2
    have hl3 : (advL (advL (advL s [',']) g) a.cs).rest.length ≤ o.fuel := by rw [hs3]; rw [hs2] at hl2; simp at hl2 ⊢; omega
    have hws3 := run_ws_gap o [] _ _ (by simpa using hs3) Gap.nil htok hl3
    have hrec := ih m _ tail (by simp at hn; omega) (by simp [attrsFuel] at hfu; omega) hmore hne hs3 hl3
    unfold parseAttributesLoop
    simp only [run_bind', run_tryPeek, hs', List.head?_cons, if_true]
    have hskip : run skip s = (.ok (), advL s [',']) := (SpellsAt.skip' (o := o) s ',').run_eq _ (by simpa using hs') trivial hl
    rw [hskip]
    simp only
    rw [hws1]
    simp only
    rw [hrunA]
    simp only
    rw [hws3]
    simp only [advL_nil]
    rw [hrec]
    simp only [run_pure, attrsRestRd, attrsRestText]
    rw [show (',' :: g ++ (a.cs ++ attrsRestText more)) = [','] ++ (g ++ (a.cs ++ attrsRestText more)) by simp]
    simp [advL_append, advL]


/-- `ATTR (, gap ATTR)*` -/
def attrsText (first : AttrItem) (items : List (List Char × AttrItem)) : List Char := first.cs ++ attrsRestText items

def attrsRd (s : PS) (first : AttrItem) (items : List (List Char × AttrItem)) : List AttrE :=
  first.rd s :: attrsRestRd (advL s first.cs) items

/-- what must hold in front of the text that follows an attribute list -/
def AttrsFollow (o : POracle) (first : AttrItem) (items : List (List Char × AttrItem)) (t : List Char) : Prop :=
  first.F (attrsRestText items ++ t) ∧ TokenStart o (attrsRestText items ++ t) ∧ AttrsRestOK o t items ∧ t.head? ≠ some ','

theorem spells_attributes (o : POracle) (first : AttrItem) (items : List (List Char × AttrItem)) (fuel : Nat) (s : PS)
    (hfirst : AttrText o first) (hfu1 : first.n ≤ fuel) (hfu2 : attrsFuel items ≤ fuel) (hlen : items.length < fuel) (hf5 : 5 ≤ o.fuel) :
    SpellsAt o (parseAttributes o fuel) s (attrsText first items) (attrsRd s first items) (AttrsFollow o first items) := by
  refine ⟨fun tail hs hf hl => ?_⟩
  obtain ⟨hF, htok, hok, hne⟩ := hf
  have hs' : s.rest = first.cs ++ (attrsRestText items ++ tail) := by simpa [attrsText] using hs
  have h1 := (hfirst fuel s hfu1 hf5).run_eq _ hs' hF hl
  have hs1 : (advL s first.cs).rest = attrsRestText items ++ tail := advL_rest _ _ _ hs'
  have hl1 : (advL s first.cs).rest.length ≤ o.fuel := by rw [hs1]; rw [hs'] at hl; simp at hl ⊢; omega
  have hws := run_ws_gap o [] _ _ (by simpa using hs1) Gap.nil htok hl1
  have hloop := spells_attrsLoop o fuel hf5 items fuel (advL s first.cs) tail hlen hfu2 hok hne hs1 hl1
  unfold parseAttributes
  simp only [run_bind', h1, hws, advL_nil, hloop, run_pure, attrsRd, attrsText, advL_append]


/-- `attr ( gap A ) gap ATTRS` -/
def attrNodeText (g0 g1 : List Char) (a : Item) (g3 : List Char) (first : AttrItem) (items : List (List Char × AttrItem)) : List Char :=
  "attr".toList ++ (g0 ++ ("(".toList ++ (g1 ++ (a.cs ++ (")".toList ++ (g3 ++ attrsText first items))))))

theorem stmtText_attrNode (o : POracle) (g0 g1 : List Char) (a : Item) (g3 : List Char) (first : AttrItem)
    (items : List (List Char × AttrItem))
    (hg0 : Gap o g0) (hg1 : Gap o g1) (hg3 : Gap o g3) (ha : ExprText o a.n a.cs a.rd a.F) (has : a.Starts o)
    (haF : a.F (some ')')) (hfirst : AttrText o first)
    (hfs : ∃ c r, first.cs = c :: r ∧ c ≠ ';' ∧ isWs o c = false)
    (hkwfol : ∀ x, (g0 ++ ['(']).head? = some x → isIdent o x = false) :
    StmtText o (max (max a.n first.n) (max (attrsFuel items) (items.length + 1)) + 1) (attrNodeText g0 g1 a g3 first items)
      (fun s =>
        let sA := advL s ("attr".toList ++ g0 ++ "(".toList ++ g1)
        let sT := advL sA (a.cs ++ ")".toList ++ g3)
        .attrNode (a.rd sA) (attrsRd sT first items) (locOf s))
      (AttrsFollow o first items) := by
  intro fuel s hn hf5
  obtain ⟨f, rfl⟩ : ∃ f, fuel = f + 1 := ⟨fuel - 1, by omega⟩
  have hname := SpellsAt.kw (o := o) "attr" 'a' ['t', 't', 'r'] rfl (by simp [isIdentStart, isAlpha]) (by simp [isIdent, isAlnum]) s
  unfold parseStatement
  refine SpellsAt.cast_val (SpellsAt.conseq
    (SpellsAt.bind0 (SpellsAt.getS' s)
      (SpellsAt.bind hname
        (SpellsAt.bind (SpellsAt.ws' hg0 _)
          (b := Stmt.attrNode (a.rd (advL (advL (advL (advL s "attr".toList) g0) "(".toList) g1))
            (attrsRd (advL (advL (advL (advL (advL (advL s "attr".toList) g0) "(".toList) g1) a.cs) (")".toList ++ g3)) first items) (locOf s))
          (F2 := AttrsFollow o first items) ?body))) ?hF) ?val
  case body =>
    simp only [kw_ne, if_false, if_true]
    obtain ⟨c, r, hc, hc1, hc2⟩ := hfs
    -- the part after the first expression, from any state
    have htail : ∀ (e : Expr) (s1 : PS), SpellsAt o (do
          ws o; consumeToken ")"; ws o
          let attrs ← parseAttributes o f
          Pure.pure (Stmt.attrNode e attrs (locOf s))) s1 (")".toList ++ (g3 ++ attrsText first items))
        (Stmt.attrNode e (attrsRd (advL s1 (")".toList ++ g3)) first items) (locOf s)) (AttrsFollow o first items) := by
      intro e s1
      refine SpellsAt.cast_val (SpellsAt.conseq
        (SpellsAt.bind0 (SpellsAt.ws' Gap.nil _)
          (SpellsAt.bind (SpellsAt.token ")" _)
            (SpellsAt.bind (SpellsAt.ws' hg3 _)
              (SpellsAt.bindE (spells_attributes o first items f _ hfirst (by omega) (by omega) (by omega) hf5) (SpellsAt.pure' _ _))))) ?_)
        (by simp [advL_append])
      intro t ht
      refine ⟨tokenStart_cons ')' _ (by decide) (by simp [isWs]), trivial, ?_, ht, trivial⟩
      exact Or.inr ⟨c, r ++ (attrsRestText items ++ t), by simp [attrsText, hc], hc1, hc2⟩
    refine SpellsAt.cast_val (SpellsAt.conseq
      (SpellsAt.bind (SpellsAt.token "(" _)
        (SpellsAt.bind (SpellsAt.ws' hg1 _)
          (SpellsAt.bind (SpellsAt.expr ha f (by omega) hf5 _)
            (SpellsAt.bind0 (SpellsAt.ws' Gap.nil _)
              (SpellsAt.bind0 (SpellsAt.peek' _ ')')
                (b := Stmt.attrNode (a.rd (advL (advL (advL (advL s "attr".toList) g0) "(".toList) g1))
                  (attrsRd (advL (advL (advL (advL (advL (advL s "attr".toList) g0) "(".toList) g1) a.cs) (")".toList ++ g3)) first items) (locOf s))
                (F2 := AttrsFollow o first items) ?inner))))) ?hF2) ?val2
    case inner =>
      simp only [show (')' = '-') = False by decide, if_false]
      exact htail _ _
    case hF2 =>
      intro t ht
      refine ⟨trivial, by simpa [List.append_assoc] using has.tokenStart (")".toList ++ (g3 ++ (attrsText first items ++ t))),
        by simpa using haF, ?_, by simp, ht⟩
      exact tokenStart_cons ')' _ (by decide) (by simp [isWs])
    case val2 => simp [advL_append]
  case hF =>
    intro t ht
    refine ⟨trivial, ?_, ?_, ht⟩
    · intro x hx
      apply hkwfol x
      rw [← hx]
      cases g0 <;> simp
    · exact tokenStart_cons '(' _ (by decide) (by simp [isWs])
  case val => simp [advL_append]


/-- `attr ( gap A -> gap B ) gap ATTRS` -/
def attrEdgeText (g0 g1 : List Char) (a : Item) (g2 : List Char) (b : Item) (g3 : List Char) (first : AttrItem)
    (items : List (List Char × AttrItem)) : List Char :=
  "attr".toList ++ (g0 ++ ("(".toList ++ (g1 ++ (a.cs ++ ("->".toList ++ (g2 ++ (b.cs ++ (")".toList ++ (g3 ++ attrsText first items)))))))))

theorem stmtText_attrEdge (o : POracle) (g0 g1 : List Char) (a : Item) (g2 : List Char) (b : Item) (g3 : List Char)
    (first : AttrItem) (items : List (List Char × AttrItem))
    (hg0 : Gap o g0) (hg1 : Gap o g1) (hg2 : Gap o g2) (hg3 : Gap o g3)
    (ha : ExprText o a.n a.cs a.rd a.F) (has : a.Starts o) (haF : a.F (some '-'))
    (hb : ExprText o b.n b.cs b.rd b.F) (hbs : b.Starts o) (hbF : b.F (some ')'))
    (hfirst : AttrText o first) (hfs : ∃ c r, first.cs = c :: r ∧ c ≠ ';' ∧ isWs o c = false)
    (hkwfol : ∀ x, (g0 ++ ['(']).head? = some x → isIdent o x = false) :
    StmtText o (max (max (max a.n b.n) first.n) (max (attrsFuel items) (items.length + 1)) + 1)
      (attrEdgeText g0 g1 a g2 b g3 first items)
      (fun s =>
        let sA := advL s ("attr".toList ++ g0 ++ "(".toList ++ g1)
        let sB := advL sA (a.cs ++ "->".toList ++ g2)
        let sT := advL sB (b.cs ++ ")".toList ++ g3)
        .attrEdge (a.rd sA) (b.rd sB) (attrsRd sT first items) (locOf s))
      (AttrsFollow o first items) := by
  intro fuel s hn hf5
  obtain ⟨f, rfl⟩ : ∃ f, fuel = f + 1 := ⟨fuel - 1, by omega⟩
  have hname := SpellsAt.kw (o := o) "attr" 'a' ['t', 't', 'r'] rfl (by simp [isIdentStart, isAlpha]) (by simp [isIdent, isAlnum]) s
  unfold parseStatement
  refine SpellsAt.cast_val (SpellsAt.conseq
    (SpellsAt.bind0 (SpellsAt.getS' s)
      (SpellsAt.bind hname
        (SpellsAt.bind (SpellsAt.ws' hg0 _)
          (b := Stmt.attrEdge (a.rd (advL (advL (advL (advL s "attr".toList) g0) "(".toList) g1))
            (b.rd (advL (advL (advL (advL (advL s "attr".toList) g0) "(".toList) g1) (a.cs ++ "->".toList ++ g2)))
            (attrsRd (advL (advL (advL (advL (advL (advL s "attr".toList) g0) "(".toList) g1) (a.cs ++ "->".toList ++ g2))
              (b.cs ++ ")".toList ++ g3)) first items) (locOf s))
          (F2 := AttrsFollow o first items) ?body))) ?hF) ?val
  case body =>
    simp only [kw_ne, if_false, if_true]
    obtain ⟨c, r, hc, hc1, hc2⟩ := hfs
    have htail : ∀ (e : Expr) (s1 : PS), SpellsAt o (do
          consumeToken "->"
          ws o
          let b' ← parseExpression o f
          ws o; consumeToken ")"; ws o
          let attrs ← parseAttributes o f
          Pure.pure (Stmt.attrEdge e b' attrs (locOf s))) s1 ("->".toList ++ (g2 ++ (b.cs ++ (")".toList ++ (g3 ++ attrsText first items)))))
        (Stmt.attrEdge e (b.rd (advL s1 ("->".toList ++ g2))) (attrsRd (advL s1 ("->".toList ++ g2 ++ b.cs ++ ")".toList ++ g3)) first items) (locOf s))
        (AttrsFollow o first items) := by
      intro e s1
      refine SpellsAt.cast_val (SpellsAt.conseq
        (SpellsAt.bind (SpellsAt.token "->" _)
          (SpellsAt.bind (SpellsAt.ws' hg2 _)
            (SpellsAt.bind (SpellsAt.expr hb f (by omega) hf5 _)
              (SpellsAt.bind0 (SpellsAt.ws' Gap.nil _)
                (SpellsAt.bind (SpellsAt.token ")" _)
                  (SpellsAt.bind (SpellsAt.ws' hg3 _)
                    (SpellsAt.bindE (spells_attributes o first items f _ hfirst (by omega) (by omega) (by omega) hf5) (SpellsAt.pure' _ _)))))))) ?_)
        (by simp [advL_append])
      intro t ht
      refine ⟨trivial, by simpa [List.append_assoc] using hbs.tokenStart (")".toList ++ (g3 ++ (attrsText first items ++ t))),
        by simpa using hbF, tokenStart_cons ')' _ (by decide) (by simp [isWs]), trivial, ?_, ht, trivial⟩
      exact Or.inr ⟨c, r ++ (attrsRestText items ++ t), by simp [attrsText, hc], hc1, hc2⟩
    refine SpellsAt.cast_val (SpellsAt.conseq
      (SpellsAt.bind (SpellsAt.token "(" _)
        (SpellsAt.bind (SpellsAt.ws' hg1 _)
          (SpellsAt.bind (SpellsAt.expr ha f (by omega) hf5 _)
            (SpellsAt.bind0 (SpellsAt.ws' Gap.nil _)
              (SpellsAt.bind0 (SpellsAt.peek' _ '-')
                (b := Stmt.attrEdge (a.rd (advL (advL (advL (advL s "attr".toList) g0) "(".toList) g1))
                  (b.rd (advL (advL (advL (advL (advL (advL s "attr".toList) g0) "(".toList) g1) a.cs) ("->".toList ++ g2)))
                  (attrsRd (advL (advL (advL (advL (advL (advL s "attr".toList) g0) "(".toList) g1) a.cs) ("->".toList ++ g2 ++ b.cs ++ ")".toList ++ g3)) first items) (locOf s))
                (F2 := AttrsFollow o first items) ?inner))))) ?hF2) ?val2
    case inner =>
      simp only [if_true]
      exact htail _ _
    case hF2 =>
      intro t ht
      refine ⟨trivial, by simpa [List.append_assoc] using has.tokenStart ("->".toList ++ (g2 ++ (b.cs ++ (")".toList ++ (g3 ++ (attrsText first items ++ t)))))),
        by simpa using haF, ?_, by simp, ht⟩
      exact tokenStart_cons '-' _ (by decide) (by simp [isWs])
    case val2 => simp [advL_append]
  case hF =>
    intro t ht
    refine ⟨trivial, ?_, ?_, ht⟩
    · intro x hx
      apply hkwfol x
      rw [← hx]
      cases g0 <;> simp
    · exact tokenStart_cons '(' _ (by decide) (by simp [isWs])
  case val => simp [advL_append]


/-! ### print -/

def printRestText : List (List Char × Item) → List Char
  | [] => []
  | (g, e) :: more => ',' :: g ++ (e.cs ++ printRestText more)

def printRestRd (s : PS) : List (List Char × Item) → List Expr
  | [] => []
  | (g, e) :: more =>
    let sE := advL s (',' :: g)
    e.rd sE :: printRestRd (advL sE e.cs) more

def PrintRestOK (o : POracle) (tail : List Char) : List (List Char × Item) → Prop
  | [] => True
  | (g, e) :: more =>
    Gap o g ∧ ExprText o e.n e.cs e.rd e.F ∧ e.Starts o ∧
    e.F (printRestText more ++ tail).head? ∧ TokenStart o (printRestText more ++ tail) ∧ PrintRestOK o tail more

def printFuel : List (List Char × Item) → Nat
  | [] => 0
  | (_, e) :: more => max e.n (printFuel more) + 1

theorem spells_printArgs (o : POracle) (hf5 : 5 ≤ o.fuel) :
    ∀ (items : List (List Char × Item)) (fuel : Nat) (s : PS) (tail : List Char),
      printFuel items < fuel → PrintRestOK o tail items → tail.head? ≠ some ',' →
      s.rest = printRestText items ++ tail → s.rest.length ≤ o.fuel →
      run (parsePrintArgs o fuel) s = (.ok (printRestRd s items), advL s (printRestText items)) := by
  intro items
  induction items with
  | nil =>
    intro fuel s tail hn _ hne hs _
    obtain ⟨m, rfl⟩ : ∃ m, fuel = m + 1 := ⟨fuel - 1, by omega⟩
    have hs' : s.rest = tail := by simpa [printRestText] using hs
    unfold parsePrintArgs
    simp only [run_bind', run_tryPeek, hs']
    rw [if_neg hne]
    simp [printRestRd, printRestText, advL]
  | cons it more ih =>
    intro fuel s tail hn hok hne hs hl
    obtain ⟨g, e⟩ := it
    obtain ⟨m, rfl⟩ : ∃ m, fuel = m + 1 := ⟨fuel - 1, by omega⟩
    obtain ⟨hg, he, hes, heF, htok, hmore⟩ := hok
    simp only [printFuel] at hn
    have hs' : s.rest = ",".toList ++ (g ++ (e.cs ++ (printRestText more ++ tail))) := by simpa [printRestText] using hs
    have htk := run_consumeToken_ok "," _ s hs'
    have hs1 : (advL s ",".toList).rest = g ++ (e.cs ++ (printRestText more ++ tail)) := advL_rest s _ _ hs'
    have hl1 : (advL s ",".toList).rest.length ≤ o.fuel := by rw [hs1]; rw [hs'] at hl; simp at hl ⊢; omega
    have hws1 := run_ws_gap o g _ _ hs1 hg (hes.tokenStart _) hl1
    have hs2 : (advL (advL s ",".toList) g).rest = e.cs ++ (printRestText more ++ tail) := advL_rest _ _ _ hs1
    have hl2 : (advL (advL s ",".toList) g).rest.length ≤ o.fuel := by rw [hs2]; rw [hs1] at hl1; simp at hl1 ⊢; omega
    have hrunE := he m _ _ (by omega) hs2 heF hl2 hf5
    have hs3 : (advL (advL (advL s ",".toList) g) e.cs).rest = printRestText more ++ tail := advL_rest _ _ _ hs2
    have hl3 : (advL (advL (advL s ",".toList) g) e.cs).rest.length ≤ o.fuel := by rw [hs3]; rw [hs2] at hl2; simp at hl2 ⊢; omega
    have hws3 := run_ws_gap o [] _ _ (by simpa using hs3) Gap.nil htok hl3
    have hrec := ih m _ tail (by omega) hmore hne hs3 hl3
    unfold parsePrintArgs
    have hhead : s.rest.head? = some ',' := by rw [hs']; simp
    simp only [run_bind', run_tryPeek, hhead, if_true, htk]
    rw [hws1]
    simp only
    rw [hrunE]
    simp only
    rw [hws3]
    simp only [advL_nil]
    rw [hrec]
    simp only [run_pure, printRestRd, printRestText]
    rw [show (',' :: g ++ (e.cs ++ printRestText more)) = ",".toList ++ (g ++ (e.cs ++ printRestText more)) by simp]
    simp [advL_append, advL]

/-- `print EXPR (, gap EXPR)*` -/
def printText (g0 : List Char) (e : Item) (items : List (List Char × Item)) : List Char :=
  "print".toList ++ (g0 ++ (e.cs ++ printRestText items))

theorem stmtText_print (o : POracle) (g0 : List Char) (e : Item) (items : List (List Char × Item))
    (hg0 : Gap o g0) (he : ExprText o e.n e.cs e.rd e.F) (hes : e.Starts o)
    (hkwfol : ∀ x, (g0 ++ e.cs).head? = some x → isIdent o x = false) :
    StmtText o (max e.n (printFuel items + 1) + 1) (printText g0 e items)
      (fun s =>
        let sE := advL s ("print".toList ++ g0)
        .print (e.rd sE :: printRestRd (advL sE e.cs) items) (locOf s))
      (fun t => e.F (printRestText items ++ t).head? ∧ TokenStart o (printRestText items ++ t) ∧ PrintRestOK o t items ∧
        t.head? ≠ some ',' ∧ TokenStart o t) := by
  intro fuel s hn hf5
  obtain ⟨f, rfl⟩ : ∃ f, fuel = f + 1 := ⟨fuel - 1, by omega⟩
  have hname := SpellsAt.kw (o := o) "print" 'p' ['r', 'i', 'n', 't'] rfl (by simp [isIdentStart, isAlpha]) (by simp [isIdent, isAlnum]) s
  refine ⟨fun tail hs hf hl => ?_⟩
  obtain ⟨heF, htok, hok, hne, htokt⟩ := hf
  have hs' : s.rest = "print".toList ++ (g0 ++ (e.cs ++ (printRestText items ++ tail))) := by simpa [printText] using hs
  have h1 := hname.run_eq _ hs' (by
    intro x hx
    apply hkwfol x
    rw [← hx]
    obtain ⟨c, r, hc, _, _⟩ := hes
    cases g0 <;> simp [hc]) hl
  have hs1 : (advL s "print".toList).rest = g0 ++ (e.cs ++ (printRestText items ++ tail)) := advL_rest _ _ _ hs'
  have hl1 : (advL s "print".toList).rest.length ≤ o.fuel := by rw [hs1]; rw [hs'] at hl; simp at hl ⊢; omega
  have hws1 := run_ws_gap o g0 _ _ hs1 hg0 (hes.tokenStart _) hl1
  have hs2 : (advL (advL s "print".toList) g0).rest = e.cs ++ (printRestText items ++ tail) := advL_rest _ _ _ hs1
  have hl2 : (advL (advL s "print".toList) g0).rest.length ≤ o.fuel := by rw [hs2]; rw [hs1] at hl1; simp at hl1 ⊢; omega
  have hrunE := he f _ _ (by omega) hs2 heF hl2 hf5
  have hs3 : (advL (advL (advL s "print".toList) g0) e.cs).rest = printRestText items ++ tail := advL_rest _ _ _ hs2
  have hl3 : (advL (advL (advL s "print".toList) g0) e.cs).rest.length ≤ o.fuel := by rw [hs3]; rw [hs2] at hl2; simp at hl2 ⊢; omega
  have hws3 := run_ws_gap o [] _ _ (by simpa using hs3) Gap.nil htok hl3
  have hargs := spells_printArgs o hf5 items f _ tail (by omega) hok hne hs3 hl3
  have hs4 : (advL (advL (advL (advL s "print".toList) g0) e.cs) (printRestText items)).rest = tail := advL_rest _ _ _ hs3
  have hl4 : (advL (advL (advL (advL s "print".toList) g0) e.cs) (printRestText items)).rest.length ≤ o.fuel := by
    rw [hs4]; rw [hs3] at hl3; simp at hl3 ⊢; omega
  have hws4 := run_ws_gap o [] _ _ (by simpa using hs4) Gap.nil htokt hl4
  unfold parseStatement
  simp only [run_bind', run_getS, h1]
  rw [hws1]
  simp only [kw_ne, if_false, if_true, run_bind', hrunE]
  rw [hws3]
  simp only [advL_nil, hargs]
  rw [hws4]
  simp [printText, advL_append]


/-! ### conditions -/

/-- the text does not begin with the keyword `kw` as a whole word -/
def NoKeyword (o : POracle) (kw : String) (r : List Char) : Prop :=
  (kw.toList.isPrefixOf r && !((r.drop kw.length).head?.map (isIdent o)).getD false) = false

theorem run_attempt_keyword_err (o : POracle) (kw : String) (s : PS) (h : NoKeyword o kw s.rest) :
    run (attemptP (consumeKeyword o kw)) s = (.ok (.error (.expectedToken kw (locOf s))), s) := by
  unfold NoKeyword at h
  have hrun : run (consumeKeyword o kw) s = (.error (.err (.expectedToken kw (locOf s))), s) := by
    unfold consumeKeyword
    simp only [run_bind', run_getS]
    rw [if_neg]
    · rfl
    · rw [h]; simp
  simp only [attemptP, run, hrun]

structure CondItem where
  n : Nat
  cs : List Char
  rd : PS → Cond
  F : List Char → Prop

def CondText (o : POracle) (c : CondItem) : Prop :=
  ∀ (fuel : Nat) (s : PS), c.n ≤ fuel → 5 ≤ o.fuel → SpellsAt o (parseCondition o fuel) s c.cs (c.rd s) c.F

/-- `some gap EXPR` / `none gap EXPR` -/
def condOpt (o : POracle) (isSome : Bool) (g : List Char) (e : Item) : CondItem :=
  { n := e.n, cs := (if isSome then "some" else "none").toList ++ (g ++ e.cs),
    rd := fun s =>
      let ev := e.rd (advL s ((if isSome then "some" else "none").toList ++ g))
      if isSome then Cond.some ev (locOf s) else Cond.none ev (locOf s),
    F := fun t => e.F t.head? ∧ TokenStart o t }

theorem condText_opt (o : POracle) (isSome : Bool) (g : List Char) (e : Item) (hg : Gap o g)
    (he : ExprText o e.n e.cs e.rd e.F) (hes : e.Starts o)
    (hkwfol : ∀ x, (g ++ e.cs).head? = some x → isIdent o x = false) :
    CondText o (condOpt o isSome g e) := by
  intro fuel s hn hf5
  refine ⟨fun tail hs hf hl => ?_⟩
  obtain ⟨heF, htok⟩ := hf
  have hkwf : ∀ x, (g ++ (e.cs ++ tail)).head? = some x → isIdent o x = false := by
    intro x hx
    apply hkwfol x
    rw [← hx]
    obtain ⟨c, r, hc, _, _⟩ := hes
    cases g <;> simp [hc]
  cases isSome with
  | true =>
    have hs' : s.rest = "some".toList ++ (g ++ (e.cs ++ tail)) := by simpa [condOpt] using hs
    have hk := (SpellsAt.attempt_ok (SpellsAt.keyword (o := o) "some" s)).run_eq _ hs' hkwf hl
    have hs1 : (advL s "some".toList).rest = g ++ (e.cs ++ tail) := advL_rest _ _ _ hs'
    have hl1 : (advL s "some".toList).rest.length ≤ o.fuel := by rw [hs1]; rw [hs'] at hl; simp at hl ⊢; omega
    have hws1 := run_ws_gap o g _ _ hs1 hg (hes.tokenStart _) hl1
    have hs2 : (advL (advL s "some".toList) g).rest = e.cs ++ tail := advL_rest _ _ _ hs1
    have hl2 : (advL (advL s "some".toList) g).rest.length ≤ o.fuel := by rw [hs2]; rw [hs1] at hl1; simp at hl1 ⊢; omega
    have hrunE := he fuel _ _ hn hs2 heF hl2 hf5
    have hs3 : (advL (advL (advL s "some".toList) g) e.cs).rest = tail := advL_rest _ _ _ hs2
    have hl3 : (advL (advL (advL s "some".toList) g) e.cs).rest.length ≤ o.fuel := by rw [hs3]; rw [hs2] at hl2; simp at hl2 ⊢; omega
    have hws3 := run_ws_gap o [] _ _ (by simpa using hs3) Gap.nil htok hl3
    unfold parseCondition
    simp only [run_bind', run_getS, hk]
    rw [hws1]
    simp only [run_bind', hrunE, run_pure]
    rw [hws3]
    simp [condOpt, advL_append]
  | false =>
    have hs' : s.rest = "none".toList ++ (g ++ (e.cs ++ tail)) := by simpa [condOpt] using hs
    have hno : NoKeyword o "some" s.rest := by rw [hs']; simp [NoKeyword, List.isPrefixOf]
    have hk0 := run_attempt_keyword_err o "some" s hno
    have hk := (SpellsAt.attempt_ok (SpellsAt.keyword (o := o) "none" s)).run_eq _ hs' hkwf hl
    have hs1 : (advL s "none".toList).rest = g ++ (e.cs ++ tail) := advL_rest _ _ _ hs'
    have hl1 : (advL s "none".toList).rest.length ≤ o.fuel := by rw [hs1]; rw [hs'] at hl; simp at hl ⊢; omega
    have hws1 := run_ws_gap o g _ _ hs1 hg (hes.tokenStart _) hl1
    have hs2 : (advL (advL s "none".toList) g).rest = e.cs ++ tail := advL_rest _ _ _ hs1
    have hl2 : (advL (advL s "none".toList) g).rest.length ≤ o.fuel := by rw [hs2]; rw [hs1] at hl1; simp at hl1 ⊢; omega
    have hrunE := he fuel _ _ hn hs2 heF hl2 hf5
    have hs3 : (advL (advL (advL s "none".toList) g) e.cs).rest = tail := advL_rest _ _ _ hs2
    have hl3 : (advL (advL (advL s "none".toList) g) e.cs).rest.length ≤ o.fuel := by rw [hs3]; rw [hs2] at hl2; simp at hl2 ⊢; omega
    have hws3 := run_ws_gap o [] _ _ (by simpa using hs3) Gap.nil htok hl3
    unfold parseCondition
    simp only [run_bind', run_getS, hk0, hk]
    rw [hws1]
    simp only [run_bind', hrunE, run_pure]
    rw [hws3]
    simp [condOpt, advL_append]

/-- a plain boolean condition: an expression that does not begin with the word `some` or `none` -/
def condBool (o : POracle) (e : Item) : CondItem :=
  { n := e.n, cs := e.cs,
    rd := fun s => Cond.bool (e.rd s) (locOf s),
    F := fun t => e.F t.head? ∧ TokenStart o t ∧ NoKeyword o "some" (e.cs ++ t) ∧ NoKeyword o "none" (e.cs ++ t) }

theorem condText_bool (o : POracle) (e : Item) (he : ExprText o e.n e.cs e.rd e.F) :
    CondText o (condBool o e) := by
  intro fuel s hn hf5
  refine ⟨fun tail hs hf hl => ?_⟩
  obtain ⟨heF, htok, hno1, hno2⟩ := hf
  have hs' : s.rest = e.cs ++ tail := by simpa [condBool] using hs
  have hk1 := run_attempt_keyword_err o "some" s (by rw [hs']; exact hno1)
  have hk2 := run_attempt_keyword_err o "none" s (by rw [hs']; exact hno2)
  have hrunE := he fuel s tail hn hs' heF hl hf5
  have hs3 : (advL s e.cs).rest = tail := advL_rest _ _ _ hs'
  have hl3 : (advL s e.cs).rest.length ≤ o.fuel := by rw [hs3]; rw [hs'] at hl; simp at hl ⊢; omega
  have hws3 := run_ws_gap o [] _ _ (by simpa using hs3) Gap.nil htok hl3
  have hatt := (SpellsAt.attempt_ok (SpellsAt.expr he fuel hn hf5 s)).run_eq tail hs' heF hl
  unfold parseCondition
  simp only [run_bind', run_getS, hk1, hk2, hatt]
  rw [hws3]
  simp only [advL_nil, run_pure]
  rw [hws3]
  simp [condBool]


/-- `COND (, gap COND)*` -/
def condsRestText : List (List Char × CondItem) → List Char
  | [] => []
  | (g, c) :: more => ',' :: g ++ (c.cs ++ condsRestText more)

def condsRestRd (s : PS) : List (List Char × CondItem) → List Cond
  | [] => []
  | (g, c) :: more =>
    let sC := advL s (',' :: g)
    c.rd sC :: condsRestRd (advL sC c.cs) more

def CondsRestOK (o : POracle) (tail : List Char) : List (List Char × CondItem) → Prop
  | [] => True
  | (g, c) :: more =>
    Gap o g ∧ CondText o c ∧ (∃ x r, c.cs = x :: r ∧ x ≠ ';' ∧ isWs o x = false) ∧
    c.F (condsRestText more ++ tail) ∧ TokenStart o (condsRestText more ++ tail) ∧ CondsRestOK o tail more

def condsFuel : List (List Char × CondItem) → Nat
  | [] => 0
  | (_, c) :: more => max c.n (condsFuel more)

def condsText (first : CondItem) (items : List (List Char × CondItem)) : List Char := first.cs ++ condsRestText items

def condsRd (s : PS) (first : CondItem) (items : List (List Char × CondItem)) : List Cond :=
  first.rd s :: condsRestRd (advL s first.cs) items

def CondsFollow (o : POracle) (first : CondItem) (items : List (List Char × CondItem)) (t : List Char) : Prop :=
  first.F (condsRestText items ++ t) ∧ TokenStart o (condsRestText items ++ t) ∧ CondsRestOK o t items ∧ t.head? ≠ some ','

theorem run_conditions (o : POracle) (fuel : Nat) (hf5 : 5 ≤ o.fuel) :
    ∀ (items : List (List Char × CondItem)) (first : CondItem) (n : Nat) (s : PS) (tail : List Char),
      items.length < n → first.n ≤ fuel → condsFuel items ≤ fuel → CondText o first → CondsFollow o first items tail →
      s.rest = condsText first items ++ tail → s.rest.length ≤ o.fuel →
      run (parseConditions o fuel n) s = (.ok (condsRd s first items), advL s (condsText first items)) := by
  intro items
  induction items with
  | nil =>
    intro first n s tail hn hfu _ hfirst hfol hs hl
    obtain ⟨m, rfl⟩ : ∃ m, n = m + 1 := ⟨n - 1, by simp at hn; omega⟩
    obtain ⟨hF, htok, _, hne⟩ := hfol
    have hs' : s.rest = first.cs ++ tail := by simpa [condsText, condsRestText] using hs
    have h1 := (hfirst fuel s hfu hf5).run_eq _ hs' (by simpa [condsRestText] using hF) hl
    have hs1 : (advL s first.cs).rest = tail := advL_rest _ _ _ hs'
    have hl1 : (advL s first.cs).rest.length ≤ o.fuel := by rw [hs1]; rw [hs'] at hl; simp at hl ⊢; omega
    have hws := run_ws_gap o [] _ _ (by simpa using hs1) Gap.nil (by simpa [condsRestText] using htok) hl1
    unfold parseConditions
    simp only [run_bind', h1]
    rw [hws]
    simp only [advL_nil, run_tryPeek, hs1]
    rw [if_neg hne]
    simp [condsRd, condsRestRd, condsText, condsRestText]
  | cons it more ih =>
    intro first n s tail hn hfu hfu2 hfirst hfol hs hl
    obtain ⟨g, c⟩ := it
    obtain ⟨m, rfl⟩ : ∃ m, n = m + 1 := ⟨n - 1, by simp at hn; omega⟩
    obtain ⟨hF, htok, ⟨hg, hc, ⟨x, r, hx, hx1, hx2⟩, hcF, hctok, hmore⟩, hne⟩ := hfol
    have hs' : s.rest = first.cs ++ (",".toList ++ (g ++ (c.cs ++ (condsRestText more ++ tail)))) := by
      simpa [condsText, condsRestText] using hs
    have h1 := (hfirst fuel s hfu hf5).run_eq _ hs' (by simpa [condsRestText] using hF) hl
    have hs1 : (advL s first.cs).rest = ",".toList ++ (g ++ (c.cs ++ (condsRestText more ++ tail))) := advL_rest _ _ _ hs'
    have hl1 : (advL s first.cs).rest.length ≤ o.fuel := by rw [hs1]; rw [hs'] at hl; simp at hl ⊢; omega
    have hws := run_ws_gap o [] _ _ (by simpa using hs1) Gap.nil (by simpa [condsRestText] using htok) hl1
    have htk := run_consumeToken_ok "," _ _ hs1
    have hs2 : (advL (advL s first.cs) ",".toList).rest = g ++ (c.cs ++ (condsRestText more ++ tail)) := advL_rest _ _ _ hs1
    have hl2 : (advL (advL s first.cs) ",".toList).rest.length ≤ o.fuel := by rw [hs2]; rw [hs1] at hl1; simp at hl1 ⊢; omega
    have hws2 := run_ws_gap o g _ _ hs2 hg (Or.inr ⟨x, r ++ (condsRestText more ++ tail), by simp [hx], hx1, hx2⟩) hl2
    have hs3 : (advL (advL (advL s first.cs) ",".toList) g).rest = condsText c more ++ tail := by
      have := advL_rest _ _ _ hs2; simpa [condsText] using this
    have hl3 : (advL (advL (advL s first.cs) ",".toList) g).rest.length ≤ o.fuel := by
      have := advL_rest _ _ _ hs2; rw [this]; rw [hs2] at hl2; simp at hl2 ⊢; omega
    have hrec := ih c m _ tail (by simp at hn; omega) (by simp [condsFuel] at hfu2; omega) (by simp [condsFuel] at hfu2; omega) hc
      ⟨hcF, hctok, hmore, hne⟩ hs3 hl3
    have hhead : (advL s first.cs).rest.head? = some ',' := by rw [hs1]; simp
    unfold parseConditions
    simp only [run_bind', h1]
    rw [hws]
    simp only [advL_nil, run_tryPeek, hhead, if_true, run_bind', htk]
    rw [hws2]
    simp only
    rw [hrec]
    simp only [run_pure, condsRd, condsRestRd, condsText, condsRestText]
    rw [show (first.cs ++ (',' :: g ++ (c.cs ++ condsRestText more))) = first.cs ++ (",".toList ++ (g ++ (c.cs ++ condsRestText more))) by simp]
    simp [advL_append, advL]


/-! ### blocks -/

structure StmtItem where
  n : Nat
  cs : List Char
  rd : PS → Stmt
  F : List Char → Prop

/-- statements of a block, each followed by its layout gap -/
def bodyText : List (StmtItem × List Char) → List Char
  | [] => []
  | (st, g) :: more => st.cs ++ (g ++ bodyText more)

def bodyRd (s : PS) : List (StmtItem × List Char) → List Stmt
  | [] => []
  | (st, g) :: more => st.rd s :: bodyRd (advL s (st.cs ++ g)) more

def bodyFuel : List (StmtItem × List Char) → Nat
  | [] => 0
  | (st, _) :: more => max st.n (bodyFuel more) + 1

/-- each statement is a statement text that does not begin with `}`, its follower condition holds in front of the
rest of the block, and the gap after it ends at a token -/
def BodyOK (o : POracle) (tail : List Char) : List (StmtItem × List Char) → Prop
  | [] => True
  | (st, g) :: more =>
    StmtText o st.n st.cs st.rd st.F ∧ (∃ c r, st.cs = c :: r ∧ c ≠ '}') ∧ Gap o g ∧
    st.F (g ++ (bodyText more ++ '}' :: tail)) ∧ TokenStart o (bodyText more ++ '}' :: tail) ∧ BodyOK o tail more

theorem run_statementsLoop (o : POracle) (hf5 : 5 ≤ o.fuel) :
    ∀ (items : List (StmtItem × List Char)) (fuel : Nat) (s : PS) (tail : List Char),
      bodyFuel items < fuel → BodyOK o tail items → s.rest = bodyText items ++ '}' :: tail → s.rest.length ≤ o.fuel →
      run (parseStatementsLoop o fuel) s = (.ok (bodyRd s items), advL s (bodyText items)) := by
  intro items
  induction items with
  | nil =>
    intro fuel s tail hn _ hs _
    obtain ⟨m, rfl⟩ : ∃ m, fuel = m + 1 := ⟨fuel - 1, by omega⟩
    have hs' : s.rest = '}' :: tail := by simpa [bodyText] using hs
    unfold parseStatementsLoop
    simp [run_bind', run_peek_cons hs', bodyRd, bodyText, advL]
  | cons it more ih =>
    intro fuel s tail hn hok hs hl
    obtain ⟨st, g⟩ := it
    obtain ⟨m, rfl⟩ : ∃ m, fuel = m + 1 := ⟨fuel - 1, by omega⟩
    obtain ⟨hst, ⟨c, r, hc, hcne⟩, hg, hF, htok, hmore⟩ := hok
    simp only [bodyFuel] at hn
    have hs' : s.rest = st.cs ++ (g ++ (bodyText more ++ '}' :: tail)) := by simpa [bodyText] using hs
    have hpk : s.rest = c :: (r ++ (g ++ (bodyText more ++ '}' :: tail))) := by rw [hs', hc]; simp
    have h1 := (hst m s (by omega) hf5).run_eq _ hs' hF hl
    have hs1 : (advL s st.cs).rest = g ++ (bodyText more ++ '}' :: tail) := advL_rest _ _ _ hs'
    have hl1 : (advL s st.cs).rest.length ≤ o.fuel := by rw [hs1]; rw [hs'] at hl; simp at hl ⊢; omega
    have hws := run_ws_gap o g _ _ hs1 hg htok hl1
    have hs2 : (advL (advL s st.cs) g).rest = bodyText more ++ '}' :: tail := advL_rest _ _ _ hs1
    have hl2 : (advL (advL s st.cs) g).rest.length ≤ o.fuel := by rw [hs2]; rw [hs1] at hl1; simp at hl1 ⊢; omega
    have hrec := ih m _ tail (by omega) hmore hs2 hl2
    unfold parseStatementsLoop
    simp only [run_bind', run_peek_cons hpk, hcne, if_false, h1]
    rw [hws]
    simp only
    rw [hrec]
    simp [bodyRd, bodyText, advL_append]

/-- `{ gap (STMT gap)* }` -/
def blockText (g0 : List Char) (items : List (StmtItem × List Char)) : List Char :=
  '{' :: g0 ++ (bodyText items ++ ['}'])

theorem spells_block (o : POracle) (g0 : List Char) (items : List (StmtItem × List Char)) (fuel : Nat) (s : PS)
    (hg0 : Gap o g0) (hfu : bodyFuel items + 1 < fuel) (hf5 : 5 ≤ o.fuel) :
    SpellsAt o (parseStatements o fuel) s (blockText g0 items) (bodyRd (advL s ('{' :: g0)) items)
      (fun t => BodyOK o t items ∧ TokenStart o (bodyText items ++ '}' :: t)) := by
  refine ⟨fun tail hs hf hl => ?_⟩
  obtain ⟨hok, htok⟩ := hf
  obtain ⟨m, rfl⟩ : ∃ m, fuel = m + 1 := ⟨fuel - 1, by omega⟩
  have hs' : s.rest = "{".toList ++ (g0 ++ (bodyText items ++ '}' :: tail)) := by simpa [blockText] using hs
  have htk := run_consumeToken_ok "{" _ s hs'
  have hs1 : (advL s "{".toList).rest = g0 ++ (bodyText items ++ '}' :: tail) := advL_rest _ _ _ hs'
  have hl1 : (advL s "{".toList).rest.length ≤ o.fuel := by rw [hs1]; rw [hs'] at hl; simp at hl ⊢; omega
  have hws := run_ws_gap o g0 _ _ hs1 hg0 htok hl1
  have hs2 : (advL (advL s "{".toList) g0).rest = bodyText items ++ '}' :: tail := advL_rest _ _ _ hs1
  have hl2 : (advL (advL s "{".toList) g0).rest.length ≤ o.fuel := by rw [hs2]; rw [hs1] at hl1; simp at hl1 ⊢; omega
  have hloop := run_statementsLoop o hf5 items m _ tail (by omega) hok hs2 hl2
  have hs3 : (advL (advL (advL s "{".toList) g0) (bodyText items)).rest = "}".toList ++ tail := by
    have := advL_rest _ _ _ hs2; simpa using this
  have htk2 := run_consumeToken_ok "}" _ _ hs3
  unfold parseStatements
  simp only [run_bind', htk]
  rw [hws]
  simp only
  rw [hloop]
  simp only [htk2, run_pure, blockText]
  rw [show ('{' :: g0 ++ (bodyText items ++ ['}'])) = "{".toList ++ (g0 ++ (bodyText items ++ "}".toList)) by simp]
  simp [advL_append, advL]


/-! ### for -/

/-- a loop variable: a name followed by its gap -/
theorem spells_unscopedVariable (o : POracle) (vc : Char) (vrest gV : List Char) (fuel : Nat) (s : PS)
    (hvc : isIdentStart o vc = true) (hvr : ∀ x ∈ vrest, isIdent o x = true) (hgV : Gap o gV) (hfu : 4 ≤ fuel) (hf5 : 5 ≤ o.fuel) :
    SpellsAt o (parseUnscopedVariable o fuel) s (vc :: vrest ++ gV) (String.ofList (vc :: vrest), locOf s)
      (fun t => TokenStart o t ∧ t.head? ≠ some '.' ∧ ∀ x, (gV ++ t).head? = some x → isIdent o x = false) := by
  refine ⟨fun tail hs hf hl => ?_⟩
  obtain ⟨htok, hdot, hfol⟩ := hf
  obtain ⟨f, rfl⟩ : ∃ f, fuel = f + 4 := ⟨fuel - 4, by omega⟩
  have hvar := run_parseExpression_chain o (f + 1) (Atom.var vc vrest) gV [] s tail
    (by simpa [chainText, segsText, Atom.text] using hs) ⟨hvc, hvr⟩
    (by intro x hx; apply hfol x; simpa [segsText] using hx)
    hgV (by simpa [segsText] using htok) ⟨htok, hdot⟩ (by simp) hl hf5
  unfold parseUnscopedVariable parseVariable
  simp only [run_bind', run_getS, hvar]
  simp [chainExpr, Atom.expr, chainText, segsText, Atom.text]

/-- `for gap VAR gap in gap EXPR BLOCK` -/
def forText (g0 : List Char) (vc : Char) (vrest gV gIn : List Char) (e : Item) (gB : List Char) (items : List (StmtItem × List Char)) : List Char :=
  "for".toList ++ (g0 ++ (vc :: vrest ++ gV ++ ("in".toList ++ (gIn ++ (e.cs ++ blockText gB items)))))

theorem stmtText_for (o : POracle) (g0 : List Char) (vc : Char) (vrest gV gIn : List Char) (e : Item) (gB : List Char)
    (items : List (StmtItem × List Char))
    (hg0 : Gap o g0) (hgV : Gap o gV) (hgIn : Gap o gIn) (hgB : Gap o gB)
    (hvc : isIdentStart o vc = true) (hvr : ∀ x ∈ vrest, isIdent o x = true) (hvsemi : vc ≠ ';') (hvws : isWs o vc = false)
    (hkwfol : ∀ x, (g0 ++ [vc]).head? = some x → isIdent o x = false)
    (hvfol : ∀ x, (gV ++ "in".toList).head? = some x → isIdent o x = false)
    (he : ExprText o e.n e.cs e.rd e.F) (hes : e.Starts o) (heF : e.F (some '{')) :
    StmtText o (max (e.n + 1) (bodyFuel items + 3) + 4) (forText g0 vc vrest gV gIn e gB items)
      (fun s =>
        let sV := advL s ("for".toList ++ g0)
        let sE := advL sV (vc :: vrest ++ gV ++ "in".toList ++ gIn)
        let sB := advL sE e.cs
        .forIn (String.ofList (vc :: vrest)) (locOf sV) (e.rd sE) (bodyRd (advL sB ('{' :: gB)) items) (locOf s))
      (fun t => BodyOK o t items ∧ TokenStart o (bodyText items ++ '}' :: t)) := by
  intro fuel s hn hf5
  obtain ⟨f, rfl⟩ : ∃ f, fuel = f + 1 := ⟨fuel - 1, by omega⟩
  have hname := SpellsAt.kw (o := o) "for" 'f' ['o', 'r'] rfl (by simp [isIdentStart, isAlpha]) (by simp [isIdent, isAlnum]) s
  unfold parseStatement
  refine SpellsAt.cast_val (SpellsAt.conseq
    (SpellsAt.bind0 (SpellsAt.getS' s)
      (SpellsAt.bind hname
        (SpellsAt.bind (SpellsAt.ws' hg0 _)
          (b := Stmt.forIn (String.ofList (vc :: vrest)) (locOf (advL (advL s "for".toList) g0))
            (e.rd (advL (advL (advL s "for".toList) g0) (vc :: vrest ++ gV ++ "in".toList ++ gIn)))
            (bodyRd (advL (advL (advL (advL s "for".toList) g0) (vc :: vrest ++ gV ++ "in".toList ++ gIn ++ e.cs)) ('{' :: gB)) items) (locOf s))
          (F2 := fun t => BodyOK o t items ∧ TokenStart o (bodyText items ++ '}' :: t)) ?body))) ?hF) ?val
  case body =>
    have hne : ("for" = "let") = False ∧ ("for" = "var") = False ∧ ("for" = "set") = False ∧ ("for" = "node") = False ∧
        ("for" = "edge") = False ∧ ("for" = "attr") = False ∧ ("for" = "print") = False ∧ ("for" = "scan") = False ∧
        ("for" = "if") = False := by simp
    simp only [hne, if_false, if_true]
    refine SpellsAt.cast_val (SpellsAt.conseq
      (SpellsAt.bind0 (SpellsAt.ws' Gap.nil _)
        (SpellsAt.bind (spells_unscopedVariable o vc vrest gV f _ hvc hvr hgV (by omega) hf5)
          (SpellsAt.bind0 (SpellsAt.ws' Gap.nil _)
            (SpellsAt.bind (SpellsAt.token "in" _)
              (SpellsAt.bind (SpellsAt.ws' hgIn _)
                (SpellsAt.bind (SpellsAt.expr he f (by omega) hf5 _)
                  (SpellsAt.bind0 (SpellsAt.ws' Gap.nil _)
                    (SpellsAt.bindE (spells_block o gB items f _ hgB (by omega) hf5) (SpellsAt.pure' _ _))))))))) ?_)
      (by simp [advL_append])
    intro t ht
    have hin : TokenStart o ("in".toList ++ (gIn ++ (e.cs ++ blockText gB items)) ++ t) :=
      Or.inr ⟨'i', 'n' :: (gIn ++ (e.cs ++ (blockText gB items ++ t))), by simp, by decide, by simp [isWs]⟩
    refine ⟨tokenStart_cons vc _ hvsemi hvws, ⟨hin, by simp, ?_⟩, hin, trivial, ?_, by simpa [blockText] using heF, ?_, ht, trivial⟩
    · intro x hx
      apply hvfol x
      rw [← hx]
      cases gV <;> simp
    · simpa [List.append_assoc] using hes.tokenStart (blockText gB items ++ t)
    · exact tokenStart_cons '{' _ (by decide) (by simp [isWs])
  case hF =>
    intro t ht
    refine ⟨trivial, ?_, ?_, ht⟩
    · intro x hx
      apply hkwfol x
      rw [← hx]
      cases g0 <;> simp
    · exact tokenStart_cons vc _ hvsemi hvws
  case val => simp [advL_append]


/-! ### if / elif / else -/

theorem spells_conditions (o : POracle) (first : CondItem) (items : List (List Char × CondItem)) (fuel n : Nat) (s : PS)
    (hfirst : CondText o first) (hn : items.length < n) (hfu1 : first.n ≤ fuel) (hfu2 : condsFuel items ≤ fuel) (hf5 : 5 ≤ o.fuel) :
    SpellsAt o (parseConditions o fuel n) s (condsText first items) (condsRd s first items) (CondsFollow o first items) :=
  ⟨fun tail hs hf hl => run_conditions o fuel hf5 items first n s tail hn hfu1 hfu2 hfirst hf hs hl⟩

/-- an arm after its keyword: `gap CONDS BLOCK gap` -/
structure ArmItem where
  gK : List Char
  first : CondItem
  conds : List (List Char × CondItem)
  gB : List Char
  body : List (StmtItem × List Char)
  gAfter : List Char

def ArmItem.text (a : ArmItem) : List Char :=
  a.gK ++ (condsText a.first a.conds ++ (blockText a.gB a.body ++ a.gAfter))

def ArmItem.fuel (a : ArmItem) : Nat :=
  max (max a.first.n (condsFuel a.conds)) (max (a.conds.length + 1) (bodyFuel a.body + 2))

/-- conditions and body of an arm whose keyword has just been read at state `s` -/
def ArmItem.rd (a : ArmItem) (s : PS) : List Cond × List Stmt :=
  let sC := advL s a.gK
  let sB := advL sC (condsText a.first a.conds)
  (condsRd sC a.first a.conds, bodyRd (advL sB ('{' :: a.gB)) a.body)

/-- well-formedness of an arm in front of `t` -/
def ArmItem.OK (o : POracle) (a : ArmItem) (t : List Char) : Prop :=
  Gap o a.gK ∧ CondText o a.first ∧ (∃ x r, a.first.cs = x :: r ∧ x ≠ ';' ∧ isWs o x = false) ∧ Gap o a.gB ∧ Gap o a.gAfter ∧
  CondsFollow o a.first a.conds (blockText a.gB a.body ++ (a.gAfter ++ t)) ∧
  BodyOK o (a.gAfter ++ t) a.body ∧ TokenStart o (bodyText a.body ++ '}' :: (a.gAfter ++ t)) ∧ TokenStart o t

/-- the arm program shared by `if` and `elif`, in continuation form -/
theorem run_arm (o : POracle) {α : Type} (a : ArmItem) (f : Nat) (s : PS) (tail : List Char) (k : List Cond → List Stmt → PP α)
    (hfu : a.fuel ≤ f) (hf5 : 5 ≤ o.fuel) (hs : s.rest = a.text ++ tail) (hf : a.OK o tail) (hl : s.rest.length ≤ o.fuel) :
    run (do
        ws o
        let conds ← parseConditions o f f
        ws o
        let body ← parseStatements o f
        ws o
        k conds body) s = run (k (a.rd s).1 (a.rd s).2) (advL s a.text) := by
  obtain ⟨hgK, hfirst, ⟨x, r, hx, hx1, hx2⟩, hgB, hgA, hcf, hbody, htokb, htokt⟩ := hf
  simp only [ArmItem.fuel] at hfu
  have hs' : s.rest = a.gK ++ (condsText a.first a.conds ++ (blockText a.gB a.body ++ (a.gAfter ++ tail))) := by
    simpa [ArmItem.text] using hs
  have hws1 := run_ws_gap o a.gK _ s hs' hgK
    (Or.inr ⟨x, r ++ (condsRestText a.conds ++ (blockText a.gB a.body ++ (a.gAfter ++ tail))), by simp [condsText, hx], hx1, hx2⟩) hl
  have hs1 : (advL s a.gK).rest = condsText a.first a.conds ++ (blockText a.gB a.body ++ (a.gAfter ++ tail)) := advL_rest _ _ _ hs'
  have hl1 : (advL s a.gK).rest.length ≤ o.fuel := by rw [hs1]; rw [hs'] at hl; simp at hl ⊢; omega
  have hconds := (spells_conditions o a.first a.conds f f _ hfirst (by omega) (by omega) (by omega) hf5).run_eq _ hs1 hcf hl1
  have hs2 : (advL (advL s a.gK) (condsText a.first a.conds)).rest = blockText a.gB a.body ++ (a.gAfter ++ tail) := advL_rest _ _ _ hs1
  have hl2 : (advL (advL s a.gK) (condsText a.first a.conds)).rest.length ≤ o.fuel := by
    rw [hs2]; rw [hs1] at hl1; simp at hl1 ⊢; omega
  have hws2 := run_ws_gap o [] _ _ (by simpa using hs2) Gap.nil
    (by simp only [blockText]; exact tokenStart_cons '{' _ (by decide) (by simp [isWs])) hl2
  have hblock := (spells_block o a.gB a.body f _ hgB (by omega) hf5).run_eq _ hs2 ⟨hbody, htokb⟩ hl2
  have hs3 : (advL (advL (advL s a.gK) (condsText a.first a.conds)) (blockText a.gB a.body)).rest = a.gAfter ++ tail := advL_rest _ _ _ hs2
  have hl3 : (advL (advL (advL s a.gK) (condsText a.first a.conds)) (blockText a.gB a.body)).rest.length ≤ o.fuel := by
    rw [hs3]; rw [hs2] at hl2; simp at hl2 ⊢; omega
  have hws3 := run_ws_gap o a.gAfter _ _ hs3 hgA htokt hl3
  simp only [run_bind']
  rw [hws1]
  simp only
  rw [hconds]
  simp only
  rw [hws2]
  simp only [advL_nil]
  rw [hblock]
  simp only
  rw [hws3]
  simp [ArmItem.rd, ArmItem.text, advL_append]

/-- `(elif ARM)*` -/
def elifsText : List ArmItem → List Char
  | [] => []
  | a :: more => "elif".toList ++ (a.text ++ elifsText more)

/-- the arms read from state `s` (the location of each arm is where its `elif` starts) -/
def elifsRd (s : PS) : List ArmItem → List (List Cond × List Stmt × Loc)
  | [] => []
  | a :: more =>
    let sA := advL s "elif".toList
    ((a.rd sA).1, (a.rd sA).2, locOf s) :: elifsRd (advL sA a.text) more

def ElifsOK (o : POracle) (tail : List Char) : List ArmItem → Prop
  | [] => True
  | a :: more => a.OK o (elifsText more ++ tail) ∧ ElifsOK o tail more

def elifsFuel : List ArmItem → Nat
  | [] => 0
  | a :: more => max a.fuel (elifsFuel more) + 1

theorem run_elifs (o : POracle) (hf5 : 5 ≤ o.fuel) :
    ∀ (arms : List ArmItem) (fuel : Nat) (s : PS) (tail : List Char),
      elifsFuel arms < fuel → ElifsOK o tail arms → "elif".toList.isPrefixOf tail = false →
      s.rest = elifsText arms ++ tail → s.rest.length ≤ o.fuel →
      run (parseElifs o (locOf s) fuel) s = (.ok (elifsRd s arms), advL s (elifsText arms)) := by
  intro arms
  induction arms with
  | nil =>
    intro fuel s tail hn _ hne hs _
    obtain ⟨m, rfl⟩ : ∃ m, fuel = m + 1 := ⟨fuel - 1, by omega⟩
    have hs' : s.rest = tail := by simpa [elifsText] using hs
    unfold parseElifs
    simp only [run_bind']
    rw [run_attempt_token_err "elif" s (by rw [hs']; exact hne)]
    simp [elifsRd, elifsText, advL]
  | cons a more ih =>
    intro fuel s tail hn hok hne hs hl
    obtain ⟨m, rfl⟩ : ∃ m, fuel = m + 1 := ⟨fuel - 1, by omega⟩
    obtain ⟨haok, hmore⟩ := hok
    simp only [elifsFuel] at hn
    have hs' : s.rest = "elif".toList ++ (a.text ++ (elifsText more ++ tail)) := by simpa [elifsText] using hs
    have hs1 : (advL s "elif".toList).rest = a.text ++ (elifsText more ++ tail) := advL_rest _ _ _ hs'
    have hl1 : (advL s "elif".toList).rest.length ≤ o.fuel := by rw [hs1]; rw [hs'] at hl; simp at hl ⊢; omega
    have hs2 : (advL (advL s "elif".toList) a.text).rest = elifsText more ++ tail := advL_rest _ _ _ hs1
    have hl2 : (advL (advL s "elif".toList) a.text).rest.length ≤ o.fuel := by rw [hs2]; rw [hs1] at hl1; simp at hl1 ⊢; omega
    have htokt : TokenStart o (elifsText more ++ tail) := haok.2.2.2.2.2.2.2.2
    have hws := run_ws_gap o [] _ _ (by simpa using hs2) Gap.nil htokt hl2
    have hrec := ih m _ tail (by omega) hmore hne hs2 hl2
    unfold parseElifs
    simp only [run_bind']
    rw [run_attempt_token_ok "elif" _ s hs']
    simp only
    rw [run_arm o a m _ _ _ (by omega) hf5 hs1 haok hl1]
    simp only [run_bind']
    rw [hws]
    simp only [advL_nil, run_getS]
    rw [hrec]
    simp [elifsRd, elifsText, advL_append]


/-- `else gap BLOCK gap` -/
structure ElseItem where
  gK : List Char
  gB : List Char
  body : List (StmtItem × List Char)
  gAfter : List Char

def ElseItem.text (e : ElseItem) : List Char := "else".toList ++ (e.gK ++ (blockText e.gB e.body ++ e.gAfter))

def ElseItem.OK (o : POracle) (e : ElseItem) (t : List Char) : Prop :=
  Gap o e.gK ∧ Gap o e.gB ∧ Gap o e.gAfter ∧ BodyOK o (e.gAfter ++ t) e.body ∧
  TokenStart o (bodyText e.body ++ '}' :: (e.gAfter ++ t)) ∧ TokenStart o t

def elseText : Option ElseItem → List Char
  | none => []
  | some e => e.text

def elseRd (s : PS) : Option ElseItem → List (List Cond × List Stmt × Loc)
  | none => []
  | some e => [([], bodyRd (advL s ("else".toList ++ e.gK ++ '{' :: e.gB)) e.body, locOf s)]

def ElseOK (o : POracle) (t : List Char) : Option ElseItem → Prop
  | none => "else".toList.isPrefixOf t = false
  | some e => e.OK o t

def elseFuel : Option ElseItem → Nat
  | none => 0
  | some e => bodyFuel e.body + 2

/-- `if ARM (elif ARM)* (else BLOCK)?` — the first arm's conditions follow the gap after `if` -/
def ifText (g0 : List Char) (a : ArmItem) (elifs : List ArmItem) (els : Option ElseItem) : List Char :=
  "if".toList ++ (g0 ++ (a.text ++ (elifsText elifs ++ elseText els)))

theorem stmtText_if (o : POracle) (g0 : List Char) (a : ArmItem) (elifs : List ArmItem) (els : Option ElseItem)
    (hg0 : Gap o g0) (hgK : a.gK = [])
    (hkwfol : ∀ x, (g0 ++ a.first.cs).head? = some x → isIdent o x = false) :
    StmtText o (max (max a.fuel (elifsFuel elifs + 1)) (elseFuel els) + 1) (ifText g0 a elifs els)
      (fun s =>
        let sA := advL s ("if".toList ++ g0)
        let sE := advL sA a.text
        let sL := advL sE (elifsText elifs)
        .ifS (((a.rd sA).1, (a.rd sA).2, locOf s) :: elifsRd sE elifs ++ elseRd sL els) (locOf s))
      (fun t => a.OK o (elifsText elifs ++ (elseText els ++ t)) ∧ ElifsOK o (elseText els ++ t) elifs ∧
        "elif".toList.isPrefixOf (elseText els ++ t) = false ∧ ElseOK o t els) := by
  intro fuel s hn hf5
  obtain ⟨f, rfl⟩ : ∃ f, fuel = f + 1 := ⟨fuel - 1, by omega⟩
  refine ⟨fun tail hs hf hl => ?_⟩
  obtain ⟨haok, helifs, hnoelif, hels⟩ := hf
  obtain ⟨_, _, ⟨x, r, hx, hx1, hx2⟩, _⟩ := id haok
  have hname := SpellsAt.kw (o := o) "if" 'i' ['f'] rfl (by simp [isIdentStart, isAlpha]) (by simp [isIdent, isAlnum]) s
  have hs' : s.rest = "if".toList ++ (g0 ++ (a.text ++ (elifsText elifs ++ (elseText els ++ tail)))) := by simpa [ifText] using hs
  have hatext : a.text = a.first.cs ++ (condsRestText a.conds ++ (blockText a.gB a.body ++ a.gAfter)) := by
    simp [ArmItem.text, hgK, condsText]
  have h1 := hname.run_eq _ hs' (by
    intro y hy
    apply hkwfol y
    rw [← hy, hatext]
    cases g0 <;> simp [hx]) hl
  have hs1 : (advL s "if".toList).rest = g0 ++ (a.text ++ (elifsText elifs ++ (elseText els ++ tail))) := advL_rest _ _ _ hs'
  have hl1 : (advL s "if".toList).rest.length ≤ o.fuel := by rw [hs1]; rw [hs'] at hl; simp at hl ⊢; omega
  have hws1 := run_ws_gap o g0 _ _ hs1 hg0
    (Or.inr ⟨x, r ++ (condsRestText a.conds ++ (blockText a.gB a.body ++ a.gAfter)) ++ (elifsText elifs ++ (elseText els ++ tail)),
      by rw [hatext]; simp [hx], hx1, hx2⟩) hl1
  have hs2 : (advL (advL s "if".toList) g0).rest = a.text ++ (elifsText elifs ++ (elseText els ++ tail)) := advL_rest _ _ _ hs1
  have hl2 : (advL (advL s "if".toList) g0).rest.length ≤ o.fuel := by rw [hs2]; rw [hs1] at hl1; simp at hl1 ⊢; omega
  have hs3 : (advL (advL (advL s "if".toList) g0) a.text).rest = elifsText elifs ++ (elseText els ++ tail) := advL_rest _ _ _ hs2
  have hl3 : (advL (advL (advL s "if".toList) g0) a.text).rest.length ≤ o.fuel := by rw [hs3]; rw [hs2] at hl2; simp at hl2 ⊢; omega
  have helifrun := run_elifs o hf5 elifs f _ (elseText els ++ tail) (by omega) helifs hnoelif hs3 hl3
  have hs4 : (advL (advL (advL (advL s "if".toList) g0) a.text) (elifsText elifs)).rest = elseText els ++ tail := advL_rest _ _ _ hs3
  have hl4 : (advL (advL (advL (advL s "if".toList) g0) a.text) (elifsText elifs)).rest.length ≤ o.fuel := by
    rw [hs4]; rw [hs3] at hl3; simp at hl3 ⊢; omega
  have hne : ("if" = "let") = False ∧ ("if" = "var") = False ∧ ("if" = "set") = False ∧ ("if" = "node") = False ∧
      ("if" = "edge") = False ∧ ("if" = "attr") = False ∧ ("if" = "print") = False ∧ ("if" = "scan") = False := by simp
  unfold parseStatement
  simp only [run_bind', run_getS, h1]
  rw [hws1]
  simp only [hne, if_false, if_true]
  rw [run_arm o a f _ _ _ (by omega) hf5 hs2 haok hl2]
  simp only [run_bind', run_getS]
  rw [helifrun]
  simp only [run_bind', run_getS]
  cases els with
  | none =>
    have hnoelse : "else".toList.isPrefixOf (advL (advL (advL (advL s "if".toList) g0) a.text) (elifsText elifs)).rest = false := by
      rw [hs4]; simpa [elseText, ElseOK] using hels
    rw [run_attempt_token_err "else" _ hnoelse]
    simp [ifText, elseText, elseRd, advL_append, run_bind']
  | some e =>
    obtain ⟨hgK', hgB, hgA, hbody, htokb, htokt⟩ := hels
    have hs5 : (advL (advL (advL (advL s "if".toList) g0) a.text) (elifsText elifs)).rest =
        "else".toList ++ (e.gK ++ (blockText e.gB e.body ++ (e.gAfter ++ tail))) := by
      rw [hs4]; simp [elseText, ElseItem.text]
    let s5 := advL (advL (advL (advL s "if".toList) g0) a.text) (elifsText elifs)
    have hs6 : (advL s5 "else".toList).rest = e.gK ++ (blockText e.gB e.body ++ (e.gAfter ++ tail)) := advL_rest _ _ _ hs5
    have hl6 : (advL s5 "else".toList).rest.length ≤ o.fuel := by rw [hs6]; rw [hs5] at hl4; simp at hl4 ⊢; omega
    have hws6 := run_ws_gap o e.gK _ _ hs6 hgK'
      (by simp only [blockText]; exact tokenStart_cons '{' _ (by decide) (by simp [isWs])) hl6
    have hs7 : (advL (advL s5 "else".toList) e.gK).rest = blockText e.gB e.body ++ (e.gAfter ++ tail) := advL_rest _ _ _ hs6
    have hl7 : (advL (advL s5 "else".toList) e.gK).rest.length ≤ o.fuel := by rw [hs7]; rw [hs6] at hl6; simp at hl6 ⊢; omega
    have hblock := (spells_block o e.gB e.body f _ hgB (by simp [elseFuel] at hn; omega) hf5).run_eq _ hs7 ⟨hbody, htokb⟩ hl7
    have hs8 : (advL (advL (advL s5 "else".toList) e.gK) (blockText e.gB e.body)).rest = e.gAfter ++ tail := advL_rest _ _ _ hs7
    have hl8 : (advL (advL (advL s5 "else".toList) e.gK) (blockText e.gB e.body)).rest.length ≤ o.fuel := by
      rw [hs8]; rw [hs7] at hl7; simp at hl7 ⊢; omega
    have hws8 := run_ws_gap o e.gAfter _ _ hs8 hgA htokt hl8
    have hs9 : (advL (advL (advL (advL s5 "else".toList) e.gK) (blockText e.gB e.body)) e.gAfter).rest = tail := advL_rest _ _ _ hs8
    have hl9 : (advL (advL (advL (advL s5 "else".toList) e.gK) (blockText e.gB e.body)) e.gAfter).rest.length ≤ o.fuel := by
      rw [hs9]; rw [hs8] at hl8; simp at hl8 ⊢; omega
    have hws9 := run_ws_gap o [] _ _ (by simpa using hs9) Gap.nil htokt hl9
    rw [run_attempt_token_ok "else" _ _ hs5]
    simp only [run_bind']
    rw [show advL (advL (advL (advL s "if".toList) g0) a.text) (elifsText elifs) = s5 from rfl, hws6]
    simp only
    rw [hblock]
    simp only
    rw [hws8]
    simp only
    rw [hws9]
    simp [ifText, elseText, elseRd, ElseItem.text, advL_append, s5, run_bind']


/-! ### scan -/

/-- a scan arm: `"REGEX" gap BLOCK gap` -/
structure ScanArmItem where
  chars : List Char
  lit : List Char
  gA : List Char
  gB : List Char
  body : List (StmtItem × List Char)
  gAfter : List Char

def ScanArmItem.text (a : ScanArmItem) : List Char :=
  '"' :: a.lit ++ '"' :: (a.gA ++ (blockText a.gB a.body ++ a.gAfter))

def scanArmsText : List ScanArmItem → List Char
  | [] => []
  | a :: more => a.text ++ scanArmsText more

def scanArmsRd (kwLoc : Loc) (s : PS) : List ScanArmItem → List (String × List Stmt × Loc)
  | [] => []
  | a :: more =>
    let sB := advL s ('"' :: a.lit ++ '"' :: a.gA)
    (String.ofList a.chars, bodyRd (advL sB ('{' :: a.gB)) a.body, kwLoc) :: scanArmsRd kwLoc (advL s a.text) more

def ScanArmsOK (o : POracle) (tail : List Char) : List ScanArmItem → Prop
  | [] => True
  | a :: more =>
    StrRepr a.chars a.lit ∧ o.regexValid (String.ofList a.chars) = some true ∧ Gap o a.gA ∧ Gap o a.gB ∧ Gap o a.gAfter ∧
    BodyOK o (a.gAfter ++ (scanArmsText more ++ '}' :: tail)) a.body ∧
    TokenStart o (bodyText a.body ++ '}' :: (a.gAfter ++ (scanArmsText more ++ '}' :: tail))) ∧
    TokenStart o (scanArmsText more ++ '}' :: tail) ∧ ScanArmsOK o tail more

def scanArmsFuel : List ScanArmItem → Nat
  | [] => 0
  | a :: more => max (bodyFuel a.body + 2) (scanArmsFuel more) + 1

theorem run_scanArms (o : POracle) (kwLoc : Loc) (hf5 : 5 ≤ o.fuel) :
    ∀ (arms : List ScanArmItem) (fuel : Nat) (s : PS) (tail : List Char),
      scanArmsFuel arms < fuel → ScanArmsOK o tail arms → s.rest = scanArmsText arms ++ '}' :: tail → s.rest.length ≤ o.fuel →
      run (parseScanArmsChecked o kwLoc fuel) s = (.ok (scanArmsRd kwLoc s arms), advL s (scanArmsText arms)) := by
  intro arms
  induction arms with
  | nil =>
    intro fuel s tail hn _ hs _
    obtain ⟨m, rfl⟩ : ∃ m, fuel = m + 1 := ⟨fuel - 1, by omega⟩
    have hs' : s.rest = '}' :: tail := by simpa [scanArmsText] using hs
    unfold parseScanArmsChecked
    simp [run_bind', run_peek_cons hs', scanArmsRd, scanArmsText, advL]
  | cons a more ih =>
    intro fuel s tail hn hok hs hl
    obtain ⟨m, rfl⟩ : ∃ m, fuel = m + 1 := ⟨fuel - 1, by omega⟩
    obtain ⟨hstr, hvalid, hgA, hgB, hgAfter, hbody, htokb, htokt, hmore⟩ := hok
    simp only [scanArmsFuel] at hn
    have hs' : s.rest = '"' :: a.lit ++ '"' :: (a.gA ++ (blockText a.gB a.body ++ (a.gAfter ++ (scanArmsText more ++ '}' :: tail)))) := by
      simpa [scanArmsText, ScanArmItem.text] using hs
    have hpk : s.rest = '"' :: (a.lit ++ '"' :: (a.gA ++ (blockText a.gB a.body ++ (a.gAfter ++ (scanArmsText more ++ '}' :: tail))))) := by
      simpa using hs'
    have hstrrun := run_parseString o a.chars a.lit _ s hstr hs' (by rw [hs'] at hl; simp at hl; omega)
    have hs1 : (advL s ('"' :: a.lit ++ ['"'])).rest = a.gA ++ (blockText a.gB a.body ++ (a.gAfter ++ (scanArmsText more ++ '}' :: tail))) :=
      advL_rest _ _ _ (by simpa using hs')
    have hl1 : (advL s ('"' :: a.lit ++ ['"'])).rest.length ≤ o.fuel := by rw [hs1]; rw [hs'] at hl; simp at hl ⊢; omega
    have hws1 := run_ws_gap o a.gA _ _ hs1 hgA
      (by simp only [blockText]; exact tokenStart_cons '{' _ (by decide) (by simp [isWs])) hl1
    have hs2 : (advL (advL s ('"' :: a.lit ++ ['"'])) a.gA).rest = blockText a.gB a.body ++ (a.gAfter ++ (scanArmsText more ++ '}' :: tail)) :=
      advL_rest _ _ _ hs1
    have hl2 : (advL (advL s ('"' :: a.lit ++ ['"'])) a.gA).rest.length ≤ o.fuel := by rw [hs2]; rw [hs1] at hl1; simp at hl1 ⊢; omega
    have hblock := (spells_block o a.gB a.body m _ hgB (by omega) hf5).run_eq _ hs2 ⟨hbody, htokb⟩ hl2
    have hs3 : (advL (advL (advL s ('"' :: a.lit ++ ['"'])) a.gA) (blockText a.gB a.body)).rest = a.gAfter ++ (scanArmsText more ++ '}' :: tail) :=
      advL_rest _ _ _ hs2
    have hl3 : (advL (advL (advL s ('"' :: a.lit ++ ['"'])) a.gA) (blockText a.gB a.body)).rest.length ≤ o.fuel := by
      rw [hs3]; rw [hs2] at hl2; simp at hl2 ⊢; omega
    have hws3 := run_ws_gap o a.gAfter _ _ hs3 hgAfter htokt hl3
    have hs4 : (advL (advL (advL (advL s ('"' :: a.lit ++ ['"'])) a.gA) (blockText a.gB a.body)) a.gAfter).rest = scanArmsText more ++ '}' :: tail :=
      advL_rest _ _ _ hs3
    have hl4 : (advL (advL (advL (advL s ('"' :: a.lit ++ ['"'])) a.gA) (blockText a.gB a.body)) a.gAfter).rest.length ≤ o.fuel := by
      rw [hs4]; rw [hs3] at hl3; simp at hl3 ⊢; omega
    have hrec := ih m _ tail (by omega) hmore hs4 hl4
    unfold parseScanArmsChecked
    simp only [run_bind', run_peek_cons hpk, show ('"' = '}') = False by decide, if_false, run_getS, hstrrun, hvalid]
    rw [hws1]
    simp only
    rw [hblock]
    simp only
    rw [hws3]
    simp only
    rw [hrec]
    simp only [run_pure, scanArmsRd, scanArmsText, ScanArmItem.text]
    rw [show ('"' :: a.lit ++ '"' :: (a.gA ++ (blockText a.gB a.body ++ a.gAfter)) ++ scanArmsText more) =
      ('"' :: a.lit ++ ['"']) ++ (a.gA ++ (blockText a.gB a.body ++ (a.gAfter ++ scanArmsText more))) by simp]
    rw [show ('"' :: a.lit ++ '"' :: (a.gA ++ (blockText a.gB a.body ++ a.gAfter))) =
      ('"' :: a.lit ++ ['"']) ++ (a.gA ++ (blockText a.gB a.body ++ a.gAfter)) by simp]
    rw [show ('"' :: a.lit ++ '"' :: a.gA) = ('"' :: a.lit ++ ['"']) ++ a.gA by simp]
    simp only [advL_append]


/-- `scan EXPR { gap ARM* }` -/
def scanText (g0 : List Char) (e : Item) (g1 : List Char) (arms : List ScanArmItem) : List Char :=
  "scan".toList ++ (g0 ++ (e.cs ++ ("{".toList ++ (g1 ++ (scanArmsText arms ++ "}".toList)))))

theorem stmtText_scan (o : POracle) (g0 : List Char) (e : Item) (g1 : List Char) (arms : List ScanArmItem)
    (hg0 : Gap o g0) (hg1 : Gap o g1) (he : ExprText o e.n e.cs e.rd e.F) (hes : e.Starts o) (heF : e.F (some '{'))
    (hkwfol : ∀ x, (g0 ++ e.cs).head? = some x → isIdent o x = false) :
    StmtText o (max e.n (scanArmsFuel arms + 1) + 1) (scanText g0 e g1 arms)
      (fun s =>
        let sE := advL s ("scan".toList ++ g0)
        let sA := advL sE (e.cs ++ "{".toList ++ g1)
        .scan (e.rd sE) (scanArmsRd (locOf s) sA arms) (locOf s))
      (fun t => ScanArmsOK o t arms ∧ TokenStart o (scanArmsText arms ++ '}' :: t)) := by
  intro fuel s hn hf5
  obtain ⟨f, rfl⟩ : ∃ f, fuel = f + 1 := ⟨fuel - 1, by omega⟩
  refine ⟨fun tail hs hf hl => ?_⟩
  obtain ⟨hok, htok⟩ := hf
  have hname := SpellsAt.kw (o := o) "scan" 's' ['c', 'a', 'n'] rfl (by simp [isIdentStart, isAlpha]) (by simp [isIdent, isAlnum]) s
  have hs' : s.rest = "scan".toList ++ (g0 ++ (e.cs ++ ("{".toList ++ (g1 ++ (scanArmsText arms ++ ("}".toList ++ tail)))))) := by
    simpa [scanText] using hs
  have h1 := hname.run_eq _ hs' (by
    intro y hy
    apply hkwfol y
    rw [← hy]
    obtain ⟨c, r, hc, _, _⟩ := hes
    cases g0 <;> simp [hc]) hl
  have hs1 : (advL s "scan".toList).rest = g0 ++ (e.cs ++ ("{".toList ++ (g1 ++ (scanArmsText arms ++ ("}".toList ++ tail))))) := advL_rest _ _ _ hs'
  have hl1 : (advL s "scan".toList).rest.length ≤ o.fuel := by rw [hs1]; rw [hs'] at hl; simp at hl ⊢; omega
  have hws1 := run_ws_gap o g0 _ _ hs1 hg0 (hes.tokenStart _) hl1
  have hs2 : (advL (advL s "scan".toList) g0).rest = e.cs ++ ("{".toList ++ (g1 ++ (scanArmsText arms ++ ("}".toList ++ tail)))) := advL_rest _ _ _ hs1
  have hl2 : (advL (advL s "scan".toList) g0).rest.length ≤ o.fuel := by rw [hs2]; rw [hs1] at hl1; simp at hl1 ⊢; omega
  have hrunE := he f _ _ (by omega) hs2 (by simpa using heF) hl2 hf5
  have hs3 : (advL (advL (advL s "scan".toList) g0) e.cs).rest = "{".toList ++ (g1 ++ (scanArmsText arms ++ ("}".toList ++ tail))) := advL_rest _ _ _ hs2
  have hl3 : (advL (advL (advL s "scan".toList) g0) e.cs).rest.length ≤ o.fuel := by rw [hs3]; rw [hs2] at hl2; simp at hl2 ⊢; omega
  have hws3 := run_ws_gap o [] _ _ (by simpa using hs3) Gap.nil (Or.inr ⟨'{', g1 ++ (scanArmsText arms ++ ("}".toList ++ tail)), by simp, by decide, by simp [isWs]⟩) hl3
  have htk := run_consumeToken_ok "{" _ _ hs3
  have hs4 : (advL (advL (advL (advL s "scan".toList) g0) e.cs) "{".toList).rest = g1 ++ (scanArmsText arms ++ ("}".toList ++ tail)) := advL_rest _ _ _ hs3
  have hl4 : (advL (advL (advL (advL s "scan".toList) g0) e.cs) "{".toList).rest.length ≤ o.fuel := by rw [hs4]; rw [hs3] at hl3; simp at hl3 ⊢; omega
  have hws4 := run_ws_gap o g1 _ _ hs4 hg1 (by simpa using htok) hl4
  have hs5 : (advL (advL (advL (advL (advL s "scan".toList) g0) e.cs) "{".toList) g1).rest = scanArmsText arms ++ '}' :: tail := by
    have := advL_rest _ _ _ hs4; simpa using this
  have hl5 : (advL (advL (advL (advL (advL s "scan".toList) g0) e.cs) "{".toList) g1).rest.length ≤ o.fuel := by
    rw [hs5]; rw [hs4] at hl4; simp at hl4 ⊢; omega
  have harms := run_scanArms o (locOf s) hf5 arms f _ tail (by omega) hok hs5 hl5
  have hs6 : (advL (advL (advL (advL (advL (advL s "scan".toList) g0) e.cs) "{".toList) g1) (scanArmsText arms)).rest = "}".toList ++ tail := by
    have := advL_rest _ _ _ hs5; simpa using this
  have htk2 := run_consumeToken_ok "}" _ _ hs6
  have hne : ("scan" = "let") = False ∧ ("scan" = "var") = False ∧ ("scan" = "set") = False ∧ ("scan" = "node") = False ∧
      ("scan" = "edge") = False ∧ ("scan" = "attr") = False ∧ ("scan" = "print") = False := by simp
  unfold parseStatement
  simp only [run_bind', run_getS, h1]
  rw [hws1]
  simp only [hne, if_false, if_true, run_bind', hrunE]
  rw [hws3]
  simp only [advL_nil, htk]
  rw [hws4]
  simp only
  rw [harms]
  simp only [htk2, run_pure, scanText]
  simp [advL_append]

end Parser