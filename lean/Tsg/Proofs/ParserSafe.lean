/-
  The parser model has exactly one `panic` site (`expect("missing capture index for full match")`), which is
  unreachable under tree-sitter's contract: a query text that ends in `@__tsg__full_match` and is accepted has a
  capture of that name. `Safe p`: no reachable panic leaf in the program term `p`.
-/
import Tsg.Proofs.Parser

namespace PP

/-- no `panic` leaf anywhere in the program -/
inductive Safe : {α : Type} → PP α → Prop where
  | pure {α : Type} (a : α) : Safe (.pure a)
  | fail {α : Type} (f : PFail) : (∀ s, f ≠ .panic s) → Safe (.fail f : PP α)
  | next {α : Type} (k : Option Char → PP α) : (∀ c, Safe (k c)) → Safe (.next k)
  | view {α : Type} (k : PS → PP α) : (∀ s, Safe (k s)) → Safe (.view k)
  | attempt {α β : Type} (m : PP β) (k : Except PErrK β → PP α) : Safe m → (∀ r, Safe (k r)) → Safe (.attempt m k)

theorem Safe.bind {α β : Type} {p : PP α} {f : α → PP β} (hp : Safe p) (hf : ∀ a, Safe (f a)) : Safe (p >>= f) := by
  show Safe (PP.bind p f)
  induction hp with
  | pure a => exact hf a
  | fail e h => exact Safe.fail e h
  | next k _ ih => exact Safe.next _ (fun c => ih c hf)
  | view k _ ih => exact Safe.view _ (fun s => ih s hf)
  | attempt m k hm _ _ ihk => exact Safe.attempt m _ hm (fun r => ihk r hf)

/-- a safe program never ends in `panic`, from any state -/
theorem Safe.run {α : Type} {p : PP α} (hp : Safe p) (s : PS) (site : String) : (PP.run p s).1 ≠ .error (.panic site) := by
  induction hp generalizing s site with
  | pure a => simp [PP.run]
  | fail e h => simp only [PP.run]; intro hc; injection hc with hc; exact h site hc
  | next k _ ih =>
    simp only [PP.run]
    cases s.rest with
    | nil => exact ih none s site
    | cons c r => exact ih (some c) _ site
  | view k _ ih => simp only [PP.run]; exact ih s s site
  | attempt m k _ _ ihm ihk =>
    simp only [PP.run]
    cases hm : PP.run m s with
    | mk r s' =>
      cases r with
      | ok b => exact ihk (.ok b) s' site
      | error e =>
        cases e with
        | err e => exact ihk (.error e) s' site
        | need q => simp
        | outOfFuel => simp
        | panic x =>
          have := ihm s x
          rw [hm] at this
          exact absurd rfl this

theorem Safe.ite {α : Type} {c : Prop} [Decidable c] {a b : PP α} (ha : Safe a) (hb : Safe b) :
    Safe (if c then a else b) := by
  split <;> assumption

theorem Safe.pure' {α : Type} (a : α) : Safe (Pure.pure a : PP α) := Safe.pure a
theorem Safe.failE {α : Type} (e : PErrK) : Safe (PP.failE e : PP α) := Safe.fail _ (by intro s h; cases h)
theorem Safe.need {α : Type} (q : PQ) : Safe (PP.fail (.need q) : PP α) := Safe.fail _ (by intro s h; cases h)
theorem Safe.fuel {α : Type} : Safe (PP.fail .outOfFuel : PP α) := Safe.fail _ (by intro s h; cases h)
theorem Safe.getS : Safe PP.getS := Safe.view _ (fun s => Safe.pure s)
theorem Safe.nextC : Safe PP.nextC := Safe.next _ (fun c => Safe.pure c)
theorem Safe.attemptP {β : Type} {m : PP β} (h : Safe m) : Safe (PP.attemptP m) := Safe.attempt m _ h (fun r => Safe.pure r)

end PP

namespace Parser
open PP (Safe)

/-- one step of the syntactic safety argument -/
macro "safe_step" : tactic =>
  `(tactic| first
    | with_reducible exact Safe.pure' _ | with_reducible exact Safe.pure _ | with_reducible exact Safe.failE _
    | with_reducible exact Safe.need _ | with_reducible exact Safe.fuel
    | with_reducible exact Safe.getS | with_reducible exact Safe.nextC
    | with_reducible assumption
    | (with_reducible apply Safe.attemptP)
    | (with_reducible apply Safe.bind)
    | (with_reducible apply Safe.ite)
    | (intro _)
    | split
    | (dsimp only))

macro "safe" : tactic => `(tactic| repeat safe_step)
macro "safe_with " t:tactic : tactic => `(tactic| repeat (first | (with_reducible ($t:tactic)) | safe_step))

theorem safe_peek : Safe peek := by unfold peek; safe
theorem safe_tryPeek : Safe tryPeek := by unfold tryPeek; safe
theorem safe_next : Safe next := by unfold next; safe
theorem safe_skip : Safe skip := by
  unfold skip; apply Safe.bind safe_next; intro _; exact Safe.pure' _

theorem safe_consumeWhitespace (o : POracle) (fuel : Nat) (ic : Bool) : Safe (consumeWhitespace o fuel ic) := by
  induction fuel generalizing ic with
  | zero => unfold consumeWhitespace; safe
  | succ fuel ih =>
    unfold consumeWhitespace
    apply Safe.bind safe_tryPeek
    intro c
    cases c with
    | none => exact Safe.pure' _
    | some ch =>
      simp only
      split
      · exact Safe.bind safe_skip (fun _ => ih _)
      · split
        · exact Safe.bind safe_skip (fun _ => ih _)
        · split
          · exact Safe.pure' _
          · exact Safe.bind safe_skip (fun _ => ih _)

theorem safe_ws (o : POracle) : Safe (ws o) := safe_consumeWhitespace o _ _

theorem safe_consumeWhile (f : Char → Bool) (fuel : Nat) (acc : List Char) : Safe (consumeWhile f fuel acc) := by
  induction fuel generalizing acc with
  | zero => unfold consumeWhile; safe
  | succ fuel ih =>
    unfold consumeWhile
    apply Safe.bind safe_tryPeek
    intro c
    cases c with
    | none => exact Safe.pure' _
    | some ch =>
      simp only
      split
      · exact Safe.bind safe_skip (fun _ => ih _)
      · exact Safe.pure' _

theorem safe_consumeWhileAll (o : POracle) (f : Char → Bool) : Safe (consumeWhileAll o f) := safe_consumeWhile f _ _

theorem safe_consumeN (n : Nat) : Safe (consumeN n) := by
  induction n with
  | zero => unfold consumeN; safe
  | succ n ih => unfold consumeN; exact Safe.bind safe_skip (fun _ => ih)

theorem safe_consumeToken (tok : String) : Safe (consumeToken tok) := by
  unfold consumeToken
  apply Safe.bind Safe.getS
  intro s
  split
  · exact safe_consumeN _
  · exact Safe.failE _

theorem safe_consumeKeyword (o : POracle) (tok : String) : Safe (consumeKeyword o tok) := by
  unfold consumeKeyword
  apply Safe.bind Safe.getS
  intro s
  split
  · exact safe_consumeN _
  · exact Safe.failE _

theorem safe_parseName (o : POracle) (w : String) : Safe (parseName o w) := by
  unfold parseName
  apply Safe.bind safe_next
  intro ch
  split
  · exact Safe.bind Safe.getS (fun _ => Safe.failE _)
  · exact Safe.bind (safe_consumeWhileAll o _) (fun _ => Safe.pure' _)

theorem safe_parseIdentifier (o : POracle) (w : String) : Safe (parseIdentifier o w) := safe_parseName o w

theorem safe_parseStringLoop (fuel : Nat) (esc : Bool) (acc : List Char) : Safe (parseStringLoop fuel esc acc) := by
  induction fuel generalizing esc acc with
  | zero => unfold parseStringLoop; exact Safe.fuel
  | succ fuel ih =>
    unfold parseStringLoop
    apply Safe.bind safe_next
    intro ch
    split
    · exact ih _ _
    · split
      · exact Safe.pure' _
      · split
        · exact ih _ _
        · exact ih _ _

theorem safe_parseString (o : POracle) : Safe (parseString o) := by
  unfold parseString
  exact Safe.bind (safe_consumeToken _) (fun _ => safe_parseStringLoop _ _ _)

theorem safe_parseIntegerConstant (o : POracle) : Safe (parseIntegerConstant o) := by
  unfold parseIntegerConstant
  apply Safe.bind Safe.getS; intro s0
  apply Safe.bind (safe_consumeWhileAll o _); intro ds
  simp only
  split
  · exact Safe.pure' _
  · exact Safe.failE _

theorem safe_parseLiteral (o : POracle) : Safe (parseLiteral o) := by
  unfold parseLiteral
  apply Safe.bind Safe.getS; intro s0
  apply Safe.bind (safe_consumeToken _); intro _
  apply Safe.bind (safe_parseName o _); intro lit
  safe

theorem safe_parseRegexCapture (o : POracle) : Safe (parseRegexCapture o) := by
  unfold parseRegexCapture
  apply Safe.bind Safe.getS; intro s0
  apply Safe.bind (safe_consumeToken _); intro _
  apply Safe.bind (safe_consumeWhileAll o _); intro ds
  safe

theorem safe_parseCapture (o : POracle) : Safe (parseCapture o) := by
  unfold parseCapture
  apply Safe.bind Safe.getS; intro s0
  apply Safe.bind (safe_consumeToken _); intro _
  apply Safe.bind safe_next; intro ch
  split
  · exact Safe.bind Safe.getS (fun _ => Safe.failE _)
  · exact Safe.bind (safe_consumeWhileAll o _) (fun _ => Safe.pure' _)

end Parser

namespace Parser
open PP (Safe)

/-- the expression parsers, all at once, by induction on the fuel -/
theorem safe_expr_block (o : POracle) : ∀ fuel,
    Safe (parseExpression o fuel) ∧ (∀ e, Safe (scopedChain o fuel e)) ∧ Safe (parseCall o fuel) ∧
    Safe (parseCallArgs o fuel) ∧ (∀ m, Safe (parseSequence o m fuel)) ∧ (∀ b, Safe (parseCollection o b fuel)) ∧
    Safe (parseVariable o fuel) ∧ Safe (parseUnscopedVariable o fuel) := by
  intro fuel
  induction fuel with
  | zero =>
    refine ⟨?_, ?_, ?_, ?_, ?_, ?_, ?_, ?_⟩
    · unfold parseExpression; exact Safe.fuel
    · intro e; unfold scopedChain; exact Safe.fuel
    · unfold parseCall; exact Safe.fuel
    · unfold parseCallArgs; exact Safe.fuel
    · intro m; unfold parseSequence; exact Safe.fuel
    · intro b; unfold parseCollection; exact Safe.fuel
    · unfold parseVariable; exact Safe.fuel
    · unfold parseUnscopedVariable; exact Safe.fuel
  | succ fuel ih =>
    obtain ⟨hE, hS, hC, hA, hQ, hL, hV, hU⟩ := ih
    have hList : Safe (parseList o fuel) := by unfold parseList; exact hL true
    have hSet : Safe (parseSet o fuel) := by unfold parseSet; exact hL false
    have hws := safe_ws o
    have h1 := safe_parseLiteral o
    have h2 := safe_parseString o
    have h3 := safe_parseCapture o
    have h4 := safe_parseRegexCapture o
    have h5 := safe_parseIntegerConstant o
    have h7 := safe_peek
    have h8 := safe_tryPeek
    have h9 := safe_skip
    refine ⟨?_, ?_, ?_, ?_, ?_, ?_, ?_, ?_⟩
    · unfold parseExpression
      safe_with (first | exact hS _ | exact safe_parseIdentifier o _)
    · intro e
      unfold scopedChain
      safe_with (first | exact hS _ | exact safe_parseIdentifier o _)
    · unfold parseCall
      safe_with (first | exact safe_consumeToken _ | exact safe_parseIdentifier o _)
    · unfold parseCallArgs
      safe
    · intro m
      unfold parseSequence
      safe_with (first | exact hQ _ | exact safe_consumeToken _)
    · intro b
      unfold parseCollection
      safe_with (first | exact hQ _ | exact safe_consumeToken _)
    · unfold parseVariable
      safe
    · unfold parseUnscopedVariable
      safe

theorem safe_parseExpression (o : POracle) (fuel : Nat) : Safe (parseExpression o fuel) := (safe_expr_block o fuel).1
theorem safe_parseVariable (o : POracle) (fuel : Nat) : Safe (parseVariable o fuel) := (safe_expr_block o fuel).2.2.2.2.2.2.1
theorem safe_parseUnscopedVariable (o : POracle) (fuel : Nat) : Safe (parseUnscopedVariable o fuel) :=
  (safe_expr_block o fuel).2.2.2.2.2.2.2

theorem safe_parseAttribute (o : POracle) (fuel : Nat) : Safe (parseAttribute o fuel) := by
  unfold parseAttribute
  apply Safe.bind (safe_parseIdentifier o _); intro name
  apply Safe.bind (safe_ws o); intro _
  apply Safe.bind safe_tryPeek; intro c
  split
  · apply Safe.bind (safe_consumeToken _); intro _
    apply Safe.bind (safe_ws o); intro _
    apply Safe.bind (safe_parseExpression o fuel); intro e
    exact Safe.pure' _
  · exact Safe.pure' _

theorem safe_parseAttributesLoop (o : POracle) (fuel n : Nat) : Safe (parseAttributesLoop o fuel n) := by
  induction n with
  | zero => unfold parseAttributesLoop; exact Safe.fuel
  | succ n ih =>
    unfold parseAttributesLoop
    apply Safe.bind safe_tryPeek; intro c
    split
    · apply Safe.bind safe_skip; intro _
      apply Safe.bind (safe_ws o); intro _
      apply Safe.bind (safe_parseAttribute o fuel); intro a
      apply Safe.bind (safe_ws o); intro _
      apply Safe.bind ih; intro rest
      exact Safe.pure' _
    · exact Safe.pure' _

theorem safe_parseAttributes (o : POracle) (fuel : Nat) : Safe (parseAttributes o fuel) := by
  unfold parseAttributes
  apply Safe.bind (safe_parseAttribute o fuel); intro a
  apply Safe.bind (safe_ws o); intro _
  apply Safe.bind (safe_parseAttributesLoop o fuel fuel); intro rest
  exact Safe.pure' _

theorem safe_parseCondition (o : POracle) (fuel : Nat) : Safe (parseCondition o fuel) := by
  unfold parseCondition
  have h1 := safe_ws o
  have h2 := safe_parseExpression o fuel
  have h3 := safe_consumeKeyword o "some"
  have h4 := safe_consumeKeyword o "none"
  apply Safe.bind Safe.getS; intro s0
  dsimp only
  safe

theorem safe_parseConditions (o : POracle) (fuel n : Nat) : Safe (parseConditions o fuel n) := by
  induction n with
  | zero => unfold parseConditions; exact Safe.fuel
  | succ n ih =>
    unfold parseConditions
    apply Safe.bind (safe_parseCondition o fuel); intro c
    apply Safe.bind (safe_ws o); intro _
    apply Safe.bind safe_tryPeek; intro nx
    split
    · apply Safe.bind (safe_consumeToken _); intro _
      apply Safe.bind (safe_ws o); intro _
      apply Safe.bind ih; intro rest
      exact Safe.pure' _
    · exact Safe.pure' _

end Parser

namespace Parser
open PP (Safe)

/-- the statement parsers, all at once, by induction on the fuel -/
theorem safe_stmt_block (o : POracle) : ∀ fuel,
    Safe (parseStatements o fuel) ∧ Safe (parseStatementsLoop o fuel) ∧ (∀ l, Safe (parseElifs o l fuel)) ∧
    Safe (parseStatement o fuel) ∧ Safe (parsePrintArgs o fuel) ∧ (∀ l, Safe (parseScanArmsChecked o l fuel)) := by
  intro fuel
  induction fuel with
  | zero =>
    refine ⟨?_, ?_, ?_, ?_, ?_, ?_⟩
    · unfold parseStatements; exact Safe.fuel
    · unfold parseStatementsLoop; exact Safe.fuel
    · intro l; unfold parseElifs; exact Safe.fuel
    · unfold parseStatement; exact Safe.fuel
    · unfold parsePrintArgs; exact Safe.fuel
    · intro l; unfold parseScanArmsChecked; exact Safe.fuel
  | succ fuel ih =>
    obtain ⟨hB, hL, hE, hS, hP, hA⟩ := ih
    have hws := safe_ws o
    have h1 := safe_parseExpression o fuel
    have h2 := safe_parseVariable o fuel
    have h3 := safe_parseUnscopedVariable o fuel
    have h4 := safe_parseAttributes o fuel
    have h5 := safe_parseConditions o fuel fuel
    have h6 := safe_parseString o
    have h7 := safe_peek
    have h8 := safe_tryPeek
    have h9 := safe_parseName o "keyword"
    refine ⟨?_, ?_, ?_, ?_, ?_, ?_⟩
    · unfold parseStatements
      safe_with (exact safe_consumeToken _)
    · unfold parseStatementsLoop
      safe
    · intro l
      unfold parseElifs
      safe_with (first | exact safe_consumeToken _ | exact hE _)
    · unfold parseStatement
      safe_with (first | exact safe_consumeToken _ | exact hE _ | exact hA _)
    · unfold parsePrintArgs
      safe_with (exact safe_consumeToken _)
    · intro l
      unfold parseScanArmsChecked
      safe_with (exact hA _)

theorem safe_parseStatements (o : POracle) (fuel : Nat) : Safe (parseStatements o fuel) := (safe_stmt_block o fuel).1

theorem safe_skipQuery (fuel depth : Nat) (a b c : Bool) (acc : List Char) : Safe (skipQuery fuel depth a b c acc) := by
  induction fuel generalizing depth a b c acc with
  | zero => unfold skipQuery; exact Safe.fuel
  | succ fuel ih =>
    unfold skipQuery
    have h1 := safe_peek
    have h2 := safe_skip
    safe_with (exact ih _ _ _ _ _)

theorem safe_parseQuantifier (o : POracle) : Safe (parseQuantifier o) := by
  unfold parseQuantifier
  have h1 := safe_tryPeek
  have h2 := safe_skip
  safe

theorem safe_parseGlobal (o : POracle) : Safe (parseGlobal o) := by
  unfold parseGlobal
  have h1 := safe_parseQuantifier o
  have h2 := safe_ws o
  have h3 := safe_parseString o
  safe_with (first | exact safe_consumeToken _ | exact safe_parseIdentifier o _)

theorem safe_parseShorthand (o : POracle) (fuel : Nat) : Safe (parseShorthand o fuel) := by
  unfold parseShorthand
  have h1 := safe_parseUnscopedVariable o fuel
  have h2 := safe_ws o
  have h3 := safe_parseAttributes o fuel
  safe_with (first | exact safe_consumeToken _ | exact safe_parseIdentifier o _)

/-- tree-sitter's contract for the stanza queries: a query text the parser builds always ends in the full-match
    capture, so an accepted query has a capture of that name -/
def QueryContract (o : POracle) : Prop :=
  (∀ q patterns caps, o.query q = some (.valid patterns caps) → (caps.findIdx? (·.1 = fullMatchName)).isSome) ∧
  (∀ q, o.query q ≠ some .bindingPanic)

theorem safe_parseStanza (o : POracle) (fuel : Nat) (hc : QueryContract o) : Safe (parseStanza o fuel) := by
  unfold parseStanza
  apply Safe.bind Safe.getS; intro s0
  apply Safe.bind (safe_skipQuery _ _ _ _ _ _); intro qtext
  dsimp only
  cases hq : o.query (String.ofList qtext ++ "@" ++ fullMatchName) with
  | none => exact Safe.need _
  | some ans =>
    cases ans with
    | bindingPanic => exact absurd hq (hc.2 _)
    | invalid r c off => exact Safe.failE _
    | valid patterns caps =>
      dsimp only
      split
      · exact Safe.failE _
      · have := hc.1 _ _ _ hq
        cases hf : caps.findIdx? (·.1 = fullMatchName) with
        | none => simp [hf] at this
        | some ix =>
          dsimp only
          have h1 := safe_ws o
          have h2 := safe_parseStatements o fuel
          safe

theorem safe_parseFileLoop (o : POracle) (fuel n : Nat) (file : File) (hc : QueryContract o) :
    Safe (parseFileLoop o fuel n file) := by
  induction n generalizing file with
  | zero => unfold parseFileLoop; exact Safe.fuel
  | succ n ih =>
    unfold parseFileLoop
    have h1 := safe_tryPeek
    have h2 := safe_ws o
    have h3 := safe_parseShorthand o fuel
    have h4 := safe_parseGlobal o
    have h5 := safe_parseStanza o fuel hc
    safe_with (first | exact safe_consumeToken _ | exact safe_parseIdentifier o _ | exact ih _)

theorem safe_parseFile (o : POracle) (fuel : Nat) (hc : QueryContract o) : Safe (parseFile o fuel) := by
  unfold parseFile
  exact Safe.bind (safe_ws o) (fun _ => safe_parseFileLoop o fuel fuel _ hc)

/-- **the parser never panics**, whatever the text, under tree-sitter's query contract -/
theorem parse_never_panics (o : POracle) (text : String) (hc : QueryContract o) (site : String) :
    parse o text ≠ .error (.panic site) := by
  unfold parse
  exact (safe_parseFile { o with fuel := text.length + 2 } _ ⟨fun q p caps h => hc.1 q p caps h, fun q => hc.2 q⟩).run _ site

end Parser
