/-
  A compositional way to state and prove round trips: `SpellsAt o p s cs a F` says that the parser program `p`,
  started in state `s` in front of the text `cs` followed by any `tail` satisfying `F`, returns `a` and stops
  exactly behind `cs`. Sequencing composes texts; the follower conditions accumulate.
-/
import Tsg.Proofs.ParserRound

namespace Parser
open PP

structure SpellsAt (o : POracle) {α : Type} (p : PP α) (s : PS) (cs : List Char) (a : α) (F : List Char → Prop) : Prop where
  run_eq : ∀ tail, s.rest = cs ++ tail → F tail → s.rest.length ≤ o.fuel → run p s = (.ok a, advL s cs)

namespace SpellsAt
variable {o : POracle} {α β : Type}

theorem conseq {p : PP α} {s : PS} {cs : List Char} {a : α} {F F' : List Char → Prop}
    (h : SpellsAt o p s cs a F) (hF : ∀ t, F' t → F t) : SpellsAt o p s cs a F' :=
  ⟨fun tail hs hf hl => h.run_eq tail hs (hF tail hf) hl⟩

theorem cast_val {p : PP α} {s : PS} {cs : List Char} {a a' : α} {F : List Char → Prop}
    (h : SpellsAt o p s cs a F) (e : a = a') : SpellsAt o p s cs a' F := e ▸ h

theorem pure' (a : α) (s : PS) : SpellsAt o (Pure.pure a : PP α) s [] a (fun _ => True) :=
  ⟨fun _ _ _ _ => by simp [advL]⟩

theorem getS' (s : PS) : SpellsAt o getS s [] s (fun _ => True) :=
  ⟨fun _ _ _ _ => by simp [advL]⟩

theorem bind {p : PP α} {f : α → PP β} {s : PS} {cs1 cs2 : List Char} {a : α} {b : β} {F1 F2 : List Char → Prop}
    (h1 : SpellsAt o p s cs1 a F1) (h2 : SpellsAt o (f a) (advL s cs1) cs2 b F2) :
    SpellsAt o (p >>= f) s (cs1 ++ cs2) b (fun t => F1 (cs2 ++ t) ∧ F2 t) := by
  refine ⟨fun tail hs hf hl => ?_⟩
  have hs1 : s.rest = cs1 ++ (cs2 ++ tail) := by simpa using hs
  have hr1 := h1.run_eq (cs2 ++ tail) hs1 hf.1 hl
  have hs2 : (advL s cs1).rest = cs2 ++ tail := advL_rest s cs1 _ hs1
  have hl2 : (advL s cs1).rest.length ≤ o.fuel := by
    rw [hs2]; rw [hs1] at hl; simp at hl ⊢; omega
  rw [run_bind', hr1]
  simp only
  rw [h2.run_eq tail hs2 hf.2 hl2, advL_append]

/-- sequencing after a program that consumes nothing -/
theorem bind0 {p : PP α} {f : α → PP β} {s : PS} {cs : List Char} {a : α} {b : β} {F1 F2 : List Char → Prop}
    (h1 : SpellsAt o p s [] a F1) (h2 : SpellsAt o (f a) s cs b F2) :
    SpellsAt o (p >>= f) s cs b (fun t => F1 (cs ++ t) ∧ F2 t) := by
  have := bind h1 (by simpa [advL] using h2)
  simpa using this

/-- sequencing before a program that consumes nothing -/
theorem bindE {p : PP α} {f : α → PP β} {s : PS} {cs : List Char} {a : α} {b : β} {F1 F2 : List Char → Prop}
    (h1 : SpellsAt o p s cs a F1) (h2 : SpellsAt o (f a) (advL s cs) [] b F2) :
    SpellsAt o (p >>= f) s cs b (fun t => F1 t ∧ F2 t) := by
  have := bind h1 h2
  simpa using this

theorem ws' {g : List Char} (hg : Gap o g) (s : PS) : SpellsAt o (ws o) s g () (TokenStart o) :=
  ⟨fun tail hs hf hl => run_ws_gap o g tail s hs hg hf hl⟩

theorem token (tok : String) (s : PS) : SpellsAt o (consumeToken tok) s tok.toList () (fun _ => True) :=
  ⟨fun tail hs _ _ => run_consumeToken_ok tok tail s hs⟩

theorem name (within : String) (c : Char) (cs : List Char) (s : PS)
    (hc : isIdentStart o c = true) (hcs : ∀ x ∈ cs, isIdent o x = true) :
    SpellsAt o (parseName o within) s (c :: cs) (String.ofList (c :: cs))
      (fun t => ∀ x, t.head? = some x → isIdent o x = false) :=
  ⟨fun tail hs hf hl => run_parseName o within c cs tail s hs hc hcs hf (by rw [hs] at hl; simp at hl; omega)⟩

theorem keyword (kw : String) (s : PS) :
    SpellsAt o (consumeKeyword o kw) s kw.toList () (fun t => ∀ x, t.head? = some x → isIdent o x = false) :=
  ⟨fun tail hs hf _ => run_consumeKeyword_ok o kw tail s hs hf⟩

theorem expr {n : Nat} {cs : List Char} {rd : PS → Expr} {F : Option Char → Prop} (h : ExprText o n cs rd F)
    (fuel : Nat) (hn : n ≤ fuel) (hf5 : 5 ≤ o.fuel) (s : PS) :
    SpellsAt o (parseExpression o fuel) s cs (rd s) (fun t => F t.head?) :=
  ⟨fun tail hs hf hl => h fuel s tail hn hs hf hl hf5⟩

theorem tryPeek' (s : PS) (x : Option Char) : SpellsAt o tryPeek s [] x (fun t => t.head? = x) :=
  ⟨fun tail hs hf _ => by simp at hs; simp [hs, hf, advL]⟩

theorem peek' (s : PS) (c : Char) : SpellsAt o peek s [] c (fun t => t.head? = some c) :=
  ⟨fun tail hs hf _ => by
    simp at hs
    cases tail with
    | nil => simp at hf
    | cons x r => simp at hf; subst hf; simp [run_peek_cons hs, advL]⟩

theorem skip' (s : PS) (c : Char) : SpellsAt o skip s [c] () (fun _ => True) :=
  ⟨fun tail hs _ _ => by
    have hs' : s.rest = c :: tail := by simpa using hs
    simp [skip, run_bind', run_next_cons hs', advL, hs']⟩

theorem attempt_ok {m : PP β} {s : PS} {cs : List Char} {b : β} {F : List Char → Prop} (h : SpellsAt o m s cs b F) :
    SpellsAt o (attemptP m) s cs (.ok b) F :=
  ⟨fun tail hs hf hl => by simp only [attemptP, run, h.run_eq tail hs hf hl]⟩

theorem attempt_token_err (tok : String) (s : PS) :
    SpellsAt o (attemptP (consumeToken tok)) s [] (.error (.expectedToken tok (locOf s)))
      (fun t => tok.toList.isPrefixOf t = false) :=
  ⟨fun tail hs hf _ => by simp at hs; rw [run_attempt_token_err tok s (by rw [hs]; exact hf)]; simp [advL]⟩

end SpellsAt

end Parser
