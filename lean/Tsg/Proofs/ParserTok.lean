/-
  Token layer of the parser model: identifiers (maximal munch), keywords, string literals with
  escapes, integer literals.
-/
import Tsg.Proofs.ParserLex

namespace Parser
open PP

/-! ### identifiers -/

/-- `parse_name` reads the whole identifier: all identifier characters up to the first non-identifier one -/
theorem run_parseName (o : POracle) (within : String) (c : Char) (cs tail : List Char) (s : PS)
    (hs : s.rest = c :: cs ++ tail) (hc : isIdentStart o c = true) (hcs : ∀ x ∈ cs, isIdent o x = true)
    (htail : ∀ x, tail.head? = some x → isIdent o x = false) (hfuel : cs.length ≤ o.fuel) :
    run (parseName o within) s = (.ok (String.ofList (c :: cs)), advL s (c :: cs)) := by
  have hsr : s.rest = c :: (cs ++ tail) := by simpa using hs
  unfold parseName
  simp only [run_bind', run_next_cons hsr, hc, Bool.not_true, Bool.false_eq_true, if_false, consumeWhileAll]
  rw [run_consumeWhile (isIdent o) o.fuel [] cs tail (advance s c (cs ++ tail)) (by simp) hcs htail hfuel]
  simp [hsr]

theorem run_parseName_bad (o : POracle) (within : String) (c : Char) (r : List Char) (s : PS)
    (hs : s.rest = c :: r) (hc : isIdentStart o c = false) :
    run (parseName o within) s =
      (.error (.err (.unexpectedCharacter c within (locOf (advance s c r)))), advance s c r) := by
  unfold parseName
  simp [run_bind', run_next_cons hs, hc]

/-- `consume_keyword` refuses a keyword that is only the beginning of an identifier -/
theorem run_consumeKeyword_prefix (o : POracle) (kw : String) (x : Char) (tail : List Char) (s : PS)
    (hs : s.rest = kw.toList ++ x :: tail) (hx : isIdent o x = true) :
    run (consumeKeyword o kw) s = (.error (.err (.expectedToken kw (locOf s))), s) := by
  unfold consumeKeyword
  simp only [run_bind', run_getS]
  rw [if_neg]
  · rfl
  · simp [hs, ← String.length_toList, hx]

/-- `consume_keyword` accepts the keyword when a non-identifier character (or the end of input) follows -/
theorem run_consumeKeyword_ok (o : POracle) (kw : String) (tail : List Char) (s : PS)
    (hs : s.rest = kw.toList ++ tail) (hx : ∀ x, tail.head? = some x → isIdent o x = false) :
    run (consumeKeyword o kw) s = (.ok (), advL s kw.toList) := by
  unfold consumeKeyword
  simp only [run_bind', run_getS]
  rw [if_pos]
  · exact run_consumeN _ _ tail s hs String.length_toList
  · have hp : kw.toList.isPrefixOf s.rest = true := by rw [hs]; simp [List.isPrefixOf_iff_prefix]
    rw [hp]
    cases ht : tail with
    | nil => simp [hs, ht, ← String.length_toList]
    | cons t tl => simp [hs, ht, ← String.length_toList, hx t (by simp [ht])]

/-! ### string literals -/

/-- how a character may be written inside a string literal -/
inductive CharRepr : Char → List Char → Prop where
  | plain (c : Char) : c ≠ '"' → c ≠ '\\' → CharRepr c [c]
  | esc (x : Char) : CharRepr (unescape x) ['\\', x]

theorem CharRepr.escQuote : CharRepr '"' ['\\', '"'] := CharRepr.esc '"'
theorem CharRepr.escBackslash : CharRepr '\\' ['\\', '\\'] := CharRepr.esc '\\'
theorem CharRepr.escNul : CharRepr '\x00' ['\\', '0'] := CharRepr.esc '0'
theorem CharRepr.escNl : CharRepr '\n' ['\\', 'n'] := CharRepr.esc 'n'
theorem CharRepr.escCr : CharRepr '\r' ['\\', 'r'] := CharRepr.esc 'r'
theorem CharRepr.escTab : CharRepr '\t' ['\\', 't'] := CharRepr.esc 't'
theorem CharRepr.escOther (c : Char) (h0 : c ≠ '0') (hn : c ≠ 'n') (hr : c ≠ 'r') (ht : c ≠ 't') : CharRepr c ['\\', c] := by
  have : unescape c = c := by simp [unescape, h0, hn, hr, ht]
  have h := CharRepr.esc c
  rwa [this] at h

/-- the body of a string literal that denotes `cs` -/
inductive StrRepr : List Char → List Char → Prop where
  | nil : StrRepr [] []
  | cons (c : Char) (r : List Char) (cs body : List Char) : CharRepr c r → StrRepr cs body → StrRepr (c :: cs) (r ++ body)

theorem run_parseStringLoop (fuel : Nat) (acc cs body tail : List Char) (s : PS) (h : StrRepr cs body)
    (hs : s.rest = body ++ '"' :: tail) (hfuel : body.length < fuel) :
    run (parseStringLoop fuel false acc) s = (.ok (String.ofList (acc.reverse ++ cs)), advL s (body ++ ['"'])) := by
  induction h generalizing fuel acc s with
  | nil =>
    cases fuel with
    | zero => simp at hfuel
    | succ fuel =>
      have hsr : s.rest = '"' :: tail := by simpa using hs
      simp [parseStringLoop, run_bind', run_next_cons hsr, hsr]
  | cons c r cs body hc _ ih =>
    cases hc with
    | plain c h1 h2 =>
      cases fuel with
      | zero => simp at hfuel
      | succ fuel =>
        have hsr : s.rest = c :: (body ++ '"' :: tail) := by simpa using hs
        simp only [parseStringLoop, run_bind', run_next_cons hsr, Bool.false_eq_true, if_false, h1, h2]
        rw [ih fuel (c :: acc) _ (by simp) (by simp at hfuel; omega)]
        simp [hsr]
    | esc x =>
      cases fuel with
      | zero => simp at hfuel
      | succ fuel =>
        cases fuel with
        | zero => simp at hfuel
        | succ fuel =>
          have hsr : s.rest = '\\' :: x :: (body ++ '"' :: tail) := by simpa using hs
          have hne : ('\\' = '"') = False := by simp
          simp only [parseStringLoop, run_bind', run_next_cons hsr, Bool.false_eq_true, if_false, if_true, hne,
            run_next_cons (s := advance s '\\' _) (advance_rest _ _ _)]
          rw [ih fuel _ _ (by simp) (by simp at hfuel; omega)]
          simp [hsr]

/-- **string literals round-trip**: whatever representation of `cs` is written between the quotes, `parse_string`
    returns `cs` and consumes exactly the literal -/
theorem run_parseString (o : POracle) (cs body tail : List Char) (s : PS) (h : StrRepr cs body)
    (hs : s.rest = '"' :: body ++ '"' :: tail) (hfuel : body.length < o.fuel) :
    run (parseString o) s = (.ok (String.ofList cs), advL s ('"' :: body ++ ['"'])) := by
  unfold parseString
  have hs' : s.rest = "\"".toList ++ (body ++ '"' :: tail) := by simpa using hs
  simp only [run_bind', run_consumeToken_ok "\"" _ s hs']
  rw [run_parseStringLoop o.fuel [] cs body tail _ h (advL_rest _ _ _ hs') hfuel]
  simp [advL_append]

/-! ### integer literals -/

/-- decimal digits of a number, most significant first -/
def digitChar (d : Nat) : Char := Char.ofNat (48 + d)

theorem digitsToNat_snoc (ds : List Char) (c : Char) : digitsToNat (ds ++ [c]) = digitsToNat ds * 10 + (c.toNat - 48) := by
  simp [digitsToNat, List.foldl_append]

/-- `parse_integer_constant` reads all the digits and yields their value (or the repaired overflow error) -/
theorem run_parseIntegerConstant (o : POracle) (ds tail : List Char) (s : PS) (hs : s.rest = ds ++ tail)
    (hds : ∀ c ∈ ds, isDigit c = true) (htail : ∀ x, tail.head? = some x → isDigit x = false)
    (hfuel : ds.length ≤ o.fuel) :
    run (parseIntegerConstant o) s =
      if digitsToNat ds < 2 ^ 32 then (.ok (.int (digitsToNat ds)), advL s ds)
      else (.error (.err (.invalidIntegerConstant (String.ofList ds) (locOf s))), advL s ds) := by
  unfold parseIntegerConstant
  simp only [run_bind', run_getS, consumeWhileAll]
  rw [run_consumeWhile isDigit o.fuel [] ds tail s hs hds htail hfuel]
  simp only [List.reverse_nil, List.nil_append]
  split <;> simp [*]

end Parser
