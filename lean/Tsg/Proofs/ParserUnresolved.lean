/-
  Every capture expression the parser produces is unresolved (quantifier `Zero`): the attribute shorthands of a parsed
  file, which the checker never visits, carry no resolved capture.
-/
import Tsg.Proofs.ParserPost
import Tsg.Proofs.StrictSafeInterp

namespace Parser
open PP (Ensures)
open StrictSafe (exprCaps exprsCaps attrsCaps)

theorem Ensures.failE {α : Type} {Q : α → Prop} (e : PErrK) : Ensures (PP.failE e : PP α) Q := Ensures.fail _

/-- bind after a parser whose result does not matter -/
theorem Ensures.bind_any {α β : Type} {p : PP α} {f : α → PP β} {R : β → Prop} (hf : ∀ a, Ensures (f a) R) : Ensures (p >>= f) R :=
  Ensures.bind (Ensures.trivial p) (fun a _ => hf a)

macro "ens_step" : tactic =>
  `(tactic| first
    | exact Ensures.pure _ (by simp [exprCaps, exprsCaps, attrsCaps, *])
    | exact Ensures.failE _
    | exact Ensures.fail _
    | apply Ensures.ite
    | (apply Ensures.bind_any; intro _))

macro "ens" : tactic => `(tactic| repeat ens_step)

theorem ens_parseLiteral (o : POracle) : Ensures (parseLiteral o) (fun e => exprCaps e = []) := by
  unfold parseLiteral; ens

theorem ens_parseIntegerConstant (o : POracle) : Ensures (parseIntegerConstant o) (fun e => exprCaps e = []) := by
  unfold parseIntegerConstant; ens

theorem ens_parseRegexCapture (o : POracle) : Ensures (parseRegexCapture o) (fun e => exprCaps e = []) := by
  unfold parseRegexCapture; ens

theorem ens_parseCapture (o : POracle) : Ensures (parseCapture o) (fun e => exprCaps e = []) := by
  unfold parseCapture; ens


def Qe (e : Expr) : Prop := exprCaps e = []
def Ql (es : List Expr) : Prop := exprsCaps es = []

theorem ens_expr_block (o : POracle) : ∀ fuel,
    Ensures (parseExpression o fuel) Qe ∧ (∀ e, Qe e → Ensures (scopedChain o fuel e) Qe) ∧ Ensures (parseCall o fuel) Qe ∧
    Ensures (parseCallArgs o fuel) Ql ∧ (∀ m, Ensures (parseSequence o m fuel) Ql) ∧ (∀ b, Ensures (parseCollection o b fuel) Qe) := by
  intro fuel
  induction fuel with
  | zero =>
    refine ⟨?_, ?_, ?_, ?_, ?_, ?_⟩
    · unfold parseExpression; exact Ensures.fail _
    · intro e _; unfold scopedChain; exact Ensures.fail _
    · unfold parseCall; exact Ensures.fail _
    · unfold parseCallArgs; exact Ensures.fail _
    · intro m; unfold parseSequence; exact Ensures.fail _
    · intro b; unfold parseCollection; exact Ensures.fail _
  | succ fuel ih =>
    obtain ⟨hE, hS, hC, hA, hQ, hL⟩ := ih
    refine ⟨?_, ?_, ?_, ?_, ?_, ?_⟩
    · unfold parseExpression
      apply Ensures.bind_any; intro c
      dsimp only
      have jp : ∀ e, Qe e → Ensures (do ws o; scopedChain o fuel e) Qe := fun e he => Ensures.bind_any fun _ => hS e he
      repeat' apply Ensures.ite
      · exact Ensures.bind (ens_parseLiteral o) jp
      · apply Ensures.bind_any; intro s
        exact Ensures.bind (Q := Qe) (Ensures.pure _ (by simp [Qe, exprCaps])) jp
      · exact Ensures.bind (ens_parseCapture o) jp
      · exact Ensures.bind (ens_parseRegexCapture o) jp
      · exact Ensures.bind hC jp
      · exact Ensures.bind (by unfold parseList; exact hL true) jp
      · exact Ensures.bind (by unfold parseSet; exact hL false) jp
      · exact Ensures.bind (ens_parseIntegerConstant o) jp
      · apply Ensures.bind_any; intro s; apply Ensures.bind_any; intro name
        exact Ensures.bind (Q := Qe) (Ensures.pure _ (by simp [Qe, exprCaps])) jp
      · apply Ensures.bind_any; intro s; exact Ensures.bind (Q := Qe) (Ensures.failE _) jp
    · intro e he
      unfold scopedChain
      apply Ensures.bind_any; intro c
      apply Ensures.ite
      · apply Ensures.bind_any; intro _
        apply Ensures.bind_any; intro _
        apply Ensures.bind_any; intro s
        apply Ensures.bind_any; intro name
        apply Ensures.bind_any; intro _
        exact hS _ (by simpa [Qe, exprCaps] using he)
      · exact Ensures.pure _ he
    · unfold parseCall
      apply Ensures.bind_any; intro _
      apply Ensures.bind_any; intro _
      apply Ensures.bind_any; intro f
      apply Ensures.bind_any; intro _
      refine Ensures.bind hA (fun args ha => ?_)
      apply Ensures.bind_any; intro _
      exact Ensures.pure _ (by simpa [Qe, Ql, exprCaps] using ha)
    · unfold parseCallArgs
      apply Ensures.bind_any; intro c
      apply Ensures.ite
      · exact Ensures.pure _ (by simp [Ql, exprsCaps])
      · refine Ensures.bind hE (fun e he => ?_)
        apply Ensures.bind_any; intro _
        refine Ensures.bind hA (fun rest hr => ?_)
        exact Ensures.pure _ (by simp only [Ql, Qe, exprsCaps] at *; simp [he, hr])
    · intro m
      unfold parseSequence
      apply Ensures.bind_any; intro c
      apply Ensures.ite
      · exact Ensures.pure _ (by simp [Ql, exprsCaps])
      · refine Ensures.bind hE (fun e he => ?_)
        apply Ensures.bind_any; intro _
        apply Ensures.bind_any; intro c2
        dsimp only
        have jp : Ensures (do let rest ← parseSequence o m fuel; pure (e :: rest)) Ql :=
          Ensures.bind (hQ m) (fun rest hr => Ensures.pure _ (by simp only [Ql, Qe, exprsCaps] at *; simp [he, hr]))
        apply Ensures.ite
        · apply Ensures.bind_any; intro _
          apply Ensures.bind_any; intro _
          exact jp
        · exact jp
    · intro b
      unfold parseCollection
      apply Ensures.bind_any; intro s0
      dsimp only
      apply Ensures.bind_any; intro _
      apply Ensures.bind_any; intro _
      apply Ensures.bind_any; intro r0
      cases r0 with
      | ok u => exact Ensures.pure _ (by cases b <;> simp [Qe, exprCaps, exprsCaps])
      | error e0 =>
        dsimp only
        refine Ensures.bind hE (fun first hf => ?_)
        apply Ensures.bind_any; intro _
        apply Ensures.bind_any; intro r1
        cases r1 with
        | ok u => exact Ensures.pure _ (by cases b <;> simpa [Qe, exprCaps, exprsCaps] using hf)
        | error e1 =>
          dsimp only
          apply Ensures.bind_any; intro r2
          cases r2 with
          | ok u =>
            dsimp only
            apply Ensures.bind_any; intro _
            refine Ensures.bind (hQ _) (fun rest hr => ?_)
            apply Ensures.bind_any; intro _
            apply Ensures.bind_any; intro _
            exact Ensures.pure _ (by
              simp only [Qe, Ql] at hf hr
              cases b <;> simp [Qe, exprCaps, exprsCaps, hf, hr])
          | error e2 =>
            dsimp only
            apply Ensures.bind_any; intro _
            apply Ensures.bind_any; intro _
            apply Ensures.bind_any; intro v
            apply Ensures.bind_any; intro _
            apply Ensures.bind_any; intro _
            apply Ensures.bind_any; intro _
            refine Ensures.bind hE (fun value hv => ?_)
            apply Ensures.bind_any; intro _
            apply Ensures.bind_any; intro _
            exact Ensures.pure _ (by
              simp only [Qe] at hf hv
              cases b <;> simp [Qe, exprCaps, hf, hv])


theorem ens_parseExpression (o : POracle) (fuel : Nat) : Ensures (parseExpression o fuel) Qe := (ens_expr_block o fuel).1

theorem ens_parseAttribute (o : POracle) (fuel : Nat) : Ensures (parseAttribute o fuel) (fun a => exprCaps a.2 = []) := by
  unfold parseAttribute
  apply Ensures.bind_any; intro name
  apply Ensures.bind_any; intro _
  apply Ensures.bind_any; intro c
  apply Ensures.ite
  · apply Ensures.bind_any; intro _
    apply Ensures.bind_any; intro _
    exact Ensures.bind (ens_parseExpression o fuel) (fun e he => Ensures.pure _ he)
  · exact Ensures.pure _ (by simp [exprCaps])

theorem ens_parseAttributesLoop (o : POracle) (fuel : Nat) : ∀ n, Ensures (parseAttributesLoop o fuel n) (fun as => attrsCaps as = []) := by
  intro n
  induction n with
  | zero => unfold parseAttributesLoop; exact Ensures.fail _
  | succ n ih =>
    unfold parseAttributesLoop
    apply Ensures.bind_any; intro c
    apply Ensures.ite
    · apply Ensures.bind_any; intro _
      apply Ensures.bind_any; intro _
      refine Ensures.bind (ens_parseAttribute o fuel) (fun a ha => ?_)
      apply Ensures.bind_any; intro _
      refine Ensures.bind ih (fun rest hr => ?_)
      exact Ensures.pure _ (by simp [attrsCaps, ha, hr])
    · exact Ensures.pure _ (by simp [attrsCaps])

theorem ens_parseAttributes (o : POracle) (fuel : Nat) : Ensures (parseAttributes o fuel) (fun as => attrsCaps as = []) := by
  unfold parseAttributes
  refine Ensures.bind (ens_parseAttribute o fuel) (fun a ha => ?_)
  apply Ensures.bind_any; intro _
  refine Ensures.bind (ens_parseAttributesLoop o fuel fuel) (fun rest hr => ?_)
  exact Ensures.pure _ (by simp [attrsCaps, ha, hr])

theorem ens_parseShorthand (o : POracle) (fuel : Nat) : Ensures (parseShorthand o fuel) (fun sh => attrsCaps sh.attrs = []) := by
  unfold parseShorthand
  apply Ensures.bind_any; intro s0
  apply Ensures.bind_any; intro name
  apply Ensures.bind_any; intro _
  apply Ensures.bind_any; intro _
  apply Ensures.bind_any; intro _
  apply Ensures.bind_any; intro v
  apply Ensures.bind_any; intro _
  apply Ensures.bind_any; intro _
  apply Ensures.bind_any; intro _
  exact Ensures.bind (ens_parseAttributes o fuel) (fun as ha => Ensures.pure _ ha)

/-- no shorthand of the file carries a resolved capture -/
def ShorthandsUnresolved (f : File) : Prop := ∀ sh ∈ f.shorthands, attrsCaps sh.attrs = []

theorem shorthandsUnresolved_add {file : File} {sh : Shorthand} (h : ShorthandsUnresolved file) (hs : attrsCaps sh.attrs = []) :
    ShorthandsUnresolved { file with shorthands := addShorthand file.shorthands sh } := by
  intro x hx
  simp only [addShorthand, List.mem_append, List.mem_filter, List.mem_singleton] at hx
  rcases hx with ⟨hx, _⟩ | rfl
  · exact h x hx
  · exact hs

theorem ens_parseFileLoop_sh (o : POracle) (fuel n : Nat) (file : File) (h : ShorthandsUnresolved file) :
    Ensures (parseFileLoop o fuel n file) ShorthandsUnresolved := by
  induction n generalizing file with
  | zero => unfold parseFileLoop; exact Ensures.fail _
  | succ n ih =>
    unfold parseFileLoop
    apply Ensures.bind_any; intro c
    cases c with
    | none => exact Ensures.pure _ h
    | some ch =>
      dsimp only
      apply Ensures.bind_any; intro r1
      have hjp : ∀ file', ShorthandsUnresolved file' → Ensures (ws o >>= fun _ => parseFileLoop o fuel n file') ShorthandsUnresolved :=
        fun file' hf' => Ensures.bind_any fun _ => ih file' hf'
      cases r1 with
      | ok u =>
        dsimp only
        apply Ensures.bind_any; intro _
        refine Ensures.bind (ens_parseShorthand o fuel) (fun sh hs => ?_)
        exact Ensures.bind (Ensures.pure (Q := ShorthandsUnresolved) _ (shorthandsUnresolved_add h hs)) hjp
      | error e1 =>
        dsimp only
        apply Ensures.bind_any; intro r2
        cases r2 with
        | ok u =>
          dsimp only
          apply Ensures.bind_any; intro _
          apply Ensures.bind_any; intro g
          exact Ensures.bind (Ensures.pure (Q := ShorthandsUnresolved) _ h) hjp
        | error e2 =>
          dsimp only
          apply Ensures.bind_any; intro r3
          cases r3 with
          | ok u =>
            dsimp only
            apply Ensures.bind_any; intro _
            apply Ensures.bind_any; intro _
            apply Ensures.bind_any; intro name
            exact Ensures.bind (Ensures.pure (Q := ShorthandsUnresolved) _ h) hjp
          | error e3 =>
            dsimp only
            apply Ensures.bind_any; intro st
            exact Ensures.bind (Ensures.pure (Q := ShorthandsUnresolved) _ h) hjp

theorem parse_shorthandsUnresolved (o : POracle) (text : String) (f : File) (h : parse o text = .ok f) : ShorthandsUnresolved f := by
  unfold parse at h
  simp only at h
  have hens : Ensures (parseFile { o with fuel := text.length + 2 } (8 * (text.length + 2))) ShorthandsUnresolved := by
    unfold parseFile
    apply Ensures.bind_any; intro _
    exact ens_parseFileLoop_sh _ _ _ _ (fun sh hsh => by cases hsh)
  cases hr : PP.run (parseFile { o with fuel := text.length + 2 } (8 * (text.length + 2))) (initState text) with
  | mk r s' =>
    rw [hr] at h
    simp only at h
    subst h
    exact hens.out _ _ _ hr

end Parser
