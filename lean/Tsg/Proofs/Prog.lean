/-
  Generic theorems about `Prog.run`, by induction on the program term.
-/
import Tsg.Sem.Prog
import Tsg.Proofs.Containers

namespace Prog
variable {ρ : Type}

/-- final machine state of a result -/
def Res.st {σ α : Type} : Res σ α → σ
  | .ok _ s => s
  | .fail _ s => s

/-- the same machine state with the flag set to fire at poll `k` -/
def withCancel (s : MSt ρ) (k : Option Nat) : MSt ρ := { s with ps := { s.ps with cancelAt := k } }

/-- result with the flag field rewritten (so that runs under different flags can be compared) -/
def Res.mapCancel {α : Type} (k : Option Nat) : Res (MSt ρ) α → Res (MSt ρ) α
  | .ok a s => .ok a (withCancel s k)
  | .fail f s => .fail f (withCancel s k)

theorem withCancel_withCancel (s : MSt ρ) (a b : Option Nat) : withCancel (withCancel s a) b = withCancel s b := rfl

/-- `run` never writes the flag field -/
theorem cancelAt_preserved {α : Type} (t : Prog ρ α) (s : MSt ρ) :
    (Res.st (run t s)).ps.cancelAt = s.ps.cancelAt := by
  induction t generalizing s with
  | pure a => rfl
  | fail f => rfl
  | poll label k ih =>
    simp only [run]
    have h := ih () { s with ps := { s.ps with polls := s.ps.polls + 1 } }
    split
    · split
      · rfl
      · exact h
    · exact h
  | gop op k ih =>
    simp only [run]
    split
    · rename_i b g' _
      exact ih b { s with graph := g' }
    · rfl
  | prim f k ih =>
    simp only [run]
    split
    · rename_i b r' _
      exact ih b { s with rest := r' }
    · rfl
  | ctx c m k ihm ihk =>
    simp only [run]
    have h1 := ihm s
    cases hm : run m s with
    | ok b s' =>
      simp only [hm, Res.st] at h1 ⊢
      rw [← h1]; exact ihk b s'
    | fail f s' =>
      simp only [hm, Res.st] at h1 ⊢
      exact h1

/-- polls never decrease -/
theorem polls_mono {α : Type} (t : Prog ρ α) (s : MSt ρ) : s.ps.polls ≤ (Res.st (run t s)).ps.polls := by
  induction t generalizing s with
  | pure a => simp [run, Res.st]
  | fail f => simp [run, Res.st]
  | poll label k ih =>
    simp only [run]
    have h := ih () { s with ps := { s.ps with polls := s.ps.polls + 1 } }
    simp only at h
    split
    · split
      · simp [Res.st]
      · omega
    · omega
  | gop op k ih =>
    simp only [run]
    split
    · rename_i b g' _
      exact ih b { s with graph := g' }
    · simp [Res.st]
  | prim f k ih =>
    simp only [run]
    split
    · rename_i b r' _
      exact ih b { s with rest := r' }
    · simp [Res.st]
  | ctx c m k ihm ihk =>
    simp only [run]
    have h1 := ihm s
    cases hm : run m s with
    | ok b s' =>
      simp only [hm, Res.st] at h1 ⊢
      have h2 := ihk b s'
      simp only [Res.st] at h2
      omega
    | fail f s' =>
      simp only [hm, Res.st] at h1 ⊢
      exact h1

/-- **Cancellation simulation.** Run a program from a state whose flag never fires, and from the same
state with the flag firing at poll `k` (not yet reached). If the uncancelled run stays below `k` polls the
two runs are identical; otherwise the cancelled run returns exactly the `Cancelled` error — not wrapped in
any context, not another error, not success — having performed exactly `k` polls. -/
theorem cancel_sim {α : Type} (t : Prog ρ α) (s : MSt ρ) (k : Nat)
    (hnone : s.ps.cancelAt = none) (hk : s.ps.polls < k) :
    ((Res.st (run t s)).ps.polls < k → run t (withCancel s (some k)) = Res.mapCancel (some k) (run t s)) ∧
    (k ≤ (Res.st (run t s)).ps.polls →
      ∃ label s', run t (withCancel s (some k)) = .fail (.err (.base .cancelled label)) s' ∧ s'.ps.polls = k) := by
  induction t generalizing s with
  | pure a => simp [run, Res.st, Res.mapCancel]; omega
  | fail f => simp [run, Res.st, Res.mapCancel]; omega
  | poll label kont ih =>
    simp only [run, hnone, withCancel]
    let s1 : MSt ρ := { graph := s.graph, rest := s.rest, ps := { polls := s.ps.polls + 1, cancelAt := none } }
    have h1none : s1.ps.cancelAt = none := rfl
    by_cases hle : k ≤ s.ps.polls + 1
    · -- the flag fires here
      have hkeq : k = s.ps.polls + 1 := by omega
      have hmono := polls_mono (kont ()) ⟨s.graph, s.rest, ⟨s.ps.polls + 1, none⟩⟩
      simp only at hmono
      constructor
      · intro hlt
        omega
      · intro _
        refine ⟨label, ⟨s.graph, s.rest, ⟨s.ps.polls + 1, some k⟩⟩, ?_, ?_⟩
        · simp [hle]
        · simp [hkeq]
    · have hk1 : s1.ps.polls < k := by show s.ps.polls + 1 < k; omega
      obtain ⟨iha, ihb⟩ := ih () s1 h1none hk1
      simp only [hle, if_false]
      exact ⟨iha, ihb⟩
  | gop op kont ih =>
    simp only [run, withCancel]
    cases hf : op.apply s.graph with
    | mk res g' =>
      cases res with
      | ok b => simp only; exact ih b { s with graph := g' } hnone hk
      | error e => simp [Res.st, Res.mapCancel, withCancel]; omega
  | prim f kont ih =>
    simp only [run, withCancel]
    cases hf : f s.rest with
    | mk res r' =>
      cases res with
      | ok b => simp only; exact ih b { s with rest := r' } hnone hk
      | error e => simp [Res.st, Res.mapCancel, withCancel]; omega
  | ctx c m kont ihm ihk =>
    simp only [run]
    obtain ⟨ihm1, ihm2⟩ := ihm s hnone hk
    cases hm : run m s with
    | ok b s' =>
      simp only [hm, Res.st] at ihm1 ihm2
      have hmono := polls_mono (kont b) s'
      by_cases hlt : s'.ps.polls < k
      · -- the sub-computation finished below k: both runs continue identically
        have hmc := ihm1 hlt
        simp only [Res.mapCancel] at hmc
        rw [hmc]
        simp only
        have hs'none : s'.ps.cancelAt = none := by
          have := cancelAt_preserved m s
          simp only [hm, Res.st] at this
          rw [this]; exact hnone
        exact ihk b s' hs'none hlt
      · have hge : k ≤ s'.ps.polls := by omega
        obtain ⟨label, s2, h2, h3⟩ := ihm2 hge
        rw [h2]
        simp only [Fail.withContext, XErr.withContext]
        constructor
        · intro hcontra; omega
        · intro _; exact ⟨label, s2, rfl, h3⟩
    | fail f s' =>
      simp only [hm, Res.st] at ihm1 ihm2
      by_cases hlt : s'.ps.polls < k
      · have hmc := ihm1 hlt
        simp only [Res.mapCancel] at hmc
        rw [hmc]
        simp [Res.st, Res.mapCancel, hlt]
        omega
      · have hge : k ≤ s'.ps.polls := by omega
        obtain ⟨label, s2, h2, h3⟩ := ihm2 hge
        rw [h2]
        simp only [Fail.withContext, XErr.withContext, Res.st]
        constructor
        · intro hcontra; omega
        · intro _; exact ⟨label, s2, rfl, h3⟩

/-- semantics of sequencing -/
theorem run_bind {α β : Type} (m : Prog ρ α) (f : α → Prog ρ β) (s : MSt ρ) :
    run (m >>= f) s =
      match run m s with
      | .ok a s1 => run (f a) s1
      | .fail e s1 => .fail e s1 := by
  show run (Prog.bind m f) s = _
  induction m generalizing s with
  | pure a => rfl
  | fail e => rfl
  | poll l k ih =>
    simp only [Prog.bind, run]
    split
    · split
      · rfl
      · exact ih () f _
    · exact ih () f _
  | gop op k ih =>
    simp only [Prog.bind, run]
    split
    · exact ih _ f _
    · rfl
  | prim g k ih =>
    simp only [Prog.bind, run]
    split
    · exact ih _ f _
    · rfl
  | ctx c m0 k _ ihk =>
    simp only [Prog.bind, run]
    cases run m0 s with
    | ok b s1 => exact ihk b f s1
    | fail e s1 => rfl

end Prog
