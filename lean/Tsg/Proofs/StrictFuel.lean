/-
  Strict execution never runs out of the model's fuel when the attribute shorthands of the file are not cyclic. The only
  recursion of the strict interpreter that is not structural (on the syntax, on a list of values, or on the bytes left to
  scan) is the expansion of an attribute shorthand inside an attribute shorthand; `fuel` bounds its depth. With a rank on
  shorthand names that decreases along "mentions", any fuel above the ranks suffices — i.e. the real interpreter
  terminates on such files (cyclic shorthands are the known finding of C05: they overflow the stack).
-/
import Tsg.Proofs.Prog
import Tsg.Sem.Strict

namespace StrictFuel
open Prog Strict

/-- a program that never fails with `outOfFuel` -/
structure NoF {ρ α : Type} (t : Prog ρ α) : Prop where
  h : ∀ s s', Prog.run t s ≠ .fail .outOfFuel s'

variable {ρ α β : Type}

theorem NoF.pure (a : α) : NoF (Pure.pure a : Prog ρ α) := ⟨fun s s' h => by cases h⟩
theorem NoF.fail (f : Fail) (hf : f ≠ .outOfFuel) : NoF (Prog.fail f : Prog ρ α) :=
  ⟨fun s s' h => by simp only [Prog.run] at h; cases h; exact hf rfl⟩
theorem NoF.throwK (k : EK) : NoF (Prog.throwK k : Prog ρ α) := NoF.fail _ (by intro h; cases h)
theorem NoF.panicAt (site : String) : NoF (Prog.panicAt site : Prog ρ α) := NoF.fail _ (by intro h; cases h)
theorem NoF.failP (f : Fail) (hf : f ≠ .outOfFuel) : NoF (Prog.failP f : Prog ρ α) := NoF.fail f hf

theorem NoF.ofExcept (x : Except EK α) : NoF (Prog.ofExcept x : Prog ρ α) := by
  cases x with
  | ok a => exact NoF.pure a
  | error e => exact NoF.throwK _

theorem NoF.bind {t : Prog ρ α} {f : α → Prog ρ β} (h1 : NoF t) (h2 : ∀ a, NoF (f a)) : NoF (t >>= f) := by
  constructor
  intro s s' h
  rw [Prog.run_bind] at h
  cases hr : Prog.run t s with
  | ok a s1 => rw [hr] at h; exact (h2 a).h s1 s' h
  | fail e s1 => rw [hr] at h; cases h; exact h1.h s s' hr

theorem NoF.poll (l : String) : NoF (pollP l : Prog ρ Unit) := by
  constructor
  intro s s' h
  simp only [pollP, Prog.run] at h
  split at h
  · split at h <;> cases h
  · cases h

theorem withContext_ne (c : Ctx) (f : Fail) (h : f ≠ .outOfFuel) : f.withContext c ≠ .outOfFuel := by
  cases f <;> simp [Fail.withContext] at h ⊢

theorem NoF.ctx {m : Prog ρ α} (c : Ctx) (h : NoF m) : NoF (withContext c m) := by
  constructor
  intro s s' hr
  simp only [withContext, Prog.run] at hr
  cases hm : Prog.run m s with
  | ok a s1 => rw [hm] at hr; simp only [Prog.run] at hr; cases hr
  | fail e s1 =>
    rw [hm] at hr
    simp only [Res.fail.injEq] at hr
    have hne : e ≠ .outOfFuel := fun he => h.h s s1 (by rw [hm, he])
    exact withContext_ne c e hne hr.1

theorem NoF.prim (f : ρ → Except Fail α × ρ) (h : ∀ r, (f r).1 ≠ .error .outOfFuel) : NoF (primP f) := by
  constructor
  intro s s' hr
  simp only [primP, Prog.run] at hr
  cases hf : f s.rest with
  | mk x r' =>
    rw [hf] at hr
    cases x with
    | ok b => simp only [Prog.run] at hr; cases hr
    | error e =>
      simp only [Res.fail.injEq] at hr
      have := h s.rest
      rw [hf] at this
      exact this (by rw [hr.1])

theorem NoF.getR : NoF (Prog.getR : Prog ρ ρ) := NoF.prim _ fun r h => by cases h
theorem NoF.modifyR (f : ρ → ρ) : NoF (Prog.modifyR f) := NoF.prim _ fun r h => by cases h

theorem NoF.gopG {γ : Type} (op : GraphOp γ) (h : ∀ g, (op.apply g).1 ≠ .error .outOfFuel) : NoF (gopP op : Prog ρ γ) := by
  constructor
  intro s s' hr
  simp only [gopP, Prog.run] at hr
  cases hf : op.apply s.graph with
  | mk x g' =>
    rw [hf] at hr
    cases x with
    | ok b => simp only [Prog.run] at hr; cases hr
    | error e =>
      simp only [Res.fail.injEq] at hr
      have := h s.graph
      rw [hf] at this
      exact this (by rw [hr.1])

theorem NoF.addNode : NoF (gopP .addNode : Prog ρ Nat) := NoF.gopG _ fun g => by simp [GraphOp.apply]
theorem NoF.read : NoF (gopP .read : Prog ρ CGraph) := NoF.gopG _ fun g => by simp [GraphOp.apply]

theorem NoF.addEdge (src sink : Nat) (attrs : Attrs) : NoF (gopP (.addEdge src sink attrs) : Prog ρ (Option Bool)) :=
  NoF.gopG _ fun g => by
    simp only [GraphOp.apply]
    split
    · simp
    · split <;> simp

theorem NoF.addNodeAttr (n : Nat) (k : String) (v : Val) (f : Fail) (hf : f ≠ .outOfFuel) :
    NoF (gopP (.addNodeAttr n k v f) : Prog ρ (Option Unit)) :=
  NoF.gopG _ fun g => by
    simp only [GraphOp.apply]
    split <;> simp
    exact hf

theorem NoF.addEdgeAttr (src sink : Nat) (k : String) (v : Val) (f : Fail) (hf : f ≠ .outOfFuel) :
    NoF (gopP (.addEdgeAttr src sink k v f) : Prog ρ (Option (Option Unit))) :=
  NoF.gopG _ fun g => by
    simp only [GraphOp.apply]
    split <;> simp
    exact hf

theorem NoF.callFn (cfg : Cfg) (name : String) (args : List Val) : NoF (Strict.callFn cfg name args : Prog ρ Val) := by
  unfold Strict.callFn
  refine NoF.gopG _ fun g => ?_
  simp only [GraphOp.apply]
  split <;> simp

theorem NoF.addAttribute (t : Target) (name : String) (v : Val) : NoF (Strict.addAttribute t name v : Prog ρ Unit) := by
  unfold Strict.addAttribute
  cases t with
  | node n =>
    refine NoF.bind (NoF.addNodeAttr n name v _ (by intro h; cases h)) fun r => ?_
    cases r <;> first | exact NoF.panicAt _ | exact NoF.pure _
  | edge src sink =>
    refine NoF.bind (NoF.addEdgeAttr src sink name v _ (by intro h; cases h)) fun r => ?_
    cases r with
    | none => exact NoF.panicAt _
    | some r' => cases r' <;> first | exact NoF.throwK _ | exact NoF.pure _

theorem NoF.fromNodes (q : Quant) (nodes : List Nat) : NoF (Strict.fromNodes q nodes : Prog ρ Val) := by
  unfold Strict.fromNodes
  cases q <;> (try cases nodes) <;> first | exact NoF.pure _ | exact NoF.panicAt _ | exact NoF.throwK _

/-! ### the strict interpreter -/

theorem NoF.asGraphNode (v : Val) : NoF (asGraphNode v) := by
  unfold Strict.asGraphNode; cases v <;> first | exact NoF.pure _ | exact NoF.throwK _
theorem NoF.asSyntaxScope (v : Val) : NoF (asSyntaxScope v) := by
  unfold Strict.asSyntaxScope; cases v <;> first | exact NoF.pure _ | exact NoF.throwK _

theorem NoF.scopedAdd (node : Nat) (name : String) (v : Val) (m : Bool) : NoF (scopedAdd node name v m) :=
  NoF.prim _ fun r h => by split at h <;> cases h
theorem NoF.scopedSet (node : Nat) (name : String) (v : Val) : NoF (scopedSet node name v) :=
  NoF.prim _ fun r h => by split at h <;> cases h
theorem NoF.unscopedGet (cfg : Cfg) (name : String) : NoF (unscopedGet cfg name) :=
  NoF.prim _ fun r h => by split at h <;> (try split at h) <;> cases h
theorem NoF.unscopedAdd (cfg : Cfg) (name : String) (v : Val) (m : Bool) : NoF (unscopedAdd cfg name v m) :=
  NoF.prim _ fun r h => by split at h <;> (try split at h) <;> cases h
theorem NoF.unscopedSet (cfg : Cfg) (name : String) (v : Val) : NoF (unscopedSet cfg name v) :=
  NoF.prim _ fun r h => by split at h <;> (try split at h) <;> (try split at h) <;> cases h

theorem NoF.fullMatchNode (env : Env) : NoF (fullMatchNode env : Prog ρ Nat) := by
  unfold Strict.fullMatchNode; split <;> first | exact NoF.pure _ | exact NoF.throwK _

theorem noF_exprs (cfg : Cfg) (fuel : Nat) (env : Env) :
    (∀ (e : Expr), NoF (evalExpr cfg fuel env e)) ∧
    (∀ (elem : Expr) (var : String) (vals : List Val), NoF (evalComp cfg fuel env elem var vals)) ∧
    (∀ (es : List Expr), NoF (evalExprs cfg fuel env es)) := by
  apply Strict.evalExpr.mutual_induct (fuel := fuel) (env := env)
  all_goals (intros; first | rw [Strict.evalExpr.eq_def] | rw [Strict.evalComp.eq_def] | rw [Strict.evalExprs.eq_def])
  all_goals simp only
  case case1 => exact NoF.pure _
  case case2 => exact NoF.pure _
  case case3 => exact NoF.pure _
  case case4 => exact NoF.pure _
  case case5 => exact NoF.pure _
  case case6 ih => exact NoF.bind ih fun _ => NoF.pure _
  case case7 ih => exact NoF.bind ih fun _ => NoF.pure _
  case case8 ih1 ih2 =>
    exact NoF.bind ih1 fun _ => NoF.bind (NoF.ofExcept _) fun vals =>
      NoF.bind (NoF.modifyR _) fun _ => NoF.bind (ih2 vals) fun _ => NoF.bind (NoF.modifyR _) fun _ => NoF.pure _
  case case9 ih1 ih2 =>
    exact NoF.bind ih1 fun _ => NoF.bind (NoF.ofExcept _) fun vals =>
      NoF.bind (NoF.modifyR _) fun _ => NoF.bind (ih2 vals) fun _ => NoF.bind (NoF.modifyR _) fun _ => NoF.pure _
  case case10 => exact NoF.throwK _
  case case11 q _ _ _ q' hl hq =>
    cases q with
    | zero => exact (hq rfl).elim
    | _ => simp only [hl]; exact NoF.fromNodes _ _
  case case12 q _ _ _ hl hq =>
    cases q with
    | zero => exact (hq rfl).elim
    | _ => simp only [hl]; exact NoF.panicAt _
  case case13 => exact NoF.unscopedGet cfg _
  case case14 ih =>
    refine NoF.bind ih fun _ => NoF.bind (NoF.asSyntaxScope _) fun node => NoF.bind NoF.getR fun r => ?_
    cases scopedLookup cfg r node _ <;> first | exact NoF.pure _ | exact NoF.throwK _
  case case15 ih => exact NoF.bind ih fun _ => NoF.callFn cfg _ _
  case case16 h => simp only [h]; exact NoF.pure _
  case case17 h => simp only [h]; exact NoF.throwK _
  case case18 => exact NoF.pure _
  case case19 ih1 ih2 =>
    exact NoF.bind (NoF.modifyR _) fun _ => NoF.bind (NoF.unscopedAdd cfg _ _ _) fun _ =>
      NoF.bind ih1 fun _ => NoF.bind ih2 fun _ => NoF.pure _
  case case20 => exact NoF.pure _
  case case21 ih1 ih2 => exact NoF.bind ih1 fun _ => NoF.bind ih2 fun _ => NoF.pure _

theorem noF_evalExpr (cfg : Cfg) (fuel : Nat) (env : Env) (e : Expr) : NoF (evalExpr cfg fuel env e) := (noF_exprs cfg fuel env).1 e

theorem noF_varAdd (cfg : Cfg) (fuel : Nat) (env : Env) (v : Var) (value : Val) (m : Bool) : NoF (varAdd cfg fuel env v value m) := by
  unfold Strict.varAdd
  cases v with
  | unscoped name l => exact NoF.unscopedAdd cfg _ _ _
  | scopedV scope name l =>
    exact NoF.bind (noF_evalExpr cfg fuel env scope) fun _ => NoF.bind (NoF.asSyntaxScope _) fun _ => NoF.scopedAdd _ _ _ _

theorem noF_varSet (cfg : Cfg) (fuel : Nat) (env : Env) (v : Var) (value : Val) : NoF (varSet cfg fuel env v value) := by
  unfold Strict.varSet
  cases v with
  | unscoped name l => exact NoF.unscopedSet cfg _ _
  | scopedV scope name l =>
    exact NoF.bind (noF_evalExpr cfg fuel env scope) fun _ => NoF.bind (NoF.asSyntaxScope _) fun _ => NoF.scopedSet _ _ _

theorem noF_testCond (cfg : Cfg) (fuel : Nat) (env : Env) (c : Cond) : NoF (testCond cfg fuel env c) := by
  cases c <;> (unfold Strict.testCond; refine NoF.bind (noF_evalExpr cfg fuel env _) fun _ => ?_) <;>
    first | exact NoF.pure _ | exact NoF.ofExcept _

theorem noF_testConds (cfg : Cfg) (fuel : Nat) (env : Env) (cs : List Cond) : NoF (testConds cfg fuel env cs) := by
  induction cs with
  | nil => exact NoF.pure _
  | cons c rest ih => exact NoF.bind (noF_testCond cfg fuel env c) fun _ => NoF.bind ih fun _ => NoF.pure _

theorem noF_evalPrintArgs (cfg : Cfg) (fuel : Nat) (env : Env) (es : List Expr) : NoF (evalPrintArgs cfg fuel env es) := by
  induction es with
  | nil => exact NoF.pure _
  | cons e rest ih =>
    cases e <;> first
      | exact ih
      | exact NoF.bind (noF_evalExpr cfg fuel env _) fun _ => ih

/-- a rank on shorthand names that decreases from a shorthand to the shorthands its body mentions -/
def ShRank (cfg : Cfg) (r : String → Nat) : Prop :=
  ∀ sh ∈ cfg.shorthands, ∀ a ∈ sh.attrs, ∀ sh', findShorthand cfg a.1 = some sh' → r sh'.name < r sh.name

theorem findShorthand_mem {cfg : Cfg} {name : String} {sh : Shorthand} (h : findShorthand cfg name = some sh) :
    sh ∈ cfg.shorthands := by
  unfold Strict.findShorthand at h
  exact List.mem_of_find?_eq_some h

/-- attribute lists never exhaust a fuel that exceeds the ranks of the shorthands they mention -/
theorem noF_execAttrs (cfg : Cfg) (r : String → Nat) (hr : ShRank cfg r) (env : Env) (t : Target) :
    ∀ (fuel : Nat) (attrs : List AttrE), (∀ a ∈ attrs, ∀ sh', findShorthand cfg a.1 = some sh' → r sh'.name < fuel) →
      NoF (execAttrs cfg fuel env t attrs) := by
  apply Strict.execAttrs.induct
  · intro fuel _; rw [Strict.execAttrs.eq_def]; exact NoF.pure _
  · intro fuel name e rest ih1 ih2 hall
    rw [Strict.execAttrs.eq_def]
    simp only
    refine NoF.bind (NoF.poll _) fun _ => NoF.bind (noF_evalExpr cfg fuel env e) fun v => ?_
    have hrest : ∀ a ∈ rest, ∀ sh', findShorthand cfg a.1 = some sh' → r sh'.name < fuel :=
      fun a ha => hall a (by simp [ha])
    cases hs : findShorthand cfg name with
    | none => exact NoF.bind (NoF.addAttribute _ _ _) fun _ => ih2 hrest
    | some sh =>
      simp only
      have hlt := hall (name, e) (by simp) sh hs
      cases fuel with
      | zero => omega
      | succ fuel' =>
        have := ih1 sh
        simp only at this
        have hbody : ∀ a ∈ sh.attrs, ∀ sh', findShorthand cfg a.1 = some sh' → r sh'.name < fuel' := by
          intro a ha sh' hs'
          have := hr sh (findShorthand_mem hs) a ha sh' hs'
          omega
        exact NoF.bind NoF.getR fun saved => NoF.bind (NoF.modifyR _) fun _ => NoF.bind (NoF.unscopedAdd cfg _ _ _) fun _ =>
          NoF.bind (this.1 hbody) fun _ => NoF.bind (NoF.modifyR _) fun _ => this.2 hrest

theorem scanCollect_not_fuel (o : Oracle) (subject : String) (i : Nat) : ∀ (arms : List (String × List Stmt × Loc)) (idx : Nat),
    scanCollect o subject i arms idx ≠ .error .outOfFuel := by
  intro arms
  induction arms with
  | nil => intro idx h; simp [scanCollect] at h
  | cons a rest iha =>
    intro idx h
    obtain ⟨re, b, l⟩ := a
    simp only [scanCollect] at h
    split at h
    · cases h
    · exact iha _ h
    · split at h
      · cases h
      · split at h
        · cases h
        · rename_i e he; cases h; exact iha _ he

theorem noF_stmts (cfg : Cfg) (r : String → Nat) (hr : ShRank cfg r) (fuel : Nat) (hall : ∀ sh ∈ cfg.shorthands, r sh.name < fuel) : ∀ m : Nat,
    (∀ (env : Env) (st : Stmt), sizeOf st ≤ m → NoF (execStmt cfg fuel env st)) ∧
    (∀ (env : Env) (kind : BlockKind) (ss : List Stmt), sizeOf ss ≤ m → NoF (execBlock cfg fuel env kind ss)) ∧
    (∀ (env : Env) (arms : List (List Cond × List Stmt × Loc)), sizeOf arms ≤ m → NoF (execIfArms cfg fuel env arms)) ∧
    (∀ (env : Env) (var : String) (body : List Stmt) (vals : List Val), sizeOf body ≤ m → NoF (execFor cfg fuel env var body vals)) ∧
    (∀ (env : Env) (arms : List (String × List Stmt × Loc)) (subject : String) (i : Nat), sizeOf arms ≤ m →
      NoF (scanLoop cfg fuel env arms subject i)) := by
  have hattrs : ∀ (env : Env) (t : Target) (attrs : List AttrE), NoF (execAttrs cfg fuel env t attrs) :=
    fun env t attrs => noF_execAttrs cfg r hr env t fuel attrs (fun a _ sh' hs' => hall sh' (findShorthand_mem hs'))
  intro m
  induction m with
  | zero =>
    refine ⟨?_, ?_, ?_, ?_, ?_⟩
    · intro env st h; cases st <;> simp at h <;> omega
    · intro env kind ss h; cases ss <;> simp at h
    · intro env arms h; cases arms <;> simp at h
    · intro env var body vals h; cases body <;> simp at h
    · intro env arms subject i h; cases arms <;> simp at h
  | succ m ih =>
    obtain ⟨ihS, ihB, ihI, ihF, ihSc⟩ := ih
    have hS : ∀ (env : Env) (st : Stmt), sizeOf st ≤ m + 1 → NoF (execStmt cfg fuel env st) := by
      intro env st h
      cases st with
      | declImm v e l =>
        simp only [execStmt]
        exact NoF.bind (NoF.poll _) fun _ => NoF.bind (noF_evalExpr ..) fun _ => noF_varAdd ..
      | declMut v e l =>
        simp only [execStmt]
        exact NoF.bind (NoF.poll _) fun _ => NoF.bind (noF_evalExpr ..) fun _ => noF_varAdd ..
      | assign v e l =>
        simp only [execStmt]
        exact NoF.bind (NoF.poll _) fun _ => NoF.bind (noF_evalExpr ..) fun _ => noF_varSet ..
      | createNode v l =>
        simp only [execStmt]
        refine NoF.bind (NoF.poll _) fun _ => NoF.bind NoF.addNode fun n => ?_
        have hvar := noF_varAdd cfg fuel env v (.gnode n) false
        have hdbg : ∀ a x, NoF (addDebugNodeAttr n a x : SM Unit) := fun a x => NoF.addAttribute _ _ _
        have hfm : NoF (fullMatchNode env : SM Nat) := NoF.fullMatchNode env
        cases cfg.varAttr <;> cases cfg.locAttr <;> cases cfg.matchAttr <;> (try simp only []) <;>
          repeat' (first | exact hvar | exact hdbg _ _ | exact hfm | exact NoF.pure _ | with_reducible apply NoF.bind | intro _)
      | attrNode ne attrs l =>
        simp only [execStmt]
        exact NoF.bind (NoF.poll _) fun _ => NoF.bind (noF_evalExpr ..) fun _ => NoF.bind (NoF.asGraphNode _) fun _ => hattrs ..
      | createEdge a b l =>
        simp only [execStmt]
        refine NoF.bind (NoF.poll _) fun _ => NoF.bind (noF_evalExpr ..) fun _ => NoF.bind (NoF.asGraphNode _) fun _ =>
          NoF.bind (noF_evalExpr ..) fun _ => NoF.bind (NoF.asGraphNode _) fun _ => NoF.bind (NoF.addEdge ..) fun r => ?_
        cases r <;> first | exact NoF.panicAt _ | exact NoF.pure _
      | attrEdge a b attrs l =>
        simp only [execStmt]
        exact NoF.bind (NoF.poll _) fun _ => NoF.bind (noF_evalExpr ..) fun _ => NoF.bind (NoF.asGraphNode _) fun _ =>
          NoF.bind (noF_evalExpr ..) fun _ => NoF.bind (NoF.asGraphNode _) fun _ => hattrs ..
      | scan e arms l =>
        simp only [execStmt]
        exact NoF.bind (NoF.poll _) fun _ => NoF.bind (noF_evalExpr ..) fun _ => NoF.bind (NoF.ofExcept _) fun _ =>
          ihSc env arms _ 0 (by simp at h; omega)
      | print es l =>
        simp only [execStmt]
        exact NoF.bind (NoF.poll _) fun _ => noF_evalPrintArgs ..
      | ifS arms l =>
        simp only [execStmt]
        exact NoF.bind (NoF.poll _) fun _ => ihI env arms (by simp at h; omega)
      | forIn var vl e body l =>
        simp only [execStmt]
        exact NoF.bind (NoF.poll _) fun _ => NoF.bind (noF_evalExpr ..) fun _ => NoF.bind (NoF.ofExcept _) fun vals =>
          NoF.bind (NoF.modifyR _) fun _ => NoF.bind (ihF env var body vals (by simp at h; omega)) fun _ => NoF.modifyR _
    have hB : ∀ (env : Env) (kind : BlockKind) (ss : List Stmt), sizeOf ss ≤ m + 1 → NoF (execBlock cfg fuel env kind ss) := by
      intro env kind ss h
      cases ss with
      | nil => rw [execBlock]; exact NoF.pure _
      | cons st rest =>
        have hst : sizeOf st ≤ m := by simp at h; omega
        have hrest : sizeOf rest ≤ m := by simp at h; omega
        rw [Strict.execBlock.eq_def]
        simp only
        cases kind with
        | plain => exact NoF.bind (NoF.ctx _ (ihS _ st hst)) fun _ => ihB _ _ rest hrest
        | scanArm what => exact NoF.bind (NoF.ctx _ (NoF.ctx _ (ihS _ st hst))) fun _ => ihB _ _ rest hrest
    have hI : ∀ (env : Env) (arms : List (List Cond × List Stmt × Loc)), sizeOf arms ≤ m + 1 → NoF (execIfArms cfg fuel env arms) := by
      intro env arms h
      cases arms with
      | nil => rw [execIfArms]; exact NoF.pure _
      | cons a rest =>
        obtain ⟨conds, body, l⟩ := a
        have hbody : sizeOf body ≤ m := by simp at h; omega
        have hrest : sizeOf rest ≤ m := by simp at h; omega
        rw [execIfArms]
        refine NoF.bind (noF_testConds ..) fun ok => ?_
        cases ok with
        | true =>
          simp only [if_true]
          exact NoF.bind (NoF.modifyR _) fun _ => NoF.bind (ihB env .plain body hbody) fun _ => NoF.modifyR _
        | false =>
          simp only [Bool.false_eq_true, if_false]
          exact ihI env rest hrest
    have hF : ∀ (env : Env) (var : String) (body : List Stmt) (vals : List Val), sizeOf body ≤ m + 1 →
        NoF (execFor cfg fuel env var body vals) := by
      intro env var body vals h
      induction vals with
      | nil => rw [execFor]; exact NoF.pure _
      | cons v rest ihv =>
        rw [execFor]
        exact NoF.bind (NoF.modifyR _) fun _ => NoF.bind (NoF.unscopedAdd cfg _ _ _) fun _ => NoF.bind (hB env .plain body h) fun _ => ihv
    have hSc : ∀ (env : Env) (arms : List (String × List Stmt × Loc)) (subject : String) (i : Nat), sizeOf arms ≤ m + 1 →
        NoF (scanLoop cfg fuel env arms subject i) := by
      intro env arms subject i h
      have key : ∀ (k : Nat) (i : Nat), subject.utf8ByteSize - i ≤ k → NoF (scanLoop cfg fuel env arms subject i) := by
        intro k
        induction k with
        | zero =>
          intro i hk
          have hi : ¬ i < subject.utf8ByteSize := by omega
          rw [scanLoop]
          simp only [hi, dite_false]
          exact NoF.pure _
        | succ k ihk =>
          intro i hk
          by_cases hi : i < subject.utf8ByteSize
          · rw [scanLoop]
            simp only [hi, dite_true]
            refine NoF.bind (NoF.poll _) fun _ => ?_
            cases hc : scanCollect cfg.oracle subject i arms 0 with
            | error f =>
              simp only
              exact NoF.failP _ (fun hf => scanCollect_not_fuel cfg.oracle subject i arms 0 (by rw [hc, hf]))
            | ok ms =>
              simp only
              cases hb : scanBest ms with
              | none => exact NoF.pure _
              | some p =>
                obtain ⟨mt, kk⟩ := p
                simp only
                by_cases hk2 : (arms[kk]?).isSome = true
                · simp only [hk2, dite_true]
                  by_cases hm : 0 < mt.stop
                  · simp only [hm, dite_true]
                    have hsz : sizeOf (armBody arms kk) ≤ m := by
                      have := armBody_lt arms kk hk2; omega
                    exact NoF.bind (NoF.modifyR _) fun _ =>
                      NoF.bind (ihB { env with caps := capsOf mt } (.scanArm (armRegex arms kk)) (armBody arms kk) hsz) fun _ =>
                        NoF.bind (NoF.modifyR _) fun _ => ihk (i + mt.stop) (by omega)
                  · simp only [hm, dite_false]
                    exact NoF.failP _ (by intro hf; cases hf)
                · simp only [hk2, dite_false]
                  exact NoF.panicAt _
          · rw [scanLoop]
            simp only [hi, dite_false]
            exact NoF.pure _
      exact key _ i (Nat.le_refl _)
    exact ⟨hS, hB, hI, hF, hSc⟩

theorem noF_execStanzas (cfg : Cfg) (r : String → Nat) (hr : ShRank cfg r) (fuel : Nat) (hall : ∀ sh ∈ cfg.shorthands, r sh.name < fuel)
    (l : List (Stanza × List QMatch)) : NoF (execStanzas cfg fuel l) := by
  have hblock : ∀ env kind ss, NoF (execBlock cfg fuel env kind ss) :=
    fun env kind ss => (noF_stmts cfg r hr fuel hall (sizeOf ss)).2.1 env kind ss (Nat.le_refl _)
  have hmatch : ∀ st m, NoF (execMatch cfg fuel st m) := by
    intro st m
    unfold Strict.execMatch
    refine NoF.bind (NoF.modifyR _) fun _ => ?_
    split
    · exact NoF.pure _
    · refine NoF.bind (NoF.fullMatchNode _) fun node => ?_
      split
      · exact NoF.panicAt _
      · exact hblock _ _ _
  have hmatches : ∀ st ms, NoF (execMatches cfg fuel st ms) := by
    intro st ms
    induction ms with
    | nil => exact NoF.pure _
    | cons m rest ih => exact NoF.bind (hmatch st m) fun _ => ih
  induction l with
  | nil => exact NoF.pure _
  | cons p rest ih =>
    obtain ⟨st, ms⟩ := p
    exact NoF.bind (hmatches st ms) fun _ => ih

/-- **Strict execution terminates on files whose attribute shorthands are not cyclic**: with a rank on shorthand names that
decreases from every shorthand to the shorthands its body mentions, a fuel above all ranks is never exhausted — for every
tree, oracle, globals, debug configuration, cancellation flag, match lists and initial graph. -/
theorem strict_never_out_of_fuel (file : File) (tree : Tree) (oracle : Oracle) (globals : GlobalsM) (la va ma : Option String)
    (cancelAt : Option Nat) (fuel : Nat) (ms : List (List QMatch)) (g0 : CGraph) (r : String → Nat)
    (hr : ∀ sh ∈ file.shorthands, ∀ a ∈ sh.attrs, ∀ sh', file.shorthands.find? (·.name = a.1) = some sh' → r sh'.name < r sh.name)
    (hall : ∀ sh ∈ file.shorthands, r sh.name < fuel) :
    (Strict.run file tree oracle globals la va ma cancelAt fuel ms g0).outcome ≠ some .outOfFuel := by
  simp only [Strict.run]
  cases hc : checkGlobals file.globals globals.nested with
  | error k => simp
  | ok gl =>
    simp only
    let cfg : Cfg := { tree, oracle, globals := gl, inherited := file.inherited, shorthands := file.shorthands,
                       locAttr := la, varAttr := va, matchAttr := ma }
    have hnf := noF_execStanzas cfg r hr fuel hall (file.stanzas.zip ms)
    let s0 : MSt SRest := { graph := g0, rest := { locals := [[]], scopedVars := [] }, ps := { polls := 0, cancelAt } }
    show (Prog.toResult (Prog.run (execStanzas cfg fuel (file.stanzas.zip ms)) s0)).outcome ≠ some .outOfFuel
    cases hrun : Prog.run (execStanzas cfg fuel (file.stanzas.zip ms)) s0 with
    | ok u s1 => simp [Prog.toResult]
    | fail f s1 =>
      simp only [Prog.toResult]
      intro h
      cases h
      exact hnf.h s0 s1 hrun

end StrictFuel
