/-
  The strict interpreter never reaches a panic site — under the contracts of what it is given (see `Contracts`
  at the end): a Hoare-style safety predicate on programs over the strict interpreter's state, with the invariant
  "every graph-node value held anywhere refers to a node of the graph".
-/
import Tsg.Proofs.Prog
import Tsg.Sem.Strict

namespace StrictSafe
open Prog Strict

/-! ### well-formed values: graph-node references are in range -/

mutual
def wf (n : Nat) : Val → Prop
  | .gnode i => i < n
  | .list vs => wfs n vs
  | .set vs => wfs n vs
  | _ => True
def wfs (n : Nat) : List Val → Prop
  | [] => True
  | v :: r => wf n v ∧ wfs n r
end

theorem wfs_iff (n : Nat) (vs : List Val) : wfs n vs ↔ ∀ v ∈ vs, wf n v := by
  induction vs with
  | nil => simp [wfs]
  | cons v r ih => simp [wfs, ih]

mutual
theorem wf_mono {n m : Nat} (h : n ≤ m) : ∀ v, wf n v → wf m v
  | .gnode i, hv => by simp only [wf] at hv ⊢; omega
  | .list vs, hv => by simp only [wf] at hv ⊢; exact wfs_mono h vs hv
  | .set vs, hv => by simp only [wf] at hv ⊢; exact wfs_mono h vs hv
  | .null, _ | .bool _, _ | .int _, _ | .str _, _ | .syn _, _ => by simp [wf]
theorem wfs_mono {n m : Nat} (h : n ≤ m) : ∀ vs, wfs n vs → wfs m vs
  | [], _ => by simp [wfs]
  | v :: r, hv => by simp only [wfs] at hv ⊢; exact ⟨wf_mono h v hv.1, wfs_mono h r hv.2⟩
end

theorem wfs_append (n : Nat) (a b : List Val) : wfs n (a ++ b) ↔ wfs n a ∧ wfs n b := by
  simp only [wfs_iff, List.mem_append]
  constructor
  · intro h; exact ⟨fun v hv => h v (Or.inl hv), fun v hv => h v (Or.inr hv)⟩
  · intro h v hv; rcases hv with hv | hv; exact h.1 v hv; exact h.2 v hv

theorem mem_setInsert (v : Val) (acc : List Val) : ∀ x ∈ Val.setInsert v acc, x = v ∨ x ∈ acc := by
  induction acc with
  | nil => intro x hx; simp [Val.setInsert] at hx; exact Or.inl hx
  | cons a rest ih =>
    intro x hx
    simp only [Val.setInsert] at hx
    split at hx
    · simp at hx; rcases hx with h | h | h <;> simp [h]
    · simp at hx; rcases hx with h | h <;> simp [h]
    · simp at hx
      rcases hx with h | h
      · simp [h]
      · rcases ih x h with h' | h' <;> simp [h']

theorem wfs_setInsert (n : Nat) (v : Val) (acc : List Val) (hv : wf n v) (ha : wfs n acc) : wfs n (Val.setInsert v acc) := by
  rw [wfs_iff] at ha ⊢
  intro x hx
  rcases mem_setInsert v acc x hx with h | h
  · rw [h]; exact hv
  · exact ha x h

theorem wfs_foldl_setInsert (n : Nat) : ∀ (vs acc : List Val), wfs n acc → wfs n vs →
    wfs n (vs.foldl (fun acc v => Val.setInsert v acc) acc)
  | [], acc, ha, _ => by simpa using ha
  | v :: r, acc, ha, hv => by
    simp only [wfs] at hv
    simp only [List.foldl_cons]
    exact wfs_foldl_setInsert n r _ (wfs_setInsert n v acc hv.1 ha) hv.2

theorem wfs_setOfList (n : Nat) (vs : List Val) (h : wfs n vs) : wfs n (Val.setOfList vs) :=
  wfs_foldl_setInsert n vs [] (by simp [wfs]) h

/-! ### the invariant -/

def FrameWf (n : Nat) (f : Frame Val) : Prop := ∀ e ∈ f, wf n e.2.1
def FramesWf (n : Nat) (fs : Frames Val) : Prop := ∀ f ∈ fs, FrameWf n f
def ScopedWf (n : Nat) (sv : List (Nat × Frame Val)) : Prop := ∀ e ∈ sv, FrameWf n e.2
def GlobalsWf (n : Nat) (g : GlobalsM) : Prop := ∀ l ∈ g, ∀ e ∈ l, wf n e.2

/-- every graph-node value held in variables refers to a node of the graph; there is always a variable map -/
def Inv (cfg : Cfg) (s : MSt SRest) : Prop :=
  FramesWf s.graph.nodes.length s.rest.locals ∧ ScopedWf s.graph.nodes.length s.rest.scopedVars ∧
  GlobalsWf s.graph.nodes.length cfg.globals

/-- what a result contributes to the values that must stay well-formed -/
class HasVals (α : Type) where
  vals : α → List Val

instance : HasVals Unit := ⟨fun _ => []⟩
instance : HasVals Bool := ⟨fun _ => []⟩
instance : HasVals String := ⟨fun _ => []⟩
instance : HasVals Val := ⟨fun v => [v]⟩
instance : HasVals (List Val) := ⟨fun vs => vs⟩
/-- a natural number returned by the interpreter's helpers is either a graph node index (must be in range) or a
syntax node id (no constraint): the two uses are distinguished by wrapper types -/
structure GIx where
  ix : Nat
instance : HasVals Nat := ⟨fun _ => []⟩

def NoPanic (f : Fail) : Prop := ∀ site, f ≠ .panic site

/-- a good result: success with the invariant re-established, the graph not smaller and the result's values
well-formed; or a failure that is not a panic -/
def Good (cfg : Cfg) {α : Type} [HasVals α] (n0 : Nat) : Res (MSt SRest) α → Prop
  | .ok a s' => Inv cfg s' ∧ n0 ≤ s'.graph.nodes.length ∧ wfs s'.graph.nodes.length (HasVals.vals a)
  | .fail f _ => NoPanic f

/-- `t`, started in a state satisfying the invariant in which the values `vs` are well-formed, ends well -/
def Safe (cfg : Cfg) {α : Type} [HasVals α] (vs : List Val) (t : Prog SRest α) : Prop :=
  ∀ s, Inv cfg s → wfs s.graph.nodes.length vs → Good cfg s.graph.nodes.length (Prog.run t s)

theorem Inv.mono {cfg : Cfg} {s : MSt SRest} (h : Inv cfg s) (g' : CGraph) (hle : s.graph.nodes.length ≤ g'.nodes.length) :
    Inv cfg { s with graph := g' } := by
  obtain ⟨h1, h2, h3⟩ := h
  exact ⟨fun f hf e he => wf_mono hle _ (h1 f hf e he), fun e he x hx => wf_mono hle _ (h2 e he x hx),
    fun l hl e he => wf_mono hle _ (h3 l hl e he)⟩

variable {cfg : Cfg} {α β : Type} [HasVals α] [HasVals β]

theorem Safe.pure (vs : List Val) (a : α) (h : ∀ n, wfs n vs → wfs n (HasVals.vals a)) : Safe cfg vs (Pure.pure a : Prog SRest α) := by
  intro s hinv hvs
  exact ⟨hinv, Nat.le_refl _, h _ hvs⟩

theorem Safe.fail (vs : List Val) (f : Fail) (h : NoPanic f) : Safe cfg vs (Prog.fail f : Prog SRest α) := by
  intro s _ _; exact h

theorem Safe.throwK (vs : List Val) (k : EK) : Safe cfg vs (Prog.throwK k : Prog SRest α) := by
  intro s _ _ site h; cases h

theorem Safe.failP (vs : List Val) (f : Fail) (h : NoPanic f) : Safe cfg vs (Prog.failP f : Prog SRest α) := by
  intro s _ _; exact h

theorem Safe.weaken {vs vs' : List Val} {t : Prog SRest α} (h : Safe cfg vs t) (hsub : ∀ n, wfs n vs' → wfs n vs) : Safe cfg vs' t := by
  intro s hinv hvs; exact h s hinv (hsub _ hvs)

theorem Safe.bind {vs : List Val} {t : Prog SRest α} {f : α → Prog SRest β}
    (h1 : Safe cfg vs t) (h2 : ∀ a, Safe cfg (HasVals.vals a ++ vs) (f a)) : Safe cfg vs (t >>= f) := by
  intro s hinv hvs
  rw [Prog.run_bind]
  have := h1 s hinv hvs
  cases hr : Prog.run t s with
  | ok a s1 =>
    rw [hr] at this
    obtain ⟨hinv1, hle1, hva⟩ := this
    simp only
    have h2' := h2 a s1 hinv1 ((wfs_append _ _ _).mpr ⟨hva, wfs_mono hle1 vs hvs⟩)
    cases hr2 : Prog.run (f a) s1 with
    | ok b s2 =>
      rw [hr2] at h2'
      obtain ⟨hinv2, hle2, hvb⟩ := h2'
      exact ⟨hinv2, Nat.le_trans hle1 hle2, hvb⟩
    | fail e s2 => rw [hr2] at h2'; exact h2'
  | fail e s1 => rw [hr] at this; exact this

theorem Safe.poll (vs : List Val) (l : String) : Safe cfg vs (pollP l : Prog SRest Unit) := by
  intro s hinv _
  have hinv' : Inv cfg { s with ps := { s.ps with polls := s.ps.polls + 1 } } := hinv
  simp only [pollP, Prog.run]
  cases s.ps.cancelAt with
  | none => exact ⟨hinv', Nat.le_refl _, by simp [HasVals.vals, wfs]⟩
  | some c =>
    simp only
    split
    · intro site h; cases h
    · exact ⟨hinv', Nat.le_refl _, by simp [HasVals.vals, wfs]⟩

theorem Safe.ctx {vs : List Val} {m : Prog SRest α} (c : Ctx) (h : Safe cfg vs m) : Safe cfg vs (withContext c m) := by
  intro s hinv hvs
  simp only [withContext, Prog.run]
  have := h s hinv hvs
  cases hr : Prog.run m s with
  | ok a s1 => rw [hr] at this; exact this
  | fail f s1 =>
    rw [hr] at this
    show NoPanic (f.withContext c)
    intro site hc
    cases f with
    | panic st => exact this st rfl
    | err e => simp [Fail.withContext] at hc
    | need q => simp [Fail.withContext] at hc
    | outOfFuel => simp [Fail.withContext] at hc

theorem Safe.ofExcept (vs : List Val) (x : Except EK α) (h : ∀ a, x = .ok a → ∀ n, wfs n vs → wfs n (HasVals.vals a)) :
    Safe cfg vs (Prog.ofExcept x : Prog SRest α) := by
  cases x with
  | ok a => exact Safe.pure vs a (h a rfl)
  | error e => intro s _ _ site hc; cases hc

/-! ### steps on the private state -/

def RestWf (n : Nat) (r : SRest) : Prop := FramesWf n r.locals ∧ ScopedWf n r.scopedVars

theorem Safe.prim (vs : List Val) (f : SRest → Except Fail β × SRest)
    (h : ∀ n r, RestWf n r → GlobalsWf n cfg.globals → wfs n vs →
      match f r with
      | (.ok b, r') => RestWf n r' ∧ wfs n (HasVals.vals b)
      | (.error e, _) => NoPanic e) : Safe cfg vs (primP f) := by
  intro s hinv hvs
  obtain ⟨h1, h2, h3⟩ := hinv
  have := h _ s.rest ⟨h1, h2⟩ h3 hvs
  simp only [primP, Prog.run]
  cases hf : f s.rest with
  | mk x r' =>
    rw [hf] at this
    cases x with
    | ok b => exact ⟨⟨this.1.1, this.1.2, h3⟩, Nat.le_refl _, this.2⟩
    | error e => exact this

/-- all values held in a chain of variable maps -/
def framesVals (fs : Frames Val) : List Val := fs.flatMap fun f => f.map fun e => e.2.1

theorem framesWf_iff (n : Nat) (fs : Frames Val) : FramesWf n fs ↔ wfs n (framesVals fs) := by
  simp only [FramesWf, FrameWf, wfs_iff, framesVals, List.mem_flatMap, List.mem_map]
  constructor
  · rintro h v ⟨f, hf, e, he, rfl⟩; exact h f hf e he
  · intro h f hf e he; exact h _ ⟨f, hf, e, he, rfl⟩

def scopedVals (sv : List (Nat × Frame Val)) : List Val := sv.flatMap fun e => e.2.map fun x => x.2.1

theorem scopedWf_iff (n : Nat) (sv : List (Nat × Frame Val)) : ScopedWf n sv ↔ wfs n (scopedVals sv) := by
  simp only [ScopedWf, FrameWf, wfs_iff, scopedVals, List.mem_flatMap, List.mem_map]
  constructor
  · rintro h v ⟨e, he, x, hx, rfl⟩; exact h e he x hx
  · intro h e he x hx; exact h _ ⟨e, he, x, hx, rfl⟩

def restVals (r : SRest) : List Val := framesVals r.locals ++ scopedVals r.scopedVars

theorem restWf_iff (n : Nat) (r : SRest) : RestWf n r ↔ wfs n (restVals r) := by
  simp only [RestWf, restVals, wfs_append, framesWf_iff, scopedWf_iff]

instance : HasVals SRest := ⟨restVals⟩

theorem Safe.getR (vs : List Val) : Safe cfg vs (Prog.getR : Prog SRest SRest) := by
  apply Safe.prim
  intro n r hr _ _
  exact ⟨hr, (restWf_iff n r).mp hr⟩

theorem frames_get_wf {n : Nat} {fs : Frames Val} (h : FramesWf n fs) {k : String} {v : Val} (hg : fs.get k = some v) : wf n v := by
  induction fs with
  | nil => simp [Frames.get] at hg
  | cons f rest ih =>
    simp only [Frames.get] at hg
    cases hl : f.lookup k with
    | none => rw [hl] at hg; exact ih (fun f' hf' => h f' (by simp [hf'])) hg
    | some p =>
      rw [hl] at hg
      obtain ⟨v', m⟩ := p
      simp at hg; subst hg
      have hmem : (k, v', m) ∈ f := by
        clear h ih
        induction f with
        | nil => simp [List.lookup] at hl
        | cons e r ihf =>
          obtain ⟨k', p'⟩ := e
          simp only [List.lookup] at hl
          by_cases hk : k = k'
          · subst hk; simp at hl; subst hl; simp
          · have : (k == k') = false := by simp [hk]
            rw [this] at hl; simp [ihf hl]
      exact h f (by simp) _ hmem

theorem globals_get_wf {n : Nat} {g : GlobalsM} (h : GlobalsWf n g) {k : String} {v : Val} (hg : g.get k = some v) : wf n v := by
  induction g with
  | nil => simp [GlobalsM.get] at hg
  | cons l rest ih =>
    simp only [GlobalsM.get] at hg
    cases hl : l.lookup k with
    | none => rw [hl] at hg; exact ih (fun l' hl' => h l' (by simp [hl'])) hg
    | some v' =>
      rw [hl] at hg
      simp at hg; subst hg
      have hmem : (k, v') ∈ l := by
        clear h ih
        induction l with
        | nil => simp [List.lookup] at hl
        | cons e r ihf =>
          obtain ⟨k', p'⟩ := e
          simp only [List.lookup] at hl
          by_cases hk : k = k'
          · subst hk; simp at hl; subst hl; simp
          · have : (k == k') = false := by simp [hk]
            rw [this] at hl; simp [ihf hl]
      exact h l (by simp) _ hmem

theorem Safe.unscopedGet (vs : List Val) (name : String) : Safe cfg vs (unscopedGet cfg name) := by
  apply Safe.prim
  intro n r hr hg _
  cases hgl : cfg.globals.get name with
  | some v => simp only [hgl]; exact ⟨hr, by simp [HasVals.vals, wfs, globals_get_wf hg hgl]⟩
  | none =>
    simp only [hgl]
    cases hl : r.locals.get name with
    | some v => simp only [hl]; exact ⟨hr, by simp [HasVals.vals, wfs, frames_get_wf hr.1 hl]⟩
    | none => simp only [hl]; intro site h; cases h


theorem lookup_mem {α β : Type} [BEq α] [LawfulBEq α] {l : List (α × β)} {k : α} {v : β} (h : l.lookup k = some v) : (k, v) ∈ l := by
  induction l with
  | nil => simp [List.lookup] at h
  | cons e r ih =>
    obtain ⟨k', v'⟩ := e
    simp only [List.lookup] at h
    by_cases hk : k = k'
    · subst hk; simp at h; subst h; simp
    · have : (k == k') = false := by simp [hk]
      rw [this] at h; simp [ih h]

theorem frames_add_wf {n : Nat} {fs fs' : Frames Val} {k : String} {v : Val} {m : Bool}
    (h : FramesWf n fs) (hv : wf n v) (ha : Frames.add fs k v m = .ok fs') : FramesWf n fs' := by
  cases fs with
  | nil => simp [Frames.add] at ha
  | cons f rest =>
    simp only [Frames.add] at ha
    cases hl : f.lookup k with
    | some p => rw [hl] at ha; simp at ha
    | none =>
      rw [hl] at ha
      simp at ha; subst ha
      intro f' hf'
      simp only [List.mem_cons] at hf'
      rcases hf' with rfl | hf'
      · intro e he
        simp only [List.mem_append, List.mem_singleton] at he
        rcases he with he | rfl
        · exact h f (by simp) e he
        · exact hv
      · exact h f' (by simp [hf'])

theorem frameSet_wf {n : Nat} {f : Frame Val} {k : String} {v : Val} (h : FrameWf n f) (hv : wf n v) : FrameWf n (Frames.frameSet f k v) := by
  intro e he
  simp only [Frames.frameSet, List.mem_map] at he
  obtain ⟨e0, he0, rfl⟩ := he
  by_cases hk : e0.1 = k
  · simp [hk, hv]
  · simp only [hk, if_false]; exact h e0 he0

theorem frames_set_wf {n : Nat} : ∀ {fs fs' : Frames Val} {k : String} {v : Val},
    FramesWf n fs → wf n v → Frames.set fs k v = .ok fs' → FramesWf n fs'
  | [], _, _, _, _, _, hs => by simp [Frames.set] at hs
  | f :: rest, fs', k, v, h, hv, hs => by
    simp only [Frames.set] at hs
    split at hs
    · simp at hs; subst hs
      intro f' hf'
      simp only [List.mem_cons] at hf'
      rcases hf' with rfl | hf'
      · exact frameSet_wf (h f (by simp)) hv
      · exact h f' (by simp [hf'])
    · simp at hs
    · split at hs
      · rename_i rest' hrest
        simp at hs; subst hs
        have := frames_set_wf (n := n) (fun f' hf' => h f' (by simp [hf'])) hv hrest
        intro f' hf'
        simp only [List.mem_cons] at hf'
        rcases hf' with rfl | hf'
        · exact h _ (by simp)
        · exact this f' hf'
      · simp at hs

theorem Safe.unscopedAdd (vs : List Val) (name : String) (v : Val) (mutable : Bool) (hv : ∀ n, wfs n vs → wf n v) :
    Safe cfg vs (unscopedAdd cfg name v mutable) := by
  apply Safe.prim
  intro n r hr _ hvs
  cases cfg.globals.get name with
  | some _ => simp only []; intro site h; cases h
  | none =>
    simp only []
    cases ha : r.locals.add name v mutable with
    | ok l => simp only []; exact ⟨⟨frames_add_wf hr.1 (hv n hvs) ha, hr.2⟩, by simp [HasVals.vals, wfs]⟩
    | error e => simp only []; intro site h; cases h

theorem Safe.unscopedSet (vs : List Val) (name : String) (v : Val) (hv : ∀ n, wfs n vs → wf n v) :
    Safe cfg vs (unscopedSet cfg name v) := by
  apply Safe.prim
  intro n r hr _ hvs
  cases cfg.globals.get name with
  | some _ => simp only []; intro site h; cases h
  | none =>
    simp only []
    cases ha : r.locals.set name v with
    | ok l => simp only []; exact ⟨⟨frames_set_wf hr.1 (hv n hvs) ha, hr.2⟩, by simp [HasVals.vals, wfs]⟩
    | error e =>
      simp only []
      by_cases hg : (r.locals.get name).isSome = true
      · simp only [hg, if_true]; intro site h; cases h
      · simp only [hg, if_false]; intro site h; cases h

theorem Safe.modifyFrames (vs : List Val) (f : Frames Val → Frames Val) (h : ∀ n fs, FramesWf n fs → wfs n vs → FramesWf n (f fs)) :
    Safe cfg vs (Prog.modifyR fun s => { s with locals := f s.locals }) := by
  apply Safe.prim
  intro n r hr _ hvs
  exact ⟨⟨h n r.locals hr.1 hvs, hr.2⟩, by simp [HasVals.vals, wfs]⟩

theorem Safe.pushFrame (vs : List Val) : Safe cfg vs pushFrame :=
  Safe.modifyFrames vs _ fun n fs h _ f hf => by
    simp only [Frames.push, List.mem_cons] at hf
    rcases hf with rfl | hf
    · intro e he; cases he
    · exact h f hf

theorem Safe.popFrame (vs : List Val) : Safe cfg vs popFrame :=
  Safe.modifyFrames vs _ fun n fs h _ f hf => by
    cases fs with
    | nil => simp [Frames.pop] at hf
    | cons f0 rest => simp only [Frames.pop] at hf; exact h f (by simp [hf])

theorem Safe.clearFrame (vs : List Val) : Safe cfg vs clearFrame :=
  Safe.modifyFrames vs _ fun n fs h _ f hf => by
    cases fs with
    | nil => simp [Frames.clear] at hf
    | cons f0 rest =>
      simp only [Frames.clear, List.mem_cons] at hf
      rcases hf with rfl | hf
      · intro e he; cases he
      · exact h f (by simp [hf])


theorem scopedFrame_wf {n : Nat} {r : SRest} (h : ScopedWf n r.scopedVars) (node : Nat) : FrameWf n (scopedFrame r node) := by
  unfold scopedFrame
  cases hl : r.scopedVars.lookup node with
  | none => intro e he; simp at he
  | some f => simpa using h (node, f) (lookup_mem hl)

theorem setScopedFrame_wf {n : Nat} {r : SRest} (h : RestWf n r) (node : Nat) (f : Frame Val) (hf : FrameWf n f) :
    RestWf n (setScopedFrame r node f) := by
  unfold setScopedFrame
  split
  · refine ⟨h.1, ?_⟩
    intro e he
    simp only [List.mem_map] at he
    obtain ⟨e0, he0, rfl⟩ := he
    by_cases hk : e0.1 = node
    · simp [hk, hf]
    · simp only [hk, if_false]; exact h.2 e0 he0
  · refine ⟨h.1, ?_⟩
    intro e he
    simp only [List.mem_append, List.mem_singleton] at he
    rcases he with he | rfl
    · exact h.2 e he
    · exact hf

theorem Safe.scopedAdd (vs : List Val) (node : Nat) (name : String) (v : Val) (mutable : Bool) (hv : ∀ n, wfs n vs → wf n v) :
    Safe cfg vs (scopedAdd node name v mutable) := by
  apply Safe.prim
  intro n r hr _ hvs
  have hfw := scopedFrame_wf hr.2 node
  cases ha : Frames.add [scopedFrame r node] name v mutable with
  | error e =>
    simp only []
    intro site h; cases h
  | ok l =>
    have hl := frames_add_wf (n := n) (fs := [scopedFrame r node]) (by intro f hf; simp at hf; subst hf; exact hfw) (hv n hvs) ha
    cases l with
    | nil =>
      simp only [Frames.add] at ha
      split at ha <;> simp at ha
    | cons f rest =>
      cases rest with
      | nil => simp only []; exact ⟨setScopedFrame_wf hr node f (hl f (by simp)), by simp [HasVals.vals, wfs]⟩
      | cons f2 rest2 =>
        simp only [Frames.add] at ha
        split at ha <;> simp at ha

theorem Safe.scopedSet (vs : List Val) (node : Nat) (name : String) (v : Val) (hv : ∀ n, wfs n vs → wf n v) :
    Safe cfg vs (scopedSet node name v) := by
  apply Safe.prim
  intro n r hr _ hvs
  have hfw := scopedFrame_wf hr.2 node
  cases ha : Frames.set [scopedFrame r node] name v with
  | error e =>
    simp only []
    intro site h; cases h
  | ok l =>
    have hl := frames_set_wf (n := n) (fs := [scopedFrame r node]) (by intro f hf; simp at hf; subst hf; exact hfw) (hv n hvs) ha
    cases l with
    | nil =>
      simp only [Frames.set] at ha
      split at ha
      · simp at ha
      · simp at ha
      · simp [Frames.set] at ha
    | cons f rest =>
      cases rest with
      | nil => simp only []; exact ⟨setScopedFrame_wf hr node f (hl f (by simp)), by simp [HasVals.vals, wfs]⟩
      | cons f2 rest2 =>
        simp only [Frames.set] at ha
        split at ha
        · simp at ha
        · simp at ha
        · simp [Frames.set] at ha

theorem frameGet_wf {n : Nat} {f : Frame Val} (h : FrameWf n f) {k : String} {v : Val} (hg : frameGet f k = some v) : wf n v := by
  unfold frameGet at hg
  cases hl : f.lookup k with
  | none => rw [hl] at hg; simp at hg
  | some p =>
    rw [hl] at hg
    simp at hg
    have := h (k, p) (lookup_mem hl)
    rw [← hg]; exact this

theorem scopedLookup_wf {n : Nat} (cfg : Cfg) {r : SRest} (h : ScopedWf n r.scopedVars) {node : Nat} {name : String} {v : Val}
    (hg : scopedLookup cfg r node name = some v) : wf n v := by
  unfold scopedLookup at hg
  cases h1 : frameGet (scopedFrame r node) name with
  | some v' => rw [h1] at hg; simp at hg; subst hg; exact frameGet_wf (scopedFrame_wf h node) h1
  | none =>
    rw [h1] at hg
    simp only at hg
    split at hg
    · obtain ⟨a, _, ha⟩ := List.exists_of_findSome?_eq_some hg
      exact frameGet_wf (scopedFrame_wf h a) ha
    · cases hg


/-! ### the standard library -/

def Scalar : Val → Prop
  | .list _ | .set _ | .gnode _ => False
  | _ => True

theorem scalar_wf (n : Nat) {v : Val} (h : Scalar v) : wf n v := by
  cases v <;> simp [Scalar, wf] at h ⊢

theorem eq_scalar (args : List Val) (v : Val) (h : Stdlib.eq args = .ok v) : Scalar v := by
  unfold Stdlib.eq at h
  simp only [bind, Except.bind, Pure.pure, Except.pure] at h
  repeat' split at h
  all_goals (cases h <;> simp [Scalar])

theorem isNull_scalar (args : List Val) (v : Val) (h : Stdlib.isNull args = .ok v) : Scalar v := by
  unfold Stdlib.isNull at h
  simp only [bind, Except.bind, Pure.pure, Except.pure] at h
  repeat' split at h
  all_goals (cases h <;> simp [Scalar])

theorem not_scalar (args : List Val) (v : Val) (h : Stdlib.not args = .ok v) : Scalar v := by
  unfold Stdlib.not at h
  simp only [bind, Except.bind, Pure.pure, Except.pure] at h
  repeat' split at h
  all_goals (cases h <;> simp [Scalar])

theorem andLoop_scalar : ∀ (args : List Val) (acc : Bool) (v : Val), Stdlib.andLoop acc args = .ok v → Scalar v
  | [], acc, v, h => by simp [Stdlib.andLoop] at h; subst h; simp [Scalar]
  | a :: rest, acc, v, h => by
    simp only [Stdlib.andLoop] at h
    split at h
    · exact andLoop_scalar rest _ v h
    · cases h

theorem orLoop_scalar : ∀ (args : List Val) (acc : Bool) (v : Val), Stdlib.orLoop acc args = .ok v → Scalar v
  | [], acc, v, h => by simp [Stdlib.orLoop] at h; subst h; simp [Scalar]
  | a :: rest, acc, v, h => by
    simp only [Stdlib.orLoop] at h
    split at h
    · exact orLoop_scalar rest _ v h
    · cases h

theorem plusLoop_scalar : ∀ (args : List Val) (acc : Nat) (v : Val), Stdlib.plusLoop acc args = .ok v → Scalar v
  | [], acc, v, h => by simp [Stdlib.plusLoop] at h; subst h; simp [Scalar]
  | a :: rest, acc, v, h => by
    simp only [Stdlib.plusLoop] at h
    split at h
    · split at h
      · exact plusLoop_scalar rest _ v h
      · cases h
    · cases h

theorem format_scalar (disp : Val → String) (args : List Val) (v : Val) (h : Stdlib.format disp args = .ok v) : Scalar v := by
  unfold Stdlib.format at h
  simp only [bind, Except.bind, Pure.pure, Except.pure] at h
  repeat' split at h
  all_goals (cases h <;> simp [Scalar])

theorem isEmpty_scalar (args : List Val) (v : Val) (h : Stdlib.isEmpty args = .ok v) : Scalar v := by
  unfold Stdlib.isEmpty at h
  simp only [bind, Except.bind, Pure.pure, Except.pure] at h
  repeat' split at h
  all_goals (cases h <;> simp [Scalar])

theorem length_scalar (args : List Val) (v : Val) (h : Stdlib.length args = .ok v) : Scalar v := by
  unfold Stdlib.length at h
  simp only [bind, Except.bind, Pure.pure, Except.pure] at h
  repeat' split at h
  all_goals (cases h <;> simp [Scalar])

theorem join_scalar (disp : Val → String) (args : List Val) (v : Val) (h : Stdlib.join disp args = .ok v) : Scalar v := by
  unfold Stdlib.join at h
  simp only [bind, Except.bind, Pure.pure, Except.pure] at h
  repeat' split at h
  all_goals (cases h <;> simp [Scalar])

theorem namedChildIndex_scalar (t : Tree) (args : List Val) (v : Val) (h : Stdlib.namedChildIndex t args = .ok v) : Scalar v := by
  unfold Stdlib.namedChildIndex at h
  simp only [bind, Except.bind, Pure.pure, Except.pure] at h
  repeat' split at h
  all_goals (cases h <;> simp [Scalar])

theorem concatLoop_wf (n : Nat) : ∀ (args acc : List Val) (v : Val), wfs n acc → wfs n args → Stdlib.concatLoop acc args = .ok v → wf n v
  | [], acc, v, ha, _, h => by simp [Stdlib.concatLoop] at h; subst h; simpa [wf] using ha
  | a :: rest, acc, v, ha, hargs, h => by
    simp only [Stdlib.concatLoop] at h
    simp only [wfs] at hargs
    cases a with
    | list l =>
      simp only [Stdlib.asList] at h
      exact concatLoop_wf n rest _ v ((wfs_append _ _ _).mpr ⟨ha, by simpa [wf] using hargs.1⟩) hargs.2 h
    | _ => simp [Stdlib.asList] at h

/-- the source-text slices of the tree's nodes exist (tree-sitter's byte ranges lie inside the source, on character
boundaries) -/
def TreeOK (t : Tree) : Prop := ∀ id nd, t.node? id = some nd → (Tree.sliceBytes t.source nd.startByte nd.endByte).isSome

theorem synArg_node (t : Tree) (args : List Val) (nd : TNode) (h : Stdlib.synArg t args = .ok nd) : ∃ id, t.node? id = some nd := by
  unfold Stdlib.synArg at h
  simp only [bind, Except.bind, Pure.pure, Except.pure] at h
  repeat' split at h
  all_goals first | (cases h; done) | skip
  all_goals (cases h; exact ⟨_, by assumption⟩)


/-- a good outcome of a pure library function: a well-formed value, or an error that is not a panic -/
def PGood (n : Nat) : Stdlib.PureRes → Prop
  | .ok v => wf n v
  | .panic _ => False
  | _ => True

theorem liftP_good (n : Nat) (x : Except EK Val) (h : ∀ v, x = .ok v → wf n v) : PGood n (Stdlib.liftP x) := by
  cases x with
  | ok v => exact h v rfl
  | error e => trivial

theorem map_scalar {α : Type} (x : Except EK α) (f : α → Val) (hf : ∀ a, Scalar (f a)) (n : Nat) : PGood n (Stdlib.liftP (x.map f)) := by
  cases x with
  | ok a => exact scalar_wf n (hf a)
  | error e => trivial

theorem callPure_good (o : Oracle) (t : Tree) (name : String) (args : List Val) (ht : TreeOK t) (n : Nat) (hargs : wfs n args) :
    PGood n (Stdlib.callPure o t name args) := by
  unfold Stdlib.callPure
  simp only
  split
  · exact liftP_good n _ fun v hv => scalar_wf n (eq_scalar _ _ hv)
  · exact liftP_good n _ fun v hv => scalar_wf n (isNull_scalar _ _ hv)
  · exact liftP_good n _ fun v hv => scalar_wf n (namedChildIndex_scalar _ _ _ hv)
  · cases hs : Stdlib.synArg t args with
    | error e => trivial
    | ok nd =>
      simp only
      obtain ⟨id, hid⟩ := synArg_node t args nd hs
      have := ht id nd hid
      cases hsl : Tree.sliceBytes t.source nd.startByte nd.endByte with
      | none => rw [hsl] at this; simp at this
      | some str => simp [PGood, wf]
  · exact map_scalar _ _ (fun _ => by simp [Scalar]) n
  · exact map_scalar _ _ (fun _ => by simp [Scalar]) n
  · exact map_scalar _ _ (fun _ => by simp [Scalar]) n
  · exact map_scalar _ _ (fun _ => by simp [Scalar]) n
  · exact map_scalar _ _ (fun _ => by simp [Scalar]) n
  · exact map_scalar _ _ (fun _ => by simp [Scalar]) n
  · exact liftP_good n _ fun v hv => scalar_wf n (not_scalar _ _ hv)
  · exact liftP_good n _ fun v hv => scalar_wf n (andLoop_scalar _ _ _ hv)
  · exact liftP_good n _ fun v hv => scalar_wf n (orLoop_scalar _ _ _ hv)
  · exact liftP_good n _ fun v hv => scalar_wf n (plusLoop_scalar _ _ _ hv)
  · exact liftP_good n _ fun v hv => scalar_wf n (format_scalar _ _ _ hv)
  · -- replace
    repeat' split
    all_goals first | trivial | simp [PGood, wf]
  · exact liftP_good n _ fun v hv => concatLoop_wf n args [] v (by simp [wfs]) hargs hv
  · exact liftP_good n _ fun v hv => scalar_wf n (isEmpty_scalar _ _ hv)
  · exact liftP_good n _ fun v hv => scalar_wf n (join_scalar _ _ _ hv)
  · exact liftP_good n _ fun v hv => scalar_wf n (length_scalar _ _ hv)
  · trivial


/-! ### steps on the graph -/

theorem setNode_length (g : CGraph) (i : Nat) (nd : GNode) : (g.setNode i nd).nodes.length = g.nodes.length := by
  simp [CGraph.setNode]

theorem node?_some_of_lt (g : CGraph) (i : Nat) (h : i < g.nodes.length) : ∃ nd, g.node? i = some nd := by
  simp only [CGraph.node?]
  exact ⟨g.nodes[i], List.getElem?_eq_getElem h⟩

theorem Inv.sameLength {s : MSt SRest} (h : Inv cfg s) (g' : CGraph) (hl : g'.nodes.length = s.graph.nodes.length) :
    Inv cfg { s with graph := g' } := h.mono g' (by omega)

/-- `node`: the new node's index is in range afterwards -/
theorem Safe.bind_addNode {vs : List Val} {f : Nat → Prog SRest β} (h : ∀ n, Safe cfg (.gnode n :: vs) (f n)) :
    Safe cfg vs (gopP .addNode >>= f) := by
  intro s hinv hvs
  rw [Prog.run_bind]
  have hrun : Prog.run (gopP .addNode : Prog SRest Nat) s = .ok s.graph.nodes.length { s with graph := s.graph.addGraphNode.1 } := rfl
  rw [hrun]
  simp only
  have hlen : (s.graph.addGraphNode.1).nodes.length = s.graph.nodes.length + 1 := by simp [CGraph.addGraphNode]
  have hinv' : Inv cfg { s with graph := s.graph.addGraphNode.1 } := hinv.mono _ (by omega)
  have := h s.graph.nodes.length { s with graph := s.graph.addGraphNode.1 } hinv'
    (by simp only [wfs, wf]; exact ⟨by rw [hlen]; omega, wfs_mono (by rw [hlen]; omega) vs hvs⟩)
  cases hr : Prog.run (f s.graph.nodes.length) { s with graph := s.graph.addGraphNode.1 } with
  | ok b s2 =>
    rw [hr] at this
    obtain ⟨h1, h2, h3⟩ := this
    exact ⟨h1, by rw [hlen] at h2; omega, h3⟩
  | fail e s2 => rw [hr] at this; exact this

/-- a library call: its arguments are well-formed, so is its result; the only panic site of the library needs the
tree's byte ranges -/
theorem Safe.callFn (vs : List Val) (fn : String) (args : List Val) (ht : TreeOK cfg.tree) (hargs : ∀ n, wfs n vs → wfs n args) :
    Safe cfg vs (Strict.callFn cfg fn args : Prog SRest Val) := by
  intro s hinv hvs
  simp only [Strict.callFn, gopP, Prog.run, GraphOp.apply, Stdlib.call]
  by_cases hn : fn = "node"
  · simp only [hn, if_true]
    cases Stdlib.finish args with
    | error e => intro site h; cases h
    | ok u =>
      have hlen : (s.graph.addGraphNode.1).nodes.length = s.graph.nodes.length + 1 := by simp [CGraph.addGraphNode]
      refine ⟨hinv.mono _ (by omega), by rw [hlen]; omega, ?_⟩
      simp only [HasVals.vals, wfs, wf, and_true]
      show s.graph.nodes.length < (s.graph.addGraphNode.1).nodes.length
      omega
  · simp only [hn, if_false]
    have := callPure_good cfg.oracle cfg.tree fn args ht _ (hargs _ hvs)
    cases hc : Stdlib.callPure cfg.oracle cfg.tree fn args with
    | ok v => rw [hc] at this; exact ⟨hinv, Nat.le_refl _, by simp only [HasVals.vals, wfs, and_true]; exact this⟩
    | err k => intro site h; cases h
    | panic site => rw [hc] at this; exact this.elim
    | need q => intro site h; cases h

theorem Safe.bind_asGraphNode {vs : List Val} (v : Val) {f : Nat → Prog SRest β} (hv : ∀ n, wfs n vs → wf n v)
    (h : ∀ n, Safe cfg (.gnode n :: vs) (f n)) : Safe cfg vs (asGraphNode v >>= f) := by
  cases v with
  | gnode i =>
    have : (asGraphNode (.gnode i) >>= f) = f i := rfl
    rw [this]
    exact (h i).weaken fun n hn => by simp only [wfs]; exact ⟨hv n hn, hn⟩
  | _ => intro s _ _ site hc; cases hc

/-- an attribute on a node / edge whose endpoints are nodes of the graph -/
theorem Safe.addAttribute (vs : List Val) (t : Target) (name : String) (v : Val)
    (ht : ∀ n, wfs n vs → match t with | .node i => i < n | .edge src _ => src < n) :
    Safe cfg vs (Strict.addAttribute t name v : Prog SRest Unit) := by
  intro s hinv hvs
  have htt := ht _ hvs
  cases t with
  | node i =>
    obtain ⟨nd, hnd⟩ := node?_some_of_lt s.graph i htt
    simp only [Strict.addAttribute, Prog.run_bind, gopP, Prog.run, GraphOp.apply, CGraph.addNodeAttr, hnd]
    cases hc : (Attrs.add nd.attrs name v).2 with
    | false =>
      simp only
      exact ⟨hinv.sameLength _ (setNode_length _ _ _), by rw [setNode_length]; exact Nat.le_refl _, by simp [HasVals.vals, wfs]⟩
    | true => simp only; intro site h; cases h
  | edge src sink =>
    obtain ⟨nd, hnd⟩ := node?_some_of_lt s.graph src htt
    simp only [Strict.addAttribute, Prog.run_bind, gopP, Prog.run, GraphOp.apply, CGraph.addEdgeAttr, hnd]
    cases he : nd.getEdge sink with
    | none => simp only; intro site h; cases h
    | some ea =>
      simp only
      cases hc : (Attrs.add ea name v).2 with
      | false =>
        simp only
        exact ⟨hinv.sameLength _ (setNode_length _ _ _), by rw [setNode_length]; exact Nat.le_refl _, by simp [HasVals.vals, wfs]⟩
      | true => simp only; intro site h; cases h

end StrictSafe
