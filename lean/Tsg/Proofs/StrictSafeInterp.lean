/-
  Safety of the strict interpreter's functions, one lemma per function (see StrictSafe.lean for the framework).
-/
import Tsg.Proofs.StrictSafe
import Tsg.Props.C10

namespace StrictSafe
open Prog Strict

variable {cfg : Cfg}

/-- no capture of the running stanza's query has quantifier `Zero`. (That a capture which the query says occurs exactly
once has a node is NOT assumed: tree-sitter keeps at most three captures per pattern step and drops the others while it
still reports them as occurring once; since the repair of `Capture::evaluate` such a capture is an error, not a panic.) -/
def EnvQ (env : Env) : Prop :=
  ∀ name q, env.quants.lookup name = some q → q ≠ .zero

-- capture names with a resolved quantifier that an expression mentions
mutual
def exprCaps : Expr → List String
  | .capture name q _ _ _ => if q = .zero then [] else [name]
  | .list es => exprsCaps es
  | .set es => exprsCaps es
  | .listComp elem _ _ value _ => exprCaps elem ++ exprCaps value
  | .setComp elem _ _ value _ => exprCaps elem ++ exprCaps value
  | .scopedVar scope _ _ => exprCaps scope
  | .call _ args => exprsCaps args
  | _ => []
def exprsCaps : List Expr → List String
  | [] => []
  | e :: r => exprCaps e ++ exprsCaps r
end

/-- the checker resolved every capture the expression mentions: it is a capture of the stanza's query -/
def Resolved (env : Env) (names : List String) : Prop := ∀ n ∈ names, (env.quants.lookup n).isSome

theorem Resolved.left {env : Env} {a b : List String} (h : Resolved env (a ++ b)) : Resolved env a :=
  fun n hn => h n (List.mem_append_left _ hn)
theorem Resolved.right {env : Env} {a b : List String} (h : Resolved env (a ++ b)) : Resolved env b :=
  fun n hn => h n (List.mem_append_right _ hn)

theorem Safe.fromNodes (vs : List Val) (q : Quant) (nodes : List Nat) (hq : q ≠ .zero) :
    Safe cfg vs (fromNodes q nodes : Prog SRest Val) := by
  unfold Strict.fromNodes
  cases q with
  | zero => exact (hq rfl).elim
  | one =>
    cases nodes with
    | nil => exact Safe.throwK vs _
    | cons n r => exact Safe.pure vs _ (fun _ _ => by simp [HasVals.vals, wfs, wf])
  | zeroOrMore | oneOrMore =>
    refine Safe.pure vs _ (fun k _ => ?_)
    simp only [HasVals.vals, wfs, wf, and_true]
    rw [wfs_iff]; intro v hv; simp only [List.mem_map] at hv; obtain ⟨x, _, rfl⟩ := hv; simp [wf]
  | zeroOrOne =>
    cases nodes <;> exact Safe.pure vs _ (fun _ _ => by simp [HasVals.vals, wfs, wf])

theorem Safe.asSyntaxScope (vs : List Val) (v : Val) : Safe cfg vs (asSyntaxScope v) := by
  unfold Strict.asSyntaxScope
  cases v <;> first | exact Safe.pure vs _ (fun _ _ => by simp [HasVals.vals, wfs]) | exact Safe.throwK vs _

theorem wfs_head {n : Nat} {v : Val} {vs : List Val} (h : wfs n (v :: vs)) : wf n v := h.1

theorem asList_wf {n : Nat} {v : Val} {l : List Val} (h : Stdlib.asList v = .ok l) (hv : wf n v) : wfs n l := by
  cases v <;> simp [Stdlib.asList] at h
  subst h; simpa [wf] using hv

/-- expressions: the value is well-formed -/
theorem safe_expr (ht : TreeOK cfg.tree) (fuel : Nat) : ∀ m : Nat,
    (∀ (env : Env) (e : Expr) (vs : List Val), sizeOf e ≤ m → EnvQ env → Resolved env (exprCaps e) → Safe cfg vs (evalExpr cfg fuel env e)) ∧
    (∀ (env : Env) (es : List Expr) (vs : List Val), sizeOf es ≤ m → EnvQ env → Resolved env (exprsCaps es) → Safe cfg vs (evalExprs cfg fuel env es)) ∧
    (∀ (env : Env) (elem : Expr) (var : String) (vals : List Val) (vs : List Val), sizeOf elem ≤ m → EnvQ env → Resolved env (exprCaps elem) →
      (∀ n, wfs n vs → wfs n vals) → Safe cfg vs (evalComp cfg fuel env elem var vals)) := by
  intro m
  induction m with
  | zero =>
    refine ⟨?_, ?_, ?_⟩
    · intro env e vs h; cases e <;> simp at h <;> omega
    · intro env es vs h; cases es <;> simp at h
    · intro env elem var vals vs h; cases elem <;> simp at h <;> omega
  | succ m ih =>
    obtain ⟨ihE, ihEs, ihC⟩ := ih
    have hC : ∀ (env : Env) (elem : Expr) (var : String) (vals : List Val) (vs : List Val), EnvQ env →
        (∀ env' vs', EnvQ env' → env'.quants = env.quants → Safe cfg vs' (evalExpr cfg fuel env' elem)) →
        (∀ n, wfs n vs → wfs n vals) → Safe cfg vs (evalComp cfg fuel env elem var vals) := by
      intro env elem var vals vs hq hel hvals
      induction vals generalizing vs with
      | nil => rw [evalComp]; exact Safe.pure vs _ (fun _ _ => by simp [HasVals.vals, wfs])
      | cons v rest ihv =>
        rw [evalComp]
        refine Safe.bind (Safe.clearFrame vs) fun _ => Safe.bind (Safe.unscopedAdd _ var v false (fun n hn => ?_)) fun _ =>
          Safe.bind (hel env _ hq rfl) fun x => Safe.bind (ihv _ (fun n hn => ?_)) fun xs => Safe.pure _ _ (fun n hn => ?_)
        · simp only [HasVals.vals, List.nil_append] at hn; exact (hvals n hn).1
        · simp only [HasVals.vals, List.nil_append, List.cons_append, wfs] at hn; exact (hvals n hn.2).2
        · simp only [HasVals.vals, List.nil_append, List.cons_append, wfs, wfs_append] at hn ⊢
          exact ⟨hn.2.1, hn.1⟩
    have hE : ∀ (env : Env) (e : Expr) (vs : List Val), sizeOf e ≤ m + 1 → EnvQ env → Resolved env (exprCaps e) →
        Safe cfg vs (evalExpr cfg fuel env e) := by
      intro env e vs h hq hres
      cases e with
      | falseLit | nullLit | trueLit | int _ | str _ =>
        rw [evalExpr]; exact Safe.pure vs _ (fun _ _ => by simp [HasVals.vals, wfs, wf])
      | list es =>
        rw [evalExpr]
        refine Safe.bind (ihEs env es vs (by simp at h; omega) hq (by simpa [exprCaps] using hres)) fun l =>
          Safe.pure _ _ (fun n hn => ?_)
        simp only [HasVals.vals, wfs, wf, and_true, wfs_append] at hn ⊢
        exact hn.1
      | set es =>
        rw [evalExpr]
        refine Safe.bind (ihEs env es vs (by simp at h; omega) hq (by simpa [exprCaps] using hres)) fun l =>
          Safe.pure _ _ (fun n hn => ?_)
        simp only [HasVals.vals, wfs, wf, and_true, wfs_append] at hn ⊢
        exact wfs_setOfList n l hn.1
      | listComp elem var vl value l =>
        rw [evalExpr]
        simp only [exprCaps] at hres
        refine Safe.bind (ihE env value vs (by simp at h; omega) hq hres.right) fun v =>
          Safe.bind (Safe.ofExcept _ _ (fun a ha n hn => ?_)) fun vals =>
            Safe.bind (Safe.pushFrame _) fun _ =>
              Safe.bind (ihC env elem var vals _ (by simp at h; omega) hq hres.left (fun n hn => ?_)) fun out =>
                Safe.bind (Safe.popFrame _) fun _ => Safe.pure _ _ (fun n hn => ?_)
        · simp only [HasVals.vals, List.cons_append, List.nil_append, wfs] at hn ⊢
          exact asList_wf ha hn.1
        · simp only [HasVals.vals, List.nil_append, wfs_append] at hn; exact hn.1
        · simp only [HasVals.vals, List.nil_append, wfs_append, wfs, wf, and_true] at hn ⊢; exact hn.1
      | setComp elem var vl value l =>
        rw [evalExpr]
        simp only [exprCaps] at hres
        refine Safe.bind (ihE env value vs (by simp at h; omega) hq hres.right) fun v =>
          Safe.bind (Safe.ofExcept _ _ (fun a ha n hn => ?_)) fun vals =>
            Safe.bind (Safe.pushFrame _) fun _ =>
              Safe.bind (ihC env elem var vals _ (by simp at h; omega) hq hres.left (fun n hn => ?_)) fun out =>
                Safe.bind (Safe.popFrame _) fun _ => Safe.pure _ _ (fun n hn => ?_)
        · simp only [HasVals.vals, List.cons_append, List.nil_append, wfs] at hn ⊢
          exact asList_wf ha hn.1
        · simp only [HasVals.vals, List.nil_append, wfs_append] at hn; exact hn.1
        · simp only [HasVals.vals, List.nil_append, wfs_append, wfs, wf, and_true] at hn ⊢; exact wfs_setOfList n out hn.1
      | capture name q i1 i2 l =>
        cases q with
        | zero => simp only [evalExpr]; exact Safe.throwK vs _
        | zeroOrOne | zeroOrMore | one | oneOrMore =>
          simp only [evalExpr]
          have hr := hres name (by simp [exprCaps])
          cases hl : env.quants.lookup name with
          | none => rw [hl] at hr; simp at hr
          | some q' =>
            simp only
            have := hq name q' hl
            exact Safe.fromNodes vs q' _ this
      | var name l => rw [evalExpr]; exact Safe.unscopedGet vs name
      | scopedVar scope name l =>
        rw [evalExpr]
        refine Safe.bind (ihE env scope vs (by simp at h; omega) hq (by simpa [exprCaps] using hres)) fun sv =>
          Safe.bind (Safe.asSyntaxScope _ _) fun node =>
            Safe.bind (Safe.getR _) fun s => ?_
        cases hsl : scopedLookup cfg s node name with
        | none => exact Safe.throwK _ _
        | some v =>
          refine Safe.pure _ _ (fun n hn => ?_)
          simp only [HasVals.vals, wfs_append, wfs, and_true] at hn ⊢
          have hrw : RestWf n s := (restWf_iff n s).mpr hn.1
          exact scopedLookup_wf cfg hrw.2 hsl
      | call fn args =>
        rw [evalExpr]
        exact Safe.bind (ihEs env args vs (by simp at h; omega) hq (by simpa [exprCaps] using hres)) fun l =>
          Safe.callFn _ fn l ht (fun n hn => by simp only [HasVals.vals, wfs_append] at hn; exact hn.1)
      | regexCap ix =>
        rw [evalExpr]
        cases env.caps[ix]? <;> first | exact Safe.pure vs _ (fun _ _ => by simp [HasVals.vals, wfs, wf]) | exact Safe.throwK vs _
    refine ⟨hE, ?_, ?_⟩
    · intro env es vs h hq hres
      cases es with
      | nil => rw [evalExprs]; exact Safe.pure vs _ (fun _ _ => by simp [HasVals.vals, wfs])
      | cons e rest =>
        rw [evalExprs]
        simp only [exprsCaps] at hres
        refine Safe.bind (ihE env e vs (by simp at h; omega) hq hres.left) fun v =>
          Safe.bind (ihEs env rest _ (by simp at h; omega) hq hres.right) fun l => Safe.pure _ _ (fun n hn => ?_)
        simp only [HasVals.vals, wfs_append, wfs, and_true] at hn ⊢
        exact ⟨hn.2.1, hn.1⟩
    · intro env elem var vals vs h hq hres hvals
      refine hC env elem var vals vs hq (fun env' vs' hq' heq => hE env' elem vs' h hq' ?_) hvals
      intro n hn; rw [heq]; exact hres n hn


theorem safe_evalExpr (ht : TreeOK cfg.tree) (fuel : Nat) (env : Env) (e : Expr) (vs : List Val) (hq : EnvQ env)
    (hres : Resolved env (exprCaps e)) : Safe cfg vs (evalExpr cfg fuel env e) :=
  (safe_expr ht fuel (sizeOf e)).1 env e vs (Nat.le_refl _) hq hres

-- captures mentioned by variables, conditions, attribute lists
def varCaps : Var → List String
  | .unscoped _ _ => []
  | .scopedV scope _ _ => exprCaps scope

def condCaps : Cond → List String
  | .some e _ | .none e _ | .bool e _ => exprCaps e

def condsCaps : List Cond → List String
  | [] => []
  | c :: r => condCaps c ++ condsCaps r

def attrsCaps : List AttrE → List String
  | [] => []
  | a :: r => exprCaps a.2 ++ attrsCaps r

theorem safe_varAdd (ht : TreeOK cfg.tree) (fuel : Nat) (env : Env) (v : Var) (value : Val) (mutable : Bool) (vs : List Val)
    (hq : EnvQ env) (hres : Resolved env (varCaps v)) (hv : ∀ n, wfs n vs → wf n value) :
    Safe cfg vs (varAdd cfg fuel env v value mutable) := by
  cases v with
  | unscoped name l => exact Safe.unscopedAdd vs name value mutable hv
  | scopedV scope name l =>
    exact Safe.bind (safe_evalExpr ht fuel env scope vs hq hres) fun _ =>
      Safe.bind (Safe.asSyntaxScope _ _) fun _ =>
        Safe.scopedAdd _ _ name value mutable (fun n hn => by
          simp only [HasVals.vals, List.nil_append, wfs_append] at hn; exact hv n hn.2)

theorem safe_varSet (ht : TreeOK cfg.tree) (fuel : Nat) (env : Env) (v : Var) (value : Val) (vs : List Val)
    (hq : EnvQ env) (hres : Resolved env (varCaps v)) (hv : ∀ n, wfs n vs → wf n value) :
    Safe cfg vs (varSet cfg fuel env v value) := by
  cases v with
  | unscoped name l => exact Safe.unscopedSet vs name value hv
  | scopedV scope name l =>
    exact Safe.bind (safe_evalExpr ht fuel env scope vs hq hres) fun _ =>
      Safe.bind (Safe.asSyntaxScope _ _) fun _ =>
        Safe.scopedSet _ _ name value (fun n hn => by
          simp only [HasVals.vals, List.nil_append, wfs_append] at hn; exact hv n hn.2)

theorem safe_testCond (ht : TreeOK cfg.tree) (fuel : Nat) (env : Env) (c : Cond) (vs : List Val) (hq : EnvQ env)
    (hres : Resolved env (condCaps c)) : Safe cfg vs (testCond cfg fuel env c) := by
  cases c with
  | some e l => exact Safe.bind (safe_evalExpr ht fuel env e vs hq hres) fun _ => Safe.pure _ _ (fun _ _ => by simp [HasVals.vals, wfs])
  | none e l => exact Safe.bind (safe_evalExpr ht fuel env e vs hq hres) fun _ => Safe.pure _ _ (fun _ _ => by simp [HasVals.vals, wfs])
  | bool e l =>
    exact Safe.bind (safe_evalExpr ht fuel env e vs hq hres) fun _ => Safe.ofExcept _ _ (fun _ _ _ _ => by simp [HasVals.vals, wfs])

theorem safe_testConds (ht : TreeOK cfg.tree) (fuel : Nat) (env : Env) (cs : List Cond) (vs : List Val) (hq : EnvQ env)
    (hres : Resolved env (condsCaps cs)) : Safe cfg vs (testConds cfg fuel env cs) := by
  induction cs generalizing vs with
  | nil => exact Safe.pure vs _ (fun _ _ => by simp [HasVals.vals, wfs])
  | cons c rest ih =>
    simp only [condsCaps] at hres
    exact Safe.bind (safe_testCond ht fuel env c vs hq hres.left) fun _ =>
      Safe.bind (ih _ hres.right) fun _ => Safe.pure _ _ (fun _ _ => by simp [HasVals.vals, wfs])

theorem safe_evalPrintArgs (ht : TreeOK cfg.tree) (fuel : Nat) (env : Env) (es : List Expr) (vs : List Val) (hq : EnvQ env)
    (hres : Resolved env (exprsCaps es)) : Safe cfg vs (evalPrintArgs cfg fuel env es) := by
  induction es generalizing vs with
  | nil => exact Safe.pure vs _ (fun _ _ => by simp [HasVals.vals, wfs])
  | cons e rest ih =>
    simp only [exprsCaps] at hres
    cases e with
    | str s => exact ih vs hres.right
    | _ => exact Safe.bind (safe_evalExpr ht fuel env _ vs hq hres.left) fun _ => ih _ hres.right

/-- shorthand bodies mention no resolved capture (the checker does not visit them) -/
def ShorthandsOK (cfg : Cfg) : Prop := ∀ sh ∈ cfg.shorthands, attrsCaps sh.attrs = []

def targetVals : Target → List Val
  | .node i => [.gnode i]
  | .edge src sink => [.gnode src, .gnode sink]

theorem safe_execAttrs (ht : TreeOK cfg.tree) (hsh : ShorthandsOK cfg) :
    ∀ (fuel : Nat) (env : Env) (t : Target) (attrs : List AttrE) (vs : List Val), EnvQ env → Resolved env (attrsCaps attrs) →
      (∀ n, wfs n vs → wfs n (targetVals t)) → Safe cfg vs (execAttrs cfg fuel env t attrs) := by
  intro fuel
  induction fuel with
  | zero =>
    intro env t attrs vs hq hres htv
    induction attrs generalizing vs with
    | nil => rw [execAttrs]; exact Safe.pure vs _ (fun _ _ => by simp [HasVals.vals, wfs])
    | cons a rest ih =>
      obtain ⟨name, e⟩ := a
      simp only [attrsCaps] at hres
      rw [execAttrs]
      refine Safe.bind (Safe.poll vs _) fun _ => Safe.bind (safe_evalExpr ht 0 env e _ hq hres.left) fun v => ?_
      cases hf : findShorthand cfg name with
      | some sh => exact Safe.failP _ _ (fun site h => by cases h)
      | none =>
        refine Safe.bind (Safe.addAttribute _ t name v (fun n hn => ?_)) fun _ => ih _ hres.right (fun n hn => ?_)
        · simp only [HasVals.vals, List.nil_append, List.cons_append, wfs] at hn
          have := htv n hn.2
          cases t <;> simp only [targetVals, wfs, wf] at this ⊢ <;> exact this.1
        · simp only [HasVals.vals, List.nil_append, List.cons_append, wfs] at hn
          exact htv n hn.2
  | succ fuel' ihf =>
    intro env t attrs vs hq hres htv
    induction attrs generalizing vs with
    | nil => rw [execAttrs]; exact Safe.pure vs _ (fun _ _ => by simp [HasVals.vals, wfs])
    | cons a rest ih =>
      obtain ⟨name, e⟩ := a
      simp only [attrsCaps] at hres
      rw [execAttrs]
      refine Safe.bind (Safe.poll vs _) fun _ => Safe.bind (safe_evalExpr ht (fuel' + 1) env e _ hq hres.left) fun v => ?_
      cases hf : findShorthand cfg name with
      | some sh =>
        have hmem : sh ∈ cfg.shorthands := List.mem_of_find?_eq_some hf
        refine Safe.bind (Safe.getR _) fun saved =>
          Safe.bind (Safe.modifyFrames _ (fun _ => [[]]) (fun n fs _ _ f hf => ?_)) fun _ =>
            Safe.bind (Safe.unscopedAdd _ sh.var v false (fun n hn => ?_)) fun _ =>
              Safe.bind (ihf env t sh.attrs _ hq (by rw [hsh sh hmem]; intro n hn; cases hn) (fun n hn => ?_)) fun _ =>
                Safe.bind (Safe.modifyFrames _ (fun _ => saved.locals) (fun n fs _ hvs => ?_)) fun _ => ih _ hres.right (fun n hn => ?_)
        · simp at hf; subst hf; intro e he; cases he
        · simp only [HasVals.vals, List.nil_append, List.cons_append, wfs, wfs_append] at hn
          exact hn.2.1
        · simp only [HasVals.vals, List.nil_append, List.cons_append, wfs, wfs_append] at hn
          exact htv n hn.2.2
        · simp only [HasVals.vals, List.nil_append, List.cons_append, wfs, wfs_append] at hvs
          have : RestWf n saved := (restWf_iff n saved).mpr hvs.1
          exact this.1
        · simp only [HasVals.vals, List.nil_append, List.cons_append, wfs, wfs_append] at hn
          exact htv n hn.2.2
      | none =>
        refine Safe.bind (Safe.addAttribute _ t name v (fun n hn => ?_)) fun _ => ih _ hres.right (fun n hn => ?_)
        · simp only [HasVals.vals, List.nil_append, List.cons_append, wfs] at hn
          have := htv n hn.2
          cases t <;> simp only [targetVals, wfs, wf] at this ⊢ <;> exact this.1
        · simp only [HasVals.vals, List.nil_append, List.cons_append, wfs] at hn
          exact htv n hn.2


/-! ### statements -/

mutual
def stmtCaps : Stmt → List String
  | .declImm v e _ => exprCaps e ++ varCaps v
  | .declMut v e _ => exprCaps e ++ varCaps v
  | .assign v e _ => exprCaps e ++ varCaps v
  | .createNode v _ => varCaps v
  | .attrNode ne attrs _ => exprCaps ne ++ attrsCaps attrs
  | .createEdge a b _ => exprCaps a ++ exprCaps b
  | .attrEdge a b attrs _ => exprCaps a ++ (exprCaps b ++ attrsCaps attrs)
  | .scan e arms _ => exprCaps e ++ scanArmsCaps arms
  | .print es _ => exprsCaps es
  | .ifS arms _ => ifArmsCaps arms
  | .forIn _ _ e body _ => exprCaps e ++ stmtsCaps body
def stmtsCaps : List Stmt → List String
  | [] => []
  | s :: r => stmtCaps s ++ stmtsCaps r
def scanArmsCaps : List (String × List Stmt × Loc) → List String
  | [] => []
  | (_, b, _) :: r => stmtsCaps b ++ scanArmsCaps r
def ifArmsCaps : List (List Cond × List Stmt × Loc) → List String
  | [] => []
  | (cs, b, _) :: r => condsCaps cs ++ (stmtsCaps b ++ ifArmsCaps r)
end

theorem resolved_armBody (env : Env) (arms : List (String × List Stmt × Loc)) (k : Nat)
    (h : Resolved env (scanArmsCaps arms)) : Resolved env (stmtsCaps (armBody arms k)) := by
  induction arms generalizing k with
  | nil => intro n hn; simp [armBody, stmtsCaps] at hn
  | cons a rest ih =>
    obtain ⟨re, body, l⟩ := a
    simp only [scanArmsCaps] at h
    cases k with
    | zero => simpa [armBody] using h.left
    | succ k => have := ih k h.right; simpa [armBody] using this

/-- `edge a -> b` on endpoints that are nodes of the graph -/
theorem Safe.createEdge (vs : List Val) (src sink : Nat) (attrs : Attrs) (hsrc : ∀ n, wfs n vs → src < n) :
    Safe cfg vs (gopP (.addEdge src sink attrs) >>= fun r => match r with | none => Prog.panicAt "graph index" | some _ => Pure.pure () : Prog SRest Unit) := by
  intro s hinv hvs
  obtain ⟨nd, hnd⟩ := node?_some_of_lt s.graph src (hsrc _ hvs)
  simp only [Prog.run_bind, gopP, Prog.run, GraphOp.apply, hnd]
  by_cases hnew : (nd.addEdge sink).2 = true
  · simp only [hnew, if_true]
    exact ⟨hinv.sameLength _ (setNode_length _ _ _), by rw [setNode_length]; exact Nat.le_refl _, by simp [HasVals.vals, wfs]⟩
  · simp only [hnew, if_false]
    exact ⟨hinv, Nat.le_refl _, by simp [HasVals.vals, wfs]⟩

theorem safe_stmts (ht : TreeOK cfg.tree) (hsh : ShorthandsOK cfg) (fuel : Nat) : ∀ m : Nat,
    (∀ (env : Env) (st : Stmt) (vs : List Val), sizeOf st ≤ m → EnvQ env → Resolved env (stmtCaps st) → Safe cfg vs (execStmt cfg fuel env st)) ∧
    (∀ (env : Env) (kind : BlockKind) (ss : List Stmt) (vs : List Val), sizeOf ss ≤ m → EnvQ env → Resolved env (stmtsCaps ss) →
      Safe cfg vs (execBlock cfg fuel env kind ss)) ∧
    (∀ (env : Env) (arms : List (List Cond × List Stmt × Loc)) (vs : List Val), sizeOf arms ≤ m → EnvQ env → Resolved env (ifArmsCaps arms) →
      Safe cfg vs (execIfArms cfg fuel env arms)) ∧
    (∀ (env : Env) (var : String) (body : List Stmt) (vals : List Val) (vs : List Val), sizeOf body ≤ m → EnvQ env →
      Resolved env (stmtsCaps body) → (∀ n, wfs n vs → wfs n vals) → Safe cfg vs (execFor cfg fuel env var body vals)) ∧
    (∀ (env : Env) (arms : List (String × List Stmt × Loc)) (subject : String) (i : Nat) (vs : List Val), sizeOf arms ≤ m → EnvQ env →
      Resolved env (scanArmsCaps arms) → Safe cfg vs (scanLoop cfg fuel env arms subject i)) := by
  intro m
  induction m with
  | zero =>
    refine ⟨?_, ?_, ?_, ?_, ?_⟩
    · intro env st vs h; cases st <;> simp at h <;> omega
    · intro env kind ss vs h; cases ss <;> simp at h
    · intro env arms vs h; cases arms <;> simp at h
    · intro env var body vals vs h; cases body <;> simp at h
    · intro env arms subject i vs h; cases arms <;> simp at h
  | succ m ih =>
    obtain ⟨ihS, ihB, ihI, ihF, ihSc⟩ := ih
    have unit_ok : ∀ (vs : List Val) (n : Nat), wfs n vs → wfs n (HasVals.vals ()) := fun _ _ _ => by simp [HasVals.vals, wfs]
    have hS : ∀ (env : Env) (st : Stmt) (vs : List Val), sizeOf st ≤ m + 1 → EnvQ env → Resolved env (stmtCaps st) →
        Safe cfg vs (execStmt cfg fuel env st) := by
      intro env st vs h hq hres
      cases st with
      | declImm v e l =>
        simp only [execStmt]; simp only [stmtCaps] at hres
        exact Safe.bind (Safe.poll _ _) fun _ => Safe.bind (safe_evalExpr ht fuel env e _ hq hres.left) fun value =>
          safe_varAdd ht fuel env v value false _ hq hres.right (fun n hn => by simp only [HasVals.vals, List.cons_append, wfs] at hn; exact hn.1)
      | declMut v e l =>
        simp only [execStmt]; simp only [stmtCaps] at hres
        exact Safe.bind (Safe.poll _ _) fun _ => Safe.bind (safe_evalExpr ht fuel env e _ hq hres.left) fun value =>
          safe_varAdd ht fuel env v value true _ hq hres.right (fun n hn => by simp only [HasVals.vals, List.cons_append, wfs] at hn; exact hn.1)
      | assign v e l =>
        simp only [execStmt]; simp only [stmtCaps] at hres
        exact Safe.bind (Safe.poll _ _) fun _ => Safe.bind (safe_evalExpr ht fuel env e _ hq hres.left) fun value =>
          safe_varSet ht fuel env v value _ hq hres.right (fun n hn => by simp only [HasVals.vals, List.cons_append, wfs] at hn; exact hn.1)
      | createNode v l =>
        simp only [execStmt]; simp only [stmtCaps] at hres
        refine Safe.bind (Safe.poll _ _) fun _ => Safe.bind_addNode fun n => ?_
        have hn_wf : ∀ (ws : List Val) (k : Nat), wfs k (ws ++ (.gnode n :: (HasVals.vals () ++ vs))) → n < k := by
          intro ws k hk; simp only [wfs_append, wfs, wf] at hk; exact hk.2.1
        have hdbg : ∀ (ws : List Val) (a : String) (x : Val), Safe cfg (ws ++ (.gnode n :: (HasVals.vals () ++ vs))) (addDebugNodeAttr n a x) :=
          fun ws a x => Safe.addAttribute _ (.node n) a x (fun k hk => hn_wf ws k hk)
        have hvar : ∀ (ws : List Val), Safe cfg (ws ++ (.gnode n :: (HasVals.vals () ++ vs))) (varAdd cfg fuel env v (.gnode n) false) :=
          fun ws => safe_varAdd ht fuel env v (.gnode n) false _ hq hres (fun k hk => by
            simp only [wfs_append, wfs, wf] at hk ⊢; exact hk.2.1)
        have hmatch : ∀ (ws : List Val), Safe cfg (ws ++ (.gnode n :: (HasVals.vals () ++ vs)))
            (match cfg.matchAttr with
              | some a => do
                let m ← fullMatchNode env
                addDebugNodeAttr n a (Val.syn m)
                varAdd cfg fuel env v (Val.gnode n) false
              | none => varAdd cfg fuel env v (Val.gnode n) false) := by
          intro ws
          cases cfg.matchAttr with
          | none => exact hvar ws
          | some a =>
            simp only
            refine Safe.bind (α := Nat) (β := Unit) ?_ fun (mnode : Nat) => Safe.bind (α := Unit) (β := Unit) (hdbg (HasVals.vals mnode ++ ws) a _ |>.weaken (fun k hk => by simpa [List.append_assoc] using hk)) fun (_ : Unit) =>
              (hvar (HasVals.vals () ++ (HasVals.vals mnode ++ ws))).weaken (fun k hk => by simpa [List.append_assoc] using hk)
            unfold fullMatchNode
            cases env.mat.nodes fullMatchName <;> first | exact Safe.throwK _ _ | exact Safe.pure _ _ (fun _ _ => by simp [HasVals.vals, wfs])
        have hloc : ∀ (ws : List Val), Safe cfg (ws ++ (.gnode n :: (HasVals.vals () ++ vs)))
            (match cfg.locAttr with
              | some a => do
                addDebugNodeAttr n a (Val.str (locString v.loc))
                match cfg.matchAttr with
                  | some a => do
                    let m ← fullMatchNode env
                    addDebugNodeAttr n a (Val.syn m)
                    varAdd cfg fuel env v (Val.gnode n) false
                  | none => varAdd cfg fuel env v (Val.gnode n) false
              | none =>
                match cfg.matchAttr with
                | some a => do
                  let m ← fullMatchNode env
                  addDebugNodeAttr n a (Val.syn m)
                  varAdd cfg fuel env v (Val.gnode n) false
                | none => varAdd cfg fuel env v (Val.gnode n) false) := by
          intro ws
          cases cfg.locAttr with
          | none => exact hmatch ws
          | some a =>
            exact Safe.bind (α := Unit) (β := Unit) (hdbg ws a _) fun (_ : Unit) =>
              (hmatch (HasVals.vals () ++ ws)).weaken (fun k hk => by simpa [List.append_assoc] using hk)
        cases cfg.varAttr with
        | none => exact hloc []
        | some a =>
          exact Safe.bind (α := Unit) (β := Unit) (hdbg [] a _) fun (_ : Unit) =>
            (hloc (HasVals.vals ())).weaken (fun k hk => by simpa [List.append_assoc] using hk)
      | attrNode ne attrs l =>
        simp only [execStmt]; simp only [stmtCaps] at hres
        exact Safe.bind (Safe.poll _ _) fun _ => Safe.bind (safe_evalExpr ht fuel env ne _ hq hres.left) fun nv =>
          Safe.bind_asGraphNode nv (fun n hn => by simp only [HasVals.vals, List.cons_append, wfs] at hn; exact hn.1) fun n =>
            safe_execAttrs ht hsh fuel env (.node n) attrs _ hq hres.right (fun k hk => by
              simp only [targetVals, wfs, wf, and_true] at hk ⊢; exact hk.1)
      | createEdge a b l =>
        simp only [execStmt]; simp only [stmtCaps] at hres
        exact Safe.bind (Safe.poll _ _) fun _ => Safe.bind (safe_evalExpr ht fuel env a _ hq hres.left) fun av =>
          Safe.bind_asGraphNode av (fun n hn => by simp only [HasVals.vals, List.cons_append, wfs] at hn; exact hn.1) fun src =>
            Safe.bind (safe_evalExpr ht fuel env b _ hq hres.right) fun bv =>
              Safe.bind_asGraphNode bv (fun n hn => by simp only [HasVals.vals, List.cons_append, wfs] at hn; exact hn.1) fun sink =>
                Safe.createEdge _ src sink _ (fun k hk => by simp only [HasVals.vals, List.cons_append, wfs, wf] at hk; exact hk.2.2.1)
      | attrEdge a b attrs l =>
        simp only [execStmt]; simp only [stmtCaps] at hres
        exact Safe.bind (Safe.poll _ _) fun _ => Safe.bind (safe_evalExpr ht fuel env a _ hq hres.left) fun av =>
          Safe.bind_asGraphNode av (fun n hn => by simp only [HasVals.vals, List.cons_append, wfs] at hn; exact hn.1) fun src =>
            Safe.bind (safe_evalExpr ht fuel env b _ hq hres.right.left) fun bv =>
              Safe.bind_asGraphNode bv (fun n hn => by simp only [HasVals.vals, List.cons_append, wfs] at hn; exact hn.1) fun sink =>
                safe_execAttrs ht hsh fuel env (.edge src sink) attrs _ hq hres.right.right (fun k hk => by
                  simp only [HasVals.vals, List.cons_append, targetVals, wfs, wf, and_true] at hk ⊢; exact ⟨hk.2.2.1, hk.1⟩)
      | scan e arms l =>
        simp only [execStmt]; simp only [stmtCaps] at hres
        exact Safe.bind (Safe.poll _ _) fun _ => Safe.bind (safe_evalExpr ht fuel env e _ hq hres.left) fun v =>
          Safe.bind (Safe.ofExcept _ _ (fun _ _ _ _ => by simp [HasVals.vals, wfs])) fun subject =>
            ihSc env arms subject 0 _ (by simp at h; omega) hq hres.right
      | print es l =>
        simp only [execStmt]; simp only [stmtCaps] at hres
        exact Safe.bind (Safe.poll _ _) fun _ => safe_evalPrintArgs ht fuel env es _ hq hres
      | ifS arms l =>
        simp only [execStmt]; simp only [stmtCaps] at hres
        exact Safe.bind (Safe.poll _ _) fun _ => ihI env arms _ (by simp at h; omega) hq hres
      | forIn var vl e body l =>
        simp only [execStmt]; simp only [stmtCaps] at hres
        exact Safe.bind (Safe.poll _ _) fun _ => Safe.bind (safe_evalExpr ht fuel env e _ hq hres.left) fun v =>
          Safe.bind (Safe.ofExcept _ _ (fun a ha n hn => by
            simp only [HasVals.vals, List.cons_append, wfs] at hn ⊢; exact asList_wf ha hn.1)) fun vals =>
            Safe.bind (Safe.pushFrame _) fun _ =>
              Safe.bind (ihF env var body vals _ (by simp at h; omega) hq hres.right (fun n hn => by
                simp only [HasVals.vals, List.nil_append, wfs_append] at hn; exact hn.1)) fun _ => Safe.popFrame _
    have hB : ∀ (env : Env) (kind : BlockKind) (ss : List Stmt) (vs : List Val), sizeOf ss ≤ m + 1 → EnvQ env → Resolved env (stmtsCaps ss) →
        Safe cfg vs (execBlock cfg fuel env kind ss) := by
      intro env kind ss vs h hq hres
      cases ss with
      | nil => rw [execBlock]; exact Safe.pure vs _ (unit_ok vs)
      | cons st rest =>
        simp only [stmtsCaps] at hres
        have hst : sizeOf st ≤ m := by simp at h; omega
        have hrest : sizeOf rest ≤ m := by simp at h; omega
        rw [Strict.execBlock.eq_def]
        simp only
        have hq' : EnvQ { env with ctx := { env.ctx with stmtLoc := st.loc } } := hq
        have hresL : Resolved { env with ctx := { env.ctx with stmtLoc := st.loc } } (stmtCaps st) := hres.left
        have hresR : Resolved { env with ctx := { env.ctx with stmtLoc := st.loc } } (stmtsCaps rest) := hres.right
        cases kind with
        | plain => exact Safe.bind (Safe.ctx _ (ihS _ st _ hst hq' hresL)) fun _ => ihB _ _ rest _ hrest hq' hresR
        | scanArm what => exact Safe.bind (Safe.ctx _ (Safe.ctx _ (ihS _ st _ hst hq' hresL))) fun _ => ihB _ _ rest _ hrest hq' hresR
    have hI : ∀ (env : Env) (arms : List (List Cond × List Stmt × Loc)) (vs : List Val), sizeOf arms ≤ m + 1 → EnvQ env →
        Resolved env (ifArmsCaps arms) → Safe cfg vs (execIfArms cfg fuel env arms) := by
      intro env arms vs h hq hres
      cases arms with
      | nil => rw [execIfArms]; exact Safe.pure vs _ (unit_ok vs)
      | cons a rest =>
        obtain ⟨conds, body, l⟩ := a
        simp only [ifArmsCaps] at hres
        have hbody : sizeOf body ≤ m := by simp at h; omega
        have hrest : sizeOf rest ≤ m := by simp at h; omega
        rw [execIfArms]
        refine Safe.bind (safe_testConds ht fuel env conds vs hq hres.left) fun ok => ?_
        cases ok with
        | true =>
          simp only [if_true]
          exact Safe.bind (Safe.pushFrame _) fun _ => Safe.bind (ihB env .plain body _ hbody hq hres.right.left) fun _ => Safe.popFrame _
        | false =>
          simp only [Bool.false_eq_true, if_false]
          exact ihI env rest _ hrest hq hres.right.right
    have hF : ∀ (env : Env) (var : String) (body : List Stmt) (vals : List Val) (vs : List Val), sizeOf body ≤ m + 1 → EnvQ env →
        Resolved env (stmtsCaps body) → (∀ n, wfs n vs → wfs n vals) → Safe cfg vs (execFor cfg fuel env var body vals) := by
      intro env var body vals vs h hq hres hvals
      induction vals generalizing vs with
      | nil => rw [execFor]; exact Safe.pure vs _ (unit_ok vs)
      | cons v rest ihv =>
        rw [execFor]
        refine Safe.bind (Safe.clearFrame vs) fun _ => Safe.bind (Safe.unscopedAdd _ var v false (fun n hn => ?_)) fun _ =>
          Safe.bind (hB env .plain body _ h hq hres) fun _ => ihv _ (fun n hn => ?_)
        · simp only [HasVals.vals, List.nil_append] at hn; exact (hvals n hn).1
        · simp only [HasVals.vals, List.nil_append] at hn; exact (hvals n hn).2
    have hSc : ∀ (env : Env) (arms : List (String × List Stmt × Loc)) (subject : String) (i : Nat) (vs : List Val), sizeOf arms ≤ m + 1 →
        EnvQ env → Resolved env (scanArmsCaps arms) → Safe cfg vs (scanLoop cfg fuel env arms subject i) := by
      intro env arms subject i vs h hq hres
      have key : ∀ (k : Nat) (i : Nat) (vs : List Val), subject.utf8ByteSize - i ≤ k → Safe cfg vs (scanLoop cfg fuel env arms subject i) := by
        intro k
        induction k with
        | zero =>
          intro i vs hk
          have hi : ¬ i < subject.utf8ByteSize := by omega
          rw [scanLoop]
          simp only [hi, dite_false]
          exact Safe.pure vs _ (unit_ok vs)
        | succ k ihk =>
          intro i vs hk
          by_cases hi : i < subject.utf8ByteSize
          · rw [scanLoop]
            simp only [hi, dite_true]
            refine Safe.bind (Safe.poll _ _) fun _ => ?_
            cases hc : scanCollect cfg.oracle subject i arms 0 with
            | error f =>
              simp only
              -- the collection only fails with an error or a missing oracle answer
              refine Safe.failP _ _ ?_
              intro site hf
              subst hf
              have : ∀ (arms : List (String × List Stmt × Loc)) (idx : Nat), scanCollect cfg.oracle subject i arms idx ≠ .error (.panic site) := by
                intro arms
                induction arms with
                | nil => intro idx h; simp [scanCollect] at h
                | cons a rest iha =>
                  intro idx h
                  obtain ⟨re, b, l⟩ := a
                  simp only [scanCollect] at h
                  split at h
                  · cases h
                  · exact iha _ h
                  · split at h
                    · cases h
                    · split at h
                      · cases h
                      · rename_i e he; cases h; exact iha _ he
              exact this arms 0 hc
            | ok ms =>
              simp only
              cases hb : scanBest ms with
              | none => exact Safe.pure _ _ (unit_ok _)
              | some p =>
                obtain ⟨mt, kk⟩ := p
                simp only
                have hk2 : (arms[kk]?).isSome = true := C10.C10_selected_arm_exists cfg.oracle subject i arms ms mt kk hc hb
                simp only [hk2, dite_true]
                by_cases hm : 0 < mt.stop
                · simp only [hm, dite_true]
                  have hsz : sizeOf (armBody arms kk) ≤ m := by
                    have := armBody_lt arms kk hk2; omega
                  exact Safe.bind (Safe.pushFrame _) fun _ =>
                    Safe.bind (ihB { env with caps := capsOf mt } (.scanArm (armRegex arms kk)) (armBody arms kk) _ hsz hq
                      (resolved_armBody env arms kk hres)) fun _ =>
                      Safe.bind (Safe.popFrame _) fun _ => ihk (i + mt.stop) _ (by omega)
                · simp only [hm, dite_false]
                  exact Safe.failP _ _ (fun site h => by cases h)
          · rw [scanLoop]
            simp only [hi, dite_false]
            exact Safe.pure vs _ (unit_ok vs)
      exact key _ i vs (Nat.le_refl _)
    exact ⟨hS, hB, hI, hF, hSc⟩


/-! ### matches, stanzas, the whole run -/

/-- what tree-sitter guarantees about a match of a stanza's query: no capture of the query has quantifier `Zero`, and the
full-match node is a node of the tree. Nothing is assumed about how many nodes a capture has in the match. -/
def MatchOK (tree : Tree) (st : Stanza) (m : QMatch) : Prop :=
  (∀ name q, st.captures.lookup name = some q → q ≠ .zero) ∧
  (∀ n rest, m.nodes fullMatchName = n :: rest → (tree.node? n).isSome)

/-- what the checker guarantees about a stanza: every resolved capture it mentions is a capture of its query -/
def StanzaOK (st : Stanza) : Prop := ∀ name ∈ stmtsCaps st.stmts, (st.captures.lookup name).isSome

theorem Safe.pure_bind {α β : Type} [HasVals β] (vs : List Val) (a : α) (f : α → Prog SRest β) (h : Safe cfg vs (f a)) :
    Safe cfg vs (Pure.pure a >>= f) := h

theorem safe_execMatch (ht : TreeOK cfg.tree) (hsh : ShorthandsOK cfg) (fuel : Nat) (st : Stanza) (m : QMatch) (vs : List Val)
    (hst : StanzaOK st) (hm : MatchOK cfg.tree st m) : Safe cfg vs (execMatch cfg fuel st m) := by
  unfold execMatch
  refine Safe.bind (Safe.modifyFrames vs Frames.clear (fun n fs h _ f hf => ?_)) fun _ => ?_
  · cases fs with
    | nil => simp [Frames.clear] at hf
    | cons f0 rest =>
      simp only [Frames.clear, List.mem_cons] at hf
      rcases hf with rfl | hf
      · intro e he; cases he
      · exact h f (by simp [hf])
  · cases hss : st.stmts with
    | nil => exact Safe.pure _ _ (fun _ _ => by simp [HasVals.vals, wfs])
    | cons s0 rest =>
      simp only
      unfold fullMatchNode
      cases hfm : m.nodes fullMatchName with
      | nil =>
        show Safe cfg _ (Prog.throwK .undefinedCapture >>= _)
        intro s _ _ site hc; cases hc
      | cons n rest' =>
        show Safe cfg _ (Pure.pure n >>= _)
        refine Safe.pure_bind _ n _ ?_
        have hnode := hm.2 n rest' hfm
        cases htn : cfg.tree.node? n with
        | none => rw [htn] at hnode; simp at hnode
        | some tn =>
          simp only
          let c0 : StmtCtx := { stmtLoc := default, stanzaLoc := st.rangeStart, srcLoc := { row := tn.startRow, col := tn.startCol }, nodeKind := tn.kind }
          let env0 : Env := { caps := [], mat := m, quants := st.captures, ctx := c0 }
          have hq : EnvQ env0 := hm.1
          have hres : Resolved env0 (stmtsCaps (s0 :: rest)) := by rw [← hss]; exact hst
          exact (safe_stmts ht hsh fuel (sizeOf (s0 :: rest))).2.1 env0 .plain (s0 :: rest) _ (Nat.le_refl _) hq hres

theorem safe_execMatches (ht : TreeOK cfg.tree) (hsh : ShorthandsOK cfg) (fuel : Nat) (st : Stanza) (ms : List QMatch) (vs : List Val)
    (hst : StanzaOK st) (hm : ∀ m ∈ ms, MatchOK cfg.tree st m) : Safe cfg vs (execMatches cfg fuel st ms) := by
  induction ms generalizing vs with
  | nil => exact Safe.pure vs _ (fun _ _ => by simp [HasVals.vals, wfs])
  | cons m rest ih =>
    exact Safe.bind (safe_execMatch ht hsh fuel st m vs hst (hm m (by simp))) fun _ => ih _ (fun m' hm' => hm m' (by simp [hm']))

theorem safe_execStanzas (ht : TreeOK cfg.tree) (hsh : ShorthandsOK cfg) (fuel : Nat) (l : List (Stanza × List QMatch)) (vs : List Val)
    (h : ∀ p ∈ l, StanzaOK p.1 ∧ ∀ m ∈ p.2, MatchOK cfg.tree p.1 m) : Safe cfg vs (execStanzas cfg fuel l) := by
  induction l generalizing vs with
  | nil => exact Safe.pure vs _ (fun _ _ => by simp [HasVals.vals, wfs])
  | cons p rest ih =>
    obtain ⟨st, ms⟩ := p
    have hp := h (st, ms) (by simp)
    exact Safe.bind (safe_execMatches ht hsh fuel st ms vs hp.1 hp.2) fun _ => ih _ (fun q hq => h q (by simp [hq]))


theorem globals_add_wf {n : Nat} {g g' : GlobalsM} {k : String} {v : Val} (h : GlobalsWf n g) (hv : wf n v)
    (ha : g.add k v = .ok g') : GlobalsWf n g' := by
  cases g with
  | nil => simp [GlobalsM.add] at ha
  | cons l rest =>
    simp only [GlobalsM.add] at ha
    split at ha
    · cases ha
    · simp at ha; subst ha
      intro l' hl'
      simp only [List.mem_cons] at hl'
      rcases hl' with rfl | hl'
      · intro e he
        simp only [List.mem_append, List.mem_singleton] at he
        rcases he with he | rfl
        · exact h l (by simp) e he
        · exact hv
      · exact h l' (by simp [hl'])

theorem checkGlobals_wf {n : Nat} : ∀ (gls : List Global) (g g' : GlobalsM), GlobalsWf n g → checkGlobals gls g = .ok g' → GlobalsWf n g'
  | [], g, g', h, hc => by simp [checkGlobals] at hc; subst hc; exact h
  | gl :: rest, g, g', h, hc => by
    simp only [checkGlobals] at hc
    split at hc
    · split at hc
      · split at hc
        · rename_i g1 hadd
          exact checkGlobals_wf rest g1 g' (globals_add_wf h (by simp [wf]) hadd) hc
        · cases hc
      · cases hc
    · split at hc
      · split at hc
        · exact checkGlobals_wf rest g g' h hc
        · cases hc
      · exact checkGlobals_wf rest g g' h hc

/-- **Strict execution never reaches a panic site** — for every file, tree, oracle, set of globals, cancellation flag,
fuel and initial graph — provided that
* the tree's byte ranges can be sliced out of the source (`TreeOK`),
* the graph-node values among the caller's globals are nodes of the initial graph,
* the matches respect tree-sitter's contract (`MatchOK`: captures respect their quantifiers, the full-match node is in the tree),
* the stanzas are as the checker leaves them (`StanzaOK`: every resolved capture belongs to the stanza's query) and
  shorthand bodies carry no resolved capture. -/
theorem strict_never_panics (file : File) (tree : Tree) (oracle : Oracle) (globals : GlobalsM) (la va ma : Option String)
    (cancelAt : Option Nat) (fuel : Nat) (ms : List (List QMatch)) (g0 : CGraph)
    (ht : TreeOK tree) (hg : GlobalsWf g0.nodes.length globals)
    (hsh : ∀ sh ∈ file.shorthands, attrsCaps sh.attrs = [])
    (hst : ∀ p ∈ file.stanzas.zip ms, StanzaOK p.1 ∧ ∀ m ∈ p.2, MatchOK tree p.1 m) :
    ∀ site, (Strict.run file tree oracle globals la va ma cancelAt fuel ms g0).outcome ≠ some (.panic site) := by
  intro site
  simp only [Strict.run]
  cases hc : checkGlobals file.globals globals.nested with
  | error k => simp
  | ok gl =>
    simp only
    let cfg : Cfg := { tree, oracle, globals := gl, inherited := file.inherited, shorthands := file.shorthands,
                       locAttr := la, varAttr := va, matchAttr := ma }
    have hgl : GlobalsWf g0.nodes.length gl := by
      refine checkGlobals_wf file.globals globals.nested gl ?_ hc
      intro l hl
      simp only [GlobalsM.nested, List.mem_cons] at hl
      rcases hl with rfl | hl
      · intro e he; cases he
      · exact hg l hl
    let s0 : MSt SRest := { graph := g0, rest := { locals := [[]], scopedVars := [] }, ps := { polls := 0, cancelAt } }
    have hinv : Inv cfg s0 := by
      refine ⟨?_, ?_, hgl⟩
      · intro f hf; simp [s0] at hf; subst hf; intro e he; cases he
      · intro e he; simp [s0] at he
    have hsafe := safe_execStanzas (cfg := cfg) ht hsh fuel (file.stanzas.zip ms) [] hst s0 hinv (by simp [wfs])
    show (Prog.toResult (Prog.run (execStanzas cfg fuel (file.stanzas.zip ms)) s0)).outcome ≠ some (.panic site)
    cases hr : Prog.run (execStanzas cfg fuel (file.stanzas.zip ms)) s0 with
    | ok u s1 => simp [Prog.toResult]
    | fail f s1 =>
      rw [hr] at hsafe
      simp only [Prog.toResult]
      intro h
      cases h
      exact hsafe site rfl

end StrictSafe
