/-
  Removing the debug attribute names from attribute sets, nodes and graphs, and how `Attributes::add` commutes with it.
-/
import Tsg.Proofs.Extends
import Tsg.Sem.Lazy

namespace C15

/-- remove the configured debug attribute names from an attribute set -/
def stripAttrs (names : List String) (a : Attrs) : Attrs := a.filter fun kv => !names.contains kv.1

def stripNode (names : List String) (n : GNode) : GNode :=
  { edges := n.edges.map fun e => (e.1, stripAttrs names e.2), attrs := stripAttrs names n.attrs }

def strip (names : List String) (g : CGraph) : CGraph := { nodes := g.nodes.map (stripNode names) }

theorem stripAttrs_cons (names : List String) (k : String) (v : Val) (rest : Attrs) :
    stripAttrs names ((k, v) :: rest) =
      if names.contains k = true then stripAttrs names rest else (k, v) :: stripAttrs names rest := by
  unfold stripAttrs
  rw [List.filter_cons]
  cases names.contains k <;> simp

theorem lookup_stripAttrs (names : List String) (a : Attrs) (k : String) (hk : names.contains k = false) :
    (stripAttrs names a).lookup k = a.lookup k := by
  induction a with
  | nil => rfl
  | cons p rest ih =>
    obtain ⟨k', v'⟩ := p
    rw [stripAttrs_cons]
    by_cases hkk : k' = k
    · subst hkk
      simp only [hk, Bool.false_eq_true, if_false, List.lookup, beq_self_eq_true]
    · have hb : (k == k') = false := by simp [Ne.symm hkk]
      cases hn : names.contains k' with
      | true => simp only [if_true, List.lookup, hb]; exact ih
      | false => simp only [Bool.false_eq_true, if_false, List.lookup, hb]; exact ih

theorem stripAttrs_append (names : List String) (a b : Attrs) :
    stripAttrs names (a ++ b) = stripAttrs names a ++ stripAttrs names b := by
  simp [stripAttrs]

theorem stripAttrs_replace_debug (names : List String) (a : Attrs) (k : String) (v : Val) (hk : names.contains k = true) :
    stripAttrs names (Attrs.replace a k v) = stripAttrs names a := by
  induction a with
  | nil => rfl
  | cons p rest ih =>
    obtain ⟨k', v'⟩ := p
    by_cases hkk : k' = k
    · subst hkk; simp only [Attrs.replace, if_true, stripAttrs_cons, hk]
    · simp only [Attrs.replace, hkk, if_false, stripAttrs_cons, ih]

/-- adding a debug attribute is invisible after stripping -/
theorem stripAttrs_add_debug (names : List String) (a : Attrs) (k : String) (v : Val) (hk : names.contains k = true) :
    stripAttrs names (Attrs.add a k v).1 = stripAttrs names a := by
  unfold Attrs.add
  cases hl : a.lookup k with
  | none =>
    simp only [stripAttrs_append]
    have : stripAttrs names [(k, v)] = [] := by rw [stripAttrs_cons, if_pos hk]; rfl
    rw [this]; simp
  | some old =>
    by_cases ho : old = v
    · simp [ho]
    · simp only [ho, if_false]; exact stripAttrs_replace_debug names a k v hk

theorem stripAttrs_replace_other (names : List String) (a : Attrs) (k : String) (v : Val) (hk : names.contains k = false) :
    stripAttrs names (Attrs.replace a k v) = Attrs.replace (stripAttrs names a) k v := by
  induction a with
  | nil => rfl
  | cons p rest ih =>
    obtain ⟨k', v'⟩ := p
    by_cases hkk : k' = k
    · subst hkk
      simp only [Attrs.replace, if_true, stripAttrs_cons, hk, Bool.false_eq_true, if_false]
    · simp only [Attrs.replace, hkk, if_false, stripAttrs_cons, ih]
      cases hn : names.contains k' with
      | true => simp
      | false => simp [Attrs.replace, hkk]

/-- adding any other attribute commutes with stripping, with the same conflict verdict: the
presence of debug attributes does not change whether an ordinary assignment conflicts -/
theorem stripAttrs_add_other (names : List String) (a : Attrs) (k : String) (v : Val) (hk : names.contains k = false) :
    stripAttrs names (Attrs.add a k v).1 = (Attrs.add (stripAttrs names a) k v).1 ∧
    (Attrs.add a k v).2 = (Attrs.add (stripAttrs names a) k v).2 := by
  unfold Attrs.add
  rw [lookup_stripAttrs names a k hk]
  cases hl : a.lookup k with
  | none =>
    simp only [stripAttrs_append, and_true]
    have : stripAttrs names [(k, v)] = [(k, v)] := by
      rw [stripAttrs_cons, if_neg (by rw [hk]; simp)]; rfl
    rw [this]
  | some old =>
    by_cases ho : old = v
    · simp [ho]
    · simp only [ho, if_false, and_true]; exact stripAttrs_replace_other names a k v hk


end C15
