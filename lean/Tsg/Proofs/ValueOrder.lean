/-
  The derived `Ord` of `Value` (`Val.cmp`) is a lawful strict total order, hence `BTreeSet<Value>` as modelled (`Val.setInsert`,
  `Val.setOfList`) is strictly ascending, duplicate-free, holds exactly the values it was built from, and is extensional.
  The payload orders (Bool, Nat, String) are Std's lawful instances.
-/
import Std
import Tsg.Base.Value
namespace Val
open Std

mutual
/-- the derived order identifies only equal values -/
theorem eq_of_cmp_eq : ∀ (a b : Val), cmp a b = .eq → a = b
  | .null, .null, _ => rfl
  | .bool a, .bool b, h => by
    simp only [cmp] at h; rw [LawfulEqCmp.eq_of_compare h]
  | .int a, .int b, h => by
    simp only [cmp] at h; rw [LawfulEqCmp.eq_of_compare h]
  | .str a, .str b, h => by
    simp only [cmp] at h; rw [LawfulEqCmp.eq_of_compare h]
  | .syn a, .syn b, h => by
    simp only [cmp] at h; rw [LawfulEqCmp.eq_of_compare h]
  | .gnode a, .gnode b, h => by
    simp only [cmp] at h; rw [LawfulEqCmp.eq_of_compare h]
  | .list a, .list b, h => by
    simp only [cmp] at h; rw [eq_of_cmpList_eq a b h]
  | .set a, .set b, h => by
    simp only [cmp] at h; rw [eq_of_cmpList_eq a b h]
  | .null, .bool _, h | .null, .int _, h | .null, .str _, h | .null, .list _, h | .null, .set _, h | .null, .syn _, h | .null, .gnode _, h => by
    simp [cmp, rank] at h
  | .bool _, .null, h | .bool _, .int _, h | .bool _, .str _, h | .bool _, .list _, h | .bool _, .set _, h | .bool _, .syn _, h | .bool _, .gnode _, h => by
    simp [cmp, rank] at h
  | .int _, .null, h | .int _, .bool _, h | .int _, .str _, h | .int _, .list _, h | .int _, .set _, h | .int _, .syn _, h | .int _, .gnode _, h => by
    simp [cmp, rank] at h
  | .str _, .null, h | .str _, .bool _, h | .str _, .int _, h | .str _, .list _, h | .str _, .set _, h | .str _, .syn _, h | .str _, .gnode _, h => by
    simp [cmp, rank] at h
  | .list _, .null, h | .list _, .bool _, h | .list _, .int _, h | .list _, .str _, h | .list _, .set _, h | .list _, .syn _, h | .list _, .gnode _, h => by
    simp [cmp, rank] at h
  | .set _, .null, h | .set _, .bool _, h | .set _, .int _, h | .set _, .str _, h | .set _, .list _, h | .set _, .syn _, h | .set _, .gnode _, h => by
    simp [cmp, rank] at h
  | .syn _, .null, h | .syn _, .bool _, h | .syn _, .int _, h | .syn _, .str _, h | .syn _, .list _, h | .syn _, .set _, h | .syn _, .gnode _, h => by
    simp [cmp, rank] at h
  | .gnode _, .null, h | .gnode _, .bool _, h | .gnode _, .int _, h | .gnode _, .str _, h | .gnode _, .list _, h | .gnode _, .set _, h | .gnode _, .syn _, h => by
    simp [cmp, rank] at h
theorem eq_of_cmpList_eq : ∀ (a b : List Val), cmpList a b = .eq → a = b
  | [], [], _ => rfl
  | [], _ :: _, h => by simp [cmpList] at h
  | _ :: _, [], h => by simp [cmpList] at h
  | x :: xs, y :: ys, h => by
    simp only [cmpList] at h
    cases hxy : cmp x y with
    | eq =>
      rw [hxy] at h
      rw [eq_of_cmp_eq x y hxy, eq_of_cmpList_eq xs ys h]
    | lt => rw [hxy] at h; cases h
    | gt => rw [hxy] at h; cases h
end


/-- inserting into a set adds the value unless an equal one is there; nothing else changes -/
theorem mem_setInsert_iff (v x : Val) (acc : List Val) : x ∈ setInsert v acc ↔ x = v ∨ x ∈ acc := by
  induction acc with
  | nil => simp [setInsert]
  | cons y ys ih =>
    simp only [setInsert]
    cases h : cmp v y with
    | lt => simp
    | eq =>
      have := eq_of_cmp_eq v y h
      subst this
      simp
    | gt =>
      simp only [List.mem_cons, ih]
      constructor
      · rintro (h1 | h1 | h1)
        · exact Or.inr (Or.inl h1)
        · exact Or.inl h1
        · exact Or.inr (Or.inr h1)
      · rintro (h1 | h1 | h1)
        · exact Or.inr (Or.inl h1)
        · exact Or.inl h1
        · exact Or.inr (Or.inr h1)

theorem mem_foldl_setInsert (vs acc : List Val) (x : Val) :
    x ∈ vs.foldl (fun acc v => setInsert v acc) acc ↔ x ∈ acc ∨ x ∈ vs := by
  induction vs generalizing acc with
  | nil => simp
  | cons v rest ih =>
    simp only [List.foldl_cons, ih, mem_setInsert_iff, List.mem_cons]
    constructor
    · rintro ((h | h) | h)
      · exact Or.inr (Or.inl h)
      · exact Or.inl h
      · exact Or.inr (Or.inr h)
    · rintro (h | h | h)
      · exact Or.inl (Or.inr h)
      · exact Or.inl (Or.inl h)
      · exact Or.inr h

/-- **a set holds exactly the values it was built from** (each once — see `nodup_setOfList`) -/
theorem mem_setOfList_iff (vs : List Val) (x : Val) : x ∈ setOfList vs ↔ x ∈ vs := by
  simp [setOfList, mem_foldl_setInsert]


mutual
/-- the derived order is oriented: swapping the arguments swaps the answer -/
theorem cmp_swap : ∀ (a b : Val), cmp a b = (cmp b a).swap
  | .null, .null => rfl
  | .bool a, .bool b => by simp only [cmp]; exact OrientedCmp.eq_swap
  | .int a, .int b => by simp only [cmp]; exact OrientedCmp.eq_swap
  | .str a, .str b => by simp only [cmp]; exact OrientedCmp.eq_swap
  | .syn a, .syn b => by simp only [cmp]; exact OrientedCmp.eq_swap
  | .gnode a, .gnode b => by simp only [cmp]; exact OrientedCmp.eq_swap
  | .list a, .list b => by simp only [cmp]; exact cmpList_swap a b
  | .set a, .set b => by simp only [cmp]; exact cmpList_swap a b
  | .null, .bool _ | .null, .int _ | .null, .str _ | .null, .list _ | .null, .set _ | .null, .syn _ | .null, .gnode _ => by
    simp only [cmp, rank]; exact OrientedCmp.eq_swap
  | .bool _, .null | .bool _, .int _ | .bool _, .str _ | .bool _, .list _ | .bool _, .set _ | .bool _, .syn _ | .bool _, .gnode _ => by
    simp only [cmp, rank]; exact OrientedCmp.eq_swap
  | .int _, .null | .int _, .bool _ | .int _, .str _ | .int _, .list _ | .int _, .set _ | .int _, .syn _ | .int _, .gnode _ => by
    simp only [cmp, rank]; exact OrientedCmp.eq_swap
  | .str _, .null | .str _, .bool _ | .str _, .int _ | .str _, .list _ | .str _, .set _ | .str _, .syn _ | .str _, .gnode _ => by
    simp only [cmp, rank]; exact OrientedCmp.eq_swap
  | .list _, .null | .list _, .bool _ | .list _, .int _ | .list _, .str _ | .list _, .set _ | .list _, .syn _ | .list _, .gnode _ => by
    simp only [cmp, rank]; exact OrientedCmp.eq_swap
  | .set _, .null | .set _, .bool _ | .set _, .int _ | .set _, .str _ | .set _, .list _ | .set _, .syn _ | .set _, .gnode _ => by
    simp only [cmp, rank]; exact OrientedCmp.eq_swap
  | .syn _, .null | .syn _, .bool _ | .syn _, .int _ | .syn _, .str _ | .syn _, .list _ | .syn _, .set _ | .syn _, .gnode _ => by
    simp only [cmp, rank]; exact OrientedCmp.eq_swap
  | .gnode _, .null | .gnode _, .bool _ | .gnode _, .int _ | .gnode _, .str _ | .gnode _, .list _ | .gnode _, .set _ | .gnode _, .syn _ => by
    simp only [cmp, rank]; exact OrientedCmp.eq_swap
theorem cmpList_swap : ∀ (a b : List Val), cmpList a b = (cmpList b a).swap
  | [], [] => rfl
  | [], _ :: _ => rfl
  | _ :: _, [] => rfl
  | x :: xs, y :: ys => by
    simp only [cmpList]
    rw [cmp_swap x y]
    cases h : cmp y x with
    | eq => simp only [Ordering.swap]; exact cmpList_swap xs ys
    | lt => rfl
    | gt => rfl
end


theorem rank_le_of_cmp_lt (a b : Val) (h : cmp a b = .lt) : rank a ≤ rank b := by
  cases a <;> cases b <;> simp only [cmp, rank] at h ⊢ <;> first | omega | (exact absurd h (by decide)) | skip
  all_goals (have := Nat.compare_eq_lt.mp h; omega)

theorem cmp_of_rank_lt (a b : Val) (h : rank a < rank b) : cmp a b = .lt := by
  cases a <;> cases b <;> simp only [rank] at h <;> first | omega | skip
  all_goals (simp only [cmp, rank]; exact Nat.compare_eq_lt.mpr (by omega))


theorem compare_lt_trans_nat {a b c : Nat} (h1 : compare a b = .lt) (h2 : compare b c = .lt) : compare a c = .lt :=
  Nat.compare_eq_lt.mpr (Nat.lt_trans (Nat.compare_eq_lt.mp h1) (Nat.compare_eq_lt.mp h2))

theorem lt_trans_of_transCmp {α : Type} {f : α → α → Ordering} [TransCmp f] {a b c : α}
    (h1 : f a b = .lt) (h2 : f b c = .lt) : f a c = .lt := TransCmp.lt_trans h1 h2

mutual
/-- same variant: transitivity of `<` comes from the payload's order -/
theorem cmp_lt_trans_same : ∀ (a b c : Val), rank a = rank b → rank b = rank c →
    cmp a b = .lt → cmp b c = .lt → cmp a c = .lt
  | .null, b, c, hr1, hr2, h1, _ => by
    cases b <;> simp [rank] at hr1
    simp [cmp] at h1
  | .bool x, b, c, hr1, hr2, h1, h2 => by
    cases b <;> simp [rank] at hr1
    cases c <;> simp [rank] at hr2
    simp only [cmp] at *; exact lt_trans_of_transCmp h1 h2
  | .int x, b, c, hr1, hr2, h1, h2 => by
    cases b <;> simp [rank] at hr1
    cases c <;> simp [rank] at hr2
    simp only [cmp] at *; exact lt_trans_of_transCmp h1 h2
  | .str x, b, c, hr1, hr2, h1, h2 => by
    cases b <;> simp [rank] at hr1
    cases c <;> simp [rank] at hr2
    simp only [cmp] at *; exact lt_trans_of_transCmp h1 h2
  | .syn x, b, c, hr1, hr2, h1, h2 => by
    cases b <;> simp [rank] at hr1
    cases c <;> simp [rank] at hr2
    simp only [cmp] at *; exact lt_trans_of_transCmp h1 h2
  | .gnode x, b, c, hr1, hr2, h1, h2 => by
    cases b <;> simp [rank] at hr1
    cases c <;> simp [rank] at hr2
    simp only [cmp] at *; exact lt_trans_of_transCmp h1 h2
  | .list xs, b, c, hr1, hr2, h1, h2 => by
    cases b <;> simp [rank] at hr1
    cases c <;> simp [rank] at hr2
    simp only [cmp] at *; exact cmpList_lt_trans xs _ _ h1 h2
  | .set xs, b, c, hr1, hr2, h1, h2 => by
    cases b <;> simp [rank] at hr1
    cases c <;> simp [rank] at hr2
    simp only [cmp] at *; exact cmpList_lt_trans xs _ _ h1 h2
theorem cmpList_lt_trans : ∀ (a b c : List Val), cmpList a b = .lt → cmpList b c = .lt → cmpList a c = .lt
  | [], [], _, h1, _ => by simp [cmpList] at h1
  | [], _ :: _, [], _, h2 => by simp [cmpList] at h2
  | [], _ :: _, _ :: _, _, _ => rfl
  | _ :: _, [], _, h1, _ => by simp [cmpList] at h1
  | _ :: _, _ :: _, [], _, h2 => by simp [cmpList] at h2
  | x :: xs, y :: ys, z :: zs, h1, h2 => by
    simp only [cmpList] at h1 h2 ⊢
    cases hxy : cmp x y with
    | gt => rw [hxy] at h1; cases h1
    | eq =>
      rw [hxy] at h1
      have := eq_of_cmp_eq x y hxy
      subst this
      cases hyz : cmp x z with
      | gt => rw [hyz] at h2; cases h2
      | lt => rfl
      | eq =>
        rw [hyz] at h2
        exact cmpList_lt_trans xs ys zs h1 h2
    | lt =>
      cases hyz : cmp y z with
      | gt => rw [hyz] at h2; cases h2
      | eq =>
        have := eq_of_cmp_eq y z hyz
        subst this
        rw [hxy]
      | lt =>
        have : cmp x z = .lt := cmp_lt_trans_aux x y z hxy hyz
        rw [this]
theorem cmp_lt_trans_aux : ∀ (a b c : Val), cmp a b = .lt → cmp b c = .lt → cmp a c = .lt
  | a, b, c, h1, h2 => by
    have r1 := rank_le_of_cmp_lt a b h1
    have r2 := rank_le_of_cmp_lt b c h2
    by_cases hlt : rank a < rank c
    · exact cmp_of_rank_lt a c hlt
    · exact cmp_lt_trans_same a b c (by omega) (by omega) h1 h2
end


theorem cmp_lt_trans (a b c : Val) (h1 : cmp a b = .lt) (h2 : cmp b c = .lt) : cmp a c = .lt := cmp_lt_trans_aux a b c h1 h2

theorem cmp_self (a : Val) : cmp a a = .eq := by
  have := cmp_swap a a
  cases h : cmp a a with
  | eq => rfl
  | lt => rw [h] at this; cases this
  | gt => rw [h] at this; cases this

theorem cmp_gt_iff_lt (a b : Val) : cmp a b = .gt ↔ cmp b a = .lt := by
  rw [cmp_swap a b]
  cases cmp b a <;> simp [Ordering.swap]

/-- strictly ascending in the derived order: the representation invariant of a `BTreeSet<Value>` -/
def SSorted (l : List Val) : Prop := l.Pairwise (fun a b => cmp a b = .lt)

theorem sorted_setInsert (v : Val) (acc : List Val) (h : SSorted acc) : SSorted (setInsert v acc) := by
  induction acc with
  | nil => simp [setInsert, SSorted]
  | cons y ys ih =>
    simp only [SSorted, List.pairwise_cons] at h
    simp only [setInsert]
    cases hvy : cmp v y with
    | lt =>
      simp only [SSorted, List.pairwise_cons, List.mem_cons]
      refine ⟨?_, h.1, h.2⟩
      rintro x (rfl | hx)
      · exact hvy
      · exact cmp_lt_trans v y x hvy (h.1 x hx)
    | eq => simpa [SSorted, List.pairwise_cons] using h
    | gt =>
      simp only [SSorted, List.pairwise_cons]
      refine ⟨?_, ih h.2⟩
      intro x hx
      rcases (mem_setInsert_iff v x ys).mp hx with rfl | hx
      · exact (cmp_gt_iff_lt _ _).mp hvy
      · exact h.1 x hx

theorem sorted_setOfList (vs : List Val) : SSorted (setOfList vs) := by
  have : ∀ (vs acc : List Val), SSorted acc → SSorted (vs.foldl (fun acc v => setInsert v acc) acc) := by
    intro vs
    induction vs with
    | nil => intro acc h; exact h
    | cons v rest ih => intro acc h; exact ih _ (sorted_setInsert v acc h)
  exact this vs [] (by simp [SSorted])

theorem nodup_of_sorted (l : List Val) (h : SSorted l) : l.Nodup := by
  induction l with
  | nil => simp
  | cons a rest ih =>
    simp only [SSorted, List.pairwise_cons] at h
    simp only [List.nodup_cons]
    refine ⟨fun hmem => ?_, ih h.2⟩
    have := h.1 a hmem
    rw [cmp_self] at this; cases this

/-- **a set holds each of its values once** -/
theorem nodup_setOfList (vs : List Val) : (setOfList vs).Nodup := nodup_of_sorted _ (sorted_setOfList vs)

/-- two strictly ascending lists with the same members are the same list -/
theorem sorted_ext : ∀ (l1 l2 : List Val), SSorted l1 → SSorted l2 → (∀ x, x ∈ l1 ↔ x ∈ l2) → l1 = l2
  | [], [], _, _, _ => rfl
  | [], b :: _, _, _, h => by have := (h b).mpr (List.mem_cons_self ..); cases this
  | a :: _, [], _, _, h => by have := (h a).mp (List.mem_cons_self ..); cases this
  | a :: l1, b :: l2, h1, h2, h => by
    simp only [SSorted, List.pairwise_cons] at h1 h2
    have hab : a = b := by
      have ha := (h a).mp (List.mem_cons_self ..)
      have hb := (h b).mpr (List.mem_cons_self ..)
      rcases List.mem_cons.mp ha with rfl | ha'
      · rfl
      · rcases List.mem_cons.mp hb with hb' | hb'
        · exact hb'.symm
        · have x1 := h2.1 a ha'
          have x2 := h1.1 b hb'
          have := cmp_lt_trans a b a x2 x1
          rw [cmp_self] at this; cases this
    subst hab
    have : l1 = l2 := by
      apply sorted_ext l1 l2 h1.2 h2.2
      intro x
      constructor
      · intro hx
        rcases List.mem_cons.mp ((h x).mp (List.mem_cons_of_mem _ hx)) with rfl | hx'
        · have := h1.1 x hx; rw [cmp_self] at this; cases this
        · exact hx'
      · intro hx
        rcases List.mem_cons.mp ((h x).mpr (List.mem_cons_of_mem _ hx)) with rfl | hx'
        · have := h2.1 x hx; rw [cmp_self] at this; cases this
        · exact hx'
    rw [this]

/-- **set values are extensional**: built from lists with the same members (in any order, with any repetitions), two
sets are the same value — so `eq`, attribute single-assignment and nested sets compare sets by their members -/
theorem setOfList_eq_iff (vs ws : List Val) : setOfList vs = setOfList ws ↔ ∀ x, x ∈ vs ↔ x ∈ ws := by
  constructor
  · intro h x
    rw [← mem_setOfList_iff vs x, h, mem_setOfList_iff]
  · intro h
    apply sorted_ext _ _ (sorted_setOfList vs) (sorted_setOfList ws)
    intro x
    rw [mem_setOfList_iff, mem_setOfList_iff]
    exact h x

end Val
