/-
  C01 — Execution yields exactly the graph the language reference prescribes.

  Part 1 (this file): the driver — stanzas in file order, each stanza's block once per match in match
  order, every block from fresh locals, the first failure is the result. Statement-level rules: see
  the rule lemmas below and Tsg/Props/C09, C10, C16 (edges/attributes, scan, globals).
-/
import Tsg.Proofs.Prog
import Tsg.Sem.Strict
import Tsg.Proofs.ValueOrder

namespace C01

/-- run programs one after the other; the first failure is the result -/
def seqAll {ρ : Type} : List (Prog ρ Unit) → Prog ρ Unit
  | [] => pure ()
  | p :: ps => p >>= fun _ => seqAll ps

theorem run_seqAll_cons {ρ : Type} (p : Prog ρ Unit) (ps : List (Prog ρ Unit)) (s : Prog.MSt ρ) :
    Prog.run (seqAll (p :: ps)) s =
      match Prog.run p s with
      | .ok _ s1 => Prog.run (seqAll ps) s1
      | .fail e s1 => .fail e s1 := by
  simp only [seqAll, Prog.run_bind]
  cases Prog.run p s <;> rfl

theorem run_seqAll_append {ρ : Type} (xs ys : List (Prog ρ Unit)) (s : Prog.MSt ρ) :
    Prog.run (seqAll (xs ++ ys)) s =
      match Prog.run (seqAll xs) s with
      | .ok _ s1 => Prog.run (seqAll ys) s1
      | .fail e s1 => .fail e s1 := by
  induction xs generalizing s with
  | nil => simp [seqAll, pure, Prog.run]
  | cons p ps ih =>
    simp only [List.cons_append, run_seqAll_cons]
    cases Prog.run p s with
    | ok u s1 => exact ih s1
    | fail e s1 => rfl

theorem run_execMatches (cfg : Cfg) (fuel : Nat) (st : Stanza) (ms : List QMatch) (s : Prog.MSt SRest) :
    Prog.run (Strict.execMatches cfg fuel st ms) s = Prog.run (seqAll (ms.map (Strict.execMatch cfg fuel st))) s := by
  induction ms generalizing s with
  | nil => simp [Strict.execMatches, seqAll]
  | cons m rest ih =>
    simp only [Strict.execMatches, List.map_cons, run_seqAll_cons, Prog.run_bind]
    cases Prog.run (Strict.execMatch cfg fuel st m) s with
    | ok u s1 => exact ih s1
    | fail e s1 => rfl

/-- **Driver.** Strict execution runs, in this order and nothing else: for each stanza in file order,
for each match of that stanza's query in the order tree-sitter reports them, the stanza's block once.
The first block that fails ends the run with its failure (`seqAll`). -/
theorem C01_blocks_once_per_match_in_order (cfg : Cfg) (fuel : Nat) (l : List (Stanza × List QMatch))
    (s : Prog.MSt SRest) :
    Prog.run (Strict.execStanzas cfg fuel l) s =
      Prog.run (seqAll (l.flatMap fun p => p.2.map (Strict.execMatch cfg fuel p.1))) s := by
  induction l generalizing s with
  | nil => simp [Strict.execStanzas, seqAll]
  | cons p rest ih =>
    obtain ⟨st, ms⟩ := p
    simp only [Strict.execStanzas, List.flatMap_cons, run_seqAll_append, Prog.run_bind, run_execMatches]
    cases Prog.run (seqAll (ms.map (Strict.execMatch cfg fuel st))) s with
    | ok u s1 => exact ih s1
    | fail e s1 => rfl

/-- a failing block makes the whole run fail with exactly that failure: an error rather than a graph -/
theorem C01_failure_is_error {ρ : Type} (before after : List (Prog ρ Unit)) (p : Prog ρ Unit)
    (s s1 s2 : Prog.MSt ρ) (e : Fail)
    (hbefore : Prog.run (seqAll before) s = .ok () s1) (hp : Prog.run p s1 = .fail e s2) :
    Prog.run (seqAll (before ++ p :: after)) s = .fail e s2 := by
  rw [run_seqAll_append, hbefore]
  simp only [run_seqAll_cons, hp]

/-- the number of blocks executed by a successful run is the total number of matches -/
theorem C01_block_count (cfg : Cfg) (fuel : Nat) (l : List (Stanza × List QMatch)) :
    (l.flatMap fun p => p.2.map (Strict.execMatch cfg fuel p.1)).length = (l.map fun p => p.2.length).sum := by
  induction l with
  | nil => rfl
  | cons p rest ih => simp [List.flatMap_cons, ih]

/-- every block starts from empty locals (`locals.clear()`): variables do not leak between matches -/
theorem C01_block_starts_with_fresh_locals (cfg : Cfg) (fuel : Nat) (st : Stanza) (m : QMatch) :
    ∃ k, Strict.execMatch cfg fuel st m =
      (Prog.modifyR (fun s : SRest => { s with locals := s.locals.clear }) >>= k) := by
  unfold Strict.execMatch
  exact ⟨_, rfl⟩

/-! ### statement rules (reference: "Creating graph nodes / edges / attributes", "Variables") -/

/-- `Value::from_nodes`: a plain capture is the node, `?` is the node or null, `*`/`+` the list -/
theorem C01_capture_values {ρ : Type} (n : Nat) (ns : List Nat) :
    (Strict.fromNodes .one (n :: ns) : Prog ρ Val) = pure (.syn n) ∧
    (Strict.fromNodes .zeroOrOne [] : Prog ρ Val) = pure .null ∧
    (Strict.fromNodes .zeroOrOne (n :: ns) : Prog ρ Val) = pure (.syn n) ∧
    (Strict.fromNodes .zeroOrMore ns : Prog ρ Val) = pure (.list (ns.map .syn)) ∧
    (Strict.fromNodes .oneOrMore ns : Prog ρ Val) = pure (.list (ns.map .syn)) := by
  simp [Strict.fromNodes]

/-- conditions: `some`/`none` test for null, a bare condition must be a boolean -/
theorem C01_if_takes_first_true_arm (cfg : Cfg) (fuel : Nat) (env : Env)
    (conds : List Cond) (body : List Stmt) (loc : Loc) (rest : List (List Cond × List Stmt × Loc)) :
    Strict.execIfArms cfg fuel env ((conds, body, loc) :: rest) =
      (Strict.testConds cfg fuel env conds >>= fun ok =>
        if ok then (do Strict.pushFrame; Strict.execBlock cfg fuel env .plain body; Strict.popFrame)
        else Strict.execIfArms cfg fuel env rest) := by
  rw [Strict.execIfArms]

/-- `for` runs the body once per element, in list order, each time in a cleared scope with the loop variable bound -/
theorem C01_for_iterates_in_order (cfg : Cfg) (fuel : Nat) (env : Env) (var : String) (body : List Stmt)
    (v : Val) (rest : List Val) :
    Strict.execFor cfg fuel env var body (v :: rest) =
      (do Strict.clearFrame
          Strict.unscopedAdd cfg var v false
          Strict.execBlock cfg fuel env .plain body
          Strict.execFor cfg fuel env var body rest) := by
  rw [Strict.execFor]

/-- **syntax nodes are values by identity.** Two different syntax nodes — of whatever kind, wherever they start (a node and
its first child start at the same place) — are unequal for `eq`, are two elements of a set, and a set holding both answers
differently from a set holding one; the same node is equal to itself and one element. -/
theorem C01_syntax_nodes_by_identity (a b : Nat) :
    Stdlib.eq [.syn a, .syn b] = .ok (.bool (a == b)) ∧
    (a ≠ b → (Val.setOfList [.syn a, .syn b]).length = 2) ∧
    (Val.setOfList [.syn a, .syn a]).length = 1 := by
  refine ⟨rfl, ?_, ?_⟩
  · intro hne
    simp only [Val.setOfList, List.foldl, Val.setInsert, Val.cmp]
    rcases Nat.lt_trichotomy b a with h | h | h
    · have : compare b a = .lt := Nat.compare_eq_lt.mpr h
      simp [this]
    · exact absurd h.symm hne
    · have : compare b a = .gt := Nat.compare_eq_gt.mpr h
      simp [this]
  · simp [Val.setOfList, List.foldl, Val.setInsert, Val.cmp]

/-- **set values.** A set literal or set comprehension evaluates to `Val.set (Val.setOfList vs)`. That list holds exactly
the values it was built from, each once, and two sets built from lists with the same members — in any order, with any
repetitions — are the SAME value (so `eq`, attribute single-assignment and sets nested in sets compare sets by their
members): the derived order of values is a lawful strict total order (`Proofs/ValueOrder.lean`). -/
theorem C01_sets_are_extensional (vs ws : List Val) :
    (∀ x, x ∈ Val.setOfList vs ↔ x ∈ vs) ∧ (Val.setOfList vs).Nodup ∧
    (Val.setOfList vs = Val.setOfList ws ↔ ∀ x, x ∈ vs ↔ x ∈ ws) :=
  ⟨Val.mem_setOfList_iff vs, Val.nodup_setOfList vs, Val.setOfList_eq_iff vs ws⟩

end C01
