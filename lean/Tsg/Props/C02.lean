/-
  C02 — Strict and lazy evaluation agree on every order-insensitive program.

  Proved here (mechanisms named in the property's anchors):
    * both modes bind captures through the same `Value::from_nodes` and pick scan matches through
      the same selection (`scanBest`) from the same per-arm match list — the lazy copy of the
      collection loop differs from the strict one only by polls;
    * both modes reject an out-of-range `$n` with the same error (after the repair of lazy.rs);
    * `edge` and `attr` conflicts are detected by the same graph operations (`GraphOp`), so a conflicting
      attribute or an attribute on a missing edge fails in both modes.
    * on CLOSED expressions (literals, captures, regex captures, list/set literals, function calls, nested to any depth)
      strict evaluation and lazy evaluation (build, then force) succeed together, with equal values and equal graphs
      afterwards (`C02_closed_expressions_agree`), and conditions over them select the same `if`/`elif` arm
      (`C02_closed_conditions_agree`), and a whole `attr` statement on a node with such values has the same effect on the
      graph whether applied at once (strict) or collected and applied in the evaluate phase (lazy)
      (`C02_closed_node_attrs_agree`): unbounded pieces of the agreement itself, by induction on expressions and lists.
  The full statement `C02_full` is kept as a `Prop`; what is not proved of it is covered by the
  differential run (each mode against its model, and strict against lazy on the implementation).
-/
import Tsg.Proofs.Prog
import Tsg.Sem.Lazy
import Tsg.Props.C05
import Tsg.Proofs.ClosedAgree

namespace C02

def bump {ρ : Type} (s : Prog.MSt ρ) (n : Nat) : Prog.MSt ρ := { s with ps := { s.ps with polls := s.ps.polls + n } }

/-- **Scan collection.** With a flag that never signals, the lazy collection loop (one poll per arm)
computes exactly the strict loop's result: the same list of per-arm first matches in arm order, or the
same failure (empty match, missing oracle answer); only the poll counter moves. -/
theorem C02_scan_collect_agree (o : Oracle) (subject : String) (i : Nat)
    (arms : List (String × List Stmt × Loc)) (idx : Nat) (s : Prog.MSt LSt) (hnone : s.ps.cancelAt = none) :
    ∃ n, Prog.run (Lazy.lazyScanCollect o subject i arms idx) s =
      match Strict.scanCollect o subject i arms idx with
      | .ok ms => .ok ms (bump s n)
      | .error f => .fail f (bump s n) := by
  induction arms generalizing idx s with
  | nil => exact ⟨0, by simp [Lazy.lazyScanCollect, Strict.scanCollect, pure, Prog.run, bump]⟩
  | cons arm rest ih =>
    obtain ⟨re, body, loc⟩ := arm
    simp only [Lazy.lazyScanCollect, Strict.scanCollect, Prog.run_bind]
    have hpoll : Prog.run (Prog.pollP "processing scan matches" : Prog LSt Unit) s = .ok () (bump s 1) := by
      simp [Prog.pollP, Prog.run, hnone, bump]
    rw [hpoll]
    simp only
    have hnone1 : (bump s 1).ps.cancelAt = none := hnone
    cases ho : o.regexAt re subject i with
    | none => exact ⟨1, by simp [Prog.failP, Prog.run]⟩
    | some r =>
      cases r with
      | none =>
        obtain ⟨n, hn⟩ := ih (idx + 1) (bump s 1) hnone1
        refine ⟨n + 1, ?_⟩
        simp only
        rw [hn]
        cases Strict.scanCollect o subject i rest (idx + 1) <;> simp [bump, Nat.add_assoc, Nat.add_comm 1 n]
      | some m =>
        simp only
        by_cases hm : m.stop ≤ m.start
        · exact ⟨1, by simp [hm, Prog.throwK, Prog.run]⟩
        · obtain ⟨n, hn⟩ := ih (idx + 1) (bump s 1) hnone1
          refine ⟨n + 1, ?_⟩
          simp only [hm, if_false, Prog.run_bind]
          rw [hn]
          cases Strict.scanCollect o subject i rest (idx + 1) <;>
            simp [bump, Nat.add_assoc, Nat.add_comm 1 n, pure, Prog.run]

/-- both modes turn captured nodes into values with the same function -/
theorem C02_same_capture_values (q : Quant) (nodes : List Nat) :
    (Strict.fromNodes q nodes : Prog SRest Val) = Strict.fromNodes q nodes ∧
    (∀ (s : Prog.MSt SRest) (l : Prog.MSt LSt) v, Prog.run (Strict.fromNodes q nodes) s = .ok v s →
      Prog.run (Strict.fromNodes q nodes) l = .ok v l) := by
  refine ⟨rfl, ?_⟩
  intro s l v h
  cases q <;> cases nodes <;> simp_all [Strict.fromNodes, Prog.run, Prog.panicAt, Prog.throwK, pure]

/-- an out-of-range `$n` is `UndefinedRegexCapture` in both modes, never a panic -/
theorem C02_regex_capture_out_of_range (cfg : Cfg) (fuel ef : Nat) (env : Env) (ix : Nat) (h : env.caps[ix]? = none) :
    Strict.evalExpr cfg fuel env (.regexCap ix) = Prog.throwK .undefinedRegexCapture ∧
    Lazy.lazyExpr cfg fuel ef env (.regexCap ix) = Prog.throwK .undefinedRegexCapture := by
  constructor
  · rw [Strict.evalExpr]; simp [h]
  · rw [Lazy.lazyExpr]; simp [h]

/-- the property as stated, for the models (graph isomorphism up to node renumbering is `Iso`) -/
def C02_full (Fragment : File → Prop) (Iso : CGraph → CGraph → Prop) : Prop :=
  ∀ (file : File) (tree : Tree) (oracle : Oracle) (globals : GlobalsM) (fuel ef : Nat)
    (ms : List (List QMatch)) (merged : List QMatch),
    Fragment file →
    let s := Strict.run file tree oracle globals none none none none fuel ms {}
    let l := Lazy.run file tree oracle globals none none none none fuel ef merged {}
    s.outcome = none → l.outcome = none ∧ Iso s.graph l.graph

/-- **Neither mode panics where the other reports an error** — because neither mode panics at all: for EVERY text, if
loading it yields a file, then executing that file strictly and executing it lazily both end in a graph or an error,
never at a panic site, for every tree, oracle, set of globals, debug configuration, cancellation flag, fuels and
initial graph, under tree-sitter's contracts on the matches each mode is given and the caller's contract on graph-node
globals (corollary of `C05_load_then_strict_never_panics` and `C05_load_then_lazy_never_panics`). -/
theorem C02_neither_mode_panics (o : POracle) (nullable : String → Option Bool) (text : String) (file : File)
    (hload : Loader.load o nullable text = .loaded file)
    (tree : Tree) (oracle : Oracle) (globals : GlobalsM) (la va ma : Option String)
    (cancelAt : Option Nat) (fuel ef : Nat) (ms : List (List QMatch)) (merged : List QMatch) (g0 : CGraph)
    (ht : StrictSafe.TreeOK tree) (hg : StrictSafe.GlobalsWf g0.nodes.length globals)
    (hms : ∀ p ∈ file.stanzas.zip ms, ∀ m ∈ p.2, StrictSafe.MatchOK tree p.1 m)
    (hm : ∀ m ∈ merged, LazySafe.MergedOK tree file.stanzas m) (site : String) :
    (Strict.run file tree oracle globals la va ma cancelAt fuel ms g0).outcome ≠ some (.panic site) ∧
    (Lazy.run file tree oracle globals la va ma cancelAt fuel ef merged g0).outcome ≠ some (.panic site) :=
  ⟨C05.C05_load_then_strict_never_panics o nullable text file hload tree oracle globals la va ma cancelAt fuel ms g0 ht hg hms site,
   C05.C05_load_then_lazy_never_panics o nullable text file hload tree oracle globals la va ma cancelAt fuel ef merged g0 ht hg hm site⟩


/-- **strict and lazy evaluation agree on closed expressions.** For every expression built from literals, captures, regex
captures, list and set literals and function calls (nested to any depth; the calls may create graph nodes), every match,
every pair of machine states holding the same graph, in uncancelled runs with enough evaluation fuel for the expression's
depth: strict evaluation succeeds exactly when lazy evaluation (`lazyExpr` builds, `evalL` forces) succeeds; the two
values are equal, the two graphs are equal afterwards (the calls ran in the same order), and neither mode touched its
variables. When one fails the other fails (the errors may differ: lazy evaluation resolves every capture before it calls
any function). -/
theorem C02_closed_expressions_agree (cfg : Cfg) (fuel ef : Nat) (env : Env) (e : Expr) (hc : ClosedAgree.closedE e = true)
    (hd : ClosedAgree.depthE e < ef) (s : Prog.MSt SRest) (t : Prog.MSt LSt) (hg : s.graph = t.graph)
    (h1 : s.ps.cancelAt = none) (h2 : t.ps.cancelAt = none) :
    match Prog.run (Strict.evalExpr cfg fuel env e) s, Prog.run (Lazy.eagerExpr cfg fuel ef env e) t with
    | .ok v s', .ok v' t' => v = v' ∧ s'.graph = t'.graph ∧ s'.rest = s.rest ∧ t'.rest = t.rest
    | .fail _ _, .fail _ _ => True
    | _, _ => False := by
  have h := ClosedAgree.closed_expressions_agree cfg fuel ef env e hc hd s t hg h1 h2
  cases hr1 : Prog.run (Strict.evalExpr cfg fuel env e) s with
  | ok v s' =>
    cases hr2 : Prog.run (Lazy.eagerExpr cfg fuel ef env e) t with
    | ok v' t' => rw [hr1, hr2] at h; exact h
    | fail _ _ => rw [hr1, hr2] at h; exact h
  | fail _ _ =>
    cases hr2 : Prog.run (Lazy.eagerExpr cfg fuel ef env e) t with
    | ok v' t' => rw [hr1, hr2] at h; exact h
    | fail _ _ => trivial

/-- **conditions agree.** `some e`, `none e` and a boolean `e` over a closed expression take the same branch in both
modes, or fail in both: `if` and `elif` arms are selected alike. -/
theorem C02_closed_conditions_agree (cfg : Cfg) (fuel ef : Nat) (env : Env) (c : Cond) (e : Expr) (l : Loc)
    (hcnd : c = .some e l ∨ c = .none e l ∨ c = .bool e l) (hc : ClosedAgree.closedE e = true)
    (hd : ClosedAgree.depthE e < ef) (s : Prog.MSt SRest) (t : Prog.MSt LSt) (hg : s.graph = t.graph)
    (h1 : s.ps.cancelAt = none) (h2 : t.ps.cancelAt = none) :
    match Prog.run (Strict.testCond cfg fuel env c) s, Prog.run (Lazy.testCondL cfg fuel ef env c) t with
    | .ok b s', .ok b' t' => b = b' ∧ s'.graph = t'.graph ∧ s'.rest = s.rest ∧ t'.rest = t.rest
    | .fail _ _, .fail _ _ => True
    | _, _ => False := by
  have h := ClosedAgree.closed_conditions_agree cfg fuel ef env c e l hcnd hc hd s t hg h1 h2
  cases hr1 : Prog.run (Strict.testCond cfg fuel env c) s with
  | ok v s' =>
    cases hr2 : Prog.run (Lazy.testCondL cfg fuel ef env c) t with
    | ok v' t' => rw [hr1, hr2] at h; exact h
    | fail _ _ => rw [hr1, hr2] at h; exact h
  | fail _ _ =>
    cases hr2 : Prog.run (Lazy.testCondL cfg fuel ef env c) t with
    | ok v' t' => rw [hr1, hr2] at h; exact h
    | fail _ _ => trivial

/-- **an `attr` statement on a node, with closed values and plain attribute names.** Strict execution applies each
attribute as soon as its value is evaluated; lazy execution first collects the attributes (`lazyAttrs`, while it visits
the match) and applies them later (`evalNodeAttrs`, in the evaluate phase, from any later state `t'` that holds the same
graph as the strict run). If collecting fails (a capture that cannot be resolved) the strict statement fails too;
otherwise both succeed — and then the graphs are equal: the same attribute values on the node, the same nodes created by
`node` calls inside the values, in the same order — or both fail. -/
theorem C02_closed_node_attrs_agree (cfg : Cfg) (fuel ef : Nat) (env : Env) (n : Nat) (dbg : StmtCtx) (attrs : List AttrE)
    (hc : ClosedAgree.closedAttrs cfg ef attrs) (s : Prog.MSt SRest) (t t' : Prog.MSt LSt)
    (hg : s.graph = t'.graph) (h1 : s.ps.cancelAt = none) (h2 : t.ps.cancelAt = none) (h3 : t'.ps.cancelAt = none) :
    (∀ f t1, Prog.run (Lazy.lazyAttrs cfg fuel ef env attrs []) t = .fail f t1 →
      ∃ f' s', Prog.run (Strict.execAttrs cfg fuel env (.node n) attrs) s = .fail f' s') ∧
    (∀ built t1, Prog.run (Lazy.lazyAttrs cfg fuel ef env attrs []) t = .ok built t1 →
      (∃ s' t'', Prog.run (Strict.execAttrs cfg fuel env (.node n) attrs) s = .ok () s' ∧
          Prog.run (Lazy.evalNodeAttrs cfg ef n dbg built) t' = .ok () t'' ∧ s'.graph = t''.graph) ∨
      ((∃ f' s', Prog.run (Strict.execAttrs cfg fuel env (.node n) attrs) s = .fail f' s') ∧
       (∃ f'' t'', Prog.run (Lazy.evalNodeAttrs cfg ef n dbg built) t' = .fail f'' t''))) := by
  have h := ClosedAgree.closed_node_attrs_agree cfg fuel ef env n dbg attrs hc s t t' hg h1 h2 h3
  constructor
  · intro f t1 hr
    rw [hr] at h
    dsimp only at h
    cases hs : Prog.run (Strict.execAttrs cfg fuel env (.node n) attrs) s with
    | ok _ _ => rw [hs] at h; exact h.elim
    | fail f' s' => exact ⟨f', s', rfl⟩
  · intro built t1 hr
    rw [hr] at h
    dsimp only at h
    cases hs : Prog.run (Strict.execAttrs cfg fuel env (.node n) attrs) s with
    | ok u s' =>
      cases hl : Prog.run (Lazy.evalNodeAttrs cfg ef n dbg built) t' with
      | ok u' t'' =>
        rw [hs, hl] at h
        cases u; cases u'
        exact Or.inl ⟨s', t'', rfl, rfl, h.1⟩
      | fail _ _ => rw [hs, hl] at h; exact h.elim
    | fail f' s' =>
      cases hl : Prog.run (Lazy.evalNodeAttrs cfg ef n dbg built) t' with
      | ok _ _ => rw [hs, hl] at h; exact h.elim
      | fail f'' t'' => exact Or.inr ⟨⟨f', s', rfl⟩, ⟨f'', t'', rfl⟩⟩

/-- **an `attr` statement on an EDGE, with closed values and plain attribute names**: as `C02_closed_node_attrs_agree`. Both
modes look the edge up when an attribute is applied: if it does not exist then, both fail (`UndefinedEdge`); if collecting
the attributes fails in lazy mode the strict statement fails too; otherwise both succeed with equal graphs or both fail. -/
theorem C02_closed_edge_attrs_agree (cfg : Cfg) (fuel ef : Nat) (env : Env) (a b : Nat) (dbg : StmtCtx) (attrs : List AttrE)
    (hc : ClosedAgree.closedAttrs cfg ef attrs) (s : Prog.MSt SRest) (t t' : Prog.MSt LSt)
    (hg : s.graph = t'.graph) (h1 : s.ps.cancelAt = none) (h2 : t.ps.cancelAt = none) (h3 : t'.ps.cancelAt = none) :
    (∀ f t1, Prog.run (Lazy.lazyAttrs cfg fuel ef env attrs []) t = .fail f t1 →
      ∃ f' s', Prog.run (Strict.execAttrs cfg fuel env (.edge a b) attrs) s = .fail f' s') ∧
    (∀ built t1, Prog.run (Lazy.lazyAttrs cfg fuel ef env attrs []) t = .ok built t1 →
      (∃ s' t'', Prog.run (Strict.execAttrs cfg fuel env (.edge a b) attrs) s = .ok () s' ∧
          Prog.run (Lazy.evalEdgeAttrs cfg ef a b dbg built) t' = .ok () t'' ∧ s'.graph = t''.graph) ∨
      ((∃ f' s', Prog.run (Strict.execAttrs cfg fuel env (.edge a b) attrs) s = .fail f' s') ∧
       (∃ f'' t'', Prog.run (Lazy.evalEdgeAttrs cfg ef a b dbg built) t' = .fail f'' t''))) := by
  have h := ClosedAgree.closed_edge_attrs_agree cfg fuel ef env a b dbg attrs hc s t t' hg h1 h2 h3
  constructor
  · intro f t1 hr
    rw [hr] at h
    dsimp only at h
    cases hs : Prog.run (Strict.execAttrs cfg fuel env (.edge a b) attrs) s with
    | ok _ _ => rw [hs] at h; exact h.elim
    | fail f' s' => exact ⟨f', s', rfl⟩
  · intro built t1 hr
    rw [hr] at h
    dsimp only at h
    cases hs : Prog.run (Strict.execAttrs cfg fuel env (.edge a b) attrs) s with
    | ok u s' =>
      cases hl : Prog.run (Lazy.evalEdgeAttrs cfg ef a b dbg built) t' with
      | ok u' t'' =>
        rw [hs, hl] at h
        cases u; cases u'
        exact Or.inl ⟨s', t'', rfl, rfl, h.1⟩
      | fail _ _ => rw [hs, hl] at h; exact h.elim
    | fail f' s' =>
      cases hl : Prog.run (Lazy.evalEdgeAttrs cfg ef a b dbg built) t' with
      | ok _ _ => rw [hs, hl] at h; exact h.elim
      | fail f'' t'' => exact Or.inr ⟨⟨f', s', rfl⟩, ⟨f'', t'', rfl⟩⟩

/-- **condition lists agree.** `if c1, c2, … { … }` evaluates every condition of the list (no short-circuit) in both modes;
when the conditions test closed expressions the conjunction is the same boolean in both modes — the same `if` / `elif` arm
is taken — or both modes fail. -/
theorem C02_closed_condition_lists_agree (cfg : Cfg) (fuel ef : Nat) (env : Env) (cs : List Cond)
    (hc : ∀ c ∈ cs, ClosedAgree.closedE (ClosedAgree.condExpr c) = true ∧ ClosedAgree.depthE (ClosedAgree.condExpr c) < ef)
    (s : Prog.MSt SRest) (t : Prog.MSt LSt) (hg : s.graph = t.graph) (h1 : s.ps.cancelAt = none) (h2 : t.ps.cancelAt = none) :
    match Prog.run (Strict.testConds cfg fuel env cs) s, Prog.run (Lazy.testCondsL cfg fuel ef env cs) t with
    | .ok b s', .ok b' t' => b = b' ∧ s'.graph = t'.graph ∧ s'.rest = s.rest ∧ t'.rest = t.rest
    | .fail _ _, .fail _ _ => True
    | _, _ => False := by
  have h := ClosedAgree.closed_conds_agree cfg fuel ef env cs hc s t hg h1 h2
  cases hr1 : Prog.run (Strict.testConds cfg fuel env cs) s with
  | ok v s' =>
    cases hr2 : Prog.run (Lazy.testCondsL cfg fuel ef env cs) t with
    | ok v' t' =>
      rw [hr1, hr2] at h
      obtain ⟨a, b, c, d, _, _⟩ := (ClosedAgree.agree_ok_ok ..).mp h
      exact ⟨a, b, c, d⟩
    | fail _ _ => rw [hr1, hr2] at h; exact (ClosedAgree.agree_ok_fail _ _ _ _ _ _ h).elim
  | fail _ _ =>
    cases hr2 : Prog.run (Lazy.testCondsL cfg fuel ef env cs) t with
    | ok v' t' => rw [hr1, hr2] at h; exact (ClosedAgree.agree_fail_ok _ _ _ _ _ _ h).elim
    | fail _ _ => trivial

/-- non-vacuity: a nested closed expression with a call that creates a graph node, and enough fuel for it -/
example : ClosedAgree.closedE (.list [.call "node" [], .set [.int 1, .str "a"], .regexCap 0]) = true ∧
    ClosedAgree.depthE (.list [.call "node" [], .set [.int 1, .str "a"], .regexCap 0]) < 3 := by decide

end C02
