/-
  C03 — Each query match runs its stanza exactly once with correctly bound captures.
  Tree-sitter's match lists are inputs (oracle); proved here: what the executors do with them.
-/
import Tsg.Props.C01
import Tsg.Sem.Lazy

namespace C03
open C01

/-- **Strict mode**: one block per (stanza, match), stanzas in file order, matches in order (C01) -/
theorem C03_once_per_match_strict (cfg : Cfg) (fuel : Nat) (l : List (Stanza × List QMatch)) (s : Prog.MSt SRest) :
    Prog.run (Strict.execStanzas cfg fuel l) s =
      Prog.run (seqAll (l.flatMap fun p => p.2.map (Strict.execMatch cfg fuel p.1))) s :=
  C01_blocks_once_per_match_in_order cfg fuel l s

/-- **Lazy mode**: although matches come from one query merged from all stanzas, exactly one block runs per
reported match, for the stanza whose pattern matched (`Lazy.lazyBlockOf`: `pattern_index` selects the stanza),
in the order the merged cursor reports them -/
theorem C03_once_per_match_lazy (cfg : Cfg) (fuel ef : Nat) (stanzas : List Stanza) (merged : List QMatch)
    (s : Prog.MSt LSt) :
    Prog.run (Lazy.execMergedL cfg fuel ef stanzas merged) s =
      Prog.run (seqAll (merged.map (Lazy.lazyBlockOf cfg fuel ef stanzas))) s := by
  induction merged generalizing s with
  | nil => simp [Lazy.execMergedL, seqAll]
  | cons m rest ih =>
    simp only [Lazy.execMergedL, List.map_cons, run_seqAll_cons, Prog.run_bind]
    cases Prog.run (Lazy.lazyBlockOf cfg fuel ef stanzas m) s with
    | ok u s1 => exact ih s1
    | fail e s1 => rfl

/-- the stanza a merged match is executed with is the one at its pattern index -/
theorem C03_pattern_index_selects_stanza (cfg : Cfg) (fuel ef : Nat) (stanzas : List Stanza) (m : QMatch) (st : Stanza)
    (h : stanzas[m.patternIx]? = some st) :
    Lazy.lazyBlockOf cfg fuel ef stanzas m =
      (Prog.pollP "processing matches" >>= fun _ => Lazy.execMatchL cfg fuel ef st m) := by
  simp [Lazy.lazyBlockOf, h]

/-- **Capture values**: a plain capture is the node, `?` the node or null, `*`/`+` the list in the given
(document) order -/
theorem C03_value_shape {ρ : Type} (n : Nat) (ns : List Nat) :
    (Strict.fromNodes .one (n :: ns) : Prog ρ Val) = pure (.syn n) ∧
    (Strict.fromNodes .zeroOrOne [] : Prog ρ Val) = pure .null ∧
    (Strict.fromNodes .zeroOrOne (n :: ns) : Prog ρ Val) = pure (.syn n) ∧
    (Strict.fromNodes .zeroOrMore ns : Prog ρ Val) = pure (.list (ns.map .syn)) ∧
    (Strict.fromNodes .oneOrMore ns : Prog ρ Val) = pure (.list (ns.map .syn)) :=
  C01_capture_values n ns

/-- when a capture that the query reports as occurring once has a node, binding it yields a value -/
theorem C03_binding_total {ρ : Type} (q : Quant) (nodes : List Nat) (hq : q ≠ .zero) (hone : q = .one → nodes ≠ []) :
    ∃ v, (Strict.fromNodes q nodes : Prog ρ Val) = pure v := by
  cases q with
  | zero => exact absurd rfl hq
  | one =>
    cases nodes with
    | nil => exact absurd rfl (hone rfl)
    | cons n ns => exact ⟨_, rfl⟩
  | zeroOrOne => cases nodes <;> exact ⟨_, rfl⟩
  | zeroOrMore => exact ⟨_, rfl⟩
  | oneOrMore => exact ⟨_, rfl⟩

/-- **a capture the match has no node for.** tree-sitter keeps at most three captures per pattern step and drops the others
from every match while its quantifier table still says they occur exactly once. Binding such a capture is the error
`UndefinedCapture` (since the repair of `Capture::evaluate`; it was a panic) — never a value, never a panic; so for EVERY
node list and every quantifier but `Zero` binding ends in a value or in that error. -/
theorem C03_binding_never_panics {ρ : Type} (q : Quant) (nodes : List Nat) (hq : q ≠ .zero) :
    (∃ v, (Strict.fromNodes q nodes : Prog ρ Val) = pure v) ∨
    (q = .one ∧ nodes = [] ∧ (Strict.fromNodes q nodes : Prog ρ Val) = Prog.throwK .undefinedCapture) := by
  cases q with
  | zero => exact absurd rfl hq
  | one =>
    cases nodes with
    | nil => exact Or.inr ⟨rfl, rfl, rfl⟩
    | cons n ns => exact Or.inl ⟨_, rfl⟩
  | zeroOrOne => cases nodes <;> exact Or.inl ⟨_, rfl⟩
  | zeroOrMore => exact Or.inl ⟨_, rfl⟩
  | oneOrMore => exact Or.inl ⟨_, rfl⟩

/-- **No cross-talk.** What `@name` evaluates to in a block depends only on the running stanza's own
capture table (`env.quants`) and the match at hand (`env.mat`) — not on any other stanza, even one that
uses the same capture name with another quantifier or position. Both modes. -/
theorem C03_no_crosstalk (cfg : Cfg) (fuel ef : Nat) (env : Env) (name : String) (q : Quant) (fi si : Nat) (loc : Loc)
    (hq : q ≠ .zero) (q' : Quant) (hown : env.quants.lookup name = some q') :
    Strict.evalExpr cfg fuel env (.capture name q fi si loc) = Strict.fromNodes q' (env.mat.nodes name) ∧
    Lazy.lazyExpr cfg fuel ef env (.capture name q fi si loc) =
      (Strict.fromNodes q' (env.mat.nodes name) >>= fun v => pure (.value v)) := by
  constructor
  · rw [Strict.evalExpr]
    cases q <;> simp_all
    exact hq
  · rw [Lazy.lazyExpr]
    cases q <;> simp_all
    exact hq

/-- capture tables: a name's index in a duplicate-free name table points back at the name, and is the
only index that does (name ↦ index is a bijection onto `0..n`) -/
theorem C03_index_roundtrip (names : List String) (hnd : names.Nodup) (name : String) (i : Nat) :
    names.idxOf? name = some i ↔ names[i]? = some name := by
  induction names generalizing i with
  | nil => simp [List.idxOf?]
  | cons x xs ih =>
    have hx : x ∉ xs := (List.nodup_cons.mp hnd).1
    have hxs : xs.Nodup := (List.nodup_cons.mp hnd).2
    by_cases hxn : x = name
    · subst hxn
      cases i with
      | zero => simp [List.idxOf?, List.findIdx?_cons]
      | succ j =>
        simp only [List.idxOf?, List.findIdx?_cons, beq_self_eq_true, List.getElem?_cons_succ]
        constructor
        · intro h; cases h
        · intro h; exact absurd (List.mem_of_getElem? h) hx
    · have hb : (x == name) = false := by simp [hxn]
      cases i with
      | zero => simp [List.idxOf?, List.findIdx?_cons, hb, hxn]
      | succ j =>
        have := ih hxs j
        simp only [List.idxOf?] at this
        simp only [List.idxOf?, List.findIdx?_cons, hb, List.getElem?_cons_succ]
        rw [← this]
        cases List.findIdx? (fun z => z == name) xs <;> simp

end C03
