/-
  C04 — Scoped variables follow syntax-node identity and inherit only when declared.
  Model: the strict scoped store (`Strict.scopedFrame/scopedAdd/scopedSet/scopedLookup`, keyed by the
  syntax node's identity) and the lazy cell forcing (`Lazy.forcePairs`).
-/
import Tsg.Proofs.Prog
import Tsg.Proofs.Assoc
import Tsg.Sem.Lazy

namespace C04
open Strict

theorem frame_setScoped (s : SRest) (node other : Nat) (f : Frame Val) :
    scopedFrame (setScopedFrame s node f) other = if other = node then f else scopedFrame s other := by
  unfold scopedFrame setScopedFrame
  cases h : s.scopedVars.lookup node with
  | none =>
    simp only [Option.isSome_none, Bool.false_eq_true, if_false, Assoc.lookup_append_single]
    by_cases ho : other = node
    · subst ho; simp [h]
    · simp [ho]
  | some old =>
    simp only [Option.isSome_some, if_true, Assoc.lookup_mapReplace]
    by_cases ho : other = node
    · subst ho; simp [h]
    · simp [ho]

/-- the variables of a node after a successful definition -/
theorem scopedAdd_ok (node : Nat) (name : String) (v : Val) (m : Bool) (s s' : Prog.MSt SRest)
    (h : Prog.run (scopedAdd node name v m) s = .ok () s') :
    (scopedFrame s.rest node).lookup name = none ∧
    s'.rest = setScopedFrame s.rest node (scopedFrame s.rest node ++ [(name, v, m)]) ∧ s'.graph = s.graph := by
  simp only [scopedAdd, Prog.primP, Prog.run, Frames.add] at h
  cases hl : (scopedFrame s.rest node).lookup name with
  | some x => simp [hl] at h
  | none =>
    simp [hl] at h
    subst h
    exact ⟨rfl, rfl, rfl⟩

/-- **Visible on the same node.** After a successful definition of `name` on syntax node `node`, a lookup of
`name` on that node — reached through any stanza, capture or expression that evaluates to it: the store
is keyed by node identity only — returns the value. -/
theorem C04_visible_on_same_node (cfg : Cfg) (node : Nat) (name : String) (v : Val) (m : Bool)
    (s s' : Prog.MSt SRest) (h : Prog.run (scopedAdd node name v m) s = .ok () s') :
    scopedLookup cfg s'.rest node name = some v := by
  obtain ⟨hnone, hrest, _⟩ := scopedAdd_ok node name v m s s' h
  simp only [scopedLookup, hrest, frame_setScoped, if_true, frameGet, Assoc.lookup_append_single, hnone]
  simp

/-- **... and from no other node.** A definition on `node` changes nothing about the variables stored on
any other node (whatever its kind, position or byte range) -/
theorem C04_other_nodes_untouched (node other : Nat) (name : String) (v : Val) (m : Bool)
    (s s' : Prog.MSt SRest) (h : Prog.run (scopedAdd node name v m) s = .ok () s') (hne : other ≠ node) :
    scopedFrame s'.rest other = scopedFrame s.rest other := by
  obtain ⟨_, hrest, _⟩ := scopedAdd_ok node name v m s s' h
  simp [hrest, frame_setScoped, hne]

/-- a lookup on a node lacking the variable fails unless the name is declared `inherit` -/
theorem C04_invisible_without_inherit (cfg : Cfg) (s : SRest) (node : Nat) (name : String)
    (hown : (scopedFrame s node).lookup name = none) (hinh : cfg.inherited.contains name = false) :
    scopedLookup cfg s node name = none := by
  simp only [scopedLookup, frameGet, hown, Option.map_none, hinh]
  rfl

/-- **Inheritance.** For a name declared `inherit`, the lookup returns the node's own value if it has
one, otherwise the value of the nearest ancestor that has one (ancestors nearest first) -/
theorem C04_inherit_nearest (cfg : Cfg) (s : SRest) (node : Nat) (name : String)
    (hinh : cfg.inherited.contains name = true) :
    scopedLookup cfg s node name =
      ((node :: cfg.tree.ancestors node).findSome? fun a => frameGet (scopedFrame s a) name) := by
  simp only [scopedLookup, hinh, if_true, List.findSome?_cons]
  cases frameGet (scopedFrame s node) name <;> rfl

/-- **Duplicate definitions are errors**, never silent overwrites: defining a name that the node already
has fails with `DuplicateVariable` and leaves the stored value as it was -/
theorem C04_duplicate_is_error (node : Nat) (name : String) (v old : Val) (m mo : Bool) (s : Prog.MSt SRest)
    (h : (scopedFrame s.rest node).lookup name = some (old, mo)) :
    ∃ s', Prog.run (scopedAdd node name v m) s = .fail (.err (.base .duplicateVariable "")) s' ∧
      (scopedFrame s'.rest node).lookup name = some (old, mo) := by
  refine ⟨{ s with rest := setScopedFrame s.rest node (scopedFrame s.rest node) }, ?_, ?_⟩
  · simp [scopedAdd, Prog.primP, Prog.run, Frames.add, h]
  · simp [frame_setScoped, h]

/-- lazy mode: when the pairs collected for one name are forced, a second pair whose scope evaluates to
an already seen node fails with `DuplicateVariable` naming both statements -/
theorem C04_lazy_duplicate_is_error (cfg : Cfg) (ef : Nat) (name : String) (node : Nat) (value : LVal)
    (dbg prev : StmtCtx) (rest : List (LVal × LVal × StmtCtx)) (acc : List (Nat × LVal)) (dbgs : List (Nat × StmtCtx))
    (hprev : dbgs.lookup node = some prev) (s : Prog.MSt LSt) (hc : s.ps.cancelAt = none) :
    ∃ s', Prog.run (Lazy.forcePairs cfg (ef + 1) name ((.value (.syn node), value, dbg) :: rest) acc dbgs) s =
      .fail (.err (.inCtx (.stmt [prev, dbg]) (.base .duplicateVariable ""))) s' := by
  refine ⟨{ s with ps := { s.ps with polls := s.ps.polls + 1 } }, ?_⟩
  rw [Lazy.forcePairs]
  simp [Prog.run_bind, Prog.withContext, Prog.run, Lazy.evalL, Prog.pollP, Bind.bind, Prog.bind, hc, Lazy.asSyntaxNodeL, pure,
    hprev, Prog.throwK, Fail.withContext, XErr.withContext]

/-- **lazy inheritance: the nearest definition wins.** Once the definitions of `name` are forced into the map `map`, a
read from `node` returns the node's own value if it has one; otherwise — only for a name declared `inherit` — the value of
the nearest ancestor that has one (ancestors nearest first), whatever order the definitions were collected in; otherwise
the read fails with `UndefinedScopedVariable`. The graph is not touched. -/
theorem C04_lazy_inherit_nearest (cfg : Cfg) (ef node : Nat) (name : String) (map : List (Nat × LVal))
    (s : Prog.MSt LSt) (hcell : s.rest.cells.lookup name = some (.forced map)) :
    ∃ s', s'.graph = s.graph ∧ Prog.run (Lazy.resolveScoped cfg ef node name) s =
      (match (if cfg.inherited.contains name then (node :: cfg.tree.ancestors node).findSome? (fun a => map.lookup a)
              else map.lookup node) with
       | some v => .ok v s'
       | none => .fail (.err (.base .undefinedScopedVariable "")) s') := by
  refine ⟨{ s with rest := Lazy.setCell (Lazy.setCell s.rest name .forcing) name (.forced map) }, rfl, ?_⟩
  rw [Lazy.resolveScoped.eq_def]
  simp only [Prog.getR, Prog.primP, Bind.bind, Prog.bind, Prog.run, hcell]
  rw [Lazy.forceCell.eq_def]
  simp only [Prog.modifyR, Prog.primP, Bind.bind, Prog.bind, Prog.run, Pure.pure]
  cases hown : map.lookup node with
  | some v =>
    simp only [List.findSome?_cons, hown, ite_self]
    rfl
  | none =>
    simp only [List.findSome?_cons, hown]
    by_cases hinh : cfg.inherited.contains name = true
    · simp only [hinh, if_true]
      cases (cfg.tree.ancestors node).findSome? fun a => map.lookup a <;> rfl
    · simp only [hinh]
      rfl
/-- non-vacuity: a definition on a fresh store succeeds (so the hypotheses above are satisfiable) -/
example : ∃ s', Prog.run (scopedAdd 3 "x" (.int 1) false)
      { graph := {}, rest := { locals := [[]], scopedVars := [] }, ps := ⟨0, none⟩ } = .ok () s' := by
  simp [scopedAdd, Prog.primP, Prog.run, Frames.add, scopedFrame]

end C04
