/-
  C05 — No input makes loading, execution or error rendering panic or hang.

  Property theorems only. Models: Tsg/Syntax/Parser.lean, Tsg/Syntax/Checker.lean, Tsg/Syntax/Load.lean (loading);
  Tsg/Sem/Strict.lean, Tsg/Sem/Lazy.lean (execution). Helper lemmas: Tsg/Proofs/ParserSafe.lean (no reachable panic
  leaf in any parser program), Tsg/Proofs/ParserPost.lean (postconditions), Tsg/Proofs/CheckerSafe.lean.

  The models are total Lean functions in which every `unwrap` / `expect` / `unreachable!` / index of the code is an
  explicit outcome `panic site`, and unbounded loops carry fuel with the outcome `outOfFuel`.
  PROVED for every text: loading TERMINATES (the parser never runs out of the fuel `Parser.parse` supplies —
  every loop iteration and every chain of at most four calls consumes a character — and the checker is structurally
  recursive) and never ends in `panic` (C05_loader_total), under tree-sitter's contract that `Query::new` returns and
  that an accepted query text ending in `@__tsg__full_match` has that capture. The contract is not vacuous and not
  redundant: tree-sitter 0.24.7's Rust binding does break its first half (it panics while building the error for a
  query whose error is at offset 0, e.g. `nosuchfield: (identifier) @x { }`); the model has that outcome
  (`QueryAns.bindingPanic`) and the harness records it as a known finding.
  PROVED for the scan loops: every iteration consumes at least one byte or fails (imported from C10).
  NOT a theorem (partial): that the interpreter models never end in `panic` or run out of their fuel (their
  remaining sites — graph and tree indices, frames, the capture quantifier contract — need whole-interpreter
  invariants). This is observed by the correspondence check instead: a model outcome `panic` or `out-of-fuel` on any
  generated case is reported. What no model can exhibit — stack
  exhaustion and aborts of the real process, wall-clock hangs — is decided by the watchdog harness on the real code.
-/
import Tsg.Proofs.ParserPost
import Tsg.Proofs.ParserFuel
import Tsg.Proofs.CheckerSafe
import Tsg.Syntax.Load
import Tsg.Props.C10
import Tsg.Proofs.StrictSafeInterp
import Tsg.Proofs.CheckerResolved
import Tsg.Proofs.ParserUnresolved
import Tsg.Proofs.LazySafeRun
import Tsg.Proofs.ContractsSound
import Tsg.Proofs.StrictFuel

namespace C05
open Parser Checker

/-- **Parsing never panics**: for every text and every behaviour of the outside world that respects the query
contract, the parser's only `expect` cannot fire. -/
theorem C05_parser_never_panics (o : POracle) (text : String) (hc : QueryContract o) (site : String) :
    Parser.parse o text ≠ .error (.panic site) :=
  parse_never_panics o text hc site

/-- the syntactic form of the same fact: no parser program contains a reachable panic leaf -/
theorem C05_parser_programs_safe (o : POracle) (fuel : Nat) (hc : QueryContract o) : PP.Safe (parseFile o fuel) :=
  safe_parseFile o fuel hc

/-- what the checker relies on: every stanza of a parsed file carries the full-match capture -/
theorem C05_parsed_stanzas_have_full_match (o : POracle) (text : String) (f : File) (h : Parser.parse o text = .ok f) :
    ∀ st ∈ f.stanzas, fullMatchName ∈ st.captures.map (·.1) :=
  parse_allFullMatch o text f h

/-- **Checking never panics** on such a file: both `expect`s of checker.rs are unreachable because the merged
query's capture table contains every stanza's captures -/
theorem C05_checker_never_panics (nullable : String → Option Bool) (f : File)
    (hfm : ∀ st ∈ f.stanzas, fullMatchName ∈ st.captures.map (·.1)) (site : String) :
    Checker.check nullable f ≠ .error (.panic site) :=
  check_never_panics nullable f hfm site

/-- **Loading never panics.** `File::from_str` on any text returns a file, a parse error or a check error (or asks
the harness for a missing outside answer; or runs out of the model's fuel — see the header). -/
theorem C05_loader_never_panics (o : POracle) (nullable : String → Option Bool) (text : String)
    (hc : QueryContract o) (site : String) : Loader.load o nullable text ≠ .panic site := by
  unfold Loader.load
  cases hp : Parser.parse o text with
  | error e =>
    cases e with
    | err e => simp
    | need q => cases q <;> simp
    | outOfFuel => simp
    | panic s => exact absurd hp (parse_never_panics o text hc s)
  | ok f =>
    dsimp only
    have hfm := parse_allFullMatch o text f hp
    cases hk : Checker.check nullable f with
    | ok f' => simp
    | error e =>
      cases e with
      | err e => simp
      | needNullable p => simp
      | panic s => exact absurd hk (check_never_panics nullable f hfm s)

/-- **Parsing terminates**: with the fuel `Parser.parse` gives its loops (|text| + 2 for the character loops,
8·(|text| + 2) for the recursive-descent functions and the file loop), the fuel never runs out — for every text
and every behaviour of the outside world. -/
theorem C05_parser_terminates (o : POracle) (text : String) : Parser.parse o text ≠ .error .outOfFuel :=
  parse_never_out_of_fuel o text

/-- **Loading is total.** `File::from_str` on any text ends in one of: a file, a parse error, a check error — or
asks the harness for an outside answer it has not been given yet. It neither panics nor fails to terminate. -/
theorem C05_loader_total (o : POracle) (nullable : String → Option Bool) (text : String) (hc : QueryContract o) :
    (∃ f, Loader.load o nullable text = .loaded f) ∨ (∃ e, Loader.load o nullable text = .parseError e) ∨
    (∃ e, Loader.load o nullable text = .checkError e) ∨ (∃ q, Loader.load o nullable text = .needQuery q) ∨
    (∃ p, Loader.load o nullable text = .needRegex p) ∨ (∃ p, Loader.load o nullable text = .needNullable p) := by
  have hp := C05_loader_never_panics o nullable text hc
  have hf := parse_never_out_of_fuel o text
  unfold Loader.load at hp ⊢
  cases hpr : Parser.parse o text with
  | error e =>
    cases e with
    | err e => simp
    | need q => cases q <;> simp
    | outOfFuel => exact absurd hpr hf
    | panic s => simp only [hpr] at hp; exact absurd rfl (hp s)
  | ok f =>
    simp only [hpr] at hp ⊢
    cases hk : Checker.check nullable f with
    | ok f' => simp
    | error e =>
      cases e with
      | err e => simp
      | needNullable p => simp
      | panic s => simp only [hk] at hp; exact absurd rfl (hp s)

/-- non-vacuity of the contract: an oracle that answers every query with a table containing the capture -/
example : QueryContract { query := fun _ => some (.valid 1 [("x", .one), (fullMatchName, .one)]),
                          regexValid := fun _ => some true, charClass := fun _ => (false, false, false), fuel := 0 } := by
  refine ⟨?_, ?_⟩
  · intro q p caps h
    simp only [Option.some.injEq, QueryAns.valid.injEq] at h
    obtain ⟨_, rfl⟩ := h
    simp [List.findIdx?, List.findIdx?.go, fullMatchName]
  · intro q h
    simp at h

/-- an oracle that behaves like the binding of tree-sitter 0.24.7 on a query whose error is at offset 0 -/
def panickingOracle : POracle :=
  { query := fun _ => some .bindingPanic, regexValid := fun _ => some true, charClass := fun _ => (false, false, false), fuel := 0 }

/-- … makes loading end in `panic`: this is the known finding (the implementation panics on `nosuchfield: (x) { }`) -/
example : (match Loader.load panickingOracle (fun _ => some false) "f:(m){}" with | .panic _ => true | _ => false) = true := by rfl

/-- an oracle that breaks the contract -/
def badOracle : POracle :=
  { query := fun _ => some (.valid 1 []), regexValid := fun _ => some true, charClass := fun _ => (false, false, false), fuel := 0 }

/-- the contract is needed: with an oracle that breaks it, the model does reach the panic site (so the site is real) -/
example : (match Parser.parse badOracle "(m){}" with | .error (.panic _) => true | _ => false) = true := by rfl

/-- **scan loops cannot spin**: the match chosen in an iteration ends strictly after the iteration's offset, or the
iteration fails with EmptyRegexCapture (C10) -/
theorem C05_scan_always_advances (o : Oracle) (subject : String) (i : Nat) (arms : List (String × List Stmt × Loc))
    (ms : List (RMatch × Nat)) (m : RMatch) (k : Nat)
    (hc : Strict.scanCollect o subject i arms 0 = .ok ms) (hb : Strict.scanBest ms = some (m, k)) : i < i + m.stop :=
  C10.C10_always_advances o subject i arms ms m k hc hb

/-! ### execution: panic sites that are unreachable whatever the input

Of the panic sites of the interpreters' model, two are unreachable unconditionally: the `arms[index]` of the scan
loops (`C10.C10_plan_no_bad_arm`: the selected index is the index of one of the arms) and the single-map shape of a
scope's variables. The others are reachable only if a contract outside the interpreter is broken (tree-sitter
returns captures that respect their quantifiers and a full-match node that is in the tree; the checker has resolved
every capture; graph-node values refer to nodes of the graph) — they are exercised by the watchdog run, not proved. -/


theorem frames_add_singleton {V : Type} (f : Frame V) (k : String) (v : V) (m : Bool) :
    (∃ f', Frames.add [f] k v m = .ok [f']) ∨ (∃ e, Frames.add [f] k v m = .error e) := by
  unfold Frames.add
  cases h : f.lookup k <;> simp [h]

theorem frames_set_singleton {V : Type} (f : Frame V) (k : String) (v : V) :
    (∃ f', Frames.set [f] k v = .ok [f']) ∨ (∃ e, Frames.set [f] k v = .error e) := by
  unfold Frames.set
  cases h : f.lookup k with
  | none => simp [Frames.set, h]
  | some p =>
    obtain ⟨x, b⟩ := p
    cases b <;> simp [h]

/-- the `scoped:frames` site of `Strict.scopedAdd` / `Strict.scopedSet` (a scope's variable map is a single map) is unreachable -/
theorem C05_scoped_store_never_panics (node : Nat) (name : String) (v : Val) (mutable : Bool) (s : Prog.MSt SRest) (site : String) :
    (∀ s', Prog.run (Strict.scopedAdd node name v mutable) s ≠ .fail (.panic site) s') ∧
    (∀ s', Prog.run (Strict.scopedSet node name v) s ≠ .fail (.panic site) s') := by
  constructor
  · intro s'
    simp only [Strict.scopedAdd, Prog.primP, Prog.run]
    rcases frames_add_singleton (Strict.scopedFrame s.rest node) name v mutable with ⟨f', h⟩ | ⟨e, h⟩ <;> simp [h]
  · intro s'
    simp only [Strict.scopedSet, Prog.primP, Prog.run]
    rcases frames_set_singleton (Strict.scopedFrame s.rest node) name v with ⟨f', h⟩ | ⟨e, h⟩ <;> simp [h]

/-- the scan loops never index outside their arms (restated from C10) -/
theorem C05_scan_arm_index_in_range (o : Oracle) (subject : String) (arms : List (String × List Stmt × Loc)) (n i : Nat) :
    ¬ (C10.scanPlan o subject arms n i).HasBadArm :=
  C10.C10_plan_no_bad_arm o subject arms n i

/-! ### strict execution never panics

Every `unwrap` / `expect` / `unreachable!` / index of the strict interpreter is an explicit `panic site` outcome of its
model (`Tsg/Sem/Strict.lean`, `Stdlib.lean`): `from_nodes` on a quantifier/capture mismatch, an unresolved capture, a
graph index out of range, the single-map shape of a scope's variables, the scan arm index, the full-match node missing
from the tree, a source slice off a character boundary. None is reachable — under the contracts of what the interpreter
is given. The proof (Tsg/Proofs/StrictSafe.lean, StrictSafeInterp.lean) is a Hoare-style safety predicate on programs
with the invariant "every graph-node value held in a variable, a scoped variable or a global refers to a node of the
graph", one lemma per program former, per state/graph primitive, per library function and per interpreter function. -/

/-- **Strict execution never reaches a panic site.** -/
theorem C05_strict_never_panics (file : File) (tree : Tree) (oracle : Oracle) (globals : GlobalsM) (la va ma : Option String)
    (cancelAt : Option Nat) (fuel : Nat) (ms : List (List QMatch)) (g0 : CGraph)
    (ht : StrictSafe.TreeOK tree) (hg : StrictSafe.GlobalsWf g0.nodes.length globals)
    (hsh : ∀ sh ∈ file.shorthands, StrictSafe.attrsCaps sh.attrs = [])
    (hst : ∀ p ∈ file.stanzas.zip ms, StrictSafe.StanzaOK p.1 ∧ ∀ m ∈ p.2, StrictSafe.MatchOK tree p.1 m) :
    ∀ site, (Strict.run file tree oracle globals la va ma cancelAt fuel ms g0).outcome ≠ some (.panic site) :=
  StrictSafe.strict_never_panics file tree oracle globals la va ma cancelAt fuel ms g0 ht hg hsh hst

/-- the contracts are satisfiable by a non-trivial stanza and match: a stanza `(…) @x { node n  attr (n) k = @x }` whose
query reports `@x` once, matched at a node of the tree -/
example (tree : Tree) (nd : TNode) (h0 : tree.node? 0 = some nd) :
    let st : Stanza := { stmts := [.createNode (.unscoped "n" ⟨0, 0⟩) ⟨0, 0⟩,
                                   .attrNode (.var "n" ⟨0, 0⟩) [("k", .capture "x" .one 0 0 ⟨0, 0⟩)] ⟨0, 0⟩],
                         fullMatchStanzaIx := 1, fullMatchFileIx := 1, rangeStart := ⟨0, 0⟩, rangeEnd := ⟨0, 0⟩,
                         captures := [("x", .one), (fullMatchName, .one)] }
    let m : QMatch := { patternIx := 0, caps := [("x", [0]), (fullMatchName, [0])] }
    StrictSafe.StanzaOK st ∧ StrictSafe.MatchOK tree st m := by
  intro st m
  constructor
  · intro name hn
    simp [st, StrictSafe.stmtsCaps, StrictSafe.stmtCaps, StrictSafe.exprCaps, StrictSafe.attrsCaps, StrictSafe.varCaps] at hn
    subst hn
    simp [st, List.lookup]
  · constructor
    · intro name q hl
      simp only [st, List.lookup] at hl
      split at hl
      · rename_i hx
        cases hl
        decide
      · rename_i hx
        split at hl
        · rename_i hf
          cases hl
          decide
        · cases hl
    · intro n rest hmn
      simp [m, QMatch.nodes, List.lookup, fullMatchName] at hmn
      obtain ⟨rfl, _⟩ := hmn
      simp [h0]

/-- the checker's half of the contract is a theorem: every stanza of a file the checker accepts mentions only captures
of its own query, and the checker leaves the shorthands as parsed -/
theorem C05_checked_stanzas_resolved (nullable : String → Option Bool) (f f' : File) (h : Checker.check nullable f = .ok f') :
    (∀ st ∈ f'.stanzas, StrictSafe.StanzaOK st) ∧ f'.shorthands = f.shorthands :=
  Checker.check_stanzasOK nullable f f' h

/-- the parser's half: no attribute shorthand of a parsed file carries a resolved capture -/
theorem C05_parsed_shorthands_unresolved (o : POracle) (text : String) (f : File) (h : Parser.parse o text = .ok f) :
    ∀ sh ∈ f.shorthands, StrictSafe.attrsCaps sh.attrs = [] :=
  Parser.parse_shorthandsUnresolved o text f h

/-- **Load, then execute strictly: no panic.** For EVERY text: if loading it (parser, then checker) yields a file, then
executing that file strictly never reaches a panic site — for every tree, oracle, globals, cancellation flag, fuel and
initial graph — under tree-sitter's contracts only (source slices, no capture with quantifier `Zero`, the full-match node is a
node of the tree; NOT that a capture reported as occurring once has a node — tree-sitter breaks that for a fourth capture
on one pattern step, and since the repair of `Capture::evaluate` that case is an error, not a panic) and the caller's (graph-node globals belong to the initial graph). -/
theorem C05_load_then_strict_never_panics (o : POracle) (nullable : String → Option Bool) (text : String) (file : File)
    (hload : Loader.load o nullable text = .loaded file)
    (tree : Tree) (oracle : Oracle) (globals : GlobalsM) (la va ma : Option String)
    (cancelAt : Option Nat) (fuel : Nat) (ms : List (List QMatch)) (g0 : CGraph)
    (ht : StrictSafe.TreeOK tree) (hg : StrictSafe.GlobalsWf g0.nodes.length globals)
    (hms : ∀ p ∈ file.stanzas.zip ms, ∀ m ∈ p.2, StrictSafe.MatchOK tree p.1 m) :
    ∀ site, (Strict.run file tree oracle globals la va ma cancelAt fuel ms g0).outcome ≠ some (.panic site) := by
  -- unfold the loader: parse ok, check ok
  unfold Loader.load at hload
  cases hp : Parser.parse o text with
  | error e =>
    rw [hp] at hload
    cases e with
    | err k => cases hload
    | need q => cases q <;> cases hload
    | outOfFuel => cases hload
    | panic st => cases hload
  | ok f0 =>
    rw [hp] at hload
    simp only at hload
    cases hc : Checker.check nullable f0 with
    | error e => rw [hc] at hload; cases e <;> cases hload
    | ok f1 =>
      rw [hc] at hload
      simp only [LoadResult.loaded.injEq] at hload
      subst hload
      obtain ⟨hst, hsh⟩ := Checker.check_stanzasOK nullable f0 f1 hc
      have hshort : ∀ sh ∈ f1.shorthands, StrictSafe.attrsCaps sh.attrs = [] := by
        rw [hsh]; exact Parser.parse_shorthandsUnresolved o text f0 hp
      exact StrictSafe.strict_never_panics f1 tree oracle globals la va ma cancelAt fuel ms g0 ht hg hshort
        (fun p hp' => ⟨hst p.1 (List.of_mem_zip hp').1, hms p hp'⟩)

/-- **Lazy execution never reaches a panic site** (both phases: building the lazy graph from the matches of the merged
query, then evaluating the queued statements and forcing every thunk and scoped-variable cell) — for every file, tree,
oracle, globals, cancellation flag, fuels and initial graph, under the same explicit contracts as the strict theorem, with
`MergedOK` in place of `MatchOK`: the pattern index of a match of the merged query is the index of a stanza. The invariant
is that every graph-node value and every thunk location held anywhere in the lazy state is in range. -/
theorem C05_lazy_never_panics (file : File) (tree : Tree) (oracle : Oracle) (globals : GlobalsM) (la va ma : Option String)
    (cancelAt : Option Nat) (fuel ef : Nat) (merged : List QMatch) (g0 : CGraph)
    (ht : StrictSafe.TreeOK tree) (hg : StrictSafe.GlobalsWf g0.nodes.length globals)
    (hsh : ∀ sh ∈ file.shorthands, StrictSafe.attrsCaps sh.attrs = [])
    (hst : ∀ st ∈ file.stanzas, StrictSafe.StanzaOK st) (hm : ∀ m ∈ merged, LazySafe.MergedOK tree file.stanzas m) :
    ∀ site, (Lazy.run file tree oracle globals la va ma cancelAt fuel ef merged g0).outcome ≠ some (.panic site) :=
  LazySafe.lazy_never_panics file tree oracle globals la va ma cancelAt fuel ef merged g0 ht hg hsh hst hm

/-- the merged-query contract is satisfiable: the stanza and match of the example above, as the only stanza of a file -/
example (tree : Tree) (st : Stanza) (m : QMatch) (hm : StrictSafe.MatchOK tree st m) (hix : m.patternIx = 0) :
    LazySafe.MergedOK tree [st] m := ⟨st, by rw [hix]; rfl, hm⟩

/-- **Load, then execute lazily: no panic.** For EVERY text: if loading it yields a file, executing that file lazily never
reaches a panic site, under tree-sitter's contracts only and the caller's (graph-node globals belong to the initial graph). -/
theorem C05_load_then_lazy_never_panics (o : POracle) (nullable : String → Option Bool) (text : String) (file : File)
    (hload : Loader.load o nullable text = .loaded file)
    (tree : Tree) (oracle : Oracle) (globals : GlobalsM) (la va ma : Option String)
    (cancelAt : Option Nat) (fuel ef : Nat) (merged : List QMatch) (g0 : CGraph)
    (ht : StrictSafe.TreeOK tree) (hg : StrictSafe.GlobalsWf g0.nodes.length globals)
    (hm : ∀ m ∈ merged, LazySafe.MergedOK tree file.stanzas m) :
    ∀ site, (Lazy.run file tree oracle globals la va ma cancelAt fuel ef merged g0).outcome ≠ some (.panic site) := by
  unfold Loader.load at hload
  cases hp : Parser.parse o text with
  | error e =>
    rw [hp] at hload
    cases e with
    | err k => cases hload
    | need q => cases q <;> cases hload
    | outOfFuel => cases hload
    | panic st => cases hload
  | ok f0 =>
    rw [hp] at hload
    simp only at hload
    cases hc : Checker.check nullable f0 with
    | error e => rw [hc] at hload; cases e <;> cases hload
    | ok f1 =>
      rw [hc] at hload
      simp only [LoadResult.loaded.injEq] at hload
      subst hload
      obtain ⟨hst, hsh⟩ := Checker.check_stanzasOK nullable f0 f1 hc
      have hshort : ∀ sh ∈ f1.shorthands, StrictSafe.attrsCaps sh.attrs = [] := by
        rw [hsh]; exact Parser.parse_shorthandsUnresolved o text f0 hp
      exact LazySafe.lazy_never_panics f1 tree oracle globals la va ma cancelAt fuel ef merged g0 ht hg hshort hst hm

/-- **The contracts are executable.** The hypotheses of the two theorems above about what the interpreters are given
(sliceable byte ranges, graph-node globals inside the initial graph, matches that respect the quantifiers and carry a
full-match node of the tree, pattern indices that are stanza indices) are implied by four Boolean checks
(`Sem/Contracts.lean`), which the driver evaluates on every execution request of the correspondence runs: the evidence
records on how many executed cases they held, i.e. on how many cases these theorems applied to the real inputs. -/
theorem C05_checked_inputs_never_panic (o : POracle) (nullable : String → Option Bool) (text : String) (file : File)
    (hload : Loader.load o nullable text = .loaded file)
    (tree : Tree) (oracle : Oracle) (globals : GlobalsM) (la va ma : Option String)
    (cancelAt : Option Nat) (fuel ef : Nat) (ms : List (List QMatch)) (merged : List QMatch) (g0 : CGraph)
    (ht : Contracts.treeOKB tree = true) (hg : Contracts.globalsWfB g0.nodes.length globals = true)
    (hms : Contracts.strictMatchesOKB tree file.stanzas ms = true)
    (hm : Contracts.mergedAllOKB tree file.stanzas merged = true) (site : String) :
    (Strict.run file tree oracle globals la va ma cancelAt fuel ms g0).outcome ≠ some (.panic site) ∧
    (Lazy.run file tree oracle globals la va ma cancelAt fuel ef merged g0).outcome ≠ some (.panic site) :=
  ⟨C05_load_then_strict_never_panics o nullable text file hload tree oracle globals la va ma cancelAt fuel ms g0
      (Contracts.treeOKB_sound tree ht) (Contracts.globalsWfB_sound _ _ hg) (Contracts.strictMatchesOKB_sound tree _ ms hms) site,
   C05_load_then_lazy_never_panics o nullable text file hload tree oracle globals la va ma cancelAt fuel ef merged g0
      (Contracts.treeOKB_sound tree ht) (Contracts.globalsWfB_sound _ _ hg) (Contracts.mergedAllOKB_sound tree _ merged hm) site⟩

/-- **Strict execution terminates** on files whose attribute shorthands are not cyclic. The only recursion of the strict
interpreter that is not structural (on the syntax, on a list of values, on the bytes left to scan) is the expansion of
a shorthand inside a shorthand, and the model bounds its depth by `fuel`. If some rank on shorthand names decreases from
every shorthand to the shorthands its body mentions, a fuel above all ranks is never exhausted — whatever the tree,
oracle, globals, debug configuration, cancellation flag, matches and initial graph. (Cyclic shorthands admit no such
rank; on them the real interpreter overflows its stack: the known finding of this property.) -/
theorem C05_strict_terminates (file : File) (tree : Tree) (oracle : Oracle) (globals : GlobalsM) (la va ma : Option String)
    (cancelAt : Option Nat) (fuel : Nat) (ms : List (List QMatch)) (g0 : CGraph) (r : String → Nat)
    (hr : ∀ sh ∈ file.shorthands, ∀ a ∈ sh.attrs, ∀ sh', file.shorthands.find? (·.name = a.1) = some sh' → r sh'.name < r sh.name)
    (hall : ∀ sh ∈ file.shorthands, r sh.name < fuel) :
    (Strict.run file tree oracle globals la va ma cancelAt fuel ms g0).outcome ≠ some .outOfFuel :=
  StrictFuel.strict_never_out_of_fuel file tree oracle globals la va ma cancelAt fuel ms g0 r hr hall

/-- the rank hypothesis is satisfiable by nested shorthands (`attribute sh1 = p => shk = p` /
`attribute sh2 = q => sh1 = q, shq`, the shapes the generators use), and not by a shorthand that mentions itself -/
example : ∃ r : String → Nat,
    let shs : List Shorthand := [{ name := "sh1", var := "p", varLoc := ⟨0, 0⟩, attrs := [("shk", .var "p" ⟨0, 0⟩)], loc := ⟨0, 0⟩ },
                                 { name := "sh2", var := "q", varLoc := ⟨0, 0⟩, attrs := [("sh1", .var "q" ⟨0, 0⟩), ("shq", .trueLit)], loc := ⟨0, 0⟩ }]
    (∀ sh ∈ shs, ∀ a ∈ sh.attrs, ∀ sh', shs.find? (·.name = a.1) = some sh' → r sh'.name < r sh.name) ∧ ∀ sh ∈ shs, r sh.name < 2 := by
  refine ⟨fun n => if n = "sh2" then 1 else 0, ?_⟩
  intro shs
  constructor
  · intro sh hsh a ha sh' hf
    simp only [shs, List.mem_cons, List.mem_nil_iff, or_false] at hsh
    rcases hsh with rfl | rfl
    · simp only [List.mem_cons, List.mem_nil_iff, or_false] at ha
      subst ha
      simp [shs, List.find?] at hf
    · simp only [List.mem_cons, List.mem_nil_iff, or_false] at ha
      rcases ha with rfl | rfl
      · simp [shs, List.find?] at hf
        subst hf
        simp
      · simp [shs, List.find?] at hf
  · intro sh hsh
    simp only [shs, List.mem_cons, List.mem_nil_iff, or_false] at hsh
    rcases hsh with rfl | rfl <;> simp

example (r : String → Nat) (sh : Shorthand) (hself : ("self", Expr.trueLit) ∈ sh.attrs) (hname : sh.name = "self") :
    ¬ (∀ s ∈ [sh], ∀ a ∈ s.attrs, ∀ s', [sh].find? (·.name = a.1) = some s' → r s'.name < r s.name) := by
  intro h
  have := h sh (by simp) ("self", .trueLit) hself sh (by simp [List.find?, hname])
  omega

end C05
