/-
  C05 — No input makes loading, execution or error rendering panic or hang.

  Property theorems only. Models: Tsg/Syntax/Parser.lean, Tsg/Syntax/Checker.lean, Tsg/Syntax/Load.lean (loading);
  Tsg/Sem/Strict.lean, Tsg/Sem/Lazy.lean (execution). Helper lemmas: Tsg/Proofs/ParserSafe.lean (no reachable panic
  leaf in any parser program), Tsg/Proofs/ParserPost.lean (postconditions), Tsg/Proofs/CheckerSafe.lean.

  The models are total Lean functions in which every `unwrap` / `expect` / `unreachable!` / index of the code is an
  explicit outcome `panic site`, and unbounded loops carry fuel with the outcome `outOfFuel`.
  PROVED for every text: loading TERMINATES (the parser never runs out of the fuel `Parser.parse` supplies —
  every loop iteration and every chain of at most four calls consumes a character — and the checker is structurally
  recursive) and never ends in `panic` (C05_loader_total), under tree-sitter's contract that `Query::new` returns and
  that an accepted query text ending in `@__tsg__full_match` has that capture. The contract is not vacuous and not
  redundant: tree-sitter 0.24.7's Rust binding does break its first half (it panics while building the error for a
  query whose error is at offset 0, e.g. `nosuchfield: (identifier) @x { }`); the model has that outcome
  (`QueryAns.bindingPanic`) and the harness records it as a known finding.
  PROVED for the scan loops: every iteration consumes at least one byte or fails (imported from C10).
  NOT a theorem (partial): that the interpreter models never end in `panic` or run out of their fuel (their
  remaining sites — graph and tree indices, frames, the capture quantifier contract — need whole-interpreter
  invariants). This is observed by the correspondence check instead: a model outcome `panic` or `out-of-fuel` on any
  generated case is reported. What no model can exhibit — stack
  exhaustion and aborts of the real process, wall-clock hangs — is decided by the watchdog harness on the real code.
-/
import Tsg.Proofs.ParserPost
import Tsg.Proofs.ParserFuel
import Tsg.Proofs.CheckerSafe
import Tsg.Syntax.Load
import Tsg.Props.C10

namespace C05
open Parser Checker

/-- **Parsing never panics**: for every text and every behaviour of the outside world that respects the query
contract, the parser's only `expect` cannot fire. -/
theorem C05_parser_never_panics (o : POracle) (text : String) (hc : QueryContract o) (site : String) :
    Parser.parse o text ≠ .error (.panic site) :=
  parse_never_panics o text hc site

/-- the syntactic form of the same fact: no parser program contains a reachable panic leaf -/
theorem C05_parser_programs_safe (o : POracle) (fuel : Nat) (hc : QueryContract o) : PP.Safe (parseFile o fuel) :=
  safe_parseFile o fuel hc

/-- what the checker relies on: every stanza of a parsed file carries the full-match capture -/
theorem C05_parsed_stanzas_have_full_match (o : POracle) (text : String) (f : File) (h : Parser.parse o text = .ok f) :
    ∀ st ∈ f.stanzas, fullMatchName ∈ st.captures.map (·.1) :=
  parse_allFullMatch o text f h

/-- **Checking never panics** on such a file: both `expect`s of checker.rs are unreachable because the merged
query's capture table contains every stanza's captures -/
theorem C05_checker_never_panics (nullable : String → Option Bool) (f : File)
    (hfm : ∀ st ∈ f.stanzas, fullMatchName ∈ st.captures.map (·.1)) (site : String) :
    Checker.check nullable f ≠ .error (.panic site) :=
  check_never_panics nullable f hfm site

/-- **Loading never panics.** `File::from_str` on any text returns a file, a parse error or a check error (or asks
the harness for a missing outside answer; or runs out of the model's fuel — see the header). -/
theorem C05_loader_never_panics (o : POracle) (nullable : String → Option Bool) (text : String)
    (hc : QueryContract o) (site : String) : Loader.load o nullable text ≠ .panic site := by
  unfold Loader.load
  cases hp : Parser.parse o text with
  | error e =>
    cases e with
    | err e => simp
    | need q => cases q <;> simp
    | outOfFuel => simp
    | panic s => exact absurd hp (parse_never_panics o text hc s)
  | ok f =>
    dsimp only
    have hfm := parse_allFullMatch o text f hp
    cases hk : Checker.check nullable f with
    | ok f' => simp
    | error e =>
      cases e with
      | err e => simp
      | needNullable p => simp
      | panic s => exact absurd hk (check_never_panics nullable f hfm s)

/-- **Parsing terminates**: with the fuel `Parser.parse` gives its loops (|text| + 2 for the character loops,
8·(|text| + 2) for the recursive-descent functions and the file loop), the fuel never runs out — for every text
and every behaviour of the outside world. -/
theorem C05_parser_terminates (o : POracle) (text : String) : Parser.parse o text ≠ .error .outOfFuel :=
  parse_never_out_of_fuel o text

/-- **Loading is total.** `File::from_str` on any text ends in one of: a file, a parse error, a check error — or
asks the harness for an outside answer it has not been given yet. It neither panics nor fails to terminate. -/
theorem C05_loader_total (o : POracle) (nullable : String → Option Bool) (text : String) (hc : QueryContract o) :
    (∃ f, Loader.load o nullable text = .loaded f) ∨ (∃ e, Loader.load o nullable text = .parseError e) ∨
    (∃ e, Loader.load o nullable text = .checkError e) ∨ (∃ q, Loader.load o nullable text = .needQuery q) ∨
    (∃ p, Loader.load o nullable text = .needRegex p) ∨ (∃ p, Loader.load o nullable text = .needNullable p) := by
  have hp := C05_loader_never_panics o nullable text hc
  have hf := parse_never_out_of_fuel o text
  unfold Loader.load at hp ⊢
  cases hpr : Parser.parse o text with
  | error e =>
    cases e with
    | err e => simp
    | need q => cases q <;> simp
    | outOfFuel => exact absurd hpr hf
    | panic s => simp only [hpr] at hp; exact absurd rfl (hp s)
  | ok f =>
    simp only [hpr] at hp ⊢
    cases hk : Checker.check nullable f with
    | ok f' => simp
    | error e =>
      cases e with
      | err e => simp
      | needNullable p => simp
      | panic s => simp only [hk] at hp; exact absurd rfl (hp s)

/-- non-vacuity of the contract: an oracle that answers every query with a table containing the capture -/
example : QueryContract { query := fun _ => some (.valid 1 [("x", .one), (fullMatchName, .one)]),
                          regexValid := fun _ => some true, charClass := fun _ => (false, false, false), fuel := 0 } := by
  refine ⟨?_, ?_⟩
  · intro q p caps h
    simp only [Option.some.injEq, QueryAns.valid.injEq] at h
    obtain ⟨_, rfl⟩ := h
    simp [List.findIdx?, List.findIdx?.go, fullMatchName]
  · intro q h
    simp at h

/-- an oracle that behaves like the binding of tree-sitter 0.24.7 on a query whose error is at offset 0 -/
def panickingOracle : POracle :=
  { query := fun _ => some .bindingPanic, regexValid := fun _ => some true, charClass := fun _ => (false, false, false), fuel := 0 }

/-- … makes loading end in `panic`: this is the known finding (the implementation panics on `nosuchfield: (x) { }`) -/
example : (match Loader.load panickingOracle (fun _ => some false) "f:(m){}" with | .panic _ => true | _ => false) = true := by rfl

/-- an oracle that breaks the contract -/
def badOracle : POracle :=
  { query := fun _ => some (.valid 1 []), regexValid := fun _ => some true, charClass := fun _ => (false, false, false), fuel := 0 }

/-- the contract is needed: with an oracle that breaks it, the model does reach the panic site (so the site is real) -/
example : (match Parser.parse badOracle "(m){}" with | .error (.panic _) => true | _ => false) = true := by rfl

/-- **scan loops cannot spin**: the match chosen in an iteration ends strictly after the iteration's offset, or the
iteration fails with EmptyRegexCapture (C10) -/
theorem C05_scan_always_advances (o : Oracle) (subject : String) (i : Nat) (arms : List (String × List Stmt × Loc))
    (ms : List (RMatch × Nat)) (m : RMatch) (k : Nat)
    (hc : Strict.scanCollect o subject i arms 0 = .ok ms) (hb : Strict.scanBest ms = some (m, k)) : i < i + m.stop :=
  C10.C10_always_advances o subject i arms ms m k hc hb

end C05
