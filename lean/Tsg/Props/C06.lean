/-
  C06 — The static checker rejects exactly the programs that break a documented rule.

  Property theorems only. Model: Tsg/Syntax/Checker.lean (checker.rs + the VariableMap of variables.rs);
  helper lemmas: Tsg/Proofs/Checker.lean, Tsg/Proofs/CheckerStmt.lean.

  The property is a conjunction of rules; each rule is stated here as the exact decision the checker takes, for
  ALL programs, scopes and nesting depths:
    * variable environment: redefinition only within the same block, shadowing of enclosing blocks allowed,
      assignment decided by the nearest declaration, globals can be neither hidden nor assigned, undefined = not
      declared in any open block; blocks are properly nested (names of a closed block are gone)    (C06_env_*, C06_block_*)
    * locality: an expression is local exactly when it mentions no scoped variable and no variable recorded as
      non-local — through every expression form; mutable and assigned variables are never local       (C06_local_*)
    * sources of scan / if / for / comprehensions must be local, of for / comprehensions list-shaped, of some/none
      optional — in this order, reported at the construct's location                                   (C06_rule_*)
    * captures: an unknown capture is rejected; the used captures of a stanza are exactly the captures written in
      it; the unused-capture report is exactly the non-underscore captures never written, sorted       (C06_capture_*)
    * globals: duplicate declarations are rejected at the second occurrence; nullable regexes are rejected.
  Not a theorem: one closed-form well-formedness judgment equivalent to `check` on whole files. The conjunction above
  is tied to the code by the correspondence check (resolved AST or error variant + location on generated programs
  with one injected violation per catalogue entry, position, nesting and embedding).
-/
import Tsg.Proofs.CheckerStmt

namespace C06
open Checker

/-! ### variable environment -/

/-- **Redefinition** is an error exactly when the innermost open block already declares the name. -/
theorem C06_env_redefinition (sc : Scope) (rest : Scopes) (name : String) (v : VRes) (m : Bool) :
    scopesAdd (sc :: rest) name v m = .error .alreadyDefined ↔ name ∈ keys sc := by
  rw [← scopesAdd_error_iff sc rest name v m]
  constructor
  · intro h; exact ⟨_, h⟩
  · intro ⟨e, h⟩
    rw [scopesAdd_error_kind _ _ _ _ e (by simp) h] at h
    exact h

/-- **Shadowing** an enclosing block's variable from a nested block is allowed -/
theorem C06_env_shadowing_allowed (sc : Scopes) (name : String) (v : VRes) (m : Bool) :
    ∃ sc', scopesAdd ([] :: sc) name v m = .ok sc' ∧ scopesGet sc' name = some v := by
  refine ⟨[(name, { res := v, mutable := m })] :: sc, by simp [scopesAdd, List.lookup], by simp [scopesGet, List.lookup]⟩

/-- **Assignment** is decided by the nearest declaration of the name -/
theorem C06_env_assignment (scs : Scopes) (name : String) (v : VRes) :
    match nearestMutable scs name with
    | none => scopesSet scs name v = .error .undefined
    | some false => scopesSet scs name v = .error .cannotAssignImmutable
    | some true => ∃ scs', scopesSet scs name v = .ok scs' ∧ scopesGet scs' name = some v ∧ shape scs' = shape scs := by
  have h := scopesSet_outcome scs name v
  cases hn : nearestMutable scs name with
  | none => simpa [hn] using h
  | some b =>
    cases b with
    | false => simpa [hn] using h
    | true =>
      simp only [hn] at h
      obtain ⟨scs', hs⟩ := h
      exact ⟨scs', hs, scopesGet_set _ _ _ _ hs, shape_set _ _ _ _ hs⟩

/-- **Globals cannot be hidden**: any declaration (let / var / node / loop or comprehension variable) of a global's
name is rejected, whatever the scopes -/
theorem C06_env_cannot_hide_global (c : CCtx) (sc : Scopes) (name : String) (l : Loc) (v : VRes) (m : Bool)
    (hg : (c.globals.lookup name).isSome) :
    unscopedAdd c sc name l v m = .error (.err (.cannotHideGlobalVariable name l)) := by
  simp [unscopedAdd, hg, errC]

/-- **Globals cannot be assigned** -/
theorem C06_env_cannot_set_global (c : CCtx) (sc : Scopes) (name : String) (l : Loc) (v : VRes)
    (hg : (c.globals.lookup name).isSome) :
    unscopedSet c sc name l v = .error (.err (.cannotSetGlobalVariable name l)) := by
  simp [unscopedSet, hg, errC]

/-- a variable reference is **undefined** exactly when the name is neither a global nor declared in an open block -/
theorem C06_env_undefined_variable (c : CCtx) (sc : Scopes) (name : String) (l : Loc) :
    unscopedGet c sc name l = .error (.err (.undefinedVariable name l)) ↔
      c.globals.lookup name = none ∧ scopesGet sc name = none := by
  simp only [unscopedGet]
  cases hg : c.globals.lookup name with
  | some v => simp
  | none =>
    cases hs : scopesGet sc name with
    | some v => simp
    | none => simp [errC]

/-- a name is found exactly when some open block declares it -/
theorem C06_env_lookup_iff_declared (sc : Scopes) (name : String) :
    (scopesGet sc name).isSome ↔ ∃ ks ∈ shape sc, name ∈ ks := by
  induction sc with
  | nil => simp [scopesGet, shape]
  | cons s rest ih =>
    simp only [scopesGet, shape, List.map_cons, List.mem_cons, exists_eq_or_imp]
    cases hl : s.lookup name with
    | some v =>
      have : name ∈ keys s := (lookup_isSome_iff_mem_keys s name).mp (by simp [hl])
      simp [this]
    | none =>
      have : name ∉ keys s := fun hm => by
        have := (lookup_isSome_iff_mem_keys s name).mpr hm
        simp [hl] at this
      simp only [this, false_or]
      simpa [shape] using ih

/-- **Blocks are properly nested**: checking a statement only adds names to the innermost open block … -/
theorem C06_block_statement_grows (c : CCtx) (sc sc' : Scopes) (s s' : Stmt) (u : List String) (hne : sc ≠ [])
    (h : checkStmt c sc s = .ok (s', sc', u)) : Grows (shape sc) (shape sc') :=
  (checkStmt_spec c sc sc' s s' u hne h).2

/-- … and after an `if`, `scan` or `for` statement the declared names are exactly those before it: whatever its
nested blocks declared is out of scope again -/
theorem C06_block_names_gone_after_if (c : CCtx) (sc sc' : Scopes) (arms : List (List Cond × List Stmt × Loc)) (l : Loc)
    (s' : Stmt) (u : List String) (hne : sc ≠ []) (h : checkStmt c sc (.ifS arms l) = .ok (s', sc', u)) :
    shape sc' = shape sc := by
  simp only [checkStmt] at h
  cases ha : checkIfArms c sc arms with
  | error err => simp [ha] at h
  | ok q =>
    obtain ⟨arms', sc2, u2⟩ := q
    simp only [ha, Except.ok.injEq, Prod.mk.injEq] at h
    obtain ⟨_, rfl, _⟩ := h
    exact (checkIfArms_spec c sc _ arms arms' u2 hne ha).2

theorem C06_block_names_gone_after_scan (c : CCtx) (sc sc' : Scopes) (e : Expr) (arms : List (String × List Stmt × Loc))
    (l : Loc) (s' : Stmt) (u : List String) (hne : sc ≠ []) (h : checkStmt c sc (.scan e arms l) = .ok (s', sc', u)) :
    shape sc' = shape sc := by
  simp only [checkStmt] at h
  cases he : checkExpr c sc e with
  | error err => simp [he] at h
  | ok p =>
    obtain ⟨e', r⟩ := p
    simp only [he] at h
    split at h
    · simp [errC] at h
    · cases ha : checkScanArms c sc arms with
      | error err => simp [ha] at h
      | ok q =>
        obtain ⟨arms', sc2, u2⟩ := q
        simp only [ha, Except.ok.injEq, Prod.mk.injEq] at h
        obtain ⟨_, rfl, _⟩ := h
        exact (checkScanArms_spec c sc _ arms arms' u2 hne ha).2

theorem C06_block_names_gone_after_for (c : CCtx) (sc sc' : Scopes) (v : String) (vl : Loc) (e : Expr) (body : List Stmt)
    (l : Loc) (s' : Stmt) (u : List String) (hne : sc ≠ []) (h : checkStmt c sc (.forIn v vl e body l) = .ok (s', sc', u)) :
    shape sc' = shape sc := by
  have g := (checkStmt_spec c sc sc' _ s' u hne h).2
  simp only [checkStmt] at h
  cases he : checkExpr c sc e with
  | error err => simp [he] at h
  | ok p =>
    obtain ⟨e', r⟩ := p
    simp only [he] at h
    split at h
    · simp [errC] at h
    · split at h
      · simp [errC] at h
      · cases ha : unscopedAdd c ([] :: sc) v vl r.toV false with
        | error err => simp [ha] at h
        | ok sc1 =>
          simp only [ha] at h
          cases hb : checkStmts c sc1 body with
          | error err => simp [hb] at h
          | ok q =>
            obtain ⟨body', sc2, u2⟩ := q
            simp only [hb, Except.ok.injEq, Prod.mk.injEq] at h
            obtain ⟨_, rfl, _⟩ := h
            have g1 := unscopedAdd_grows _ _ _ _ _ _ _ ha
            have g2 := (checkStmts_spec c sc1 sc2 body body' u2 (ne_of_shape_ne g1.ne) hb).2
            exact Grows.pop (g1.trans g2)

/-! ### locality -/

/-- **Locality through every expression form.** Whenever an expression passes the checker, it is recorded as local
exactly when it is untainted: it mentions no scoped variable and no variable recorded as non-local, in any list, set,
call argument or comprehension element, at any depth. -/
theorem C06_local_iff_untainted (c : CCtx) (sc : Scopes) (e e' : Expr) (r : ERes) (h : checkExpr c sc e = .ok (e', r)) :
    r.isLocal = !taints (locEnv c sc) e :=
  checkExpr_local c sc e e' r h

/-- a `var` is never local, whatever it is initialised with -/
theorem C06_local_mutable_never (c : CCtx) (sc sc' : Scopes) (name : String) (l : Loc) (v : VRes)
    (h : unscopedAdd c sc name l v true = .ok sc') : locEnv c sc' name = some false := by
  simp only [unscopedAdd] at h
  split at h
  · simp [errC] at h
  · next hg =>
    have hgn : c.globals.lookup name = none := by
      cases hx : c.globals.lookup name with
      | none => rfl
      | some _ => simp [hx] at hg
    cases ha : scopesAdd sc name { v with isLocal := false } true with
    | error e => simp [ha, errC] at h
    | ok s2 =>
      simp only [if_true, ha, Except.ok.injEq] at h; subst h
      simp [locEnv, hgn, scopesGet_add _ _ _ _ _ ha]

/-- an assigned variable is not local afterwards, whatever is assigned -/
theorem C06_local_assigned_never (c : CCtx) (sc sc' : Scopes) (name : String) (l : Loc) (v : VRes)
    (h : unscopedSet c sc name l v = .ok sc') : locEnv c sc' name = some false := by
  simp only [unscopedSet] at h
  split at h
  · simp [errC] at h
  · next hg =>
    have hgn : c.globals.lookup name = none := by
      cases hx : c.globals.lookup name with
      | none => rfl
      | some _ => simp [hx] at hg
    cases ha : scopesSet sc name { v with isLocal := false } with
    | error e => simp [ha, errC] at h
    | ok s2 =>
      simp only [ha, Except.ok.injEq] at h; subst h
      simp [locEnv, hgn, scopesGet_set _ _ _ _ ha]

/-- an immutable binding records exactly the locality of its value -/
theorem C06_local_let_inherits (c : CCtx) (sc sc' : Scopes) (name : String) (l : Loc) (v : VRes)
    (h : unscopedAdd c sc name l v false = .ok sc') : locEnv c sc' name = some v.isLocal := by
  simp only [unscopedAdd] at h
  split at h
  · simp [errC] at h
  · next hg =>
    have hgn : c.globals.lookup name = none := by
      cases hx : c.globals.lookup name with
      | none => rfl
      | some _ => simp [hx] at hg
    cases ha : scopesAdd sc name v false with
    | error e => simp [ha, errC] at h
    | ok s2 =>
      simp only [Bool.false_eq_true, if_false, ha, Except.ok.injEq] at h; subst h
      simp [locEnv, hgn, scopesGet_add _ _ _ _ _ ha]

/-- non-vacuity: `[x.y]` is tainted, `[1, z]` with `z` local is not -/
example : taints (fun _ => some true) (.list [.scopedVar (.var "x" ⟨0, 0⟩) "y" ⟨0, 2⟩]) = true := by simp [taints, taintsL]
example : taints (fun _ => some true) (.list [.int 1, .var "z" ⟨0, 0⟩]) = false := by simp [taints, taintsL]

/-! ### rules on sources -/

/-- **`some` / `none`**: first locality, then optionality, reported at the condition -/
theorem C06_rule_some_none (c : CCtx) (sc : Scopes) (e e' : Expr) (r : ERes) (l : Loc) (h : checkExpr c sc e = .ok (e', r)) :
    checkCond c sc (.some e l) =
      (if !r.isLocal then .error (.err (.expectedLocalValue l))
       else if r.quant != .zeroOrOne then .error (.err (.expectedOptionalValue l))
       else .ok (.some e' l, r.used)) ∧
    checkCond c sc (.none e l) =
      (if !r.isLocal then .error (.err (.expectedLocalValue l))
       else if r.quant != .zeroOrOne then .error (.err (.expectedOptionalValue l))
       else .ok (.none e' l, r.used)) := by
  simp only [checkCond, h, errC]
  constructor <;> trivial

/-- **boolean condition**: must be local -/
theorem C06_rule_condition (c : CCtx) (sc : Scopes) (e e' : Expr) (r : ERes) (l : Loc) (h : checkExpr c sc e = .ok (e', r)) :
    checkCond c sc (.bool e l) =
      (if !r.isLocal then .error (.err (.expectedLocalValue l)) else .ok (.bool e' l, r.used)) := by
  simp only [checkCond, h, errC]

/-- **`scan`**: a non-local subject is rejected at the statement -/
theorem C06_rule_scan_source (c : CCtx) (sc : Scopes) (e e' : Expr) (r : ERes) (arms : List (String × List Stmt × Loc)) (l : Loc)
    (h : checkExpr c sc e = .ok (e', r)) (hl : r.isLocal = false) :
    checkStmt c sc (.scan e arms l) = .error (.err (.expectedLocalValue l)) := by
  simp [checkStmt, h, hl, errC]

/-- **`for`**: first locality, then list shape, reported at the statement -/
theorem C06_rule_for_source (c : CCtx) (sc : Scopes) (v : String) (vl : Loc) (e e' : Expr) (r : ERes) (body : List Stmt) (l : Loc)
    (h : checkExpr c sc e = .ok (e', r)) :
    (r.isLocal = false → checkStmt c sc (.forIn v vl e body l) = .error (.err (.expectedLocalValue l))) ∧
    (r.isLocal = true → isListQuant r.quant = false →
      checkStmt c sc (.forIn v vl e body l) = .error (.err (.expectedListValue l))) := by
  constructor
  · intro hl; simp [checkStmt, h, hl, errC]
  · intro hl hq; simp [checkStmt, h, hl, hq, errC]

/-- **comprehensions**: the same two rules, reported at the comprehension -/
theorem C06_rule_comprehension_source (c : CCtx) (sc : Scopes) (elem : Expr) (v : String) (vl : Loc) (e e' : Expr) (r : ERes) (l : Loc)
    (h : checkExpr c sc e = .ok (e', r)) :
    (r.isLocal = false →
      checkExpr c sc (.listComp elem v vl e l) = .error (.err (.expectedLocalValue l)) ∧
      checkExpr c sc (.setComp elem v vl e l) = .error (.err (.expectedLocalValue l))) ∧
    (r.isLocal = true → isListQuant r.quant = false →
      checkExpr c sc (.listComp elem v vl e l) = .error (.err (.expectedListValue l)) ∧
      checkExpr c sc (.setComp elem v vl e l) = .error (.err (.expectedListValue l))) := by
  constructor
  · intro hl; simp [checkExpr, h, hl, errC]
  · intro hl hq; simp [checkExpr, h, hl, hq, errC]

/-- list shape = quantifier `*` or `+` (list and set literals, comprehensions, list captures, and variables bound to
them); calls, scalars and optional captures are not list-shaped -/
theorem C06_rule_list_shape (q : Quant) : isListQuant q = true ↔ q = .zeroOrMore ∨ q = .oneOrMore := by
  cases q <;> simp [isListQuant]

/-- **nullable regex**: an arm whose regex matches the empty string is rejected before its body is looked at -/
theorem C06_rule_nullable_regex (c : CCtx) (sc : Scopes) (re : String) (body : List Stmt) (al : Loc)
    (rest : List (String × List Stmt × Loc)) (h : c.nullable re = some true) :
    checkScanArms c sc ((re, body, al) :: rest) = .error (.err (.nullableRegex re al)) := by
  simp [checkScanArms, h, errC]

/-! ### captures -/

/-- **undefined capture**: rejected exactly when the stanza's own query has no capture of that name (captures of
other stanzas do not count) -/
theorem C06_capture_undefined (c : CCtx) (sc : Scopes) (name : String) (q : Quant) (fi si : Nat) (l : Loc) :
    checkExpr c sc (.capture name q fi si l) = .error (.err (.undefinedSyntaxCapture name l)) ↔
      name ∉ c.stanzaCaps.map (·.1) := by
  simp only [checkExpr]
  cases hs : c.stanzaCaps.findIdx? (·.1 = name) with
  | none =>
    simp only [errC, true_iff]
    rw [List.findIdx?_eq_none_iff] at hs
    intro hm
    obtain ⟨p, hp, rfl⟩ := List.mem_map.mp hm
    simpa using hs p hp
  | some ix =>
    have : name ∈ c.stanzaCaps.map (·.1) := by
      obtain ⟨x, hx, hpx⟩ : ∃ x, x ∈ c.stanzaCaps ∧ (decide (x.1 = name)) = true := by
        have := List.findIdx?_eq_some_iff_getElem.mp hs
        obtain ⟨hlt, hp, _⟩ := this
        exact ⟨c.stanzaCaps[ix], List.getElem_mem hlt, hp⟩
      exact List.mem_map.mpr ⟨x, hx, by simpa using hpx⟩
    simp only [this, not_true_eq_false, iff_false]
    cases c.fileCaps.findIdx? (· = name) <;> simp

/-- **used captures = written captures**: what the checker collects from a block is, in order, exactly the captures
that occur in its text — in values, conditions, attributes, scopes of scoped variables, nested blocks -/
theorem C06_capture_used_is_written (c : CCtx) (sc sc' : Scopes) (ss ss' : List Stmt) (u : List String) (hne : sc ≠ [])
    (h : checkStmts c sc ss = .ok (ss', sc', u)) : u = capsOfStmts ss :=
  (checkStmts_spec c sc sc' ss ss' u hne h).1

/-- the names reported as unused: captures of the stanza query other than the full-match capture, never written in
the stanza, not starting with `_` -/
theorem C06_capture_unused_report (st : Stanza) (used : List String) (n : String) :
    ("@" ++ n) ∈ (((enumFrom 0 st.captures).filter (fun p => p.1 != st.fullMatchStanzaIx) |>.map (·.2.1)).filter
        (fun n => !used.contains n && !n.startsWith "_")).map ("@" ++ ·) ↔
      n ∈ ((enumFrom 0 st.captures).filter (fun p => p.1 != st.fullMatchStanzaIx) |>.map (·.2.1)) ∧ n ∉ used ∧
        n.startsWith "_" = false := by
  constructor
  · intro h
    obtain ⟨m, hm, heq⟩ := List.mem_map.mp h
    have : m = n := (String.append_right_inj "@").mp heq
    subst this
    simp only [List.mem_filter, Bool.and_eq_true, Bool.not_eq_eq_eq_not, Bool.not_true] at hm
    exact ⟨hm.1, by simpa using hm.2.1, hm.2.2⟩
  · intro ⟨h1, h2, h3⟩
    exact List.mem_map.mpr ⟨n, by simp [List.mem_filter, h1, h2, h3], rfl⟩

/-- **unused-capture rule**: once the statements of a stanza pass, the stanza is accepted exactly when that report is
empty; otherwise the error lists the sorted report at the stanza's start -/
theorem C06_capture_unused_rule (globals : List (String × VRes)) (fileCaps : List String) (nullable : String → Option Bool)
    (st : Stanza) (fm : Nat) (stmts' : List Stmt) (sc' : Scopes) (used : List String)
    (hfm : fileCaps.findIdx? (· = fullMatchName) = some fm)
    (h : checkStmts { globals, stanzaCaps := st.captures, fileCaps, nullable } [[]] st.stmts = .ok (stmts', sc', used)) :
    checkStanza globals fileCaps nullable st =
      if (unusedCaptures st (capsOfStmts st.stmts)).isEmpty then .ok { st with stmts := stmts', fullMatchFileIx := fm }
      else .error (.err (.unusedCaptures (" ".intercalate (unusedCaptures st (capsOfStmts st.stmts))) st.rangeStart)) := by
  have hu := (checkStmts_spec _ [[]] sc' st.stmts stmts' used (by simp) h).1
  subst hu
  simp only [checkStanza, hfm, h, errC]

/-! ### globals -/

/-- **duplicate globals**: the table accepts a declaration list exactly when the names are pairwise distinct (given
the names seen so far) -/
theorem C06_globals_duplicate (gs : List Global) (acc : List (String × VRes)) :
    (∃ t, checkGlobals gs acc = .ok t) ↔
      (gs.map (·.name)).Nodup ∧ ∀ g ∈ gs, (acc.lookup g.name).isSome = false := by
  induction gs generalizing acc with
  | nil => simp [checkGlobals]
  | cons g rest ih =>
    simp only [checkGlobals]
    cases hl : acc.lookup g.name with
    | some v =>
      simp only [Option.isSome_some, if_true, errC]
      constructor
      · intro ⟨t, ht⟩; simp at ht
      · intro ⟨_, h2⟩
        have := h2 g (List.mem_cons_self ..)
        simp [hl] at this
    | none =>
      simp only [Option.isSome_none, Bool.false_eq_true, if_false, List.map_cons, List.nodup_cons, List.mem_cons,
        forall_eq_or_imp, hl, true_and]
      rw [ih]
      constructor
      · intro ⟨h1, h2⟩
        refine ⟨⟨?_, h1⟩, ?_⟩
        · intro hm
          obtain ⟨g2, hg2, heq⟩ := List.mem_map.mp hm
          have := h2 g2 hg2
          simp [List.lookup, heq] at this
        · intro g2 hg2
          have := h2 g2 hg2
          simp only [List.lookup] at this
          split at this
          · simp at this
          · exact this
      · intro ⟨⟨h0, h1⟩, h2⟩
        refine ⟨h1, ?_⟩
        intro g2 hg2
        simp only [List.lookup]
        have hne : g2.name ≠ g.name := by
          intro heq
          exact h0 (List.mem_map.mpr ⟨g2, hg2, heq⟩)
        have : (g2.name == g.name) = false := by simpa using hne
        simp [this, h2 g2 hg2]

/-- a duplicate is reported with its name at the location of the later declaration -/
theorem C06_globals_duplicate_report (g : Global) (rest : List Global) (acc : List (String × VRes))
    (h : (acc.lookup g.name).isSome) :
    checkGlobals (g :: rest) acc = .error (.err (.duplicateGlobalVariable g.name g.loc)) := by
  simp [checkGlobals, h, errC]

end C06
