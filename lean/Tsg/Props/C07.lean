/-
  C07 — Parsing recovers exactly the written program and its source locations.

  Property theorems only. Model: Tsg/Syntax/Parser.lean (parser.rs function by function, as `PP` programs);
  helper lemmas: Tsg/Proofs/Parser.lean (sequencing, position invariant), Tsg/Proofs/ParserLex.lean
  (whitespace/comments, tokens), Tsg/Proofs/ParserTok.lean (identifiers, keywords, string and integer literals).

  What is proved for ALL texts:
    * every location the parser can record is the zero-based (row, character column) of the prefix it has consumed
      — for every parser program, hence for every construct (C07_locations_*);
    * any layout gap (whitespace, line breaks, `;` comments with any content) before a token is skipped entirely and
      nothing else is (C07_gap_*): the token parsers start at the token's first character;
    * identifiers are read whole (maximal munch), so a keyword is recognised only when the whole identifier equals
      it (C07_identifier_*, C07_keyword_*, C07_statement_keyword_*);
    * string literals denote exactly the written characters under the escape table, integer literals their decimal
      value (C07_string_literal, C07_integer_literal).
    * ROUND TRIP FOR EXPRESSIONS (C07_roundtrip_*; helper lemmas in Tsg/Proofs/ParserRound.lean): the class of texts
      that `parse_expression` reads back exactly (`ExprText`: the written expression, the locations of the places
      where its parts start, exactly the written characters consumed) contains every atom (`#true`/`#false`/`#null`,
      integers, strings, captures, regex captures, variables) and is closed under EVERY production of the
      expression grammar — scoped-variable chains `e.a.b`, calls `(f e*)`, list and set literals (empty, single,
      many, with optional trailing comma), list and set comprehensions — with an arbitrary layout gap (whitespace,
      line breaks, comments) at every place the grammar allows one. The side conditions are exactly the lexical
      ones a printer has to respect (a name is not followed by a name character, a number not by a digit, `.`
      does not follow an expression that is not meant to be scoped, …).
  What is NOT a theorem: the same composition for statements, stanzas and whole files (`parse (print file layout)
  = file`). That part is covered by the correspondence check (implementation AST = model AST on generated
  programs under random layouts, and both = the AST of the house layout modulo locations).
-/
import Tsg.Proofs.ParserTok
import Tsg.Proofs.ParserRound

namespace C07
open PP Parser

/-! ### locations -/

/-- the start of parsing is the position of the empty prefix -/
theorem C07_initial_position (text : String) : At text.toList [] (initState text) := by
  constructor <;> simp [initState, posOf]

/-- **Location invariant.** Whatever parser program runs, from the position of a prefix `pre` of the text, every state
it observes (`view` is the only way a location gets into the AST or into an error) is the position of a longer
prefix `pre ++ more`, whose remaining input is what is left of the text. -/
theorem C07_locations_are_positions {α : Type} (p : PP α) (text pre : List Char) (s v : PS)
    (h : At text pre s) (ho : Observes p s v) :
    ∃ more, text = (pre ++ more) ++ v.rest ∧ (v.row, v.col, v.off) = posOf (pre ++ more) :=
  observes_at p text pre s v h ho

/-- the same for the final state of any parser program -/
theorem C07_final_position {α : Type} (p : PP α) (text pre : List Char) (s : PS) (h : At text pre s) :
    ∃ more, At text (pre ++ more) (run p s).2 := run_at p text pre s h

/-- a position is: row = number of line feeds before it, column = number of CHARACTERS (not bytes) since the last
line feed, offset = number of UTF-8 bytes before it — all zero-based -/
theorem C07_position_meaning (pre : List Char) :
    (posOf pre).1 = pre.count '\n' ∧
    (posOf pre).2.1 = (pre.reverse.takeWhile (· ≠ '\n')).length ∧
    (posOf pre).2.2 = (pre.map Char.utf8Size).sum :=
  ⟨posOf_row pre, posOf_col pre, posOf_off pre⟩

/-- whole-file instance: every state observed while parsing `text` is a position of `text` -/
theorem C07_locations_whole_file (o : POracle) (text : String) (fuel : Nat) (v : PS)
    (ho : Observes (parseFile o fuel) (initState text) v) :
    ∃ pre, text.toList = pre ++ v.rest ∧ (locOf v).row = pre.count '\n' ∧
      (locOf v).col = (pre.reverse.takeWhile (· ≠ '\n')).length := by
  obtain ⟨more, h1, h2⟩ := C07_locations_are_positions _ _ [] _ v (C07_initial_position text) ho
  refine ⟨more, by simpa using h1, ?_, ?_⟩
  · have := posOf_row more
    simp only [List.nil_append] at h2
    rw [← h2] at this
    exact this
  · have := posOf_col more
    simp only [List.nil_append] at h2
    rw [← h2] at this
    exact this

/-- non-vacuity: after `"a\nbé"` the parser is at row 1, column 2, byte offset 5 -/
example : posOf ['a', '\n', 'b', 'é'] = (1, 2, 5) := by decide

/-! ### layout -/

/-- **Gaps are skipped entirely, and only gaps.** In front of a token character `c` (not whitespace, not `;`), any
gap `g` — whitespace characters and complete `;` comments in any order, with any characters inside the comments —
is consumed by `consume_whitespace`, which stops exactly at `c`. -/
theorem C07_gap_skipped (o : POracle) (g : List Char) (hg : Gap o g) (c : Char) (r : List Char) (s : PS)
    (hs : s.rest = g ++ c :: r) (hc1 : c ≠ ';') (hc2 : isWs o c = false) (hfuel : s.rest.length ≤ o.fuel) :
    run (ws o) s = (.ok (), advL s g) ∧ (advL s g).rest = c :: r := by
  rw [run_ws o s hfuel, hs, wsPrefix_gap o g hg c r hc1 hc2]
  exact ⟨rfl, advL_rest s g _ hs⟩

/-- a gap at the end of the text is consumed to the end -/
theorem C07_gap_skipped_eof (o : POracle) (g : List Char) (hg : Gap o g) (s : PS) (hs : s.rest = g)
    (hfuel : s.rest.length ≤ o.fuel) : run (ws o) s = (.ok (), advL s g) := by
  rw [run_ws o s hfuel, hs, wsPrefix_gap_eof o g hg]

/-- with no gap, nothing is consumed -/
theorem C07_no_gap (o : POracle) (c : Char) (r : List Char) (s : PS) (hs : s.rest = c :: r) (hc1 : c ≠ ';')
    (hc2 : isWs o c = false) (hfuel : s.rest.length ≤ o.fuel) : run (ws o) s = (.ok (), s) := by
  have := C07_gap_skipped o [] Gap.nil c r s (by simpa using hs) hc1 hc2 hfuel
  simpa using this.1

/-- skipping always succeeds and leaves either nothing or a token character -/
theorem C07_ws_total (o : POracle) (s : PS) (hfuel : s.rest.length ≤ o.fuel) :
    ∃ s', run (ws o) s = (.ok (), s') ∧ ∀ c r, s'.rest = c :: r → c ≠ ';' ∧ isWs o c = false := by
  refine ⟨_, run_ws o s hfuel, ?_⟩
  intro c r h
  have hsplit := wsPrefix_append_skipWs o s.rest false
  have hrest : (advL s (wsPrefix o s.rest false)).rest = skipWs o s.rest false := advL_rest s _ _ hsplit.symm
  rw [hrest] at h
  exact skipWs_head o s.rest c r h

/-- non-vacuity: a gap with a space, a comment containing multi-byte text and a `;`, and a line break -/
example (o : POracle) : Gap o [' ', ';', ';', 'é', ' ', '\n', '\n'] :=
  Gap.ws ' ' _ (by simp [isWs]) (Gap.comment [';', 'é', ' '] _ (by decide) (Gap.ws '\n' _ (by simp [isWs]) Gap.nil))

/-! ### identifiers and keywords -/

/-- **Identifiers are read whole.** -/
theorem C07_identifier_whole (o : POracle) (within : String) (c : Char) (cs tail : List Char) (s : PS)
    (hs : s.rest = c :: cs ++ tail) (hc : isIdentStart o c = true) (hcs : ∀ x ∈ cs, isIdent o x = true)
    (htail : ∀ x, tail.head? = some x → isIdent o x = false) (hfuel : cs.length ≤ o.fuel) :
    run (parseName o within) s = (.ok (String.ofList (c :: cs)), advL s (c :: cs)) :=
  run_parseName o within c cs tail s hs hc hcs htail hfuel

/-- a condition keyword (`some`, `none`) that is merely the beginning of an identifier is not taken as the keyword -/
theorem C07_keyword_not_prefix (o : POracle) (kw : String) (x : Char) (tail : List Char) (s : PS)
    (hs : s.rest = kw.toList ++ x :: tail) (hx : isIdent o x = true) :
    run (consumeKeyword o kw) s = (.error (.err (.expectedToken kw (locOf s))), s) :=
  run_consumeKeyword_prefix o kw x tail s hs hx

/-- and it is taken when it stands alone -/
theorem C07_keyword_alone (o : POracle) (kw : String) (tail : List Char) (s : PS)
    (hs : s.rest = kw.toList ++ tail) (hx : ∀ x, tail.head? = some x → isIdent o x = false) :
    run (consumeKeyword o kw) s = (.ok (), advL s kw.toList) :=
  run_consumeKeyword_ok o kw tail s hs hx

/-- the statement keywords -/
def statementKeywords : List String := ["let", "var", "set", "node", "edge", "attr", "print", "scan", "if", "for"]

/-- **A statement is selected by its whole first identifier.** An identifier that is not one of the ten statement
keywords — for instance one that merely begins with a keyword, like `lettuce` or `format` — is never run as that
keyword's statement: the parser reports it, whole, as an unexpected keyword at the identifier's first character. -/
theorem C07_statement_keyword_whole (o : POracle) (fuel : Nat) (c : Char) (cs tail : List Char) (s : PS)
    (hs : s.rest = c :: cs ++ tail) (hc : isIdentStart o c = true) (hcs : ∀ x ∈ cs, isIdent o x = true)
    (htail : ∀ x, tail.head? = some x → isIdent o x = false) (hfuel : s.rest.length ≤ o.fuel)
    (hkw : String.ofList (c :: cs) ∉ statementKeywords) :
    (run (parseStatement o (fuel + 1)) s).1 = .error (.err (.unexpectedKeyword (String.ofList (c :: cs)) (locOf s))) := by
  have hlen : cs.length ≤ o.fuel := by simp [hs] at hfuel; omega
  have hname := run_parseName o "keyword" c cs tail s hs hc hcs htail hlen
  have hs2 : (advL s (c :: cs)).rest = tail := advL_rest s (c :: cs) tail (by simpa using hs)
  have hws := run_ws o (advL s (c :: cs)) (by rw [hs2]; simp [hs] at hfuel; omega)
  simp only [statementKeywords, List.mem_cons, List.not_mem_nil, or_false, not_or] at hkw
  obtain ⟨h1, h2, h3, h4, h5, h6, h7, h8, h9, h10⟩ := hkw
  unfold parseStatement
  simp only [run_bind', run_getS, hname, hws, h1, h2, h3, h4, h5, h6, h7, h8, h9, h10, if_false, run_failE]

/-- non-vacuity: `lettuce` is an identifier that begins with `let` and is not a keyword -/
example : String.ofList ['l', 'e', 't', 't', 'u', 'c', 'e'] ∉ statementKeywords := by decide

/-! ### literals -/

/-- **String literals.** Whatever spelling `body` of the characters `cs` is written between the quotes (plain
characters, or any mixture of the escapes `\" \\ \0 \n \r \t` and `\x` for other `x`), `parse_string` returns exactly
`cs` and consumes exactly the literal. -/
theorem C07_string_literal (o : POracle) (cs body tail : List Char) (s : PS) (h : StrRepr cs body)
    (hs : s.rest = '"' :: body ++ '"' :: tail) (hfuel : body.length < o.fuel) :
    run (parseString o) s = (.ok (String.ofList cs), advL s ('"' :: body ++ ['"'])) :=
  run_parseString o cs body tail s h hs hfuel

/-- every string has a spelling (so the theorem above covers every string value) -/
theorem C07_every_string_has_a_spelling (cs : List Char) : ∃ body, StrRepr cs body := by
  induction cs with
  | nil => exact ⟨[], .nil⟩
  | cons c cs ih =>
    obtain ⟨body, hb⟩ := ih
    by_cases h1 : c = '"'
    · exact ⟨_, .cons c _ cs body (h1 ▸ CharRepr.escQuote) hb⟩
    · by_cases h2 : c = '\\'
      · exact ⟨_, .cons c _ cs body (h2 ▸ CharRepr.escBackslash) hb⟩
      · exact ⟨_, .cons c _ cs body (.plain c h1 h2) hb⟩

/-- **Integer literals.** All digits are read; the value is their decimal value when it fits 32 bits, and the
(repaired) `InvalidIntegerConstant` error carrying the literal text and its location otherwise. -/
theorem C07_integer_literal (o : POracle) (ds tail : List Char) (s : PS) (hs : s.rest = ds ++ tail)
    (hds : ∀ c ∈ ds, isDigit c = true) (htail : ∀ x, tail.head? = some x → isDigit x = false)
    (hfuel : ds.length ≤ o.fuel) :
    run (parseIntegerConstant o) s =
      if digitsToNat ds < 2 ^ 32 then (.ok (.int (digitsToNat ds)), advL s ds)
      else (.error (.err (.invalidIntegerConstant (String.ofList ds) (locOf s))), advL s ds) :=
  run_parseIntegerConstant o ds tail s hs hds htail hfuel

/-- decimal value, digit by digit -/
theorem C07_decimal_value (ds : List Char) (c : Char) : digitsToNat (ds ++ [c]) = digitsToNat ds * 10 + (c.toNat - 48) :=
  digitsToNat_snoc ds c

example : digitsToNat ['4', '0', '9', '6'] = 4096 := by decide

/-! ### round trip for expressions

`ExprText o n cs rd F`: whenever the remaining input is `cs ++ tail`, `tail` starts with a character allowed by `F`,
and the fuel is at least `n`, `parse_expression` succeeds, returns `rd s` (the expression, located relative to the
state `s` where it starts) and leaves the parser exactly behind `cs`. `PrimText` is the same for a primary
expression in front of an optional `.name` chain. -/

/-- atoms followed by a gap and any `.name` chain: literals, captures, variables, scoped variables -/
theorem C07_roundtrip_atom_chain (o : POracle) (a : Atom) (g0 : List Char) (segs : List Seg) (hwf : a.WF o) (hg0 : Gap o g0) :
    ExprText o (segs.length + 2) (chainText a g0 segs)
      (fun s => chainExpr (advL s (a.text ++ g0)) (a.expr s) segs) (ChainFollow o a g0 segs) :=
  exprText_chain o a g0 segs hwf hg0

/-- the unfolded statement of the same fact: result, locations and the exact final state -/
theorem C07_roundtrip_atom_chain_run (o : POracle) (fuel : Nat) (a : Atom) (g0 : List Char) (segs : List Seg)
    (s : PS) (tail : List Char)
    (hs : s.rest = chainText a g0 segs ++ tail)
    (hwf : a.WF o) (hfol : a.Follow o (g0 ++ segsText segs ++ tail).head?)
    (hg0 : Gap o g0) (htok : TokenStart o (segsText segs ++ tail)) (hsegs : SegsWF o segs tail)
    (hfuel : segs.length < fuel) (hof : s.rest.length ≤ o.fuel) (hf5 : 5 ≤ o.fuel) :
    run (parseExpression o (fuel + 1)) s =
      (.ok (chainExpr (advL s (a.text ++ g0)) (a.expr s) segs), advL s (chainText a g0 segs)) :=
  run_parseExpression_chain o fuel a g0 segs s tail hs hwf hfol hg0 htok hsegs hfuel hof hf5

/-- any primary expression followed by a gap and any `.name` chain is an expression -/
theorem C07_roundtrip_primary_chain (o : POracle) (n : Nat) (cs : List Char) (rd : PS → Expr) (F : Option Char → Prop)
    (hp : PrimText o n cs rd F) (g0 : List Char) (segs : List Seg) (hg0 : Gap o g0) :
    ExprText o (max n segs.length + 2) (cs ++ g0 ++ segsText segs)
      (fun s => chainExpr (advL s (cs ++ g0)) (rd s) segs) (PrimChainFollow o F g0 segs) :=
  exprText_of_prim o n cs rd F hp g0 segs hg0

/-- calls: `( gap name gap arg* )`, every argument an expression text (with its own trailing gap) -/
theorem C07_roundtrip_call (o : POracle) (g1 : List Char) (fc : Char) (frest g2 : List Char) (items : List Item)
    (hg1 : Gap o g1) (hg2 : Gap o g2) (hfc : isIdentStart o fc = true) (hfr : ∀ x ∈ frest, isIdent o x = true)
    (hsemi : fc ≠ ';') (hws : isWs o fc = false)
    (hfol : ∀ x, (g2 ++ itemsText items ++ [')']).head? = some x → isIdent o x = false)
    (htok : TokenStart o (itemsText items ++ [')'])) (hitems : ItemsOK o ')' items) :
    PrimText o (items.length + itemsFuel items + 2) (callText g1 fc frest g2 items)
      (fun s => .call (String.ofList (fc :: frest)) (itemsExprs (advL s ('(' :: g1 ++ fc :: frest ++ g2)) items))
      (fun _ => True) :=
  primText_call o g1 fc frest g2 items hg1 hg2 hfc hfr hsemi hws hfol htok hitems

/-- list and set literals: empty, one element, many elements (separators with gaps, optional trailing comma) -/
theorem C07_roundtrip_collection (o : POracle) (isList : Bool) (g1 : List Char) (f : CollForm)
    (hg1 : Gap o g1) (hok : f.OK o isList) :
    PrimText o (f.fuel + 2) (collText isList g1 f)
      (fun s => (if isList then Expr.list else Expr.set) (f.exprs (advL s (openC isList :: g1)))) (fun _ => True) :=
  primText_collection o isList g1 f hg1 hok

/-- list and set comprehensions `[ elem for v in value ]`, including the location of the loop variable -/
theorem C07_roundtrip_comprehension (o : POracle) (isList : Bool) (g1 : List Char) (elem : Item) (gFor : List Char)
    (vc : Char) (vrest gV gIn : List Char) (value : Item)
    (hg1 : Gap o g1) (hgFor : Gap o gFor) (hgV : Gap o gV) (hgIn : Gap o gIn)
    (helem : ExprText o elem.n elem.cs elem.rd elem.F) (hFe : elem.F (some 'f'))
    (hehead : elem.cs.head? ≠ some (closeC isList)) (hetok : ∃ c r, elem.cs = c :: r ∧ c ≠ ';' ∧ isWs o c = false)
    (hvc : isIdentStart o vc = true) (hvr : ∀ x ∈ vrest, isIdent o x = true) (hvsemi : vc ≠ ';') (hvws : isWs o vc = false)
    (hvfol : ∀ x, (gV ++ "in".toList).head? = some x → isIdent o x = false)
    (hvalue : ExprText o value.n value.cs value.rd value.F) (hFv : value.F (some (closeC isList)))
    (hvtok : ∃ c r, value.cs = c :: r ∧ c ≠ ';' ∧ isWs o c = false) :
    PrimText o (max elem.n value.n + 5) (compText isList g1 elem gFor vc vrest gV gIn value)
      (fun s =>
        let sE := advL s (openC isList :: g1)
        let sV := advL sE (elem.cs ++ "for".toList ++ gFor)
        let sX := advL sV (vc :: vrest ++ gV ++ "in".toList ++ gIn)
        if isList then Expr.listComp (elem.rd sE) (String.ofList (vc :: vrest)) (locOf sV) (value.rd sX) (locOf s)
        else Expr.setComp (elem.rd sE) (String.ofList (vc :: vrest)) (locOf sV) (value.rd sX) (locOf s))
      (fun _ => True) :=
  primText_comprehension o isList g1 elem gFor vc vrest gV gIn value hg1 hgFor hgV hgIn helem hFe hehead hetok
    hvc hvr hvsemi hvws hvfol hvalue hFv hvtok

/-! non-vacuity: the hypotheses are met by a concrete comprehension, for every oracle; the instantiated theorem
    gives the parse result of the concrete text, locations included -/

theorem ws_space (o : POracle) : isWs o ' ' = true := by simp [isWs]
theorem gap_space (o : POracle) : Gap o [' '] := Gap.ws ' ' [] (ws_space o) Gap.nil

def exElem (o : POracle) : Item :=
  { n := 2, cs := chainText .trueLit [' '] [],
    rd := fun s => chainExpr (advL s (Atom.trueLit.text ++ [' '])) (Atom.trueLit.expr s) [],
    F := ChainFollow o .trueLit [' '] [] }
def exValue (o : POracle) : Item :=
  { n := 2, cs := chainText (.capture 'x' ['s']) [' '] [],
    rd := fun s => chainExpr (advL s ((Atom.capture 'x' ['s']).text ++ [' '])) ((Atom.capture 'x' ['s']).expr s) [],
    F := ChainFollow o (.capture 'x' ['s']) [' '] [] }

theorem ex_comp (o : POracle) :
    PrimText o 7 (compText true [' '] (exElem o) [' '] 'v' [] [' '] [' '] (exValue o))
      (fun s =>
        let sE := advL s ('[' :: [' '])
        let sV := advL sE ((exElem o).cs ++ "for".toList ++ [' '])
        let sX := advL sV ('v' :: [] ++ [' '] ++ "in".toList ++ [' '])
        Expr.listComp ((exElem o).rd sE) (String.ofList ['v']) (locOf sV) ((exValue o).rd sX) (locOf s))
      (fun _ => True) := by
  have h := C07_roundtrip_comprehension o true [' '] (exElem o) [' '] 'v' [] [' '] [' '] (exValue o)
    (gap_space o) (gap_space o) (gap_space o) (gap_space o)
    (C07_roundtrip_atom_chain o .trueLit [' '] [] trivial (gap_space o))
    (by
      intro tail ht
      refine ⟨?_, ?_, ?_, ?_⟩
      · intro x hx; simp [segsText] at hx; subst hx; simp [isIdent, isAlnum]
      · cases tail with
        | nil => simp at ht
        | cons c r => simp at ht; subst ht; exact Or.inr ⟨'f', r, by simp [segsText], by decide, by simp [isWs]⟩
      · cases tail with
        | nil => simp at ht
        | cons c r => simp at ht; subst ht; exact Or.inr ⟨'f', r, rfl, by decide, by simp [isWs]⟩
      · rw [ht]; simp)
    (by simp [exElem, chainText, Atom.text, closeC])
    ⟨'#', "true ".toList, by simp [exElem, chainText, Atom.text, segsText], by decide, by simp [isWs]⟩
    (by simp [isIdentStart, isAlpha]) (by simp) (by decide) (by simp [isWs])
    (by intro x hx; simp at hx; subst hx; simp [isIdent, isAlnum])
    (C07_roundtrip_atom_chain o (.capture 'x' ['s']) [' '] [] (by simp [Atom.WF, isIdentStart, isIdent, isAlpha, isAlnum]) (gap_space o))
    (by
      intro tail ht
      refine ⟨?_, ?_, ?_, ?_⟩
      · intro x hx; simp [segsText] at hx; subst hx; simp [isIdent, isAlnum]
      · cases tail with
        | nil => simp at ht
        | cons c r => simp [closeC] at ht; subst ht; exact Or.inr ⟨']', r, by simp [segsText], by decide, by simp [isWs]⟩
      · cases tail with
        | nil => simp at ht
        | cons c r => simp [closeC] at ht; subst ht; exact Or.inr ⟨']', r, rfl, by decide, by simp [isWs]⟩
      · rw [ht]; simp [closeC])
    ⟨'@', "xs ".toList, by simp [exValue, chainText, Atom.text, segsText], by decide, by simp [isWs]⟩
  simpa [exElem, exValue, openC] using h

/-- the instantiated round trip, for every oracle: the text `[ #true for v in @xs ]` parses to the comprehension
    it spells, with the locations of `[`, `v` and `@xs`, and is consumed entirely -/
example (o : POracle) (hf : 30 ≤ o.fuel) :
    run (parseExpression o 9) (initState "[ #true for v in @xs ]") =
      (.ok (Expr.listComp .trueLit "v" ⟨0, 12⟩ (.capture "xs" .zero usizeMax usizeMax ⟨0, 17⟩) ⟨0, 0⟩),
       { rest := [], row := 0, col := 22, off := 22 }) := by
  have h := C07_roundtrip_primary_chain o 7 _ _ _ (ex_comp o) [] [] Gap.nil 9 (initState "[ #true for v in @xs ]") []
    (by simp) (by simp [initState, compText, exElem, exValue, chainText, Atom.text, segsText, openC, closeC])
    (by
      intro tail ht
      cases tail with
      | nil => exact ⟨trivial, Or.inl rfl, Or.inl rfl, by simp⟩
      | cons c r => simp at ht)
    (by simp [initState]; omega) (by omega)
  rw [h]
  simp [initState, compText, exElem, exValue, chainText, chainExpr, Atom.text, Atom.expr, segsText, openC, closeC, advL, locOf]
  decide

end C07
