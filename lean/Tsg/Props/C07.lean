/-
  C07 — Parsing recovers exactly the written program and its source locations.

  Property theorems only. Model: Tsg/Syntax/Parser.lean (parser.rs function by function, as `PP` programs);
  helper lemmas: Tsg/Proofs/Parser.lean (sequencing, position invariant), Tsg/Proofs/ParserLex.lean
  (whitespace/comments, tokens), Tsg/Proofs/ParserTok.lean (identifiers, keywords, string and integer literals).

  What is proved for ALL texts:
    * every location the parser can record is the zero-based (row, character column) of the prefix it has consumed
      — for every parser program, hence for every construct (C07_locations_*);
    * any layout gap (whitespace, line breaks, `;` comments with any content) before a token is skipped entirely and
      nothing else is (C07_gap_*): the token parsers start at the token's first character;
    * identifiers are read whole (maximal munch), so a keyword is recognised only when the whole identifier equals
      it (C07_identifier_*, C07_keyword_*, C07_statement_keyword_*);
    * string literals denote exactly the written characters under the escape table, integer literals their decimal
      value (C07_string_literal, C07_integer_literal).
    * ROUND TRIP, THE WHOLE GRAMMAR (C07_roundtrip_*; helper lemmas in Tsg/Proofs/ParserRound.lean — expressions,
      ParserSpell.lean — sequencing of round trips, ParserRoundStmt.lean — statements, ParserRoundFile.lean — files):
      `C07_roundtrip_file`: a text made of a leading gap and any sequence of globals, attribute shorthands, inherit
      declarations and stanzas, each well-formed in front of what follows it and separated by arbitrary layout
      (whitespace, line breaks, `;` comments), parses to EXACTLY the file its items denote — every statement,
      expression, name, string, number and every recorded location, in order — for texts of every length and nesting
      depth. It is assembled from one theorem per production: every atom, `.name` chain, call, list/set literal and
      comprehension (expressions); `let`/`var`/`set`, `node`, `edge`, `attr` on nodes and edges with attribute lists,
      `print`, `scan` with its regex arms, `if`/`elif`/`else` with `some`/`none`/boolean conditions, `for`, blocks
      (statements); globals with quantifier and default, attribute shorthands, `inherit`, stanzas (files). The
      side conditions are exactly the lexical ones a printer has to respect (a name is not followed by a name
      character, a number not by a digit, a bare boolean condition does not begin with the word `some`/`none`, a
      stanza's query does not begin with `attribute`/`global`/`inherit`, the query text has its first `{` outside
      strings and comments where the body starts, …) plus the answers of the two oracles (tree-sitter accepts the
      query as one pattern; the regex crate accepts the scan patterns), and a fuel bound that is an artefact of the
      model (`C05_parser_terminates` shows the parser never runs out of it).
  What is NOT a theorem: that the side conditions are NECESSARY (texts violating them are covered by the
  correspondence check: implementation AST = model AST on generated programs under random layouts, damaged texts
  included), and the two oracles.
-/
import Tsg.Proofs.ParserTok
import Tsg.Proofs.ParserRound
import Tsg.Proofs.ParserRoundFile

namespace C07
open PP Parser

/-! ### locations -/

/-- the start of parsing is the position of the empty prefix -/
theorem C07_initial_position (text : String) : At text.toList [] (initState text) := by
  constructor <;> simp [initState, posOf]

/-- **Location invariant.** Whatever parser program runs, from the position of a prefix `pre` of the text, every state
it observes (`view` is the only way a location gets into the AST or into an error) is the position of a longer
prefix `pre ++ more`, whose remaining input is what is left of the text. -/
theorem C07_locations_are_positions {α : Type} (p : PP α) (text pre : List Char) (s v : PS)
    (h : At text pre s) (ho : Observes p s v) :
    ∃ more, text = (pre ++ more) ++ v.rest ∧ (v.row, v.col, v.off) = posOf (pre ++ more) :=
  observes_at p text pre s v h ho

/-- the same for the final state of any parser program -/
theorem C07_final_position {α : Type} (p : PP α) (text pre : List Char) (s : PS) (h : At text pre s) :
    ∃ more, At text (pre ++ more) (run p s).2 := run_at p text pre s h

/-- a position is: row = number of line feeds before it, column = number of CHARACTERS (not bytes) since the last
line feed, offset = number of UTF-8 bytes before it — all zero-based -/
theorem C07_position_meaning (pre : List Char) :
    (posOf pre).1 = pre.count '\n' ∧
    (posOf pre).2.1 = (pre.reverse.takeWhile (· ≠ '\n')).length ∧
    (posOf pre).2.2 = (pre.map Char.utf8Size).sum :=
  ⟨posOf_row pre, posOf_col pre, posOf_off pre⟩

/-- whole-file instance: every state observed while parsing `text` is a position of `text` -/
theorem C07_locations_whole_file (o : POracle) (text : String) (fuel : Nat) (v : PS)
    (ho : Observes (parseFile o fuel) (initState text) v) :
    ∃ pre, text.toList = pre ++ v.rest ∧ (locOf v).row = pre.count '\n' ∧
      (locOf v).col = (pre.reverse.takeWhile (· ≠ '\n')).length := by
  obtain ⟨more, h1, h2⟩ := C07_locations_are_positions _ _ [] _ v (C07_initial_position text) ho
  refine ⟨more, by simpa using h1, ?_, ?_⟩
  · have := posOf_row more
    simp only [List.nil_append] at h2
    rw [← h2] at this
    exact this
  · have := posOf_col more
    simp only [List.nil_append] at h2
    rw [← h2] at this
    exact this

/-- non-vacuity: after `"a\nbé"` the parser is at row 1, column 2, byte offset 5 -/
example : posOf ['a', '\n', 'b', 'é'] = (1, 2, 5) := by decide

/-! ### layout -/

/-- **Gaps are skipped entirely, and only gaps.** In front of a token character `c` (not whitespace, not `;`), any
gap `g` — whitespace characters and complete `;` comments in any order, with any characters inside the comments —
is consumed by `consume_whitespace`, which stops exactly at `c`. -/
theorem C07_gap_skipped (o : POracle) (g : List Char) (hg : Gap o g) (c : Char) (r : List Char) (s : PS)
    (hs : s.rest = g ++ c :: r) (hc1 : c ≠ ';') (hc2 : isWs o c = false) (hfuel : s.rest.length ≤ o.fuel) :
    run (ws o) s = (.ok (), advL s g) ∧ (advL s g).rest = c :: r := by
  rw [run_ws o s hfuel, hs, wsPrefix_gap o g hg c r hc1 hc2]
  exact ⟨rfl, advL_rest s g _ hs⟩

/-- a gap at the end of the text is consumed to the end -/
theorem C07_gap_skipped_eof (o : POracle) (g : List Char) (hg : Gap o g) (s : PS) (hs : s.rest = g)
    (hfuel : s.rest.length ≤ o.fuel) : run (ws o) s = (.ok (), advL s g) := by
  rw [run_ws o s hfuel, hs, wsPrefix_gap_eof o g hg]

/-- with no gap, nothing is consumed -/
theorem C07_no_gap (o : POracle) (c : Char) (r : List Char) (s : PS) (hs : s.rest = c :: r) (hc1 : c ≠ ';')
    (hc2 : isWs o c = false) (hfuel : s.rest.length ≤ o.fuel) : run (ws o) s = (.ok (), s) := by
  have := C07_gap_skipped o [] Gap.nil c r s (by simpa using hs) hc1 hc2 hfuel
  simpa using this.1

/-- skipping always succeeds and leaves either nothing or a token character -/
theorem C07_ws_total (o : POracle) (s : PS) (hfuel : s.rest.length ≤ o.fuel) :
    ∃ s', run (ws o) s = (.ok (), s') ∧ ∀ c r, s'.rest = c :: r → c ≠ ';' ∧ isWs o c = false := by
  refine ⟨_, run_ws o s hfuel, ?_⟩
  intro c r h
  have hsplit := wsPrefix_append_skipWs o s.rest false
  have hrest : (advL s (wsPrefix o s.rest false)).rest = skipWs o s.rest false := advL_rest s _ _ hsplit.symm
  rw [hrest] at h
  exact skipWs_head o s.rest c r h

/-- non-vacuity: a gap with a space, a comment containing multi-byte text and a `;`, and a line break -/
example (o : POracle) : Gap o [' ', ';', ';', 'é', ' ', '\n', '\n'] :=
  Gap.ws ' ' _ (by simp [isWs]) (Gap.comment [';', 'é', ' '] _ (by decide) (Gap.ws '\n' _ (by simp [isWs]) Gap.nil))

/-! ### identifiers and keywords -/

/-- **Identifiers are read whole.** -/
theorem C07_identifier_whole (o : POracle) (within : String) (c : Char) (cs tail : List Char) (s : PS)
    (hs : s.rest = c :: cs ++ tail) (hc : isIdentStart o c = true) (hcs : ∀ x ∈ cs, isIdent o x = true)
    (htail : ∀ x, tail.head? = some x → isIdent o x = false) (hfuel : cs.length ≤ o.fuel) :
    run (parseName o within) s = (.ok (String.ofList (c :: cs)), advL s (c :: cs)) :=
  run_parseName o within c cs tail s hs hc hcs htail hfuel

/-- a condition keyword (`some`, `none`) that is merely the beginning of an identifier is not taken as the keyword -/
theorem C07_keyword_not_prefix (o : POracle) (kw : String) (x : Char) (tail : List Char) (s : PS)
    (hs : s.rest = kw.toList ++ x :: tail) (hx : isIdent o x = true) :
    run (consumeKeyword o kw) s = (.error (.err (.expectedToken kw (locOf s))), s) :=
  run_consumeKeyword_prefix o kw x tail s hs hx

/-- and it is taken when it stands alone -/
theorem C07_keyword_alone (o : POracle) (kw : String) (tail : List Char) (s : PS)
    (hs : s.rest = kw.toList ++ tail) (hx : ∀ x, tail.head? = some x → isIdent o x = false) :
    run (consumeKeyword o kw) s = (.ok (), advL s kw.toList) :=
  run_consumeKeyword_ok o kw tail s hs hx

/-- the statement keywords -/
def statementKeywords : List String := ["let", "var", "set", "node", "edge", "attr", "print", "scan", "if", "for"]

/-- **A statement is selected by its whole first identifier.** An identifier that is not one of the ten statement
keywords — for instance one that merely begins with a keyword, like `lettuce` or `format` — is never run as that
keyword's statement: the parser reports it, whole, as an unexpected keyword at the identifier's first character. -/
theorem C07_statement_keyword_whole (o : POracle) (fuel : Nat) (c : Char) (cs tail : List Char) (s : PS)
    (hs : s.rest = c :: cs ++ tail) (hc : isIdentStart o c = true) (hcs : ∀ x ∈ cs, isIdent o x = true)
    (htail : ∀ x, tail.head? = some x → isIdent o x = false) (hfuel : s.rest.length ≤ o.fuel)
    (hkw : String.ofList (c :: cs) ∉ statementKeywords) :
    (run (parseStatement o (fuel + 1)) s).1 = .error (.err (.unexpectedKeyword (String.ofList (c :: cs)) (locOf s))) := by
  have hlen : cs.length ≤ o.fuel := by simp [hs] at hfuel; omega
  have hname := run_parseName o "keyword" c cs tail s hs hc hcs htail hlen
  have hs2 : (advL s (c :: cs)).rest = tail := advL_rest s (c :: cs) tail (by simpa using hs)
  have hws := run_ws o (advL s (c :: cs)) (by rw [hs2]; simp [hs] at hfuel; omega)
  simp only [statementKeywords, List.mem_cons, List.not_mem_nil, or_false, not_or] at hkw
  obtain ⟨h1, h2, h3, h4, h5, h6, h7, h8, h9, h10⟩ := hkw
  unfold parseStatement
  simp only [run_bind', run_getS, hname, hws, h1, h2, h3, h4, h5, h6, h7, h8, h9, h10, if_false, run_failE]

/-- non-vacuity: `lettuce` is an identifier that begins with `let` and is not a keyword -/
example : String.ofList ['l', 'e', 't', 't', 'u', 'c', 'e'] ∉ statementKeywords := by decide

/-! ### literals -/

/-- **String literals.** Whatever spelling `body` of the characters `cs` is written between the quotes (plain
characters, or any mixture of the escapes `\" \\ \0 \n \r \t` and `\x` for other `x`), `parse_string` returns exactly
`cs` and consumes exactly the literal. -/
theorem C07_string_literal (o : POracle) (cs body tail : List Char) (s : PS) (h : StrRepr cs body)
    (hs : s.rest = '"' :: body ++ '"' :: tail) (hfuel : body.length < o.fuel) :
    run (parseString o) s = (.ok (String.ofList cs), advL s ('"' :: body ++ ['"'])) :=
  run_parseString o cs body tail s h hs hfuel

/-- every string has a spelling (so the theorem above covers every string value) -/
theorem C07_every_string_has_a_spelling (cs : List Char) : ∃ body, StrRepr cs body := by
  induction cs with
  | nil => exact ⟨[], .nil⟩
  | cons c cs ih =>
    obtain ⟨body, hb⟩ := ih
    by_cases h1 : c = '"'
    · exact ⟨_, .cons c _ cs body (h1 ▸ CharRepr.escQuote) hb⟩
    · by_cases h2 : c = '\\'
      · exact ⟨_, .cons c _ cs body (h2 ▸ CharRepr.escBackslash) hb⟩
      · exact ⟨_, .cons c _ cs body (.plain c h1 h2) hb⟩

/-- **Integer literals.** All digits are read; the value is their decimal value when it fits 32 bits, and the
(repaired) `InvalidIntegerConstant` error carrying the literal text and its location otherwise. -/
theorem C07_integer_literal (o : POracle) (ds tail : List Char) (s : PS) (hs : s.rest = ds ++ tail)
    (hds : ∀ c ∈ ds, isDigit c = true) (htail : ∀ x, tail.head? = some x → isDigit x = false)
    (hfuel : ds.length ≤ o.fuel) :
    run (parseIntegerConstant o) s =
      if digitsToNat ds < 2 ^ 32 then (.ok (.int (digitsToNat ds)), advL s ds)
      else (.error (.err (.invalidIntegerConstant (String.ofList ds) (locOf s))), advL s ds) :=
  run_parseIntegerConstant o ds tail s hs hds htail hfuel

/-- decimal value, digit by digit -/
theorem C07_decimal_value (ds : List Char) (c : Char) : digitsToNat (ds ++ [c]) = digitsToNat ds * 10 + (c.toNat - 48) :=
  digitsToNat_snoc ds c

example : digitsToNat ['4', '0', '9', '6'] = 4096 := by decide

/-! ### round trip for expressions

`ExprText o n cs rd F`: whenever the remaining input is `cs ++ tail`, `tail` starts with a character allowed by `F`,
and the fuel is at least `n`, `parse_expression` succeeds, returns `rd s` (the expression, located relative to the
state `s` where it starts) and leaves the parser exactly behind `cs`. `PrimText` is the same for a primary
expression in front of an optional `.name` chain. -/

/-- atoms followed by a gap and any `.name` chain: literals, captures, variables, scoped variables -/
theorem C07_roundtrip_atom_chain (o : POracle) (a : Atom) (g0 : List Char) (segs : List Seg) (hwf : a.WF o) (hg0 : Gap o g0) :
    ExprText o (segs.length + 2) (chainText a g0 segs)
      (fun s => chainExpr (advL s (a.text ++ g0)) (a.expr s) segs) (ChainFollow o a g0 segs) :=
  exprText_chain o a g0 segs hwf hg0

/-- the unfolded statement of the same fact: result, locations and the exact final state -/
theorem C07_roundtrip_atom_chain_run (o : POracle) (fuel : Nat) (a : Atom) (g0 : List Char) (segs : List Seg)
    (s : PS) (tail : List Char)
    (hs : s.rest = chainText a g0 segs ++ tail)
    (hwf : a.WF o) (hfol : a.Follow o (g0 ++ segsText segs ++ tail).head?)
    (hg0 : Gap o g0) (htok : TokenStart o (segsText segs ++ tail)) (hsegs : SegsWF o segs tail)
    (hfuel : segs.length < fuel) (hof : s.rest.length ≤ o.fuel) (hf5 : 5 ≤ o.fuel) :
    run (parseExpression o (fuel + 1)) s =
      (.ok (chainExpr (advL s (a.text ++ g0)) (a.expr s) segs), advL s (chainText a g0 segs)) :=
  run_parseExpression_chain o fuel a g0 segs s tail hs hwf hfol hg0 htok hsegs hfuel hof hf5

/-- any primary expression followed by a gap and any `.name` chain is an expression -/
theorem C07_roundtrip_primary_chain (o : POracle) (n : Nat) (cs : List Char) (rd : PS → Expr) (F : Option Char → Prop)
    (hp : PrimText o n cs rd F) (g0 : List Char) (segs : List Seg) (hg0 : Gap o g0) :
    ExprText o (max n segs.length + 2) (cs ++ g0 ++ segsText segs)
      (fun s => chainExpr (advL s (cs ++ g0)) (rd s) segs) (PrimChainFollow o F g0 segs) :=
  exprText_of_prim o n cs rd F hp g0 segs hg0

/-- calls: `( gap name gap arg* )`, every argument an expression text (with its own trailing gap) -/
theorem C07_roundtrip_call (o : POracle) (g1 : List Char) (fc : Char) (frest g2 : List Char) (items : List Item)
    (hg1 : Gap o g1) (hg2 : Gap o g2) (hfc : isIdentStart o fc = true) (hfr : ∀ x ∈ frest, isIdent o x = true)
    (hsemi : fc ≠ ';') (hws : isWs o fc = false)
    (hfol : ∀ x, (g2 ++ itemsText items ++ [')']).head? = some x → isIdent o x = false)
    (htok : TokenStart o (itemsText items ++ [')'])) (hitems : ItemsOK o ')' items) :
    PrimText o (items.length + itemsFuel items + 2) (callText g1 fc frest g2 items)
      (fun s => .call (String.ofList (fc :: frest)) (itemsExprs (advL s ('(' :: g1 ++ fc :: frest ++ g2)) items))
      (fun _ => True) :=
  primText_call o g1 fc frest g2 items hg1 hg2 hfc hfr hsemi hws hfol htok hitems

/-- list and set literals: empty, one element, many elements (separators with gaps, optional trailing comma) -/
theorem C07_roundtrip_collection (o : POracle) (isList : Bool) (g1 : List Char) (f : CollForm)
    (hg1 : Gap o g1) (hok : f.OK o isList) :
    PrimText o (f.fuel + 2) (collText isList g1 f)
      (fun s => (if isList then Expr.list else Expr.set) (f.exprs (advL s (openC isList :: g1)))) (fun _ => True) :=
  primText_collection o isList g1 f hg1 hok

/-- list and set comprehensions `[ elem for v in value ]`, including the location of the loop variable -/
theorem C07_roundtrip_comprehension (o : POracle) (isList : Bool) (g1 : List Char) (elem : Item) (gFor : List Char)
    (vc : Char) (vrest gV gIn : List Char) (value : Item)
    (hg1 : Gap o g1) (hgFor : Gap o gFor) (hgV : Gap o gV) (hgIn : Gap o gIn)
    (helem : ExprText o elem.n elem.cs elem.rd elem.F) (hFe : elem.F (some 'f'))
    (hehead : elem.cs.head? ≠ some (closeC isList)) (hetok : ∃ c r, elem.cs = c :: r ∧ c ≠ ';' ∧ isWs o c = false)
    (hvc : isIdentStart o vc = true) (hvr : ∀ x ∈ vrest, isIdent o x = true) (hvsemi : vc ≠ ';') (hvws : isWs o vc = false)
    (hvfol : ∀ x, (gV ++ "in".toList).head? = some x → isIdent o x = false)
    (hvalue : ExprText o value.n value.cs value.rd value.F) (hFv : value.F (some (closeC isList)))
    (hvtok : ∃ c r, value.cs = c :: r ∧ c ≠ ';' ∧ isWs o c = false) :
    PrimText o (max elem.n value.n + 5) (compText isList g1 elem gFor vc vrest gV gIn value)
      (fun s =>
        let sE := advL s (openC isList :: g1)
        let sV := advL sE (elem.cs ++ "for".toList ++ gFor)
        let sX := advL sV (vc :: vrest ++ gV ++ "in".toList ++ gIn)
        if isList then Expr.listComp (elem.rd sE) (String.ofList (vc :: vrest)) (locOf sV) (value.rd sX) (locOf s)
        else Expr.setComp (elem.rd sE) (String.ofList (vc :: vrest)) (locOf sV) (value.rd sX) (locOf s))
      (fun _ => True) :=
  primText_comprehension o isList g1 elem gFor vc vrest gV gIn value hg1 hgFor hgV hgIn helem hFe hehead hetok
    hvc hvr hvsemi hvws hvfol hvalue hFv hvtok

/-! non-vacuity: the hypotheses are met by a concrete comprehension, for every oracle; the instantiated theorem
    gives the parse result of the concrete text, locations included -/

theorem ws_space (o : POracle) : isWs o ' ' = true := by simp [isWs]
theorem gap_space (o : POracle) : Gap o [' '] := Gap.ws ' ' [] (ws_space o) Gap.nil

def exElem (o : POracle) : Item :=
  { n := 2, cs := chainText .trueLit [' '] [],
    rd := fun s => chainExpr (advL s (Atom.trueLit.text ++ [' '])) (Atom.trueLit.expr s) [],
    F := ChainFollow o .trueLit [' '] [] }
def exValue (o : POracle) : Item :=
  { n := 2, cs := chainText (.capture 'x' ['s']) [' '] [],
    rd := fun s => chainExpr (advL s ((Atom.capture 'x' ['s']).text ++ [' '])) ((Atom.capture 'x' ['s']).expr s) [],
    F := ChainFollow o (.capture 'x' ['s']) [' '] [] }

theorem ex_comp (o : POracle) :
    PrimText o 7 (compText true [' '] (exElem o) [' '] 'v' [] [' '] [' '] (exValue o))
      (fun s =>
        let sE := advL s ('[' :: [' '])
        let sV := advL sE ((exElem o).cs ++ "for".toList ++ [' '])
        let sX := advL sV ('v' :: [] ++ [' '] ++ "in".toList ++ [' '])
        Expr.listComp ((exElem o).rd sE) (String.ofList ['v']) (locOf sV) ((exValue o).rd sX) (locOf s))
      (fun _ => True) := by
  have h := C07_roundtrip_comprehension o true [' '] (exElem o) [' '] 'v' [] [' '] [' '] (exValue o)
    (gap_space o) (gap_space o) (gap_space o) (gap_space o)
    (C07_roundtrip_atom_chain o .trueLit [' '] [] trivial (gap_space o))
    (by
      intro tail ht
      refine ⟨?_, ?_, ?_, ?_⟩
      · intro x hx; simp [segsText] at hx; subst hx; simp [isIdent, isAlnum]
      · cases tail with
        | nil => simp at ht
        | cons c r => simp at ht; subst ht; exact Or.inr ⟨'f', r, by simp [segsText], by decide, by simp [isWs]⟩
      · cases tail with
        | nil => simp at ht
        | cons c r => simp at ht; subst ht; exact Or.inr ⟨'f', r, rfl, by decide, by simp [isWs]⟩
      · rw [ht]; simp)
    (by simp [exElem, chainText, Atom.text, closeC])
    ⟨'#', "true ".toList, by simp [exElem, chainText, Atom.text, segsText], by decide, by simp [isWs]⟩
    (by simp [isIdentStart, isAlpha]) (by simp) (by decide) (by simp [isWs])
    (by intro x hx; simp at hx; subst hx; simp [isIdent, isAlnum])
    (C07_roundtrip_atom_chain o (.capture 'x' ['s']) [' '] [] (by simp [Atom.WF, isIdentStart, isIdent, isAlpha, isAlnum]) (gap_space o))
    (by
      intro tail ht
      refine ⟨?_, ?_, ?_, ?_⟩
      · intro x hx; simp [segsText] at hx; subst hx; simp [isIdent, isAlnum]
      · cases tail with
        | nil => simp at ht
        | cons c r => simp [closeC] at ht; subst ht; exact Or.inr ⟨']', r, by simp [segsText], by decide, by simp [isWs]⟩
      · cases tail with
        | nil => simp at ht
        | cons c r => simp [closeC] at ht; subst ht; exact Or.inr ⟨']', r, rfl, by decide, by simp [isWs]⟩
      · rw [ht]; simp [closeC])
    ⟨'@', "xs ".toList, by simp [exValue, chainText, Atom.text, segsText], by decide, by simp [isWs]⟩
  simpa [exElem, exValue, openC] using h

/-- the instantiated round trip, for every oracle: the text `[ #true for v in @xs ]` parses to the comprehension
    it spells, with the locations of `[`, `v` and `@xs`, and is consumed entirely -/
example (o : POracle) (hf : 30 ≤ o.fuel) :
    run (parseExpression o 9) (initState "[ #true for v in @xs ]") =
      (.ok (Expr.listComp .trueLit "v" ⟨0, 12⟩ (.capture "xs" .zero usizeMax usizeMax ⟨0, 17⟩) ⟨0, 0⟩),
       { rest := [], row := 0, col := 22, off := 22 }) := by
  have h := C07_roundtrip_primary_chain o 7 _ _ _ (ex_comp o) [] [] Gap.nil 9 (initState "[ #true for v in @xs ]") []
    (by simp) (by simp [initState, compText, exElem, exValue, chainText, Atom.text, segsText, openC, closeC])
    (by
      intro tail ht
      cases tail with
      | nil => exact ⟨trivial, Or.inl rfl, Or.inl rfl, by simp⟩
      | cons c r => simp at ht)
    (by simp [initState]; omega) (by omega)
  rw [h]
  simp [initState, compText, exElem, exValue, chainText, chainExpr, Atom.text, Atom.expr, segsText, openC, closeC, advL, locOf]
  decide

/-! ### round trip for statements, stanzas and files

`SpellsAt o p s cs a F`: the parser program `p`, started in state `s` in front of `cs ++ tail` for any `tail`
satisfying `F`, returns `a` and stops exactly behind `cs`. `StmtText` is the same for `parse_statement` at every
sufficient fuel. -/

/-- `let` / `var` / `set` -/
theorem C07_roundtrip_stmt_decl (o : POracle) (k : DeclKind) (g1 : List Char) (v : VarItem) (g2 : List Char) (e : Item)
    (hg1 : Gap o g1) (hg2 : Gap o g2) (hv : v.OK o) (he : ExprText o e.n e.cs e.rd e.F)
    (hkwfol : ∀ x, (g1 ++ v.it.cs).head? = some x → isIdent o x = false)
    (hvs : v.it.Starts o) (hes : e.Starts o) (hvF : v.it.F (some '=')) :
    StmtText o (max v.it.n e.n + 2) (declText k g1 v g2 e)
      (fun s =>
        let sV := advL s (k.kw.toList ++ g1)
        let sE := advL sV (v.it.cs ++ "=".toList ++ g2)
        k.mk (v.vr sV) (e.rd sE) (locOf s))
      (fun t => e.F t.head?) := by
  apply stmtText_decl <;> assumption

/-- `node VAR` -/
theorem C07_roundtrip_stmt_node (o : POracle) (g1 : List Char) (v : VarItem) (hg1 : Gap o g1) (hv : v.OK o)
    (hkwfol : ∀ x, (g1 ++ v.it.cs).head? = some x → isIdent o x = false) (hvs : v.it.Starts o) :
    StmtText o (v.it.n + 2) (nodeText g1 v)
      (fun s => .createNode (v.vr (advL s ("node".toList ++ g1))) (locOf s)) (fun t => v.it.F t.head?) := by
  apply stmtText_node <;> assumption

/-- `edge A -> B` -/
theorem C07_roundtrip_stmt_edge (o : POracle) (g1 : List Char) (a : Item) (g2 : List Char) (b : Item)
    (hg1 : Gap o g1) (hg2 : Gap o g2) (ha : ExprText o a.n a.cs a.rd a.F) (hb : ExprText o b.n b.cs b.rd b.F)
    (hkwfol : ∀ x, (g1 ++ a.cs).head? = some x → isIdent o x = false)
    (has : a.Starts o) (hbs : b.Starts o) (haF : a.F (some '-')) :
    StmtText o (max a.n b.n + 1) (edgeText g1 a g2 b)
      (fun s =>
        let sA := advL s ("edge".toList ++ g1)
        let sB := advL sA (a.cs ++ "->".toList ++ g2)
        .createEdge (a.rd sA) (b.rd sB) (locOf s))
      (fun t => b.F t.head?) := by
  apply stmtText_edge <;> assumption

/-- an attribute `name = EXPR` -/
theorem C07_roundtrip_attr_valued (o : POracle) (nc : Char) (nrest gA gB : List Char) (e : Item)
    (hnc : isIdentStart o nc = true) (hnr : ∀ x ∈ nrest, isIdent o x = true)
    (hgA : Gap o gA) (hgB : Gap o gB) (he : ExprText o e.n e.cs e.rd e.F) (hes : e.Starts o)
    (hnfol : ∀ x, (gA ++ ['=']).head? = some x → isIdent o x = false) :
    AttrText o (attrValued o nc nrest gA gB e) := by
  apply attrText_valued <;> assumption

/-- an attribute `name` (value `#true`) -/
theorem C07_roundtrip_attr_bare (o : POracle) (nc : Char) (nrest gA : List Char)
    (hnc : isIdentStart o nc = true) (hnr : ∀ x ∈ nrest, isIdent o x = true) (hgA : Gap o gA) :
    AttrText o (attrBare o nc nrest gA) := by
  apply attrText_bare <;> assumption

/-- attribute lists `ATTR (, ATTR)*` -/
theorem C07_roundtrip_attributes (o : POracle) (first : AttrItem) (items : List (List Char × AttrItem)) (fuel : Nat) (s : PS)
    (hfirst : AttrText o first) (hfu1 : first.n ≤ fuel) (hfu2 : attrsFuel items ≤ fuel) (hlen : items.length < fuel) (hf5 : 5 ≤ o.fuel) :
    SpellsAt o (parseAttributes o fuel) s (attrsText first items) (attrsRd s first items) (AttrsFollow o first items) := by
  apply spells_attributes <;> assumption

/-- `attr (A) ATTRS` -/
theorem C07_roundtrip_stmt_attr_node (o : POracle) (g0 g1 : List Char) (a : Item) (g3 : List Char) (first : AttrItem)
    (items : List (List Char × AttrItem))
    (hg0 : Gap o g0) (hg1 : Gap o g1) (hg3 : Gap o g3) (ha : ExprText o a.n a.cs a.rd a.F) (has : a.Starts o)
    (haF : a.F (some ')')) (hfirst : AttrText o first)
    (hfs : ∃ c r, first.cs = c :: r ∧ c ≠ ';' ∧ isWs o c = false)
    (hkwfol : ∀ x, (g0 ++ ['(']).head? = some x → isIdent o x = false) :
    StmtText o (max (max a.n first.n) (max (attrsFuel items) (items.length + 1)) + 1) (attrNodeText g0 g1 a g3 first items)
      (fun s =>
        let sA := advL s ("attr".toList ++ g0 ++ "(".toList ++ g1)
        let sT := advL sA (a.cs ++ ")".toList ++ g3)
        .attrNode (a.rd sA) (attrsRd sT first items) (locOf s))
      (AttrsFollow o first items) := by
  apply stmtText_attrNode <;> assumption

/-- `attr (A -> B) ATTRS` -/
theorem C07_roundtrip_stmt_attr_edge (o : POracle) (g0 g1 : List Char) (a : Item) (g2 : List Char) (b : Item) (g3 : List Char)
    (first : AttrItem) (items : List (List Char × AttrItem))
    (hg0 : Gap o g0) (hg1 : Gap o g1) (hg2 : Gap o g2) (hg3 : Gap o g3)
    (ha : ExprText o a.n a.cs a.rd a.F) (has : a.Starts o) (haF : a.F (some '-'))
    (hb : ExprText o b.n b.cs b.rd b.F) (hbs : b.Starts o) (hbF : b.F (some ')'))
    (hfirst : AttrText o first) (hfs : ∃ c r, first.cs = c :: r ∧ c ≠ ';' ∧ isWs o c = false)
    (hkwfol : ∀ x, (g0 ++ ['(']).head? = some x → isIdent o x = false) :
    StmtText o (max (max (max a.n b.n) first.n) (max (attrsFuel items) (items.length + 1)) + 1)
      (attrEdgeText g0 g1 a g2 b g3 first items)
      (fun s =>
        let sA := advL s ("attr".toList ++ g0 ++ "(".toList ++ g1)
        let sB := advL sA (a.cs ++ "->".toList ++ g2)
        let sT := advL sB (b.cs ++ ")".toList ++ g3)
        .attrEdge (a.rd sA) (b.rd sB) (attrsRd sT first items) (locOf s))
      (AttrsFollow o first items) := by
  apply stmtText_attrEdge <;> assumption

/-- `print EXPR (, EXPR)*` -/
theorem C07_roundtrip_stmt_print (o : POracle) (g0 : List Char) (e : Item) (items : List (List Char × Item))
    (hg0 : Gap o g0) (he : ExprText o e.n e.cs e.rd e.F) (hes : e.Starts o)
    (hkwfol : ∀ x, (g0 ++ e.cs).head? = some x → isIdent o x = false) :
    StmtText o (max e.n (printFuel items + 1) + 1) (printText g0 e items)
      (fun s =>
        let sE := advL s ("print".toList ++ g0)
        .print (e.rd sE :: printRestRd (advL sE e.cs) items) (locOf s))
      (fun t => e.F (printRestText items ++ t).head? ∧ TokenStart o (printRestText items ++ t) ∧ PrintRestOK o t items ∧
        t.head? ≠ some ',' ∧ TokenStart o t) := by
  apply stmtText_print <;> assumption

/-- conditions `some EXPR` / `none EXPR` -/
theorem C07_roundtrip_cond_opt (o : POracle) (isSome : Bool) (g : List Char) (e : Item) (hg : Gap o g)
    (he : ExprText o e.n e.cs e.rd e.F) (hes : e.Starts o)
    (hkwfol : ∀ x, (g ++ e.cs).head? = some x → isIdent o x = false) :
    CondText o (condOpt o isSome g e) := by
  apply condText_opt <;> assumption

/-- a boolean condition -/
theorem C07_roundtrip_cond_bool (o : POracle) (e : Item) (he : ExprText o e.n e.cs e.rd e.F) :
    CondText o (condBool o e) := by
  apply condText_bool <;> assumption

/-- blocks `{ STMT* }` -/
theorem C07_roundtrip_block (o : POracle) (g0 : List Char) (items : List (StmtItem × List Char)) (fuel : Nat) (s : PS)
    (hg0 : Gap o g0) (hfu : bodyFuel items + 1 < fuel) (hf5 : 5 ≤ o.fuel) :
    SpellsAt o (parseStatements o fuel) s (blockText g0 items) (bodyRd (advL s ('{' :: g0)) items)
      (fun t => BodyOK o t items ∧ TokenStart o (bodyText items ++ '}' :: t)) := by
  apply spells_block <;> assumption

/-- `for VAR in EXPR BLOCK` -/
theorem C07_roundtrip_stmt_for (o : POracle) (g0 : List Char) (vc : Char) (vrest gV gIn : List Char) (e : Item) (gB : List Char)
    (items : List (StmtItem × List Char))
    (hg0 : Gap o g0) (hgV : Gap o gV) (hgIn : Gap o gIn) (hgB : Gap o gB)
    (hvc : isIdentStart o vc = true) (hvr : ∀ x ∈ vrest, isIdent o x = true) (hvsemi : vc ≠ ';') (hvws : isWs o vc = false)
    (hkwfol : ∀ x, (g0 ++ [vc]).head? = some x → isIdent o x = false)
    (hvfol : ∀ x, (gV ++ "in".toList).head? = some x → isIdent o x = false)
    (he : ExprText o e.n e.cs e.rd e.F) (hes : e.Starts o) (heF : e.F (some '{')) :
    StmtText o (max (e.n + 1) (bodyFuel items + 3) + 4) (forText g0 vc vrest gV gIn e gB items)
      (fun s =>
        let sV := advL s ("for".toList ++ g0)
        let sE := advL sV (vc :: vrest ++ gV ++ "in".toList ++ gIn)
        let sB := advL sE e.cs
        .forIn (String.ofList (vc :: vrest)) (locOf sV) (e.rd sE) (bodyRd (advL sB ('{' :: gB)) items) (locOf s))
      (fun t => BodyOK o t items ∧ TokenStart o (bodyText items ++ '}' :: t)) := by
  apply stmtText_for <;> assumption

/-- `if CONDS BLOCK (elif CONDS BLOCK)* (else BLOCK)?`; every arm is located where its keyword starts -/
theorem C07_roundtrip_stmt_if (o : POracle) (g0 : List Char) (a : ArmItem) (elifs : List ArmItem) (els : Option ElseItem)
    (hg0 : Gap o g0) (hgK : a.gK = [])
    (hkwfol : ∀ x, (g0 ++ a.first.cs).head? = some x → isIdent o x = false) :
    StmtText o (max (max a.fuel (elifsFuel elifs + 1)) (elseFuel els) + 1) (ifText g0 a elifs els)
      (fun s =>
        let sA := advL s ("if".toList ++ g0)
        let sE := advL sA a.text
        let sL := advL sE (elifsText elifs)
        .ifS (((a.rd sA).1, (a.rd sA).2, locOf s) :: elifsRd sE elifs ++ elseRd sL els) (locOf s))
      (fun t => a.OK o (elifsText elifs ++ (elseText els ++ t)) ∧ ElifsOK o (elseText els ++ t) elifs ∧
        "elif".toList.isPrefixOf (elseText els ++ t) = false ∧ ElseOK o t els) := by
  apply stmtText_if <;> assumption

/-- `scan EXPR { ("REGEX" BLOCK)* }` (regular expressions accepted by the regex oracle) -/
theorem C07_roundtrip_stmt_scan (o : POracle) (g0 : List Char) (e : Item) (g1 : List Char) (arms : List ScanArmItem)
    (hg0 : Gap o g0) (hg1 : Gap o g1) (he : ExprText o e.n e.cs e.rd e.F) (hes : e.Starts o) (heF : e.F (some '{'))
    (hkwfol : ∀ x, (g0 ++ e.cs).head? = some x → isIdent o x = false) :
    StmtText o (max e.n (scanArmsFuel arms + 1) + 1) (scanText g0 e g1 arms)
      (fun s =>
        let sE := advL s ("scan".toList ++ g0)
        let sA := advL sE (e.cs ++ "{".toList ++ g1)
        .scan (e.rd sE) (scanArmsRd (locOf s) sA arms) (locOf s))
      (fun t => ScanArmsOK o t arms ∧ TokenStart o (scanArmsText arms ++ '}' :: t)) := by
  apply stmtText_scan <;> assumption

/-- the query text handed to tree-sitter is exactly the text in front of the first `{` outside strings and comments -/
theorem C07_query_text : ∀ (q : List Char) (m : QMode) (fuel depth : Nat) (acc tail : List Char) (s : PS),
    qscan m q = some .plain → s.rest = q ++ '{' :: tail → q.length < fuel →
    run (skipQuery fuel depth m.inString m.inEscape m.inComment acc) s = (.ok (acc.reverse ++ q), advL s q) := by
  apply run_skipQuery <;> assumption

/-- stanzas `QUERY BLOCK` (queries accepted by the query oracle as one pattern) -/
theorem C07_roundtrip_stanza (o : POracle) (st : StanzaItem) (fuel : Nat) (s : PS) (hfu : bodyFuel st.body + 1 < fuel) (hf5 : 5 ≤ o.fuel) :
    SpellsAt o (parseStanza o fuel) s st.text (st.rd s) (fun t => st.OK o t) := by
  apply spells_stanza <;> assumption

/-- `global NAME q (= "default")?` after its keyword -/
theorem C07_roundtrip_global (o : POracle) (g : GlobalItem) (s : PS) :
    SpellsAt o (parseGlobal o) s g.text (g.rd s) (fun t => g.OK o t) := by
  apply spells_global <;> assumption

/-- `attribute NAME = VAR => ATTRS` after its keyword -/
theorem C07_roundtrip_shorthand (o : POracle) (h : ShorthandItem) (fuel : Nat) (s : PS) (hwf : h.WF o) (hfu : h.fuel ≤ fuel) (hf5 : 5 ≤ o.fuel) :
    SpellsAt o (parseShorthand o fuel) s h.text (h.rd s) (AttrsFollow o h.first h.attrs) := by
  apply spells_shorthand <;> assumption

/-- **whole files** -/
theorem C07_roundtrip_file (o : POracle) (text : String) (g0 : List Char) (items : List (FileItem × List Char))
    (htext : text.toList = fileText g0 items)
    (hg0 : Gap { o with fuel := text.length + 2 } g0)
    (htok : TokenStart { o with fuel := text.length + 2 } (fileItemsText items))
    (hok : FileItemsOK { o with fuel := text.length + 2 } items)
    (hfu : fileItemsFuel items ≤ 8 * (text.length + 2)) (hlen : 3 ≤ text.length) :
    parse o text = .ok (fileItemsApply (advL (initState text) g0) emptyFile items) := by
  apply parse_roundtrip <;> assumption

/-! non-vacuity of the file theorem: a concrete file, for every oracle that answers the one query question -/

def exChars : List Char := ['(', 'm', 'o', 'd', 'u', 'l', 'e', ')', ' ', '@', 'm', ' ', '{', '\n', ' ', ' ', 'n', 'o', 'd', 'e', ' ', 'n', '\n', '}', '\n']
def exText : String := String.ofList exChars

def exVar (o : POracle) : VarItem :=
  { it := { n := 2, cs := chainText (.var 'n' []) ['\n'] [],
            rd := fun s => chainExpr (advL s ((Atom.var 'n' []).text ++ ['\n'])) ((Atom.var 'n' []).expr s) [],
            F := ChainFollow o (.var 'n' []) ['\n'] [] },
    vr := fun s => .unscoped "n" (locOf s) }

def exStmt (o : POracle) : StmtItem :=
  { n := (exVar o).it.n + 2, cs := nodeText [' '] (exVar o),
    rd := fun s => .createNode ((exVar o).vr (advL s ("node".toList ++ [' ']))) (locOf s),
    F := fun t => (exVar o).it.F t.head? }

def exQ : List Char := ['(', 'm', 'o', 'd', 'u', 'l', 'e', ')', ' ', '@', 'm', ' ']

def exCaps : List (String × Quant) := [("m", .one), (fullMatchName, .one)]

def exStanza (o : POracle) : StanzaItem :=
  { q := exQ, gB := ['\n', ' ', ' '], body := [(exStmt o, [])], patterns := 1, caps := exCaps, ix := 1 }

theorem ex_ws_nl (o : POracle) : isWs o '\n' = true := by simp [isWs]
theorem ex_ws_sp (o : POracle) : isWs o ' ' = true := by simp [isWs]

theorem exVar_ok (o : POracle) : (exVar o).OK o := by
  refine ⟨?_, ?_⟩
  · exact exprText_chain o (.var 'n' []) ['\n'] [] (by simp [Atom.WF, isIdentStart, isAlpha]) (Gap.ws '\n' [] (ex_ws_nl o) Gap.nil)
  · intro s; simp [exVar, chainExpr, Atom.expr, exprVar]

theorem exStmt_text (o : POracle) : StmtText o (exStmt o).n (exStmt o).cs (exStmt o).rd (exStmt o).F :=
  stmtText_node o [' '] (exVar o) (Gap.ws ' ' [] (ex_ws_sp o) Gap.nil) (exVar_ok o)
    (by intro x hx; simp at hx; subst hx; simp [isIdent, isAlnum])
    ⟨'n', ['\n'], by simp [exVar, chainText, Atom.text, segsText], by decide, by simp [isWs]⟩


theorem ex_follow (o : POracle) (tail : List Char) : (exStmt o).F ('}' :: tail) := by
  show ChainFollow o (.var 'n' []) ['\n'] [] (some '}')
  intro t ht
  cases t with
  | nil => simp at ht
  | cons c r =>
    simp at ht; subst ht
    refine ⟨?_, ?_, ?_, ?_⟩
    · intro x hx; simp [segsText] at hx; subst hx; simp [isIdent, isAlnum]
    · exact Or.inr ⟨'}', r, by simp [segsText], by decide, by simp [isWs]⟩
    · exact Or.inr ⟨'}', r, rfl, by decide, by simp [isWs]⟩
    · simp

theorem exStanza_ok (o : POracle) (t : List Char)
    (hq : o.query (String.ofList exQ ++ "@" ++ fullMatchName) = some (.valid 1 exCaps)) : (exStanza o).OK o t := by
  refine ⟨?_, hq, ?_, ?_, ?_, ?_, ?_⟩
  · show qscan .plain exQ = some .plain
    decide
  · show 1 ≤ 1
    omega
  · show exCaps.findIdx? (·.1 = fullMatchName) = some 1
    decide
  · exact Gap.ws '\n' _ (ex_ws_nl o) (Gap.ws ' ' _ (ex_ws_sp o) (Gap.ws ' ' _ (ex_ws_sp o) Gap.nil))
  · refine ⟨exStmt_text o, ⟨'n', ['o', 'd', 'e', ' ', 'n', '\n'], by simp [exStmt, nodeText, exVar, chainText, Atom.text, segsText], by decide⟩, Gap.nil, ?_, ?_, trivial⟩
    · simpa [bodyText] using ex_follow o t
    · simpa [bodyText] using (tokenStart_cons (o := o) '}' t (by decide) (by simp [isWs]))
  · exact Or.inr ⟨'n', ['o', 'd', 'e', ' ', 'n', '\n'] ++ '}' :: t, by simp [exStanza, bodyText, exStmt, nodeText, exVar, chainText, Atom.text, segsText], by decide, by simp [isWs]⟩


/-- the instantiated round trip for a whole file: for every oracle whose query answer for the stanza's pattern is
"valid, one pattern, captures `m` and the full match", the text
`(module) @m {⏎  node n⏎}⏎` parses to one stanza with one `node n` statement, all locations as written -/
theorem C07_roundtrip_file_example (o : POracle)
    (hq : o.query (String.ofList exQ ++ "@" ++ fullMatchName) = some (.valid 1 exCaps)) :
    parse o exText = .ok
      { globals := [], inherited := [], shorthands := [],
        stanzas := [{ stmts := [.createNode (.unscoped "n" ⟨1, 7⟩) ⟨1, 2⟩], fullMatchStanzaIx := 1, fullMatchFileIx := usizeMax,
                      rangeStart := ⟨0, 0⟩, rangeEnd := ⟨2, 1⟩, captures := exCaps }] } := by
  have hlen : exText.length = 25 := by
    rw [exText, String.length_ofList]; decide
  have htl : exText.toList = exChars := by rw [exText, String.toList_ofList]
  let o' : POracle := { o with fuel := exText.length + 2 }
  have hq' : o'.query (String.ofList exQ ++ "@" ++ fullMatchName) = some (.valid 1 exCaps) := hq
  have hnode : "node".toList = ['n', 'o', 'd', 'e'] := by simp
  have htxt : (exStanza o').text = ['(', 'm', 'o', 'd', 'u', 'l', 'e', ')', ' ', '@', 'm', ' ', '{', '\n', ' ', ' ', 'n', 'o', 'd', 'e', ' ', 'n', '\n', '}'] := by
    simp only [StanzaItem.text, exStanza, exQ, blockText, bodyText, exStmt, nodeText, exVar, chainText, Atom.text, segsText, hnode]
    rfl
  have h1 : exText.toList = fileText [] [(FileItem.stanza (exStanza o'), ['\n'])] := by
    rw [htl]
    show exChars = [] ++ ((exStanza o').text ++ (['\n'] ++ []))
    rw [htxt]; rfl
  have h2 : Gap o' [] := Gap.nil
  have h3 : TokenStart o' (fileItemsText [(FileItem.stanza (exStanza o'), ['\n'])]) := by
    show TokenStart o' ((exStanza o').text ++ (['\n'] ++ []))
    rw [htxt]
    exact Or.inr ⟨'(', _, rfl, by decide, by simp [isWs]⟩
  have h4 : FileItemsOK o' [(FileItem.stanza (exStanza o'), ['\n'])] := by
    refine ⟨⟨exStanza_ok o' _ hq', ?_, ?_, ?_⟩, Gap.ws '\n' [] (ex_ws_nl _) Gap.nil, Or.inl rfl, trivial⟩
    · rw [htxt]; simp [List.isPrefixOf]
    · rw [htxt]; simp [List.isPrefixOf]
    · rw [htxt]; simp [List.isPrefixOf]
  have h5 : fileItemsFuel [(FileItem.stanza (exStanza o'), ['\n'])] ≤ 8 * (exText.length + 2) := by
    rw [hlen]
    show max (bodyFuel (exStanza o').body + 2) 0 ≤ _
    simp [exStanza, bodyFuel, exStmt, exVar]
  have h := parse_roundtrip o exText [] [(FileItem.stanza (exStanza o'), ['\n'])] h1 h2 h3 h4 h5 (by omega)
  rw [h]
  have hinit : initState exText = { rest := exChars, row := 0, col := 0, off := 0 } := by
    simp only [initState, htl]
  simp only [fileItemsApply, FileItem.apply, emptyFile, StanzaItem.rd, advL_nil, hinit, htxt]
  simp only [exStanza, bodyRd, exStmt, exVar, exQ, hnode, List.nil_append, List.cons_append]
  simp [advL, locOf, exChars]
  decide


end C07
