/-
  C08 — Lazy evaluation does not depend on the order of stanzas.

  Reordering stanzas permutes the deferred statements inside each of the three queues of the lazy graph
  (edges, attributes, prints) and the pairs collected per scoped-variable name. Proved here: applying
  attribute assignments in any order succeeds exactly when applying them in the original order succeeds,
  with the same resulting attribute map (`C08_attrs_order_free`); a batch of `edge` statements leaves the same edges in
  any order (`C08_edges_order_free`); the pairs collected for a scoped-variable name may be forced in any order
  (`C08_scoped_defs_order_free`: same success, same lookups, same machine state); and the phase order of the evaluate phase. The whole-program statement `C08_full` is kept as a `Prop`; it is
  covered by the differential check, which executes every permutation of the stanzas of every generated file.
-/
import Tsg.Proofs.Containers
import Tsg.Sem.Lazy
import Tsg.Proofs.OrderFree

namespace C08

abbrev F := String → Option Val

/-- one single-assignment step on a plain map: equal value accepted, different value = failure -/
def fstep (m : F) (kv : String × Val) : Option F :=
  match m kv.1 with
  | some old => if old = kv.2 then some m else none
  | none => some (fun k => if k = kv.1 then some kv.2 else m k)

def fassign (m : F) : List (String × Val) → Option F
  | [] => some m
  | kv :: rest => (fstep m kv).bind fun m' => fassign m' rest

/-- apply assignments to an attribute set in order; `none` as soon as one conflicts (`Attributes::add` = Err) -/
def assignAll (a : Attrs) : List (String × Val) → Option Attrs
  | [] => some a
  | (k, v) :: rest => if (Attrs.add a k v).2 then none else assignAll (Attrs.add a k v).1 rest

theorem get_add (a : Attrs) (k k2 : String) (v : Val) :
    (Attrs.add a k v).1.get k2 = if k2 = k then some v else a.get k2 := by
  by_cases h : k2 = k
  · subst h; simp [Attrs.get_add_same]
  · simp [h, Attrs.get_add_other a k k2 v h]

theorem conflict_eq (a : Attrs) (k : String) (v : Val) :
    (Attrs.add a k v).2 = match a.get k with | some old => decide (old ≠ v) | none => false := by
  have h := Attrs.add_conflict_iff a k v
  cases hg : a.get k with
  | none =>
    cases hc : (Attrs.add a k v).2 with
    | false => rfl
    | true => rw [hc] at h; obtain ⟨old, ho, _⟩ := h.mp rfl; rw [hg] at ho; cases ho
  | some old =>
    by_cases ho : old = v
    · subst ho
      cases hc : (Attrs.add a k old).2 with
      | false => simp
      | true => rw [hc] at h; obtain ⟨o2, ho2, hne⟩ := h.mp rfl; rw [hg] at ho2; cases ho2; exact absurd rfl hne
    · have : (Attrs.add a k v).2 = true := h.mpr ⟨old, hg, ho⟩
      simp [this, ho]

/-- the concrete attribute set implements the plain map -/
theorem assignAll_refines (a : Attrs) (l : List (String × Val)) :
    (assignAll a l).map Attrs.get = fassign a.get l := by
  induction l generalizing a with
  | nil => rfl
  | cons kv rest ih =>
    obtain ⟨k, v⟩ := kv
    simp only [assignAll, fassign, fstep, conflict_eq]
    cases hg : a.get k with
    | none =>
      simp only [Bool.false_eq_true, if_false, Option.bind_some]
      rw [ih]
      congr 1
      funext k2; rw [get_add]
    | some old =>
      by_cases ho : old = v
      · subst ho
        simp only [ne_eq, not_true_eq_false, decide_false, Bool.false_eq_true, if_false, if_true, Option.bind_some]
        rw [ih]
        congr 1
        funext k2; rw [get_add]
        by_cases hk : k2 = k
        · subst hk; simp [hg]
        · simp [hk]
      · simp [ho]

def upd (m : F) (k : String) (v : Val) : F := fun k' => if k' = k then some v else m k'

theorem fstep_some (m : F) (k : String) (v old : Val) (hm : m k = some old) :
    fstep m (k, v) = if old = v then some m else none := by simp [fstep, hm]

theorem fstep_none (m : F) (k : String) (v : Val) (hm : m k = none) : fstep m (k, v) = some (upd m k v) := by
  simp only [fstep, hm]; rfl

theorem upd_same (m : F) (k : String) (v : Val) : upd m k v k = some v := by simp [upd]
theorem upd_other (m : F) (k k' : String) (v : Val) (h : k' ≠ k) : upd m k v k' = m k' := by simp [upd, h]

theorem upd_comm (m : F) (k1 k2 : String) (v1 v2 : Val) (h : k1 ≠ k2) :
    upd (upd m k1 v1) k2 v2 = upd (upd m k2 v2) k1 v1 := by
  funext k
  by_cases ha : k = k1 <;> by_cases hb : k = k2 <;> simp_all [upd]

theorem fstep_swap (m : F) (x y : String × Val) :
    ((fstep m x).bind fun m' => fstep m' y) = ((fstep m y).bind fun m' => fstep m' x) := by
  obtain ⟨k1, v1⟩ := x
  obtain ⟨k2, v2⟩ := y
  by_cases hk : k1 = k2
  · subst hk
    cases hm : m k1 with
    | none =>
      rw [fstep_none m k1 v1 hm, fstep_none m k1 v2 hm]
      simp only [Option.bind_some]
      rw [fstep_some _ k1 v2 v1 (upd_same m k1 v1), fstep_some _ k1 v1 v2 (upd_same m k1 v2)]
      by_cases hv : v1 = v2
      · subst hv; rfl
      · have hv' : ¬ v2 = v1 := fun h => hv h.symm
        simp [hv, hv']
    | some old =>
      rw [fstep_some m k1 v1 old hm, fstep_some m k1 v2 old hm]
      by_cases h1 : old = v1
      · by_cases h2 : old = v2
        · rw [if_pos h1, if_pos h2]
          simp only [Option.bind_some]
          rw [fstep_some m k1 v2 old hm, fstep_some m k1 v1 old hm, if_pos h1, if_pos h2]
        · rw [if_pos h1, if_neg h2]
          simp only [Option.bind_some, Option.bind_none]
          rw [fstep_some m k1 v2 old hm, if_neg h2]
      · by_cases h2 : old = v2
        · rw [if_neg h1, if_pos h2]
          simp only [Option.bind_some, Option.bind_none]
          rw [fstep_some m k1 v1 old hm, if_neg h1]
        · rw [if_neg h1, if_neg h2]
          simp only [Option.bind_none]
  · have hk' : k2 ≠ k1 := fun h => hk h.symm
    cases hm1 : m k1 with
    | none =>
      rw [fstep_none m k1 v1 hm1]
      cases hm2 : m k2 with
      | none =>
        rw [fstep_none m k2 v2 hm2]
        simp only [Option.bind_some]
        rw [fstep_none _ k2 v2 (by rw [upd_other _ _ _ _ hk']; exact hm2),
            fstep_none _ k1 v1 (by rw [upd_other _ _ _ _ hk]; exact hm1), upd_comm m k1 k2 v1 v2 hk]
      | some o2 =>
        rw [fstep_some m k2 v2 o2 hm2]
        simp only [Option.bind_some]
        rw [fstep_some _ k2 v2 o2 (by rw [upd_other _ _ _ _ hk']; exact hm2)]
        by_cases h2 : o2 = v2
        · simp only [h2, if_true, Option.bind_some]; rw [fstep_none m k1 v1 hm1]
        · simp [h2]
    | some o1 =>
      rw [fstep_some m k1 v1 o1 hm1]
      by_cases h1 : o1 = v1
      · simp only [h1, if_true, Option.bind_some]
        cases hm2 : m k2 with
        | none =>
          rw [fstep_none m k2 v2 hm2]
          simp only [Option.bind_some]
          rw [fstep_some _ k1 v1 o1 (by rw [upd_other _ _ _ _ hk]; exact hm1)]
          simp [h1]
        | some o2 =>
          rw [fstep_some m k2 v2 o2 hm2]
          by_cases h2 : o2 = v2
          · simp only [h2, if_true, Option.bind_some]; rw [fstep_some m k1 v1 o1 hm1]; simp [h1]
          · simp [h2]
      · simp only [h1, if_false, Option.bind_none]
        cases hm2 : m k2 with
        | none =>
          rw [fstep_none m k2 v2 hm2]
          simp only [Option.bind_some]
          rw [fstep_some _ k1 v1 o1 (by rw [upd_other _ _ _ _ hk]; exact hm1)]
          simp [h1]
        | some o2 =>
          rw [fstep_some m k2 v2 o2 hm2]
          by_cases h2 : o2 = v2
          · simp only [h2, if_true, Option.bind_some]; rw [fstep_some m k1 v1 o1 hm1]; simp [h1]
          · simp [h2]

theorem fassign_perm (l l' : List (String × Val)) (h : l.Perm l') : ∀ m, fassign m l = fassign m l' := by
  induction h with
  | nil => intro m; rfl
  | cons x _ ih => intro m; simp only [fassign]; cases fstep m x <;> simp [ih]
  | swap x y l =>
    intro m
    have hs := fstep_swap m y x
    have key : ∀ (a b : String × Val), fassign m (a :: b :: l) = ((fstep m a).bind fun m' => fstep m' b).bind fun m'' => fassign m'' l := by
      intro a b
      simp only [fassign]
      cases fstep m a <;> simp
    rw [key, key, hs]
  | trans _ _ ih1 ih2 => intro m; rw [ih1, ih2]

/-- **Attribute assignments are order-free.** For every attribute set and every list of assignments,
applying any permutation of the list succeeds exactly when applying the list succeeds — that is, iff no two
assignments to one name differ (and none differs from a value already present) — and the resulting attribute
maps answer every `get` alike. -/
theorem C08_attrs_order_free (a : Attrs) (l l' : List (String × Val)) (h : l.Perm l') :
    (assignAll a l).map Attrs.get = (assignAll a l').map Attrs.get := by
  rw [assignAll_refines, assignAll_refines, fassign_perm l l' h]

theorem C08_attrs_success_order_free (a : Attrs) (l l' : List (String × Val)) (h : l.Perm l') :
    (assignAll a l).isSome = (assignAll a l').isSome := by
  have := congrArg Option.isSome (C08_attrs_order_free a l l' h)
  simpa using this

/-- success criterion: a single assignment fails exactly when a different value is present -/
theorem C08_conflict_iff (m : F) (k : String) (v : Val) :
    fstep m (k, v) = none ↔ ∃ old, m k = some old ∧ old ≠ v := by
  cases hm : m k with
  | none => simp [fstep, hm]
  | some old => by_cases ho : old = v <;> simp [fstep, hm, ho]

/-- **Phase order** of the lazy graph (`LazyGraph::evaluate`): all edge statements, then all attribute
statements, then all print statements, then every thunk, then every scoped variable -/
theorem C08_phase_order (cfg : Cfg) (ef : Nat) :
    Lazy.evaluatePhase cfg ef =
      (Prog.getR >>= fun s =>
        Lazy.evalQueue cfg ef s.edgeQ >>= fun _ =>
        Lazy.evalQueue cfg ef s.attrQ >>= fun _ =>
        Lazy.evalQueue cfg ef s.printQ >>= fun _ =>
        Prog.getR >>= fun s =>
        Lazy.forceAllThunks cfg ef s.thunks.length 0 >>= fun _ =>
        Prog.getR >>= fun s =>
        Lazy.forceAllCells cfg ef ((s.cells.map (·.1)).mergeSort (fun a b => decide (a ≤ b)))) := rfl

/-- statements are routed to the queues by kind only (`LazyGraph::push`): an `attr` on an edge is queued
after every `edge` statement of the whole file, whatever stanza it came from -/
theorem C08_queue_routing (node src sink : LVal) (as : List (String × LVal)) (ea : Attrs) (dbg : StmtCtx) (s : LSt) :
    (Prog.run (Lazy.pushStmt (.createEdge src sink ea dbg)) ⟨{}, s, ⟨0, none⟩⟩ =
      .ok () ⟨{}, { s with edgeQ := s.edgeQ ++ [.createEdge src sink ea dbg] }, ⟨0, none⟩⟩) ∧
    (Prog.run (Lazy.pushStmt (.attrEdge src sink as dbg)) ⟨{}, s, ⟨0, none⟩⟩ =
      .ok () ⟨{}, { s with attrQ := s.attrQ ++ [.attrEdge src sink as dbg] }, ⟨0, none⟩⟩) ∧
    (Prog.run (Lazy.pushStmt (.attrNode node as dbg)) ⟨{}, s, ⟨0, none⟩⟩ =
      .ok () ⟨{}, { s with attrQ := s.attrQ ++ [.attrNode node as dbg] }, ⟨0, none⟩⟩) := by
  simp [Lazy.pushStmt, Prog.modifyR, Prog.primP, Prog.run]


/-- **`edge` statements are order-free.** Creating a batch of edges (no debug attributes) in any order gives the same
edges with the same attributes between the same nodes, and keeps the representation invariant: the lazy edge queue may be
processed in the order of any permutation of the stanzas. (`OrderFree.getEdge_addEdges` says what the batch leaves
behind: the edges that were there keep their attributes, an edge named by a statement whose source exists is there
without attributes, nothing else is.) -/
theorem C08_edges_order_free (g : CGraph) (l l' : List (Nat × Nat)) (hp : l.Perm l') (hinv : CGraph.Inv g) :
    (∀ a b, (OrderFree.addEdges g l).getEdge a b = (OrderFree.addEdges g l').getEdge a b) ∧
    (OrderFree.addEdges g l).nodes.length = (OrderFree.addEdges g l').nodes.length ∧
    CGraph.Inv (OrderFree.addEdges g l) ∧ CGraph.Inv (OrderFree.addEdges g l') :=
  OrderFree.edges_order_free g l l' hp hinv

/-- `OrderFree.addEdgeG` is what one lazy `edge` statement does to the graph when debug attributes are off -/
example (g : CGraph) (src sink : Nat) :
    OrderFree.addEdgeG g (src, sink) = ((GraphOp.addEdge src sink []).apply g).2 := rfl

/-- **the definitions of a scoped variable may be collected in any order.** Reordering stanzas (or matches) permutes the
`(scope, value)` pairs collected for a name. With the scopes known and the run not cancelled, forcing the permuted pairs
(`Lazy.forcePairs`, the model of `LazyScopedVariables::force`) succeeds exactly when forcing the original pairs succeeds;
on success both leave the same machine state and the two maps answer every lookup alike (so every read — own node or
nearest ancestor — sees the same value); on failure both report a duplicate variable. -/
theorem C08_scoped_defs_order_free (cfg : Cfg) (ef : Nat) (name : String) (l l' : List OrderFree.Def) (hp : l.Perm l')
    (s : Prog.MSt LSt) (hc : s.ps.cancelAt = none) :
    match Prog.run (Lazy.forcePairs cfg (ef + 1) name (OrderFree.liftDefs l) [] []) s,
          Prog.run (Lazy.forcePairs cfg (ef + 1) name (OrderFree.liftDefs l') [] []) s with
    | .ok m s1, .ok m' s2 => s1 = s2 ∧ ∀ k, m.lookup k = m'.lookup k
    | .fail f _, .fail f' _ => (∃ a b, f = (Fail.err (.base .duplicateVariable "")).withContext (.stmt [a, b])) ∧
                               (∃ a b, f' = (Fail.err (.base .duplicateVariable "")).withContext (.stmt [a, b]))
    | _, _ => False := by
  have h := OrderFree.scoped_defs_order_free cfg ef name l l' hp s hc
  cases hr1 : Prog.run (Lazy.forcePairs cfg (ef + 1) name (OrderFree.liftDefs l) [] []) s with
  | ok m s1 =>
    cases hr2 : Prog.run (Lazy.forcePairs cfg (ef + 1) name (OrderFree.liftDefs l') [] []) s with
    | ok m' s2 => rw [hr1, hr2] at h; exact h
    | fail _ _ => rw [hr1, hr2] at h; exact h
  | fail _ _ =>
    cases hr2 : Prog.run (Lazy.forcePairs cfg (ef + 1) name (OrderFree.liftDefs l') [] []) s with
    | ok m' s2 => rw [hr1, hr2] at h; exact h
    | fail _ _ => rw [hr1, hr2] at h; exact h

/-- non-vacuity: two definitions on different nodes succeed; a third on the first node is a duplicate, wherever it stands -/
example : OrderFree.pureForce [(1, .value (.int 1), default), (2, .value (.int 2), default)] [] [] =
    .ok [(1, .value (.int 1)), (2, .value (.int 2))] := rfl
example : ∃ e, OrderFree.pureForce [(1, LVal.value (.int 1), default), (2, .value (.int 2), default), (1, .value (.int 3), default)] [] [] = .error e :=
  ⟨_, rfl⟩

/-- the property as stated, for the lazy model -/
def C08_full (Iso : CGraph → CGraph → Prop) : Prop :=
  ∀ (file file' : File) (tree : Tree) (oracle : Oracle) (globals : GlobalsM) (fuel ef : Nat)
    (merged merged' : List QMatch),
    file'.stanzas.Perm file.stanzas → file'.globals = file.globals → file'.inherited = file.inherited →
    file'.shorthands = file.shorthands →
    let a := Lazy.run file tree oracle globals none none none none fuel ef merged {}
    let b := Lazy.run file' tree oracle globals none none none none fuel ef merged' {}
    (a.outcome = none ↔ b.outcome = none) ∧ (a.outcome = none → Iso a.graph b.graph)

/-- non-vacuity: two assignments to one name with different values fail in both orders -/
example : assignAll [] [("k", .int 1), ("k", .int 2)] = none ∧ assignAll [] [("k", .int 2), ("k", .int 1)] = none := by
  have h1 := C08_attrs_success_order_free [] [("k", .int 1), ("k", .int 2)] [("k", .int 2), ("k", .int 1)] (List.Perm.swap _ _ _)
  have : assignAll [] [("k", Val.int 1), ("k", Val.int 2)] = none := by
    simp [assignAll, Attrs.add, List.lookup]
  rw [this] at h1
  exact ⟨this, by cases h : assignAll [] [("k", Val.int 2), ("k", Val.int 1)] <;> simp_all⟩

end C08

