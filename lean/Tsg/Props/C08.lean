/-
  C08 — Lazy evaluation does not depend on the order of stanzas.

  Reordering stanzas permutes the deferred statements inside each of the three queues of the lazy graph
  (edges, attributes, prints) and the pairs collected per scoped-variable name. Proved here: applying
  attribute assignments in any order succeeds exactly when applying them in the original order succeeds,
  with the same resulting attribute map (`C08_attrs_order_free`); a batch of `edge` statements leaves the same edges in
  any order (`C08_edges_order_free`); a batch of node-attribute assignments over any number of nodes succeeds in any order or in none,
  with the same lookups (`C08_node_attrs_order_free`), and so does `Lazy.evalQueue` on the attribute queue itself once targets and
  values are known (`C08_attr_queue_order_free`), and on the edge queue (`C08_edge_queue_order_free`); the WHOLE evaluate phase (`Lazy.evaluatePhase`) on two states
  that hold the same value-level statements in different queue orders succeeds on both or on neither, with the same nodes, edges and
  attribute lookups (`C08_evaluate_phase_order_free`); the pairs collected for a scoped-variable name may be forced in any order
  (`C08_scoped_defs_order_free`: same success, same lookups, same machine state); and the phase order of the evaluate phase. The whole-program statement `C08_full` is kept as a `Prop`; it is
  covered by the differential check, which executes every permutation of the stanzas of every generated file.
-/
import Tsg.Proofs.Containers
import Tsg.Sem.Lazy
import Tsg.Proofs.OrderFree
import Tsg.Proofs.ClosedAgree

namespace C08

abbrev F := String → Option Val

/-- one single-assignment step on a plain map: equal value accepted, different value = failure -/
def fstep (m : F) (kv : String × Val) : Option F :=
  match m kv.1 with
  | some old => if old = kv.2 then some m else none
  | none => some (fun k => if k = kv.1 then some kv.2 else m k)

def fassign (m : F) : List (String × Val) → Option F
  | [] => some m
  | kv :: rest => (fstep m kv).bind fun m' => fassign m' rest

/-- apply assignments to an attribute set in order; `none` as soon as one conflicts (`Attributes::add` = Err) -/
def assignAll (a : Attrs) : List (String × Val) → Option Attrs
  | [] => some a
  | (k, v) :: rest => if (Attrs.add a k v).2 then none else assignAll (Attrs.add a k v).1 rest

theorem get_add (a : Attrs) (k k2 : String) (v : Val) :
    (Attrs.add a k v).1.get k2 = if k2 = k then some v else a.get k2 := by
  by_cases h : k2 = k
  · subst h; simp [Attrs.get_add_same]
  · simp [h, Attrs.get_add_other a k k2 v h]

theorem conflict_eq (a : Attrs) (k : String) (v : Val) :
    (Attrs.add a k v).2 = match a.get k with | some old => decide (old ≠ v) | none => false := by
  have h := Attrs.add_conflict_iff a k v
  cases hg : a.get k with
  | none =>
    cases hc : (Attrs.add a k v).2 with
    | false => rfl
    | true => rw [hc] at h; obtain ⟨old, ho, _⟩ := h.mp rfl; rw [hg] at ho; cases ho
  | some old =>
    by_cases ho : old = v
    · subst ho
      cases hc : (Attrs.add a k old).2 with
      | false => simp
      | true => rw [hc] at h; obtain ⟨o2, ho2, hne⟩ := h.mp rfl; rw [hg] at ho2; cases ho2; exact absurd rfl hne
    · have : (Attrs.add a k v).2 = true := h.mpr ⟨old, hg, ho⟩
      simp [this, ho]

/-- the concrete attribute set implements the plain map -/
theorem assignAll_refines (a : Attrs) (l : List (String × Val)) :
    (assignAll a l).map Attrs.get = fassign a.get l := by
  induction l generalizing a with
  | nil => rfl
  | cons kv rest ih =>
    obtain ⟨k, v⟩ := kv
    simp only [assignAll, fassign, fstep, conflict_eq]
    cases hg : a.get k with
    | none =>
      simp only [Bool.false_eq_true, if_false, Option.bind_some]
      rw [ih]
      congr 1
      funext k2; rw [get_add]
    | some old =>
      by_cases ho : old = v
      · subst ho
        simp only [ne_eq, not_true_eq_false, decide_false, Bool.false_eq_true, if_false, if_true, Option.bind_some]
        rw [ih]
        congr 1
        funext k2; rw [get_add]
        by_cases hk : k2 = k
        · subst hk; simp [hg]
        · simp [hk]
      · simp [ho]

def upd (m : F) (k : String) (v : Val) : F := fun k' => if k' = k then some v else m k'

theorem fstep_some (m : F) (k : String) (v old : Val) (hm : m k = some old) :
    fstep m (k, v) = if old = v then some m else none := by simp [fstep, hm]

theorem fstep_none (m : F) (k : String) (v : Val) (hm : m k = none) : fstep m (k, v) = some (upd m k v) := by
  simp only [fstep, hm]; rfl

theorem upd_same (m : F) (k : String) (v : Val) : upd m k v k = some v := by simp [upd]
theorem upd_other (m : F) (k k' : String) (v : Val) (h : k' ≠ k) : upd m k v k' = m k' := by simp [upd, h]

theorem upd_comm (m : F) (k1 k2 : String) (v1 v2 : Val) (h : k1 ≠ k2) :
    upd (upd m k1 v1) k2 v2 = upd (upd m k2 v2) k1 v1 := by
  funext k
  by_cases ha : k = k1 <;> by_cases hb : k = k2 <;> simp_all [upd]

theorem fstep_swap (m : F) (x y : String × Val) :
    ((fstep m x).bind fun m' => fstep m' y) = ((fstep m y).bind fun m' => fstep m' x) := by
  obtain ⟨k1, v1⟩ := x
  obtain ⟨k2, v2⟩ := y
  by_cases hk : k1 = k2
  · subst hk
    cases hm : m k1 with
    | none =>
      rw [fstep_none m k1 v1 hm, fstep_none m k1 v2 hm]
      simp only [Option.bind_some]
      rw [fstep_some _ k1 v2 v1 (upd_same m k1 v1), fstep_some _ k1 v1 v2 (upd_same m k1 v2)]
      by_cases hv : v1 = v2
      · subst hv; rfl
      · have hv' : ¬ v2 = v1 := fun h => hv h.symm
        simp [hv, hv']
    | some old =>
      rw [fstep_some m k1 v1 old hm, fstep_some m k1 v2 old hm]
      by_cases h1 : old = v1
      · by_cases h2 : old = v2
        · rw [if_pos h1, if_pos h2]
          simp only [Option.bind_some]
          rw [fstep_some m k1 v2 old hm, fstep_some m k1 v1 old hm, if_pos h1, if_pos h2]
        · rw [if_pos h1, if_neg h2]
          simp only [Option.bind_some, Option.bind_none]
          rw [fstep_some m k1 v2 old hm, if_neg h2]
      · by_cases h2 : old = v2
        · rw [if_neg h1, if_pos h2]
          simp only [Option.bind_some, Option.bind_none]
          rw [fstep_some m k1 v1 old hm, if_neg h1]
        · rw [if_neg h1, if_neg h2]
          simp only [Option.bind_none]
  · have hk' : k2 ≠ k1 := fun h => hk h.symm
    cases hm1 : m k1 with
    | none =>
      rw [fstep_none m k1 v1 hm1]
      cases hm2 : m k2 with
      | none =>
        rw [fstep_none m k2 v2 hm2]
        simp only [Option.bind_some]
        rw [fstep_none _ k2 v2 (by rw [upd_other _ _ _ _ hk']; exact hm2),
            fstep_none _ k1 v1 (by rw [upd_other _ _ _ _ hk]; exact hm1), upd_comm m k1 k2 v1 v2 hk]
      | some o2 =>
        rw [fstep_some m k2 v2 o2 hm2]
        simp only [Option.bind_some]
        rw [fstep_some _ k2 v2 o2 (by rw [upd_other _ _ _ _ hk']; exact hm2)]
        by_cases h2 : o2 = v2
        · simp only [h2, if_true, Option.bind_some]; rw [fstep_none m k1 v1 hm1]
        · simp [h2]
    | some o1 =>
      rw [fstep_some m k1 v1 o1 hm1]
      by_cases h1 : o1 = v1
      · simp only [h1, if_true, Option.bind_some]
        cases hm2 : m k2 with
        | none =>
          rw [fstep_none m k2 v2 hm2]
          simp only [Option.bind_some]
          rw [fstep_some _ k1 v1 o1 (by rw [upd_other _ _ _ _ hk]; exact hm1)]
          simp [h1]
        | some o2 =>
          rw [fstep_some m k2 v2 o2 hm2]
          by_cases h2 : o2 = v2
          · simp only [h2, if_true, Option.bind_some]; rw [fstep_some m k1 v1 o1 hm1]; simp [h1]
          · simp [h2]
      · simp only [h1, if_false, Option.bind_none]
        cases hm2 : m k2 with
        | none =>
          rw [fstep_none m k2 v2 hm2]
          simp only [Option.bind_some]
          rw [fstep_some _ k1 v1 o1 (by rw [upd_other _ _ _ _ hk]; exact hm1)]
          simp [h1]
        | some o2 =>
          rw [fstep_some m k2 v2 o2 hm2]
          by_cases h2 : o2 = v2
          · simp only [h2, if_true, Option.bind_some]; rw [fstep_some m k1 v1 o1 hm1]; simp [h1]
          · simp [h2]

theorem fassign_perm (l l' : List (String × Val)) (h : l.Perm l') : ∀ m, fassign m l = fassign m l' := by
  induction h with
  | nil => intro m; rfl
  | cons x _ ih => intro m; simp only [fassign]; cases fstep m x <;> simp [ih]
  | swap x y l =>
    intro m
    have hs := fstep_swap m y x
    have key : ∀ (a b : String × Val), fassign m (a :: b :: l) = ((fstep m a).bind fun m' => fstep m' b).bind fun m'' => fassign m'' l := by
      intro a b
      simp only [fassign]
      cases fstep m a <;> simp
    rw [key, key, hs]
  | trans _ _ ih1 ih2 => intro m; rw [ih1, ih2]

/-- **Attribute assignments are order-free.** For every attribute set and every list of assignments,
applying any permutation of the list succeeds exactly when applying the list succeeds — that is, iff no two
assignments to one name differ (and none differs from a value already present) — and the resulting attribute
maps answer every `get` alike. -/
theorem C08_attrs_order_free (a : Attrs) (l l' : List (String × Val)) (h : l.Perm l') :
    (assignAll a l).map Attrs.get = (assignAll a l').map Attrs.get := by
  rw [assignAll_refines, assignAll_refines, fassign_perm l l' h]

theorem C08_attrs_success_order_free (a : Attrs) (l l' : List (String × Val)) (h : l.Perm l') :
    (assignAll a l).isSome = (assignAll a l').isSome := by
  have := congrArg Option.isSome (C08_attrs_order_free a l l' h)
  simpa using this

/-! ### the same across nodes: a batch of node-attribute assignments -/

section NodeAttrs
open CGraph

/-- one `attr (n) k = v` whose target and value are known, as a graph transformer: `none` when the node does not exist or
the value conflicts with the one stored -/
def gstep (g : CGraph) (x : Nat × String × Val) : Option CGraph :=
  match g.addNodeAttr x.1 x.2.1 x.2.2 with
  | some (g', false) => some g'
  | _ => none

def gassign (g : CGraph) : List (Nat × String × Val) → Option CGraph
  | [] => some g
  | x :: rest => (gstep g x).bind fun g' => gassign g' rest

/-- `gstep` is what the graph operation of a node-attribute assignment does when it succeeds -/
example (g g' : CGraph) (n : Nat) (k : String) (v : Val) (f : Fail) (h : gstep g (n, k, v) = some g') :
    (GraphOp.addNodeAttr n k v f).apply g = (.ok (some ()), g') := by
  simp only [gstep] at h
  simp only [GraphOp.apply]
  cases ha : g.addNodeAttr n k v with
  | none => simp [ha] at h
  | some p =>
    obtain ⟨g1, c⟩ := p
    cases c with
    | true => simp [ha] at h
    | false => simp [ha] at h; subst h; rfl

/-- the attributes of node `n` (none for a node that does not exist) -/
def attrsAt (g : CGraph) (n : Nat) : Attrs := match g.node? n with | some nd => nd.attrs | none => []

/-- the assignments of a batch that go to node `n`, in order -/
def proj (n : Nat) (l : List (Nat × String × Val)) : List (String × Val) :=
  l.filterMap fun x => if x.1 = n then some x.2 else none

theorem proj_cons (n : Nat) (x : Nat × String × Val) (l : List (Nat × String × Val)) :
    proj n (x :: l) = if x.1 = n then x.2 :: proj n l else proj n l := by
  simp only [proj, List.filterMap_cons]
  by_cases h : x.1 = n <;> simp [h]

theorem proj_perm (n : Nat) (l l' : List (Nat × String × Val)) (h : l.Perm l') : (proj n l).Perm (proj n l') :=
  h.filterMap _

theorem gstep_spec (g : CGraph) (n : Nat) (k : String) (v : Val) :
    gstep g (n, k, v) =
      match g.node? n with
      | none => none
      | some nd => if (Attrs.add nd.attrs k v).2 then none else some (g.setNode n { nd with attrs := (Attrs.add nd.attrs k v).1 }) := by
  simp only [gstep, CGraph.addNodeAttr]
  cases g.node? n with
  | none => rfl
  | some nd =>
    dsimp only
    cases (Attrs.add nd.attrs k v).2 <;> rfl

theorem attrsAt_setNode (g : CGraph) (n m : Nat) (nd nd' : GNode) (hn : g.node? n = some nd) :
    attrsAt (g.setNode n nd') m = if m = n then nd'.attrs else attrsAt g m := by
  simp only [attrsAt, node?, getElem?_setNode]
  by_cases h : m = n
  · subst h
    simp only [node?] at hn
    simp [hn]
  · have : ¬ n = m := fun e => h e.symm
    simp [this, h]

theorem length_setNode (g : CGraph) (n : Nat) (nd : GNode) : (g.setNode n nd).nodes.length = g.nodes.length := by
  simp [CGraph.setNode]

/-- what a successful batch leaves behind: every target existed, the graph has the same nodes, and the attributes of each
node are what its own assignments make of them, in their order -/
theorem gassign_some (g g' : CGraph) (l : List (Nat × String × Val)) (h : gassign g l = some g') :
    (∀ x ∈ l, x.1 < g.nodes.length) ∧ g'.nodes.length = g.nodes.length ∧
    ∀ n, assignAll (attrsAt g n) (proj n l) = some (attrsAt g' n) := by
  induction l generalizing g with
  | nil =>
    simp only [gassign, Option.some.injEq] at h; subst h
    exact ⟨by simp, rfl, fun n => by simp [proj, assignAll]⟩
  | cons x rest ih =>
    obtain ⟨n0, k, v⟩ := x
    simp only [gassign] at h
    rw [gstep_spec] at h
    cases hn : g.node? n0 with
    | none => rw [hn] at h; simp at h
    | some nd =>
      rw [hn] at h
      dsimp only at h
      cases hc : (Attrs.add nd.attrs k v).2 with
      | true => rw [hc] at h; simp at h
      | false =>
        rw [hc] at h
        simp only [Bool.false_eq_true, if_false, Option.bind_some] at h
        obtain ⟨h1, h2, h3⟩ := ih _ h
        have hlt : n0 < g.nodes.length := lt_of_getElem?_some _ _ _ hn
        refine ⟨?_, by rw [h2, length_setNode], fun n => ?_⟩
        · intro y hy
          rcases List.mem_cons.mp hy with rfl | hy
          · exact hlt
          · have := h1 y hy; rwa [length_setNode] at this
        · have := h3 n
          rw [attrsAt_setNode g n0 n nd _ hn] at this
          rw [proj_cons]
          by_cases hnn : n0 = n
          · subst hnn
            simp only [if_true] at this ⊢
            have ha : attrsAt g n0 = nd.attrs := by simp [attrsAt, hn]
            rw [ha]
            simp only [assignAll, hc, Bool.false_eq_true, if_false]
            exact this
          · have hnn' : ¬ n = n0 := fun e => hnn e.symm
            simp only [hnn, if_false]
            simp only [hnn', if_false] at this
            exact this

/-- why a batch fails: a target that does not exist, or a node whose own assignments conflict -/
theorem gassign_none (g : CGraph) (l : List (Nat × String × Val)) (h : gassign g l = none) :
    (∃ x ∈ l, ¬ x.1 < g.nodes.length) ∨ ∃ n, assignAll (attrsAt g n) (proj n l) = none := by
  induction l generalizing g with
  | nil => simp [gassign] at h
  | cons x rest ih =>
    obtain ⟨n0, k, v⟩ := x
    simp only [gassign] at h
    rw [gstep_spec] at h
    cases hn : g.node? n0 with
    | none =>
      refine Or.inl ⟨(n0, k, v), List.mem_cons_self .., ?_⟩
      simp only [node?] at hn
      simpa using hn
    | some nd =>
      rw [hn] at h
      dsimp only at h
      have ha : attrsAt g n0 = nd.attrs := by simp [attrsAt, hn]
      cases hc : (Attrs.add nd.attrs k v).2 with
      | true =>
        refine Or.inr ⟨n0, ?_⟩
        rw [proj_cons]
        simp only [if_true, ha, assignAll, hc]
      | false =>
        rw [hc] at h
        simp only [Bool.false_eq_true, if_false, Option.bind_some] at h
        rcases ih _ h with ⟨y, hy, hlt⟩ | ⟨n, hnone⟩
        · exact Or.inl ⟨y, List.mem_cons_of_mem _ hy, by rwa [length_setNode] at hlt⟩
        · refine Or.inr ⟨n, ?_⟩
          rw [attrsAt_setNode g n0 n nd _ hn] at hnone
          rw [proj_cons]
          by_cases hnn : n0 = n
          · subst hnn
            simp only [if_true] at hnone ⊢
            rw [ha]
            simp only [assignAll, hc, Bool.false_eq_true, if_false]
            exact hnone
          · have hnn' : ¬ n = n0 := fun e => hnn e.symm
            simp only [hnn, if_false]
            simp only [hnn', if_false] at hnone
            exact hnone


/-- **`attr` statements on nodes are order-free, across nodes.** A batch of node-attribute assignments with known targets
and values (the lazy attribute queue after its values are forced) applied in any order: succeeds exactly when it succeeds
in the original order — every target exists and no node is given two different values for one name — and then every node
answers every attribute lookup alike, and the graph has the same nodes. -/
theorem C08_node_attrs_order_free (g : CGraph) (l l' : List (Nat × String × Val)) (hp : l.Perm l') :
    match gassign g l, gassign g l' with
    | some g1, some g2 => g1.nodes.length = g2.nodes.length ∧ ∀ n k, (attrsAt g1 n).get k = (attrsAt g2 n).get k
    | none, none => True
    | _, _ => False := by
  have key : ∀ (a b : List (Nat × String × Val)), a.Perm b → ∀ g1, gassign g a = some g1 → ∃ g2, gassign g b = some g2 := by
    intro a b hab g1 h1
    cases h2 : gassign g b with
    | some g2 => exact ⟨g2, rfl⟩
    | none =>
      obtain ⟨hr, _, ha⟩ := gassign_some g g1 a h1
      rcases gassign_none g b h2 with ⟨x, hx, hlt⟩ | ⟨n, hn⟩
      · exact absurd (hr x (hab.mem_iff.mpr hx)) hlt
      · have := C08_attrs_success_order_free (attrsAt g n) (proj n a) (proj n b) (proj_perm n a b hab)
        rw [ha n, hn] at this
        simp at this
  cases h1 : gassign g l with
  | some g1 =>
    obtain ⟨g2, h2⟩ := key l l' hp g1 h1
    rw [h2]
    obtain ⟨_, hl1, ha1⟩ := gassign_some g g1 l h1
    obtain ⟨_, hl2, ha2⟩ := gassign_some g g2 l' h2
    refine ⟨by rw [hl1, hl2], fun n k => ?_⟩
    have := C08_attrs_order_free (attrsAt g n) (proj n l) (proj n l') (proj_perm n l l' hp)
    rw [ha1 n, ha2 n] at this
    simp only [Option.map_some, Option.some.injEq] at this
    exact congrFun this k
  | none =>
    cases h2 : gassign g l' with
    | none => trivial
    | some g2 =>
      obtain ⟨g1, h1'⟩ := key l' l hp.symm g2 h2
      rw [h1] at h1'; cases h1'

end NodeAttrs

/-! ### … and of the queue that `Lazy.evalQueue` evaluates -/

section AttrQueue
open Prog Lazy CGraph

/-- a deferred `attr` statement on a node whose target and values are known: (node, statement, attributes) -/
abbrev VStmt := Nat × StmtCtx × List (String × Val)

def toLStmt (x : VStmt) : LStmt :=
  .attrNode (.value (.gnode x.1)) (x.2.2.map fun kv => (kv.1, LVal.value kv.2)) x.2.1

/-- the assignments of a queue, in queue order -/
def flat (q : List VStmt) : List (Nat × String × Val) := q.flatMap fun x => x.2.2.map fun kv => (x.1, kv.1, kv.2)

theorem gassign_append (g : CGraph) (a b : List (Nat × String × Val)) :
    gassign g (a ++ b) = (gassign g a).bind fun g' => gassign g' b := by
  induction a generalizing g with
  | nil => rfl
  | cons x rest ih =>
    simp only [List.cons_append, gassign]
    cases gstep g x with
    | none => rfl
    | some g1 => simp only [Option.bind_some]; exact ih g1

def OkWith (t0 : MSt LSt) (g' : CGraph) (r : Res (MSt LSt) Unit) : Prop :=
  ∃ t', r = .ok () t' ∧ t'.graph = g' ∧ t'.ps.cancelAt = none ∧
    t'.rest.thunks = t0.rest.thunks ∧ t'.rest.cells = t0.rest.cells

theorem run_evalNodeAttrs_values (cfg : Cfg) (ef n : Nat) (dbg : StmtCtx) (attrs : List (String × Val)) (t : MSt LSt)
    (hc : t.ps.cancelAt = none) :
    match gassign t.graph (attrs.map fun kv => (n, kv.1, kv.2)) with
    | some g' => ∀ t0, t.rest.thunks = t0.rest.thunks → t.rest.cells = t0.rest.cells →
        OkWith t0 g' (Prog.run (evalNodeAttrs cfg (ef + 1) n dbg (attrs.map fun kv => (kv.1, LVal.value kv.2))) t)
    | none => ClosedAgree.isFail (Prog.run (evalNodeAttrs cfg (ef + 1) n dbg (attrs.map fun kv => (kv.1, LVal.value kv.2))) t) := by
  induction attrs generalizing t with
  | nil =>
    simp only [List.map_nil, gassign]
    intro t0 h1 h2
    exact ⟨t, by rw [evalNodeAttrs]; rfl, rfl, hc, h1, h2⟩
  | cons kv rest ih =>
    obtain ⟨k, v⟩ := kv
    simp only [List.map_cons, gassign]
    rw [ClosedAgree.lazy_attr_step, ClosedAgree.run_evalL_value cfg ef v t hc]
    dsimp only
    rw [gstep_spec]
    simp only [ClosedAgree.bump_graph]
    simp only [CGraph.addNodeAttr]
    cases hn : t.graph.node? n with
    | none => simp only [Option.bind_none]; trivial
    | some nd =>
      dsimp only
      cases hcf : (Attrs.add nd.attrs k v).2 with
      | true => simp only [if_true, Option.bind_none]; trivial
      | false =>
        simp only [Bool.false_eq_true, if_false, Option.bind_some]
        have := ih { ClosedAgree.recorded (ClosedAgree.bump t) (.nodeAttr n k) dbg with
          graph := t.graph.setNode n { edges := nd.edges, attrs := (Attrs.add nd.attrs k v).1 } } hc
        cases hg : gassign (t.graph.setNode n { edges := nd.edges, attrs := (Attrs.add nd.attrs k v).1 }) (rest.map fun kv => (n, kv.1, kv.2)) with
        | none => rw [hg] at this; exact this
        | some g' =>
          rw [hg] at this
          intro t0 h1 h2
          exact this t0 h1 h2


theorem run_evalLStmt_values (cfg : Cfg) (ef : Nat) (x : VStmt) (t : MSt LSt) (hc : t.ps.cancelAt = none) :
    match gassign t.graph (x.2.2.map fun kv => (x.1, kv.1, kv.2)) with
    | some g' => OkWith t g' (Prog.run (evalLStmt cfg (ef + 1) (toLStmt x)) t)
    | none => ClosedAgree.isFail (Prog.run (evalLStmt cfg (ef + 1) (toLStmt x)) t) := by
  obtain ⟨n, dbg, attrs⟩ := x
  simp only [toLStmt]
  rw [Lazy.evalLStmt]
  rw [ClosedAgree.run_poll_bind _ _ t hc]
  simp only [withContext, Prog.run]
  rw [Prog.run_bind]
  simp only [Prog.run]
  rw [Prog.run_bind, ClosedAgree.run_evalL_value cfg ef _ _ (by exact hc)]
  simp only [asGraphNodeL, Prog.run, Pure.pure]
  have := run_evalNodeAttrs_values cfg ef n dbg attrs (ClosedAgree.bump (ClosedAgree.bump t)) hc
  simp only [ClosedAgree.bump_graph] at this
  cases hg : gassign t.graph (attrs.map fun kv => (n, kv.1, kv.2)) with
  | some g' =>
    rw [hg] at this
    obtain ⟨t', h1, h2, h3, h4, h5⟩ := this t rfl rfl
    dsimp only
    rw [h1]
    exact ⟨t', rfl, h2, h3, h4, h5⟩
  | none =>
    rw [hg] at this
    dsimp only
    cases hr : Prog.run (evalNodeAttrs cfg (ef + 1) n dbg (attrs.map fun kv => (kv.1, LVal.value kv.2))) (ClosedAgree.bump (ClosedAgree.bump t)) with
    | ok _ _ => rw [hr] at this; exact this.elim
    | fail _ _ => trivial

theorem run_evalQueue_values (cfg : Cfg) (ef : Nat) (q : List VStmt) (t : MSt LSt) (hc : t.ps.cancelAt = none) :
    match gassign t.graph (flat q) with
    | some g' => OkWith t g' (Prog.run (evalQueue cfg (ef + 1) (q.map toLStmt)) t)
    | none => ClosedAgree.isFail (Prog.run (evalQueue cfg (ef + 1) (q.map toLStmt)) t) := by
  induction q generalizing t with
  | nil =>
    simp only [flat, List.flatMap_nil, gassign, List.map_nil]
    exact ⟨t, by rw [evalQueue]; rfl, rfl, hc, rfl, rfl⟩
  | cons x rest ih =>
    simp only [flat, List.flatMap_cons, List.map_cons]
    rw [gassign_append, evalQueue, Prog.run_bind]
    have h1 := run_evalLStmt_values cfg ef x t hc
    cases hg : gassign t.graph (x.2.2.map fun kv => (x.1, kv.1, kv.2)) with
    | none =>
      rw [hg] at h1
      simp only [Option.bind_none]
      cases hr : Prog.run (evalLStmt cfg (ef + 1) (toLStmt x)) t with
      | ok _ _ => rw [hr] at h1; exact h1.elim
      | fail _ _ => trivial
    | some g1 =>
      rw [hg] at h1
      obtain ⟨t1, hr, hg1, hc1, hth, hce⟩ := h1
      rw [hr]
      simp only [Option.bind_some]
      have := ih t1 hc1
      rw [hg1] at this
      simp only [flat] at this
      cases hg2 : gassign g1 (List.flatMap (fun x : VStmt => List.map (fun kv => (x.1, kv.1, kv.2)) x.2.2) rest) with
      | none => rw [hg2] at this; exact this
      | some g2 =>
        rw [hg2] at this
        obtain ⟨t2, e1, e2, e3, e4, e5⟩ := this
        exact ⟨t2, e1, e2, e3, e4.trans hth, e5.trans hce⟩

/-- **the attribute queue may be evaluated in any order of its statements.** For deferred `attr` statements on nodes whose
targets and values are known (the lazy attribute queue once its values are there), evaluating the queue
(`Lazy.evalQueue`, the model of `LazyGraph::evaluate`'s second phase) in the order of any permutation of the statements —
any reordering of the stanzas that produced them — succeeds or fails together with the original order, and after success
the two graphs have the same nodes and answer every attribute lookup alike. -/
theorem C08_attr_queue_order_free (cfg : Cfg) (ef : Nat) (q q' : List VStmt) (hp : q.Perm q')
    (t : MSt LSt) (hc : t.ps.cancelAt = none) :
    match Prog.run (evalQueue cfg (ef + 1) (q.map toLStmt)) t, Prog.run (evalQueue cfg (ef + 1) (q'.map toLStmt)) t with
    | .ok _ t1, .ok _ t2 => t1.graph.nodes.length = t2.graph.nodes.length ∧
        ∀ n k, (attrsAt t1.graph n).get k = (attrsAt t2.graph n).get k
    | .fail _ _, .fail _ _ => True
    | _, _ => False := by
  have hflat : (flat q).Perm (flat q') := hp.flatMap_right _
  have hmain := C08_node_attrs_order_free t.graph (flat q) (flat q') hflat
  have h1 := run_evalQueue_values cfg ef q t hc
  have h2 := run_evalQueue_values cfg ef q' t hc
  cases hg1 : gassign t.graph (flat q) with
  | some g1 =>
    cases hg2 : gassign t.graph (flat q') with
    | some g2 =>
      rw [hg1] at h1; rw [hg2] at h2; rw [hg1, hg2] at hmain
      obtain ⟨t1, hr1, e1, _, _, _⟩ := h1
      obtain ⟨t2, hr2, e2, _, _, _⟩ := h2
      rw [hr1, hr2]
      dsimp only
      rw [e1, e2]
      exact hmain
    | none => rw [hg1, hg2] at hmain; exact hmain.elim
  | none =>
    cases hg2 : gassign t.graph (flat q') with
    | some g2 => rw [hg1, hg2] at hmain; exact hmain.elim
    | none =>
      rw [hg1] at h1; rw [hg2] at h2
      cases hr1 : Prog.run (evalQueue cfg (ef + 1) (q.map toLStmt)) t with
      | ok _ _ => rw [hr1] at h1; exact h1.elim
      | fail _ _ =>
        cases hr2 : Prog.run (evalQueue cfg (ef + 1) (q'.map toLStmt)) t with
        | ok _ _ => rw [hr2] at h2; exact h2.elim
        | fail _ _ => trivial

end AttrQueue

/-! ### … and of the edge queue -/

section EdgeQueue
open Prog Lazy CGraph

/-- a deferred `edge a -> b` statement whose endpoints are known (no debug attributes): (source, sink, statement) -/
abbrev EStmt := Nat × Nat × StmtCtx

def toEStmt (x : EStmt) : LStmt := .createEdge (.value (.gnode x.1)) (.value (.gnode x.2.1)) [] x.2.2

def ends (q : List EStmt) : List (Nat × Nat) := q.map fun x => (x.1, x.2.1)

theorem run_evalLStmt_edge (cfg : Cfg) (ef : Nat) (x : EStmt) (t : MSt LSt) (hc : t.ps.cancelAt = none) :
    if x.1 < t.graph.nodes.length then
      ∃ t', Prog.run (evalLStmt cfg (ef + 1) (toEStmt x)) t = .ok () t' ∧
        t'.graph = OrderFree.addEdgeG t.graph (x.1, x.2.1) ∧ t'.ps.cancelAt = none ∧ t'.rest = t.rest
    else ClosedAgree.isFail (Prog.run (evalLStmt cfg (ef + 1) (toEStmt x)) t) := by
  obtain ⟨a, b, dbg⟩ := x
  simp only [toEStmt]
  rw [Lazy.evalLStmt]
  rw [ClosedAgree.run_poll_bind _ _ t hc]
  simp only [withContext, Prog.run]
  rw [Prog.run_bind]
  simp only [Prog.run]
  rw [Prog.run_bind, ClosedAgree.run_evalL_value cfg ef _ _ (by exact hc)]
  simp only [asGraphNodeL, Prog.run, Pure.pure]
  rw [Prog.run_bind]
  simp only [Prog.run]
  rw [Prog.run_bind, ClosedAgree.run_evalL_value cfg ef _ _ (by exact hc)]
  simp only [asGraphNodeL, Prog.run, Pure.pure]
  rw [Prog.run_bind]
  simp only [gopP, Prog.run, ClosedAgree.bump_graph, OrderFree.addEdgeG]
  by_cases hlt : a < t.graph.nodes.length
  · simp only [hlt, if_true]
    have hsome : ∃ nd, t.graph.node? a = some nd := by
      simp only [node?]
      exact ⟨t.graph.nodes[a], by simp [hlt]⟩
    obtain ⟨nd, hn⟩ := hsome
    simp only [GraphOp.apply, hn]
    cases hb : (nd.addEdge b).2 with
    | true =>
      simp only [if_true, Prog.run]
      exact ⟨_, rfl, rfl, hc, rfl⟩
    | false =>
      simp only [Bool.false_eq_true, if_false, Prog.run]
      exact ⟨_, rfl, rfl, hc, rfl⟩
  · simp only [hlt, if_false]
    have hn : t.graph.node? a = none := by
      simp only [node?]; simpa using hlt
    simp only [GraphOp.apply, hn, panicAt, Prog.run]
    trivial


theorem length_addEdges (g : CGraph) (l : List (Nat × Nat)) : (OrderFree.addEdges g l).nodes.length = g.nodes.length := by
  induction l generalizing g with
  | nil => rfl
  | cons p rest ih =>
    simp only [OrderFree.addEdges, List.foldl_cons] at ih ⊢
    rw [ih, OrderFree.length_addEdgeG]

theorem run_evalQueue_edges (cfg : Cfg) (ef : Nat) (q : List EStmt) (t : MSt LSt) (hc : t.ps.cancelAt = none) :
    if ∀ x ∈ q, x.1 < t.graph.nodes.length then
      ∃ t', Prog.run (evalQueue cfg (ef + 1) (q.map toEStmt)) t = .ok () t' ∧
        t'.graph = OrderFree.addEdges t.graph (ends q) ∧ t'.ps.cancelAt = none ∧ t'.rest = t.rest
    else ClosedAgree.isFail (Prog.run (evalQueue cfg (ef + 1) (q.map toEStmt)) t) := by
  induction q generalizing t with
  | nil =>
    simp only [List.not_mem_nil, false_imp_iff, implies_true, if_true, List.map_nil]
    exact ⟨t, by rw [evalQueue]; rfl, rfl, hc, rfl⟩
  | cons x rest ih =>
    simp only [List.map_cons]
    rw [evalQueue, Prog.run_bind]
    have h1 := run_evalLStmt_edge cfg ef x t hc
    by_cases hx : x.1 < t.graph.nodes.length
    · rw [if_pos hx] at h1
      obtain ⟨t1, hr, hg1, hc1, hrest1⟩ := h1
      rw [hr]
      dsimp only
      have := ih t1 hc1
      have hlen : t1.graph.nodes.length = t.graph.nodes.length := by rw [hg1, OrderFree.length_addEdgeG]
      by_cases hall : ∀ y ∈ rest, y.1 < t.graph.nodes.length
      · have hall1 : ∀ y ∈ rest, y.1 < t1.graph.nodes.length := by rw [hlen]; exact hall
        rw [if_pos hall1] at this
        have hall' : ∀ y ∈ x :: rest, y.1 < t.graph.nodes.length := by
          intro y hy; rcases List.mem_cons.mp hy with rfl | hy
          · exact hx
          · exact hall y hy
        rw [if_pos hall']
        obtain ⟨t2, hr2, hg2, hc2, hrest2⟩ := this
        refine ⟨t2, hr2, ?_, hc2, hrest2.trans hrest1⟩
        rw [hg2, hg1]
        simp [ends, OrderFree.addEdges]
      · have hall1 : ¬ ∀ y ∈ rest, y.1 < t1.graph.nodes.length := by rw [hlen]; exact hall
        rw [if_neg hall1] at this
        have hall' : ¬ ∀ y ∈ x :: rest, y.1 < t.graph.nodes.length := fun h => hall fun y hy => h y (List.mem_cons_of_mem _ hy)
        rw [if_neg hall']
        exact this
    · rw [if_neg hx] at h1
      have hall' : ¬ ∀ y ∈ x :: rest, y.1 < t.graph.nodes.length := fun h => hx (h x (List.mem_cons_self ..))
      rw [if_neg hall']
      cases hr : Prog.run (evalLStmt cfg (ef + 1) (toEStmt x)) t with
      | ok _ _ => rw [hr] at h1; exact h1.elim
      | fail _ _ => trivial

/-- **the edge queue may be evaluated in any order of its statements.** For deferred `edge` statements whose endpoints are
known (no debug attributes), `Lazy.evalQueue` in the order of any permutation of the statements succeeds or fails
together with the original order (it fails exactly when a source is not a node of the graph), and after success the two
graphs have the same nodes and the same edges with the same attributes. -/
theorem C08_edge_queue_order_free (cfg : Cfg) (ef : Nat) (q q' : List EStmt) (hp : q.Perm q')
    (t : MSt LSt) (hc : t.ps.cancelAt = none) (hinv : CGraph.Inv t.graph) :
    match Prog.run (evalQueue cfg (ef + 1) (q.map toEStmt)) t, Prog.run (evalQueue cfg (ef + 1) (q'.map toEStmt)) t with
    | .ok _ t1, .ok _ t2 => t1.graph.nodes.length = t2.graph.nodes.length ∧
        ∀ a b, t1.graph.getEdge a b = t2.graph.getEdge a b
    | .fail _ _, .fail _ _ => True
    | _, _ => False := by
  have h1 := run_evalQueue_edges cfg ef q t hc
  have h2 := run_evalQueue_edges cfg ef q' t hc
  have hiff : (∀ x ∈ q, x.1 < t.graph.nodes.length) ↔ (∀ x ∈ q', x.1 < t.graph.nodes.length) :=
    ⟨fun h x hx => h x (hp.mem_iff.mpr hx), fun h x hx => h x (hp.mem_iff.mp hx)⟩
  by_cases hall : ∀ x ∈ q, x.1 < t.graph.nodes.length
  · rw [if_pos hall] at h1
    rw [if_pos (hiff.mp hall)] at h2
    obtain ⟨t1, hr1, e1, _, _⟩ := h1
    obtain ⟨t2, hr2, e2, _, _⟩ := h2
    rw [hr1, hr2]
    dsimp only
    rw [e1, e2]
    have := OrderFree.edges_order_free t.graph (ends q) (ends q') (hp.map _) hinv
    exact ⟨this.2.1, this.1⟩
  · rw [if_neg hall] at h1
    rw [if_neg (fun h => hall (hiff.mpr h))] at h2
    cases hr1 : Prog.run (evalQueue cfg (ef + 1) (q.map toEStmt)) t with
    | ok _ _ => rw [hr1] at h1; exact h1.elim
    | fail _ _ =>
      cases hr2 : Prog.run (evalQueue cfg (ef + 1) (q'.map toEStmt)) t with
      | ok _ _ => rw [hr2] at h2; exact h2.elim
      | fail _ _ => trivial

end EdgeQueue

/-! ### … and of the whole evaluate phase -/

section EvaluatePhase
open Prog Lazy CGraph

theorem attrsAt_addEdgeG (g : CGraph) (p : Nat × Nat) (n : Nat) : attrsAt (OrderFree.addEdgeG g p) n = attrsAt g n := by
  obtain ⟨src, sink⟩ := p
  simp only [OrderFree.addEdgeG, GraphOp.apply]
  cases hn : g.node? src with
  | none => rfl
  | some nd =>
    dsimp only
    split
    · rw [attrsAt_setNode g src n nd _ hn]
      by_cases h : n = src
      · subst h; simp [attrsAt, hn, GNode.addEdge]
      · simp [h]
    · rfl

theorem attrsAt_addEdges (g : CGraph) (l : List (Nat × Nat)) (n : Nat) : attrsAt (OrderFree.addEdges g l) n = attrsAt g n := by
  induction l generalizing g with
  | nil => rfl
  | cons p rest ih =>
    simp only [OrderFree.addEdges, List.foldl_cons] at ih ⊢
    rw [ih, attrsAt_addEdgeG]

theorem getEdge_setNode_attrs (g : CGraph) (n : Nat) (nd : GNode) (a : Attrs) (hn : g.node? n = some nd) (x y : Nat) :
    (g.setNode n { nd with attrs := a }).getEdge x y = g.getEdge x y := by
  simp only [CGraph.getEdge, node?, getElem?_setNode]
  by_cases h : n = x
  · subst h
    simp only [node?] at hn
    simp [hn, GNode.getEdge]
  · simp [h]

theorem getEdge_gassign (g g' : CGraph) (l : List (Nat × String × Val)) (h : gassign g l = some g') (x y : Nat) :
    g'.getEdge x y = g.getEdge x y := by
  induction l generalizing g with
  | nil => simp only [gassign, Option.some.injEq] at h; subst h; rfl
  | cons a rest ih =>
    obtain ⟨n0, k, v⟩ := a
    simp only [gassign] at h
    rw [gstep_spec] at h
    cases hn : g.node? n0 with
    | none => rw [hn] at h; simp at h
    | some nd =>
      rw [hn] at h
      dsimp only at h
      cases hc : (Attrs.add nd.attrs k v).2 with
      | true => rw [hc] at h; simp at h
      | false =>
        rw [hc] at h
        simp only [Bool.false_eq_true, if_false, Option.bind_some] at h
        rw [ih _ h, getEdge_setNode_attrs g n0 nd _ hn]

/-- a batch of attribute assignments sees of the graph only how many nodes it has and what attributes they carry -/
theorem gassign_congr (g1 g2 : CGraph) (l : List (Nat × String × Val)) (hlen : g1.nodes.length = g2.nodes.length)
    (hat : ∀ n, attrsAt g1 n = attrsAt g2 n) :
    match gassign g1 l, gassign g2 l with
    | some r1, some r2 => r1.nodes.length = r2.nodes.length ∧ ∀ n, attrsAt r1 n = attrsAt r2 n
    | none, none => True
    | _, _ => False := by
  have key : ∀ (a b : CGraph), a.nodes.length = b.nodes.length → (∀ n, attrsAt a n = attrsAt b n) →
      ∀ r, gassign a l = some r → ∃ r', gassign b l = some r' := by
    intro a b hl ha r hr
    cases hb : gassign b l with
    | some r' => exact ⟨r', rfl⟩
    | none =>
      obtain ⟨hrange, _, hass⟩ := gassign_some a r l hr
      rcases gassign_none b l hb with ⟨x, hx, hlt⟩ | ⟨n, hn⟩
      · exact absurd (hl ▸ hrange x hx) hlt
      · rw [← ha n, hass n] at hn; cases hn
  cases h1 : gassign g1 l with
  | some r1 =>
    obtain ⟨r2, h2⟩ := key g1 g2 hlen hat r1 h1
    rw [h2]
    obtain ⟨_, l1, a1⟩ := gassign_some g1 r1 l h1
    obtain ⟨_, l2, a2⟩ := gassign_some g2 r2 l h2
    refine ⟨by rw [l1, l2, hlen], fun n => ?_⟩
    have e1 := a1 n
    have e2 := a2 n
    rw [hat n, e2] at e1
    exact (Option.some.inj e1).symm
  | none =>
    cases h2 : gassign g2 l with
    | none => trivial
    | some r2 =>
      obtain ⟨r1, h1'⟩ := key g2 g1 hlen.symm (fun n => (hat n).symm) r2 h2
      rw [h1] at h1'; cases h1'

/-- what the evaluate phase computes from queues of value-level statements: all edges, then all attributes -/
def phaseGraph (g : CGraph) (qe : List EStmt) (qa : List VStmt) : Option CGraph :=
  if ∀ x ∈ qe, x.1 < g.nodes.length then gassign (OrderFree.addEdges g (ends qe)) (flat qa) else none

/-- **the evaluate phase on value-level queues is order-free.** Permuting the edge queue and, independently, the attribute
queue (what reordering the stanzas does) leaves success and the observable graph unchanged: same nodes, the same edges with
the same attributes, and every node answers every attribute lookup alike. -/
theorem phaseGraph_perm (g : CGraph) (hinv : CGraph.Inv g) (qe qe' : List EStmt) (qa qa' : List VStmt)
    (hpe : qe.Perm qe') (hpa : qa.Perm qa') :
    match phaseGraph g qe qa, phaseGraph g qe' qa' with
    | some r1, some r2 => r1.nodes.length = r2.nodes.length ∧ (∀ a b, r1.getEdge a b = r2.getEdge a b) ∧
        ∀ n k, (attrsAt r1 n).get k = (attrsAt r2 n).get k
    | none, none => True
    | _, _ => False := by
  have hiff : (∀ x ∈ qe, x.1 < g.nodes.length) ↔ (∀ x ∈ qe', x.1 < g.nodes.length) :=
    ⟨fun h x hx => h x (hpe.mem_iff.mpr hx), fun h x hx => h x (hpe.mem_iff.mp hx)⟩
  simp only [phaseGraph]
  by_cases hall : ∀ x ∈ qe, x.1 < g.nodes.length
  · rw [if_pos hall, if_pos (hiff.mp hall)]
    have hedges := OrderFree.edges_order_free g (ends qe) (ends qe') (hpe.map _) hinv
    have hflat : (flat qa).Perm (flat qa') := hpa.flatMap_right _
    have hA := C08_node_attrs_order_free (OrderFree.addEdges g (ends qe)) (flat qa) (flat qa') hflat
    have hB := gassign_congr (OrderFree.addEdges g (ends qe)) (OrderFree.addEdges g (ends qe')) (flat qa') hedges.2.1
      (fun n => by rw [attrsAt_addEdges, attrsAt_addEdges])
    cases h1 : gassign (OrderFree.addEdges g (ends qe)) (flat qa) with
    | some r1 =>
      cases hm : gassign (OrderFree.addEdges g (ends qe)) (flat qa') with
      | none => rw [h1, hm] at hA; exact hA.elim
      | some rm =>
        rw [h1, hm] at hA
        cases h2 : gassign (OrderFree.addEdges g (ends qe')) (flat qa') with
        | none => rw [hm, h2] at hB; exact hB.elim
        | some r2 =>
          rw [hm, h2] at hB
          dsimp only
          refine ⟨hA.1.trans hB.1, fun a b => ?_, fun n k => ?_⟩
          · rw [getEdge_gassign _ _ _ h1, getEdge_gassign _ _ _ h2]; exact hedges.1 a b
          · rw [hA.2 n k, hB.2 n]
    | none =>
      cases hm : gassign (OrderFree.addEdges g (ends qe)) (flat qa') with
      | some rm => rw [h1, hm] at hA; exact hA.elim
      | none =>
        cases h2 : gassign (OrderFree.addEdges g (ends qe')) (flat qa') with
        | some r2 => rw [hm, h2] at hB; exact hB.elim
        | none => trivial
  · rw [if_neg hall, if_neg (fun h => hall (hiff.mpr h))]
    trivial


theorem run_evaluatePhase_values (cfg : Cfg) (ef : Nat) (qe : List EStmt) (qa : List VStmt) (t : MSt LSt)
    (hc : t.ps.cancelAt = none) (he : t.rest.edgeQ = qe.map toEStmt) (ha : t.rest.attrQ = qa.map toLStmt)
    (hp : t.rest.printQ = []) (hth : t.rest.thunks = []) (hce : t.rest.cells = []) :
    match phaseGraph t.graph qe qa with
    | some g' => ∃ t', Prog.run (evaluatePhase cfg (ef + 1)) t = .ok () t' ∧ t'.graph = g'
    | none => ClosedAgree.isFail (Prog.run (evaluatePhase cfg (ef + 1)) t) := by
  unfold Lazy.evaluatePhase
  simp only [getR, primP, Bind.bind, Prog.bind, Prog.run]
  -- the three queues are those of the initial state
  rw [he, ha, hp]
  have h1 := run_evalQueue_edges cfg ef qe t hc
  simp only [phaseGraph]
  by_cases hall : ∀ x ∈ qe, x.1 < t.graph.nodes.length
  · rw [if_pos hall] at h1 ⊢
    obtain ⟨t1, hr1, hg1, hc1, hrest1⟩ := h1
    have hb : ∀ {β : Type} (k : Unit → LM β), Prog.run (Prog.bind (evalQueue cfg (ef + 1) (qe.map toEStmt)) k) t = Prog.run (k ()) t1 := by
      intro β k
      have := Prog.run_bind (evalQueue cfg (ef + 1) (qe.map toEStmt)) k t
      rw [hr1] at this
      exact this
    rw [hb]
    have h2 := run_evalQueue_values cfg ef qa t1 hc1
    rw [hg1] at h2
    cases hg : gassign (OrderFree.addEdges t.graph (ends qe)) (flat qa) with
    | none =>
      rw [hg] at h2
      dsimp only
      have := Prog.run_bind (evalQueue cfg (ef + 1) (qa.map toLStmt))
        (fun _ => Prog.bind (evalQueue cfg (ef + 1) []) fun _ => Prog.prim (fun r => (Except.ok r, r)) fun s =>
          Prog.bind (forceAllThunks cfg (ef + 1) s.thunks.length 0) fun _ => Prog.prim (fun r => (Except.ok r, r)) fun s =>
            forceAllCells cfg (ef + 1) ((s.cells.map (·.1)).mergeSort (fun a b => decide (a ≤ b)))) t1
      cases hr2 : Prog.run (evalQueue cfg (ef + 1) (qa.map toLStmt)) t1 with
      | ok _ _ => rw [hr2] at h2; exact h2.elim
      | fail f t2 =>
        rw [hr2] at this
        show ClosedAgree.isFail (Prog.run (evalQueue cfg (ef + 1) (qa.map toLStmt) >>= _) t1)
        rw [this]
        trivial
    | some g2 =>
      rw [hg] at h2
      obtain ⟨t2, hr2, hg2, hc2, hth2, hce2⟩ := h2
      dsimp only
      have := Prog.run_bind (evalQueue cfg (ef + 1) (qa.map toLStmt))
        (fun _ => Prog.bind (evalQueue cfg (ef + 1) []) fun _ => Prog.prim (fun r => (Except.ok r, r)) fun s =>
          Prog.bind (forceAllThunks cfg (ef + 1) s.thunks.length 0) fun _ => Prog.prim (fun r => (Except.ok r, r)) fun s =>
            forceAllCells cfg (ef + 1) ((s.cells.map (·.1)).mergeSort (fun a b => decide (a ≤ b)))) t1
      rw [hr2] at this
      refine ⟨t2, ?_, hg2⟩
      show Prog.run (evalQueue cfg (ef + 1) (qa.map toLStmt) >>= _) t1 = _
      rw [this]
      have e1 : t2.rest.thunks = [] := by rw [hth2, hrest1, hth]
      have e2 : t2.rest.cells = [] := by rw [hce2, hrest1, hce]
      simp [evalQueue, Bind.bind, Prog.bind, Prog.run, Pure.pure, e1, e2, forceAllThunks, forceAllCells]
  · rw [if_neg hall] at h1 ⊢
    cases hr1 : Prog.run (evalQueue cfg (ef + 1) (qe.map toEStmt)) t with
    | ok _ _ => rw [hr1] at h1; exact h1.elim
    | fail f t1 =>
      have := Prog.run_bind (evalQueue cfg (ef + 1) (qe.map toEStmt))
        (fun _ => Prog.bind (evalQueue cfg (ef + 1) (qa.map toLStmt)) fun _ => Prog.bind (evalQueue cfg (ef + 1) []) fun _ =>
          Prog.prim (fun r => (Except.ok r, r)) fun s =>
          Prog.bind (forceAllThunks cfg (ef + 1) s.thunks.length 0) fun _ => Prog.prim (fun r => (Except.ok r, r)) fun s =>
            forceAllCells cfg (ef + 1) ((s.cells.map (·.1)).mergeSort (fun a b => decide (a ≤ b)))) t
      rw [hr1] at this
      show ClosedAgree.isFail (Prog.run (evalQueue cfg (ef + 1) (qe.map toEStmt) >>= _) t)
      rw [this]
      trivial


/-- **the evaluate phase does not depend on the order in which the statements were queued.** Two lazy states that hold the
same graph and, in their edge and attribute queues, the same value-level statements in different orders (what reordering
the stanzas of a file produces once the queued targets and values are known), with nothing left to force:
`Lazy.evaluatePhase` (the model of `LazyGraph::evaluate` followed by the two `evaluate_all`) succeeds on both or fails on
both, and after success the two graphs have the same nodes, the same edges with the same attributes, and every node
answers every attribute lookup alike. -/
theorem C08_evaluate_phase_order_free (cfg : Cfg) (ef : Nat) (qe qe' : List EStmt) (qa qa' : List VStmt)
    (hpe : qe.Perm qe') (hpa : qa.Perm qa') (t t' : MSt LSt) (hg : t'.graph = t.graph) (hinv : CGraph.Inv t.graph)
    (hc : t.ps.cancelAt = none) (hc' : t'.ps.cancelAt = none)
    (he : t.rest.edgeQ = qe.map toEStmt) (ha : t.rest.attrQ = qa.map toLStmt)
    (he' : t'.rest.edgeQ = qe'.map toEStmt) (ha' : t'.rest.attrQ = qa'.map toLStmt)
    (hp : t.rest.printQ = []) (hth : t.rest.thunks = []) (hce : t.rest.cells = [])
    (hp' : t'.rest.printQ = []) (hth' : t'.rest.thunks = []) (hce' : t'.rest.cells = []) :
    match Prog.run (evaluatePhase cfg (ef + 1)) t, Prog.run (evaluatePhase cfg (ef + 1)) t' with
    | .ok _ r1, .ok _ r2 => r1.graph.nodes.length = r2.graph.nodes.length ∧
        (∀ a b, r1.graph.getEdge a b = r2.graph.getEdge a b) ∧
        ∀ n k, (attrsAt r1.graph n).get k = (attrsAt r2.graph n).get k
    | .fail _ _, .fail _ _ => True
    | _, _ => False := by
  have h1 := run_evaluatePhase_values cfg ef qe qa t hc he ha hp hth hce
  have h2 := run_evaluatePhase_values cfg ef qe' qa' t' hc' he' ha' hp' hth' hce'
  rw [hg] at h2
  have hperm := phaseGraph_perm t.graph hinv qe qe' qa qa' hpe hpa
  cases hg1 : phaseGraph t.graph qe qa with
  | some g1 =>
    cases hg2 : phaseGraph t.graph qe' qa' with
    | some g2 =>
      rw [hg1] at h1; rw [hg2] at h2; rw [hg1, hg2] at hperm
      obtain ⟨r1, hr1, e1⟩ := h1
      obtain ⟨r2, hr2, e2⟩ := h2
      rw [hr1, hr2]
      dsimp only
      rw [e1, e2]
      exact hperm
    | none => rw [hg1, hg2] at hperm; exact hperm.elim
  | none =>
    cases hg2 : phaseGraph t.graph qe' qa' with
    | some g2 => rw [hg1, hg2] at hperm; exact hperm.elim
    | none =>
      rw [hg1] at h1; rw [hg2] at h2
      cases hr1 : Prog.run (evaluatePhase cfg (ef + 1)) t with
      | ok _ _ => rw [hr1] at h1; exact h1.elim
      | fail _ _ =>
        cases hr2 : Prog.run (evaluatePhase cfg (ef + 1)) t' with
        | ok _ _ => rw [hr2] at h2; exact h2.elim
        | fail _ _ => trivial

/-- non-vacuity: a state with one queued edge and two queued attribute statements meets the hypotheses -/
example : ∃ t : MSt LSt, t.rest.edgeQ = [((0 : Nat), (1 : Nat), (default : StmtCtx))].map toEStmt ∧
    t.rest.attrQ = [((0 : Nat), (default : StmtCtx), [("k", Val.int 1)]), (1, default, [("k", .int 2)])].map toLStmt ∧
    t.rest.printQ = [] ∧ t.rest.thunks = [] ∧ t.rest.cells = [] ∧ t.ps.cancelAt = none :=
  ⟨{ graph := { nodes := [{ edges := [], attrs := [] }, { edges := [], attrs := [] }] },
     rest := { locals := default, thunks := [], cells := [], edgeQ := [((0 : Nat), (1 : Nat), (default : StmtCtx))].map toEStmt,
               attrQ := [((0 : Nat), (default : StmtCtx), [("k", Val.int 1)]), (1, default, [("k", .int 2)])].map toLStmt,
               printQ := [], prevDbg := [] },
     ps := { polls := 0, cancelAt := none } }, rfl, rfl, rfl, rfl, rfl, rfl⟩

end EvaluatePhase

/-- success criterion: a single assignment fails exactly when a different value is present -/
theorem C08_conflict_iff (m : F) (k : String) (v : Val) :
    fstep m (k, v) = none ↔ ∃ old, m k = some old ∧ old ≠ v := by
  cases hm : m k with
  | none => simp [fstep, hm]
  | some old => by_cases ho : old = v <;> simp [fstep, hm, ho]

/-- **Phase order** of the lazy graph (`LazyGraph::evaluate`): all edge statements, then all attribute
statements, then all print statements, then every thunk, then every scoped variable -/
theorem C08_phase_order (cfg : Cfg) (ef : Nat) :
    Lazy.evaluatePhase cfg ef =
      (Prog.getR >>= fun s =>
        Lazy.evalQueue cfg ef s.edgeQ >>= fun _ =>
        Lazy.evalQueue cfg ef s.attrQ >>= fun _ =>
        Lazy.evalQueue cfg ef s.printQ >>= fun _ =>
        Prog.getR >>= fun s =>
        Lazy.forceAllThunks cfg ef s.thunks.length 0 >>= fun _ =>
        Prog.getR >>= fun s =>
        Lazy.forceAllCells cfg ef ((s.cells.map (·.1)).mergeSort (fun a b => decide (a ≤ b)))) := rfl

/-- statements are routed to the queues by kind only (`LazyGraph::push`): an `attr` on an edge is queued
after every `edge` statement of the whole file, whatever stanza it came from -/
theorem C08_queue_routing (node src sink : LVal) (as : List (String × LVal)) (ea : Attrs) (dbg : StmtCtx) (s : LSt) :
    (Prog.run (Lazy.pushStmt (.createEdge src sink ea dbg)) ⟨{}, s, ⟨0, none⟩⟩ =
      .ok () ⟨{}, { s with edgeQ := s.edgeQ ++ [.createEdge src sink ea dbg] }, ⟨0, none⟩⟩) ∧
    (Prog.run (Lazy.pushStmt (.attrEdge src sink as dbg)) ⟨{}, s, ⟨0, none⟩⟩ =
      .ok () ⟨{}, { s with attrQ := s.attrQ ++ [.attrEdge src sink as dbg] }, ⟨0, none⟩⟩) ∧
    (Prog.run (Lazy.pushStmt (.attrNode node as dbg)) ⟨{}, s, ⟨0, none⟩⟩ =
      .ok () ⟨{}, { s with attrQ := s.attrQ ++ [.attrNode node as dbg] }, ⟨0, none⟩⟩) := by
  simp [Lazy.pushStmt, Prog.modifyR, Prog.primP, Prog.run]


/-- **`edge` statements are order-free.** Creating a batch of edges (no debug attributes) in any order gives the same
edges with the same attributes between the same nodes, and keeps the representation invariant: the lazy edge queue may be
processed in the order of any permutation of the stanzas. (`OrderFree.getEdge_addEdges` says what the batch leaves
behind: the edges that were there keep their attributes, an edge named by a statement whose source exists is there
without attributes, nothing else is.) -/
theorem C08_edges_order_free (g : CGraph) (l l' : List (Nat × Nat)) (hp : l.Perm l') (hinv : CGraph.Inv g) :
    (∀ a b, (OrderFree.addEdges g l).getEdge a b = (OrderFree.addEdges g l').getEdge a b) ∧
    (OrderFree.addEdges g l).nodes.length = (OrderFree.addEdges g l').nodes.length ∧
    CGraph.Inv (OrderFree.addEdges g l) ∧ CGraph.Inv (OrderFree.addEdges g l') :=
  OrderFree.edges_order_free g l l' hp hinv

/-- `OrderFree.addEdgeG` is what one lazy `edge` statement does to the graph when debug attributes are off -/
example (g : CGraph) (src sink : Nat) :
    OrderFree.addEdgeG g (src, sink) = ((GraphOp.addEdge src sink []).apply g).2 := rfl

/-- **the definitions of a scoped variable may be collected in any order.** Reordering stanzas (or matches) permutes the
`(scope, value)` pairs collected for a name. With the scopes known and the run not cancelled, forcing the permuted pairs
(`Lazy.forcePairs`, the model of `LazyScopedVariables::force`) succeeds exactly when forcing the original pairs succeeds;
on success both leave the same machine state and the two maps answer every lookup alike (so every read — own node or
nearest ancestor — sees the same value); on failure both report a duplicate variable. -/
theorem C08_scoped_defs_order_free (cfg : Cfg) (ef : Nat) (name : String) (l l' : List OrderFree.Def) (hp : l.Perm l')
    (s : Prog.MSt LSt) (hc : s.ps.cancelAt = none) :
    match Prog.run (Lazy.forcePairs cfg (ef + 1) name (OrderFree.liftDefs l) [] []) s,
          Prog.run (Lazy.forcePairs cfg (ef + 1) name (OrderFree.liftDefs l') [] []) s with
    | .ok m s1, .ok m' s2 => s1 = s2 ∧ ∀ k, m.lookup k = m'.lookup k
    | .fail f _, .fail f' _ => (∃ a b, f = (Fail.err (.base .duplicateVariable "")).withContext (.stmt [a, b])) ∧
                               (∃ a b, f' = (Fail.err (.base .duplicateVariable "")).withContext (.stmt [a, b]))
    | _, _ => False := by
  have h := OrderFree.scoped_defs_order_free cfg ef name l l' hp s hc
  cases hr1 : Prog.run (Lazy.forcePairs cfg (ef + 1) name (OrderFree.liftDefs l) [] []) s with
  | ok m s1 =>
    cases hr2 : Prog.run (Lazy.forcePairs cfg (ef + 1) name (OrderFree.liftDefs l') [] []) s with
    | ok m' s2 => rw [hr1, hr2] at h; exact h
    | fail _ _ => rw [hr1, hr2] at h; exact h
  | fail _ _ =>
    cases hr2 : Prog.run (Lazy.forcePairs cfg (ef + 1) name (OrderFree.liftDefs l') [] []) s with
    | ok m' s2 => rw [hr1, hr2] at h; exact h
    | fail _ _ => rw [hr1, hr2] at h; exact h

/-- non-vacuity: two definitions on different nodes succeed; a third on the first node is a duplicate, wherever it stands -/
example : OrderFree.pureForce [(1, .value (.int 1), default), (2, .value (.int 2), default)] [] [] =
    .ok [(1, .value (.int 1)), (2, .value (.int 2))] := rfl
example : ∃ e, OrderFree.pureForce [(1, LVal.value (.int 1), default), (2, .value (.int 2), default), (1, .value (.int 3), default)] [] [] = .error e :=
  ⟨_, rfl⟩

/-- the property as stated, for the lazy model -/
def C08_full (Iso : CGraph → CGraph → Prop) : Prop :=
  ∀ (file file' : File) (tree : Tree) (oracle : Oracle) (globals : GlobalsM) (fuel ef : Nat)
    (merged merged' : List QMatch),
    file'.stanzas.Perm file.stanzas → file'.globals = file.globals → file'.inherited = file.inherited →
    file'.shorthands = file.shorthands →
    let a := Lazy.run file tree oracle globals none none none none fuel ef merged {}
    let b := Lazy.run file' tree oracle globals none none none none fuel ef merged' {}
    (a.outcome = none ↔ b.outcome = none) ∧ (a.outcome = none → Iso a.graph b.graph)

/-- non-vacuity: two assignments to one name with different values fail in both orders -/
example : assignAll [] [("k", .int 1), ("k", .int 2)] = none ∧ assignAll [] [("k", .int 2), ("k", .int 1)] = none := by
  have h1 := C08_attrs_success_order_free [] [("k", .int 1), ("k", .int 2)] [("k", .int 2), ("k", .int 1)] (List.Perm.swap _ _ _)
  have : assignAll [] [("k", Val.int 1), ("k", Val.int 2)] = none := by
    simp [assignAll, Attrs.add, List.lookup]
  rw [this] at h1
  exact ⟨this, by cases h : assignAll [] [("k", Val.int 2), ("k", Val.int 1)] <;> simp_all⟩

end C08

