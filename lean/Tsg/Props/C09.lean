/-
  C09 — Edges are a set, attributes are single-assignment, execute_into only adds.

  `Prog.run_extends` (Tsg/Proofs/Extends.lean) is proved for every program term; the theorems
  below instantiate it for whole strict and lazy runs into an arbitrary pre-populated graph.
-/
import Tsg.Proofs.Extends
import Tsg.Sem.Lazy

namespace C09
open CGraph

/-- **execute_into only adds (strict).** A successful run into a pre-populated graph `g0` leaves every
existing node, edge and attribute binding intact; new nodes are numbered after the existing ones
(`Le` keeps indices); edge lists stay strictly ascending (at most one edge per ordered pair). -/
theorem C09_execute_into_extends_strict (file : File) (tree : Tree) (oracle : Oracle) (globals : GlobalsM)
    (la va ma : Option String) (c : Option Nat) (fuel : Nat) (ms : List (List QMatch)) (g0 : CGraph)
    (hinv : Inv g0)
    (hok : (Strict.run file tree oracle globals la va ma c fuel ms g0).outcome = none) :
    Le g0 (Strict.run file tree oracle globals la va ma c fuel ms g0).graph ∧
    Inv (Strict.run file tree oracle globals la va ma c fuel ms g0).graph := by
  simp only [Strict.run] at hok ⊢
  cases hg : checkGlobals file.globals globals.nested with
  | error e => simp [hg] at hok
  | ok gl =>
    simp only [hg] at hok ⊢
    generalize hr : Prog.run _ _ = r at hok ⊢
    cases r with
    | ok u s' =>
      cases u
      have := Prog.run_extends _ _ s' () hinv hr
      simpa [Prog.toResult] using this
    | fail f s' => simp [Prog.toResult] at hok

/-- **execute_into only adds (lazy)**: both phases, including the deferred edge and attribute statements -/
theorem C09_execute_into_extends_lazy (file : File) (tree : Tree) (oracle : Oracle) (globals : GlobalsM)
    (la va ma : Option String) (c : Option Nat) (fuel ef : Nat) (merged : List QMatch) (g0 : CGraph)
    (hinv : Inv g0)
    (hok : (Lazy.run file tree oracle globals la va ma c fuel ef merged g0).outcome = none) :
    Le g0 (Lazy.run file tree oracle globals la va ma c fuel ef merged g0).graph ∧
    Inv (Lazy.run file tree oracle globals la va ma c fuel ef merged g0).graph := by
  simp only [Lazy.run] at hok ⊢
  cases hg : checkGlobals file.globals globals.nested with
  | error e => simp [hg] at hok
  | ok gl =>
    simp only [hg] at hok ⊢
    generalize hr : Prog.run _ _ = r at hok ⊢
    cases r with
    | ok u s' =>
      cases u
      have := Prog.run_extends _ _ s' () hinv hr
      simpa [Prog.toResult] using this
    | fail f s' => simp [Prog.toResult] at hok

/-- creating an existing edge again keeps the edge and its attributes: the graph is unchanged -/
theorem C09_readd_keeps_edge (g : CGraph) (src sink : Nat) (attrs : Attrs) (nd : GNode) (ea : Attrs)
    (hinv : Inv g) (hn : g.node? src = some nd) (he : nd.getEdge sink = some ea) :
    (GraphOp.addEdge src sink attrs).apply g = (.ok (some false), g) := by
  have hsorted := node_sorted g hinv src nd hn
  have hnot : (GNode.insertEdge nd.edges sink).2 = false := by
    cases hb : (GNode.insertEdge nd.edges sink).2 with
    | false => rfl
    | true =>
      have := (GNode.insertEdge_new_iff nd.edges sink hsorted).mp hb
      simp [GNode.getEdge] at he; rw [this] at he; cases he
  simp [GraphOp.apply, hn, GNode.addEdge, hnot]

/-- a new edge is created with exactly the given (debug) attributes and no others -/
theorem C09_new_edge (g : CGraph) (src sink : Nat) (attrs : Attrs) (nd : GNode)
    (hinv : Inv g) (hn : g.node? src = some nd) (he : nd.getEdge sink = none) :
    ∃ g', (GraphOp.addEdge src sink attrs).apply g = (.ok (some true), g') ∧ g'.getEdge src sink = some attrs := by
  have hsorted := node_sorted g hinv src nd hn
  have hnew : (GNode.insertEdge nd.edges sink).2 = true :=
    (GNode.insertEdge_new_iff nd.edges sink hsorted).mpr (by simpa [GNode.getEdge] using he)
  refine ⟨g.setNode src { edges := GNode.setEdgeAttrs (GNode.insertEdge nd.edges sink).1 sink attrs, attrs := nd.attrs },
    by simp [GraphOp.apply, hn, GNode.addEdge, hnew], ?_⟩
  have hlt : src < g.nodes.length := lt_of_getElem?_some _ _ _ hn
  simp only [CGraph.getEdge, node?, getElem?_setNode, if_true]
  simp only [node?] at hn
  simp only [hn, Option.map_some, GNode.getEdge]
  apply GNode.lookup_setEdgeAttrs_same
  rw [GNode.lookup_insertEdge_same _ _ hsorted]; simp

/-- **single assignment.** Assigning an equal value again is accepted and changes nothing; assigning
a different value makes the program fail (with the given error) instead of silently keeping either -/
theorem C09_attr_single_assignment (g : CGraph) (n : Nat) (k : String) (v old : Val) (nd : GNode) (f : Fail)
    (hn : g.node? n = some nd) (hold : nd.attrs.get k = some old) :
    (old = v → (GraphOp.addNodeAttr n k v f).apply g = (.ok (some ()), g.setNode n nd)) ∧
    (old ≠ v → ∃ g', (GraphOp.addNodeAttr n k v f).apply g = (.error f, g')) := by
  constructor
  · intro heq
    subst heq
    have := Attrs.add_same_value_noop nd.attrs k old hold
    simp [GraphOp.apply, CGraph.addNodeAttr, hn, this]
  · intro hne
    have hc : (Attrs.add nd.attrs k v).2 = true := (Attrs.add_conflict_iff nd.attrs k v).mpr ⟨old, hold, hne⟩
    refine ⟨g.setNode n { nd with attrs := (Attrs.add nd.attrs k v).1 }, ?_⟩
    simp [GraphOp.apply, CGraph.addNodeAttr, hn, hc]

/-- in a failing program the conflict error is not swallowed: `gop` fails the whole run -/
theorem C09_conflict_fails_run {ρ α : Type} (g : CGraph) (n : Nat) (k : String) (v : Val) (f : Fail) (g' : CGraph)
    (kont : Option Unit → Prog ρ α) (s : Prog.MSt ρ) (hs : s.graph = g)
    (h : (GraphOp.addNodeAttr n k v f).apply g = (.error f, g')) :
    Prog.run (.gop (.addNodeAttr n k v f) kont) s = .fail f { s with graph := g' } := by
  simp [Prog.run, hs, h]

/-- **an attribute on an edge that does not exist (strict).** The statement fails with `UndefinedEdge` and the graph —
every other edge of the source node included — is left exactly as it was: the attribute lands on no other edge. -/
theorem C09_attr_on_missing_edge_strict {ρ : Type} (g : CGraph) (src sink : Nat) (k : String) (v : Val) (nd : GNode)
    (hn : g.node? src = some nd) (he : nd.getEdge sink = none) (s : Prog.MSt ρ) (hs : s.graph = g) :
    Prog.run (Strict.addAttribute (ρ := ρ) (.edge src sink) k v) s = .fail (.err (.base .undefinedEdge "")) s := by
  have h : g.addEdgeAttr src sink k v = some none := by simp [CGraph.addEdgeAttr, hn, he]
  cases s with
  | mk graph rest ps =>
    simp only at hs; subst hs
    simp [Strict.addAttribute, Prog.gopP, Prog.throwK, Bind.bind, Prog.bind, Prog.run, GraphOp.apply, h]

/-- the graph operation itself: no edge, no change, whatever other edges the node has -/
theorem C09_missing_edge_op_is_noop (g : CGraph) (src sink : Nat) (k : String) (v : Val) (f : Fail) (nd : GNode)
    (hn : g.node? src = some nd) (he : nd.getEdge sink = none) :
    (GraphOp.addEdgeAttr src sink k v f).apply g = (.ok (some none), g) := by
  simp [GraphOp.apply, CGraph.addEdgeAttr, hn, he]
/-- **an attribute on an edge that does not exist (lazy).** Once the attribute's value is there, applying a deferred
edge-attribute statement whose edge was never created fails with `UndefinedEdge`, in the state in which the value was
obtained: no edge of the graph is touched, and the remaining attributes of the statement are not applied. -/
theorem C09_attr_on_missing_edge_lazy (cfg : Cfg) (ef src sink : Nat) (dbg : StmtCtx) (name : String) (lv : LVal)
    (rest : List (String × LVal)) (s s' : Prog.MSt LSt) (v : Val) (nd : GNode)
    (hev : Prog.run (Lazy.evalL cfg ef lv) s = .ok v s')
    (hn : s'.graph.node? src = some nd) (he : nd.getEdge sink = none) :
    Prog.run (Lazy.evalEdgeAttrs cfg ef src sink dbg ((name, lv) :: rest)) s = .fail (.err (.base .undefinedEdge "")) s' := by
  have hg : s'.graph.getEdge src sink = none := by simp [CGraph.getEdge, hn, he]
  have hsome : (s'.graph.node? src).isNone = false := by simp [hn]
  unfold Lazy.evalEdgeAttrs
  rw [Prog.run_bind, hev]
  simp only []
  rw [Prog.run_bind]
  simp [Prog.gopP, Prog.run, GraphOp.apply, hg, hsome, Prog.throwK]
/-- a new edge gets its (debug) attributes and NO OTHER edge of the graph changes: the attributes given at creation land on
the edge that was asked for, also when the node already has edges to larger or smaller sinks -/
theorem C09_new_edge_others_untouched (g : CGraph) (src sink : Nat) (attrs : Attrs) (nd : GNode)
    (hinv : Inv g) (hn : g.node? src = some nd) (he : nd.getEdge sink = none) :
    ∃ g', (GraphOp.addEdge src sink attrs).apply g = (.ok (some true), g') ∧
      ∀ a b, (a, b) ≠ (src, sink) → g'.getEdge a b = g.getEdge a b := by
  have hsorted := node_sorted g hinv src nd hn
  have hnew : (GNode.insertEdge nd.edges sink).2 = true :=
    (GNode.insertEdge_new_iff nd.edges sink hsorted).mpr (by simpa [GNode.getEdge] using he)
  refine ⟨g.setNode src { edges := GNode.setEdgeAttrs (GNode.insertEdge nd.edges sink).1 sink attrs, attrs := nd.attrs },
    by simp [GraphOp.apply, hn, GNode.addEdge, hnew], ?_⟩
  intro a b hab
  have hlt : src < g.nodes.length := lt_of_getElem?_some _ _ _ hn
  by_cases ha : a = src
  · subst ha
    have hb : b ≠ sink := fun h => hab (by rw [h])
    simp only [CGraph.getEdge, node?, getElem?_setNode, if_true]
    simp only [node?] at hn
    simp only [hn, Option.map_some, GNode.getEdge]
    rw [GNode.lookup_setEdgeAttrs_other _ _ _ _ hb, GNode.lookup_insertEdge_other _ _ _ hb]
  · simp only [CGraph.getEdge, node?, getElem?_setNode]
    have : ¬ (src = a) := fun h => ha h.symm
    simp [this]

/-- non-vacuity -/
example : Inv CGraph.empty := inv_empty

end C09
