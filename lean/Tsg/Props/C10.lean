/-
  C10 — scan runs arms for the leftmost match, earlier arm first, and always advances.
  Model: `Strict.scanCollect`, `Strict.scanBest`, `Strict.scanLoop` and the lazy copies (Tsg/Sem).
  The regex matcher is a parameter (`Oracle.regexAt`).
  Whole-loop theorems: `C10_loop_is_plan` (strict) and `C10_lazy_loop_is_plan` (lazy, from every machine state):
  both loops execute the same plan `scanPlan`, which is computed from the regex oracle alone.
-/
import Tsg.Proofs.Prog
import Tsg.Sem.Lazy

namespace C10
open Strict

theorem keyLe_trans (a b c : RMatch × Nat) (h1 : scanKeyLe a b = true) (h2 : scanKeyLe b c = true) : scanKeyLe a c = true := by
  simp only [scanKeyLe, Bool.or_eq_true, decide_eq_true_eq, Bool.and_eq_true, beq_iff_eq] at *
  omega

theorem keyLe_total (a b : RMatch × Nat) : (scanKeyLe a b || scanKeyLe b a) = true := by
  simp only [scanKeyLe, Bool.or_eq_true, decide_eq_true_eq, Bool.and_eq_true, beq_iff_eq]
  omega

/-- **Selection.** The match chosen from the per-arm candidates is one of them and is the
lexicographic minimum by (start offset, arm index): the match that starts earliest, preferring the
earlier arm on ties. -/
theorem C10_best_is_lexmin (ms : List (RMatch × Nat)) (b : RMatch × Nat) (h : scanBest ms = some b) :
    b ∈ ms ∧ ∀ y ∈ ms, b.1.start < y.1.start ∨ (b.1.start = y.1.start ∧ b.2 ≤ y.2) := by
  unfold scanBest at h
  have hsorted := List.pairwise_mergeSort (le := scanKeyLe) keyLe_trans keyLe_total ms
  cases hl : ms.mergeSort scanKeyLe with
  | nil => simp [hl] at h
  | cons x xs =>
    simp [hl] at h
    subst h
    have hmem : ∀ y, y ∈ ms ↔ y ∈ x :: xs := by
      intro y; rw [← hl]; exact (List.mem_mergeSort).symm
    refine ⟨(hmem x).mpr (by simp), ?_⟩
    intro y hy
    rw [hl] at hsorted
    have hle : scanKeyLe x y = true := by
      rcases List.mem_cons.mp ((hmem y).mp hy) with rfl | hy'
      · simp [scanKeyLe]
      · exact (List.pairwise_cons.mp hsorted).1 y hy'
    simp only [scanKeyLe, Bool.or_eq_true, decide_eq_true_eq, Bool.and_eq_true, beq_iff_eq] at hle
    exact hle

/-- nothing is selected exactly when no arm matches: the scan stops -/
theorem C10_best_none_iff (ms : List (RMatch × Nat)) : scanBest ms = none ↔ ms = [] := by
  unfold scanBest
  constructor
  · intro h
    cases hl : ms.mergeSort scanKeyLe with
    | nil =>
      have := List.length_mergeSort (le := scanKeyLe) ms
      rw [hl] at this
      exact List.length_eq_zero_iff.mp this.symm
    | cons x xs => simp [hl] at h
  · intro h; subst h; simp

/-- **Candidates.** The collected list holds, in arm order, the first match of every arm that matches
the rest of the string from the current offset, tagged with its arm index; an arm whose match is empty
makes the whole scan fail with `EmptyRegexCapture` — so every collected match is non-empty. -/
theorem C10_collect_nonempty (o : Oracle) (subject : String) (i : Nat) (arms : List (String × List Stmt × Loc))
    (idx : Nat) (ms : List (RMatch × Nat)) (h : scanCollect o subject i arms idx = .ok ms) :
    ∀ m ∈ ms, m.1.start < m.1.stop ∧ idx ≤ m.2 ∧ m.2 < idx + arms.length ∧
      ∃ re body loc, arms[m.2 - idx]? = some (re, body, loc) ∧ o.regexAt re subject i = some (some m.1) := by
  induction arms generalizing idx ms with
  | nil => simp [scanCollect] at h; subst h; simp
  | cons arm rest ih =>
    obtain ⟨re, body, loc⟩ := arm
    simp only [scanCollect] at h
    cases ho : o.regexAt re subject i with
    | none => simp [ho] at h
    | some r =>
      cases r with
      | none =>
        simp only [ho] at h
        intro m hm
        obtain ⟨h1, h2, h3, re', body', loc', h4, h5⟩ := ih (idx + 1) ms h m hm
        refine ⟨h1, by omega, by simp; omega, re', body', loc', ?_, h5⟩
        have : m.2 - idx = (m.2 - (idx + 1)) + 1 := by omega
        rw [this, List.getElem?_cons_succ]; exact h4
      | some m0 =>
        simp only [ho] at h
        by_cases hm0 : m0.stop ≤ m0.start
        · simp [hm0] at h
        · simp only [hm0, if_false] at h
          cases hr : scanCollect o subject i rest (idx + 1) with
          | error e => simp [hr] at h
          | ok ms' =>
            simp [hr] at h
            subst h
            intro m hm
            rcases List.mem_cons.mp hm with rfl | hm'
            · refine ⟨by simp; omega, by simp, by simp, re, body, loc, by simp, ho⟩
            · obtain ⟨h1, h2, h3, re', body', loc', h4, h5⟩ := ih (idx + 1) ms' hr m hm'
              refine ⟨h1, by omega, by simp; omega, re', body', loc', ?_, h5⟩
              have : m.2 - idx = (m.2 - (idx + 1)) + 1 := by omega
              rw [this, List.getElem?_cons_succ]; exact h4

/-- **no arm is left out.** At every restart offset, every arm whose regex matches the rest of the string is among the
candidates, with that match and its own index — whatever happened at earlier offsets (the candidates at an offset are a
function of the arms, the text and the offset alone: an arm that found nothing at an earlier offset is searched again). -/
theorem C10_collect_complete (o : Oracle) (subject : String) (i : Nat) (arms : List (String × List Stmt × Loc))
    (idx : Nat) (ms : List (RMatch × Nat)) (h : scanCollect o subject i arms idx = .ok ms)
    (k : Nat) (re : String) (body : List Stmt) (loc : Loc) (m : RMatch)
    (harm : arms[k]? = some (re, body, loc)) (hm : o.regexAt re subject i = some (some m)) :
    (m, idx + k) ∈ ms := by
  induction arms generalizing idx ms k with
  | nil => simp at harm
  | cons arm rest ih =>
    obtain ⟨re0, body0, loc0⟩ := arm
    simp only [scanCollect] at h
    cases ho : o.regexAt re0 subject i with
    | none => simp [ho] at h
    | some r =>
      cases r with
      | none =>
        simp only [ho] at h
        cases k with
        | zero =>
          simp only [List.getElem?_cons_zero, Option.some.injEq, Prod.mk.injEq] at harm
          obtain ⟨rfl, _, _⟩ := harm
          rw [ho] at hm; cases hm
        | succ k' =>
          simp only [List.getElem?_cons_succ] at harm
          have := ih (idx + 1) ms h k' harm
          have e : idx + (k' + 1) = idx + 1 + k' := by omega
          rw [e]; exact this
      | some m0 =>
        simp only [ho] at h
        by_cases hm0 : m0.stop ≤ m0.start
        · simp [hm0] at h
        · simp only [hm0, if_false] at h
          cases hr : scanCollect o subject i rest (idx + 1) with
          | error e => simp [hr] at h
          | ok ms' =>
            simp [hr] at h
            subst h
            cases k with
            | zero =>
              simp only [List.getElem?_cons_zero, Option.some.injEq, Prod.mk.injEq] at harm
              obtain ⟨rfl, _, _⟩ := harm
              rw [ho] at hm
              simp only [Option.some.injEq] at hm
              subst hm
              simp
            | succ k' =>
              simp only [List.getElem?_cons_succ] at harm
              have := ih (idx + 1) ms' hr k' harm
              have e : idx + (k' + 1) = idx + 1 + k' := by omega
              rw [e]; exact List.mem_cons_of_mem _ this

/-- a regex whose first match from the current offset is empty raises `EmptyRegexCapture` -/
theorem C10_empty_match_is_error (o : Oracle) (subject : String) (i : Nat) (re : String) (body : List Stmt) (loc : Loc)
    (rest : List (String × List Stmt × Loc)) (idx : Nat) (m : RMatch)
    (ho : o.regexAt re subject i = some (some m)) (hempty : m.stop ≤ m.start) :
    scanCollect o subject i ((re, body, loc) :: rest) idx = .error (.err (.base .emptyRegexCapture "")) := by
  simp [scanCollect, ho, hempty]

/-- `$0..$n`: the text of each group, the empty string for a group that did not participate -/
theorem C10_capture_binding (m : RMatch) (k : Nat) :
    (capsOf m)[k]? = (m.groups[k]?).map (fun g => g.getD "") := by
  simp [capsOf]

/-- **One iteration** of the strict scan loop at an offset inside the string: poll; collect; if no
arm matches, stop; otherwise run the selected arm's block with `$k` bound to the groups, in a fresh
scope, and continue right after the end of the selected match (which is strictly further). -/
theorem C10_iteration (cfg : Cfg) (fuel : Nat) (env : Env) (arms : List (String × List Stmt × Loc))
    (subject : String) (i : Nat) (hi : i < subject.utf8ByteSize) :
    scanLoop cfg fuel env arms subject i =
      (Prog.pollP "processing scan matches" >>= fun _ =>
        match scanCollect cfg.oracle subject i arms 0 with
        | .error f => Prog.failP f
        | .ok ms =>
          match scanBest ms with
          | none => pure ()
          | some (m, k) =>
            if (arms[k]?).isSome then
              if 0 < m.stop then do
                pushFrame
                execBlock cfg fuel { env with caps := capsOf m } (.scanArm (armRegex arms k)) (armBody arms k)
                popFrame
                scanLoop cfg fuel env arms subject (i + m.stop)
              else Prog.failP (.err (.base .emptyRegexCapture ""))
            else Prog.panicAt "scan:arm index") := by
  rw [scanLoop]
  simp only [hi, dite_true, dite_eq_ite, if_true]
  congr 1

/-- the loop stops when the string is exhausted -/
theorem C10_stops_at_end (cfg : Cfg) (fuel : Nat) (env : Env) (arms : List (String × List Stmt × Loc))
    (subject : String) (i : Nat) (hi : ¬ i < subject.utf8ByteSize) :
    scanLoop cfg fuel env arms subject i = pure () := by
  rw [scanLoop]; simp [hi]

/-- every selected match consumed at least one byte, so the next offset is strictly larger: with the
loop condition `i < len` the number of iterations is at most the length of the string -/
theorem C10_always_advances (o : Oracle) (subject : String) (i : Nat) (arms : List (String × List Stmt × Loc))
    (ms : List (RMatch × Nat)) (m : RMatch) (k : Nat)
    (hc : scanCollect o subject i arms 0 = .ok ms) (hb : scanBest ms = some (m, k)) : i < i + m.stop := by
  have hmem := (C10_best_is_lexmin ms (m, k) hb).1
  have := (C10_collect_nonempty o subject i arms 0 ms hc (m, k) hmem).1
  simp at this
  omega

/-- the lazy copy of the loop selects with the same function from the same candidates
(see `C02.C02_scan_collect_agree`): its iteration has the same shape, with the polls inside the collection -/
theorem C10_iteration_lazy (cfg : Cfg) (fuel ef : Nat) (env : Env) (arms : List (String × List Stmt × Loc))
    (subject : String) (i : Nat) (hi : i < subject.utf8ByteSize) :
    Lazy.lazyScanLoop cfg fuel ef env arms subject i =
      (Lazy.lazyScanCollect cfg.oracle subject i arms 0 >>= fun ms =>
        match scanBest ms with
        | none => pure ()
        | some (m, k) =>
          if (arms[k]?).isSome then
            if 0 < m.stop then do
              Lazy.pushFrameL
              Lazy.lazyBlock cfg fuel ef { env with caps := capsOf m } (.scanArm (armRegex arms k)) (armBody arms k)
              Lazy.popFrameL
              Lazy.lazyScanLoop cfg fuel ef env arms subject (i + m.stop)
            else Prog.throwK .emptyRegexCapture
          else Prog.panicAt "scan:arm index") := by
  rw [Lazy.lazyScanLoop]
  simp only [hi, dite_true, dite_eq_ite, if_true]
  congr 1

/-- non-vacuity: two arms matching at different offsets; the later arm starts earlier and wins -/
example :
    scanBest [({ start := 3, stop := 4, groups := [some "x"] }, 0), ({ start := 1, stop := 2, groups := [some "y"] }, 1)]
      = some ({ start := 1, stop := 2, groups := [some "y"] }, 1) := by
  cases h : scanBest [(({ start := 3, stop := 4, groups := [some "x"] } : RMatch), 0),
      (({ start := 1, stop := 2, groups := [some "y"] } : RMatch), 1)] with
  | none => have := (C10_best_none_iff _).mp h; cases this
  | some b =>
    obtain ⟨hm, hmin⟩ := C10_best_is_lexmin _ b h
    simp only [List.mem_cons, List.not_mem_nil, or_false] at hm
    rcases hm with rfl | rfl
    · have := hmin (({ start := 1, stop := 2, groups := [some "y"] } : RMatch), 1) (by simp)
      simp at this
    · rfl

/-! ### the whole loop -/

/-- what a scan does, as data: which (match, arm) pairs are selected, in order, and how it ends. Computed from the
regex oracle alone (no graph, no variables): `n` bounds the number of iterations (any `n > len - i` is enough). -/
inductive ScanPlan where
  | endOfInput                                   -- offset reached the end: no poll, done
  | noMatch                                      -- poll; no arm matches any more: done
  | fail (f : Fail)                              -- poll; collecting failed (empty match, oracle)
  | emptyMatch                                   -- poll; the selected match is empty (guard)
  | badArm                                       -- unreachable: selected index outside the arms
  | step (m : RMatch) (k : Nat) (rest : ScanPlan) -- poll; run arm k on m; continue after it
  | outOfBound                                   -- `n` was too small

def scanPlan (o : Oracle) (subject : String) (arms : List (String × List Stmt × Loc)) : Nat → Nat → ScanPlan
  | 0, _ => .outOfBound
  | n + 1, i =>
    if i < subject.utf8ByteSize then
      match scanCollect o subject i arms 0 with
      | .error f => .fail f
      | .ok ms =>
        match scanBest ms with
        | none => .noMatch
        | some (m, k) =>
          if (arms[k]?).isSome then
            if 0 < m.stop then .step m k (scanPlan o subject arms n (i + m.stop))
            else .emptyMatch
          else .badArm
    else .endOfInput

/-- executing a plan: the effects of the loop, given the plan -/
def runPlan (cfg : Cfg) (fuel : Nat) (env : Env) (arms : List (String × List Stmt × Loc)) : ScanPlan → SM Unit
  | .endOfInput => pure ()
  | .noMatch => Prog.pollP "processing scan matches" >>= fun _ => pure ()
  | .fail f => Prog.pollP "processing scan matches" >>= fun _ => Prog.failP f
  | .emptyMatch => Prog.pollP "processing scan matches" >>= fun _ => Prog.failP (.err (.base .emptyRegexCapture ""))
  | .badArm => Prog.pollP "processing scan matches" >>= fun _ => Prog.panicAt "scan:arm index"
  | .outOfBound => Prog.failP .outOfFuel
  | .step m k rest =>
    Prog.pollP "processing scan matches" >>= fun _ => do
      pushFrame
      execBlock cfg fuel { env with caps := capsOf m } (.scanArm (armRegex arms k)) (armBody arms k)
      popFrame
      runPlan cfg fuel env arms rest

/-- **The whole loop.** The strict scan loop is exactly the execution of its plan: the arms run are the
lexicographic-minimum selections at successive offsets, each offset right after the previous match. -/
theorem C10_loop_is_plan (cfg : Cfg) (fuel : Nat) (env : Env) (arms : List (String × List Stmt × Loc))
    (subject : String) (n i : Nat) (hn : subject.utf8ByteSize - i < n) :
    scanLoop cfg fuel env arms subject i = runPlan cfg fuel env arms (scanPlan cfg.oracle subject arms n i) := by
  induction n generalizing i with
  | zero => omega
  | succ n ih =>
    by_cases hi : i < subject.utf8ByteSize
    · rw [C10_iteration cfg fuel env arms subject i hi]
      simp only [scanPlan, hi, if_true]
      cases hc : scanCollect cfg.oracle subject i arms 0 with
      | error f => simp [runPlan]
      | ok ms =>
        simp only
        cases hb : scanBest ms with
        | none => simp [runPlan]
        | some p =>
          obtain ⟨m, k⟩ := p
          simp only
          by_cases hk : (arms[k]?).isSome
          · simp only [hk, if_true]
            by_cases hm : 0 < m.stop
            · simp only [hm, if_true, runPlan]
              rw [ih (i + m.stop) (by omega)]
            · simp [hm, runPlan]
          · simp [hk, runPlan]
    · rw [C10_stops_at_end cfg fuel env arms subject i hi]
      simp [scanPlan, hi, runPlan]

/-- the plan never needs more iterations than there are bytes left -/
theorem C10_plan_bound_suffices (o : Oracle) (subject : String) (arms : List (String × List Stmt × Loc)) (n i : Nat)
    (hn : subject.utf8ByteSize - i < n) : ∀ p, scanPlan o subject arms n i = p → p ≠ .outOfBound := by
  induction n generalizing i with
  | zero => omega
  | succ n ih =>
    intro p hp
    simp only [scanPlan] at hp
    split at hp
    · split at hp
      · subst hp; simp
      · split at hp
        · subst hp; simp
        · split at hp
          · split at hp
            · subst hp; simp
            · subst hp; simp
          · subst hp; simp
    · subst hp; simp



/-! ### the whole lazy loop -/

/-- `n` polls in a row -/
def pollN : Nat → LM Unit
  | 0 => pure ()
  | n + 1 => Prog.pollP "processing scan matches" >>= fun _ => pollN n

/-- how many arms the lazy collection examines (one poll each) before it is done or fails -/
def collectPolls (o : Oracle) (subject : String) (i : Nat) : List (String × List Stmt × Loc) → Nat
  | [] => 0
  | (re, _, _) :: rest =>
    match o.regexAt re subject i with
    | none => 1
    | some none => collectPolls o subject i rest + 1
    | some (some m) => if m.stop ≤ m.start then 1 else collectPolls o subject i rest + 1

/-- the lazy collection = its polls, then the strict collection's result -/
theorem lazyCollect_run (o : Oracle) (subject : String) (i : Nat) (arms : List (String × List Stmt × Loc)) (idx : Nat)
    (s : Prog.MSt LSt) :
    Prog.run (Lazy.lazyScanCollect o subject i arms idx) s =
      Prog.run (pollN (collectPolls o subject i arms) >>= fun _ => Prog.ofExceptF (scanCollect o subject i arms idx)) s := by
  induction arms generalizing idx s with
  | nil => simp [Lazy.lazyScanCollect, scanCollect, collectPolls, pollN, Prog.ofExceptF, Prog.run_bind, Prog.run, pure]
  | cons arm rest ih =>
    obtain ⟨re, body, loc⟩ := arm
    simp only [Lazy.lazyScanCollect, scanCollect, collectPolls]
    cases ho : o.regexAt re subject i with
    | none =>
      simp only [pollN, Prog.run_bind]
      cases Prog.run (Prog.pollP "processing scan matches" : LM Unit) s with
      | ok a s1 => simp [Prog.failP, Prog.ofExceptF, Prog.run, pure]
      | fail e s1 => rfl
    | some r =>
      cases r with
      | none =>
        simp only [pollN, Prog.run_bind]
        cases Prog.run (Prog.pollP "processing scan matches" : LM Unit) s with
        | ok a s1 =>
          simp only
          rw [ih (idx + 1) s1, Prog.run_bind]
        | fail e s1 => rfl
      | some m =>
        simp only
        by_cases hm : m.stop ≤ m.start
        · simp only [hm, if_true, pollN, Prog.run_bind]
          cases Prog.run (Prog.pollP "processing scan matches" : LM Unit) s with
          | ok a s1 => simp [Prog.throwK, Prog.ofExceptF, Prog.run, pure]
          | fail e s1 => rfl
        · simp only [hm, if_false, pollN, Prog.run_bind]
          cases Prog.run (Prog.pollP "processing scan matches" : LM Unit) s with
          | ok a s1 =>
            simp only
            rw [ih (idx + 1) s1, Prog.run_bind]
            cases Prog.run (pollN (collectPolls o subject i rest)) s1 with
            | ok a s2 =>
              simp only
              cases scanCollect o subject i rest (idx + 1) <;> simp [Prog.ofExceptF, Prog.run, pure]
            | fail e s2 => rfl
          | fail e s1 => rfl


/-- executing a plan lazily: the effects of the lazy loop, given the plan and the offset it starts at
(the offset only determines how many arms each collection examines, i.e. the number of polls) -/
def runPlanLazy (cfg : Cfg) (fuel ef : Nat) (env : Env) (arms : List (String × List Stmt × Loc)) (subject : String) :
    Nat → ScanPlan → LM Unit
  | _, .endOfInput => pure ()
  | i, .noMatch => pollN (collectPolls cfg.oracle subject i arms) >>= fun _ => pure ()
  | i, .fail f => pollN (collectPolls cfg.oracle subject i arms) >>= fun _ => Prog.failP f
  | i, .emptyMatch => pollN (collectPolls cfg.oracle subject i arms) >>= fun _ => Prog.throwK .emptyRegexCapture
  | i, .badArm => pollN (collectPolls cfg.oracle subject i arms) >>= fun _ => Prog.panicAt "scan:arm index"
  | _, .outOfBound => Prog.failP .outOfFuel
  | i, .step m k rest =>
    pollN (collectPolls cfg.oracle subject i arms) >>= fun _ => do
      Lazy.pushFrameL
      Lazy.lazyBlock cfg fuel ef { env with caps := capsOf m } (.scanArm (armRegex arms k)) (armBody arms k)
      Lazy.popFrameL
      runPlanLazy cfg fuel ef env arms subject (i + m.stop) rest

/-- **The whole lazy loop.** From every machine state (any graph, any store, any cancellation flag), the lazy scan
loop behaves exactly as the execution of THE SAME plan as the strict loop (`scanPlan`, computed from the regex
oracle alone): the same arms on the same matches in the same order, ending the same way; it differs only in
polling once per examined arm instead of once per iteration. -/
theorem C10_lazy_loop_is_plan (cfg : Cfg) (fuel ef : Nat) (env : Env) (arms : List (String × List Stmt × Loc))
    (subject : String) (n i : Nat) (hn : subject.utf8ByteSize - i < n) (s : Prog.MSt LSt) :
    Prog.run (Lazy.lazyScanLoop cfg fuel ef env arms subject i) s =
      Prog.run (runPlanLazy cfg fuel ef env arms subject i (scanPlan cfg.oracle subject arms n i)) s := by
  induction n generalizing i s with
  | zero => omega
  | succ n ih =>
    by_cases hi : i < subject.utf8ByteSize
    · rw [C10_iteration_lazy cfg fuel ef env arms subject i hi]
      simp only [scanPlan, hi, if_true]
      rw [Prog.run_bind, lazyCollect_run, Prog.run_bind]
      cases hp : Prog.run (pollN (collectPolls cfg.oracle subject i arms)) s with
      | fail e s1 =>
        simp only
        cases hc : scanCollect cfg.oracle subject i arms 0 with
        | error f => simp [runPlanLazy, Prog.run_bind, hp]
        | ok ms =>
          simp only
          cases hb : scanBest ms with
          | none => simp [runPlanLazy, Prog.run_bind, hp]
          | some p =>
            obtain ⟨m, k⟩ := p
            simp only
            by_cases hk : (arms[k]?).isSome
            · by_cases hm : 0 < m.stop <;> simp [hk, hm, runPlanLazy, Prog.run_bind, hp]
            · simp [hk, runPlanLazy, Prog.run_bind, hp]
      | ok u s1 =>
        simp only
        cases hc : scanCollect cfg.oracle subject i arms 0 with
        | error f => simp [runPlanLazy, Prog.run_bind, hp, Prog.ofExceptF, Prog.failP, Prog.run]
        | ok ms =>
          simp only [Prog.ofExceptF, Prog.run]
          cases hb : scanBest ms with
          | none => simp [runPlanLazy, Prog.run_bind, hp]
          | some p =>
            obtain ⟨m, k⟩ := p
            simp only
            by_cases hk : (arms[k]?).isSome
            · simp only [hk, if_true]
              by_cases hm : 0 < m.stop
              · simp only [hm, if_true, runPlanLazy, Prog.run_bind, hp]
                cases Prog.run Lazy.pushFrameL s1 with
                | fail e s2 => rfl
                | ok _ s2 =>
                  simp only
                  cases Prog.run (Lazy.lazyBlock cfg fuel ef { env with caps := capsOf m } (.scanArm (armRegex arms k)) (armBody arms k)) s2 with
                  | fail e s3 => rfl
                  | ok _ s3 =>
                    simp only
                    cases Prog.run Lazy.popFrameL s3 with
                    | fail e s4 => rfl
                    | ok _ s4 => exact ih (i + m.stop) (by omega) s4
              · simp [hm, runPlanLazy, Prog.run_bind, hp]
            · simp [hk, runPlanLazy, Prog.run_bind, hp]
    · have : Lazy.lazyScanLoop cfg fuel ef env arms subject i = pure () := by
        rw [Lazy.lazyScanLoop]; simp [hi]
      rw [this]
      simp [scanPlan, hi, runPlanLazy]


/-! ### the selected arm exists -/

/-- indices recorded by the collection are indices of arms -/
theorem C10_collected_indices_in_range (o : Oracle) (subject : String) (i : Nat) (arms : List (String × List Stmt × Loc)) (idx : Nat)
    (ms : List (RMatch × Nat)) (h : scanCollect o subject i arms idx = .ok ms) :
    ∀ p ∈ ms, idx ≤ p.2 ∧ p.2 < idx + arms.length := by
  induction arms generalizing idx ms with
  | nil => simp [scanCollect] at h; subst h; simp
  | cons arm rest ih =>
    obtain ⟨re, body, loc⟩ := arm
    simp only [scanCollect] at h
    split at h
    · cases h
    · intro p hp
      have := ih (idx + 1) ms h p hp
      simp only [List.length_cons]; omega
    · split at h
      · cases h
      · split at h
        · rename_i ms' hms
          cases h
          intro p hp
          simp only [List.mem_cons] at hp
          rcases hp with rfl | hp
          · simp
          · have := ih (idx + 1) ms' hms p hp
            simp only [List.length_cons]; omega
        · cases h

/-- the `arms[index]` of the scan loops (execution.rs / lazy_execution) is in range: the selected index is the
index of one of the arms -/
theorem C10_selected_arm_exists (o : Oracle) (subject : String) (i : Nat) (arms : List (String × List Stmt × Loc))
    (ms : List (RMatch × Nat)) (m : RMatch) (k : Nat)
    (h : scanCollect o subject i arms 0 = .ok ms) (hb : scanBest ms = some (m, k)) : (arms[k]?).isSome = true := by
  have hmem := (C10_best_is_lexmin ms (m, k) hb).1
  have := C10_collected_indices_in_range o subject i arms 0 ms h (m, k) hmem
  simp at this
  simp [this]

/-- the plan contains the unreachable "selected index outside the arms" leaf -/
def ScanPlan.HasBadArm : ScanPlan → Prop
  | .badArm => True
  | .step _ _ r => r.HasBadArm
  | _ => False

/-- … and it never does: the `arms[index]` panic site of both scan loops is unreachable -/
theorem C10_plan_no_bad_arm (o : Oracle) (subject : String) (arms : List (String × List Stmt × Loc)) (n i : Nat) :
    ¬ (scanPlan o subject arms n i).HasBadArm := by
  induction n generalizing i with
  | zero => simp [scanPlan, ScanPlan.HasBadArm]
  | succ n ih =>
    simp only [scanPlan]
    split
    · split
      · simp [ScanPlan.HasBadArm]
      · rename_i ms hc
        split
        · simp [ScanPlan.HasBadArm]
        · rename_i m k hb
          have hk := C10_selected_arm_exists o subject i arms ms m k hc hb
          simp only [hk, if_true]
          split
          · simp only [ScanPlan.HasBadArm]; exact ih _
          · simp [ScanPlan.HasBadArm]
    · simp [ScanPlan.HasBadArm]
end C10
