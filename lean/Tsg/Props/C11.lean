/-
  C11 — Cancellation at any poll stops execution and surfaces as Cancelled.

  The interpreter models are terms of `Prog` (Tsg/Sem/Prog.lean), in which only the `poll` node can
  see the cancellation flag. `Prog.cancel_sim` (Tsg/Proofs/Prog.lean) is proved for every such
  term; the theorems below instantiate it for whole strict and lazy runs — every DSL file, tree,
  match list, globals, initial graph and oracle, and every k.
-/
import Tsg.Proofs.Prog
import Tsg.Sem.Lazy

namespace C11

/-- `with_context` leaves a cancellation error untouched (error.rs:172) -/
theorem C11_withContext_preserves_cancelled (c : Ctx) (label : String) :
    (XErr.base .cancelled label).withContext c = .base .cancelled label := rfl

/-- ... at every nesting depth of contexts: the failure that comes out of `ctx` is still the bare error -/
theorem C11_ctx_run_preserves_cancelled {ρ α : Type} (c : Ctx) (m : Prog ρ α) (s s' : Prog.MSt ρ) (label : String)
    (h : Prog.run m s = .fail (.err (.base .cancelled label)) s') :
    Prog.run (Prog.withContext c m) s = .fail (.err (.base .cancelled label)) s' := by
  simp [Prog.withContext, Prog.run, h, Fail.withContext, XErr.withContext]

open Prog (toResult)

theorem toResult_polls {ρ : Type} (r : Res (Prog.MSt ρ) Unit) : (toResult r).polls = (Prog.Res.st r).ps.polls := by
  cases r with
  | ok a s => cases a; rfl
  | fail f s => rfl

theorem toResult_mapCancel {ρ : Type} (k : Option Nat) (r : Res (Prog.MSt ρ) Unit) :
    toResult (Prog.Res.mapCancel k r) = toResult r := by
  cases r with
  | ok a s => cases a; rfl
  | fail f s => rfl

/-- generic form: a whole run started with 0 polls -/
theorem run_cancel {ρ : Type} (t : Prog ρ Unit) (g : CGraph) (r : ρ) (k : Nat) (hk : 0 < k) :
    let free := toResult (Prog.run t { graph := g, rest := r, ps := { polls := 0, cancelAt := none } })
    let cancelled := toResult (Prog.run t { graph := g, rest := r, ps := { polls := 0, cancelAt := some k } })
    (free.polls < k → cancelled = free) ∧
    (k ≤ free.polls → (∃ label, cancelled.outcome = some (.err (.base .cancelled label))) ∧ cancelled.polls = k) := by
  intro free cancelled
  have h := Prog.cancel_sim t { graph := g, rest := r, ps := { polls := 0, cancelAt := none } } k rfl hk
  obtain ⟨h1, h2⟩ := h
  constructor
  · intro hlt
    have hlt' : (Prog.Res.st (Prog.run t { graph := g, rest := r, ps := { polls := 0, cancelAt := none } })).ps.polls < k := by
      rw [← toResult_polls]; exact hlt
    have := h1 hlt'
    show toResult (Prog.run t _) = toResult (Prog.run t _)
    have e : Prog.withCancel ({ graph := g, rest := r, ps := { polls := 0, cancelAt := none } } : Prog.MSt ρ) (some k)
        = { graph := g, rest := r, ps := { polls := 0, cancelAt := some k } } := rfl
    rw [e] at this
    rw [this, toResult_mapCancel]
  · intro hge
    have hge' : k ≤ (Prog.Res.st (Prog.run t { graph := g, rest := r, ps := { polls := 0, cancelAt := none } })).ps.polls := by
      rw [← toResult_polls]; exact hge
    obtain ⟨label, s', hrun, hp⟩ := h2 hge'
    have e : Prog.withCancel ({ graph := g, rest := r, ps := { polls := 0, cancelAt := none } } : Prog.MSt ρ) (some k)
        = { graph := g, rest := r, ps := { polls := 0, cancelAt := some k } } := rfl
    rw [e] at hrun
    show (∃ label, (toResult (Prog.run t _)).outcome = _) ∧ (toResult (Prog.run t _)).polls = k
    rw [hrun]
    exact ⟨⟨label, rfl⟩, hp⟩

/-- **Strict mode.** If the flag signals at its k-th poll (k ≥ 1) and the uncancelled run performs at
least k polls, execution returns the cancellation error itself — not a success, another error or a
wrapped error — after exactly k polls (it does not poll or evaluate further); if the uncancelled run
performs fewer than k polls the flag changes nothing. For every file, tree, matches, globals, ... -/
theorem C11_cancel_at_k_strict (file : File) (tree : Tree) (oracle : Oracle) (globals : GlobalsM)
    (la va ma : Option String) (fuel : Nat) (ms : List (List QMatch)) (g0 : CGraph) (k : Nat) (hk : 0 < k) :
    let free := Strict.run file tree oracle globals la va ma none fuel ms g0
    let cancelled := Strict.run file tree oracle globals la va ma (some k) fuel ms g0
    (free.polls < k → cancelled = free) ∧
    (k ≤ free.polls → (∃ label, cancelled.outcome = some (.err (.base .cancelled label))) ∧ cancelled.polls = k) := by
  intro free cancelled
  simp only [free, cancelled, Strict.run]
  cases hg : checkGlobals file.globals globals.nested with
  | error e => simp; omega
  | ok gl =>
    simp only
    exact run_cancel _ g0 _ k hk

/-- **Lazy mode**, both phases (collecting matches and evaluating the deferred statements and values) -/
theorem C11_cancel_at_k_lazy (file : File) (tree : Tree) (oracle : Oracle) (globals : GlobalsM)
    (la va ma : Option String) (fuel ef : Nat) (merged : List QMatch) (g0 : CGraph) (k : Nat) (hk : 0 < k) :
    let free := Lazy.run file tree oracle globals la va ma none fuel ef merged g0
    let cancelled := Lazy.run file tree oracle globals la va ma (some k) fuel ef merged g0
    (free.polls < k → cancelled = free) ∧
    (k ≤ free.polls → (∃ label, cancelled.outcome = some (.err (.base .cancelled label))) ∧ cancelled.polls = k) := by
  intro free cancelled
  simp only [free, cancelled, Lazy.run]
  cases hg : checkGlobals file.globals globals.nested with
  | error e => simp; omega
  | ok gl =>
    simp only
    exact run_cancel _ g0 _ k hk

/-- the flag is polled at least once per executed statement: running a statement performs a poll
before anything else (strict) -/
theorem C11_statement_polls_first (cfg : Cfg) (fuel : Nat) (env : Env) (st : Stmt) (s : Prog.MSt SRest)
    (h : s.ps.cancelAt = some (s.ps.polls + 1)) :
    ∃ s', Prog.run (Strict.execStmt cfg fuel env st) s = .fail (.err (.base .cancelled "executing statement")) s' ∧
      s'.graph = s.graph ∧ s'.rest = s.rest := by
  unfold Strict.execStmt
  refine ⟨{ s with ps := { s.ps with polls := s.ps.polls + 1 } }, ?_, rfl, rfl⟩
  simp [Prog.pollP, Bind.bind, Prog.bind, Prog.run, h]

/-- the flag is polled once per attribute, BEFORE the attribute's value is evaluated — for every attribute list that is
executed, so also for the attributes that an attribute shorthand expands to (the expansion is executed by the same
function): a run can be interrupted between any two attributes (strict) -/
theorem C11_attribute_polls_first (cfg : Cfg) (fuel : Nat) (env : Env) (t : Strict.Target) (name : String) (e : Expr)
    (rest : List AttrE) (s : Prog.MSt SRest) (h : s.ps.cancelAt = some (s.ps.polls + 1)) :
    ∃ s', Prog.run (Strict.execAttrs cfg fuel env t ((name, e) :: rest)) s =
        .fail (.err (.base .cancelled "executing attribute")) s' ∧ s'.graph = s.graph ∧ s'.rest = s.rest := by
  rw [Strict.execAttrs.eq_def]
  refine ⟨{ s with ps := { s.ps with polls := s.ps.polls + 1 } }, ?_, rfl, rfl⟩
  simp [Prog.pollP, Bind.bind, Prog.bind, Prog.run, h]

/-- ... and when lazy evaluation collects the attributes of a statement (shorthand expansions included) -/
theorem C11_attribute_polls_first_lazy (cfg : Cfg) (fuel ef : Nat) (env : Env) (name : String) (e : Expr)
    (rest : List AttrE) (acc : List (String × LVal)) (s : Prog.MSt LSt) (h : s.ps.cancelAt = some (s.ps.polls + 1)) :
    ∃ s', Prog.run (Lazy.lazyAttrs cfg fuel ef env ((name, e) :: rest) acc) s =
        .fail (.err (.base .cancelled "executing attribute")) s' ∧ s'.graph = s.graph ∧ s'.rest = s.rest := by
  rw [Lazy.lazyAttrs.eq_def]
  refine ⟨{ s with ps := { s.ps with polls := s.ps.polls + 1 } }, ?_, rfl, rfl⟩
  simp [Prog.pollP, Bind.bind, Prog.bind, Prog.run, h]

/-- non-vacuity: a program with three polls, cancelled at the second -/
example :
    let t : Prog Unit Unit := do Prog.pollP "a"; Prog.withContext (.other "x") (Prog.pollP "b"); Prog.pollP "c"
    (toResult (Prog.run t { graph := {}, rest := (), ps := { polls := 0, cancelAt := none } })).polls = 3 ∧
    (toResult (Prog.run t { graph := {}, rest := (), ps := { polls := 0, cancelAt := some 2 } })).outcome
      = some (.err (.base .cancelled "b")) := by
  decide

end C11
