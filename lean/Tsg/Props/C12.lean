/-
  C12 — Results are deterministic and a loaded file is reusable without cross-talk.

  Every model entry point is a (pure, total) Lean function of its arguments: loading, checking and
  executing take the file, tree, match lists, globals, functions and configuration and return a result;
  nothing else goes in and no file, globals or function table comes out. What remains to be shown is that
  the *stand-ins for hash containers* do not leak their order: in the model a hash map is an association
  list whose order represents the (arbitrary) iteration order of the Rust `HashMap`. Proved: lookups,
  the pretty-printed attribute lines and the forcing order of lazy scoped variables are invariant under
  any permutation of those lists.
-/
import Tsg.Out.Pretty
import Tsg.Proofs.Containers
import Tsg.Sem.Lazy

namespace C12

theorem eq_of_same_key {β : Type} (l : List (String × β)) (h : (l.map (·.1)).Nodup) (x y : String × β)
    (hx : x ∈ l) (hy : y ∈ l) (hk : x.1 = y.1) : x = y := by
  induction l with
  | nil => cases hx
  | cons p rest ih =>
    simp only [List.map_cons, List.nodup_cons] at h
    rcases List.mem_cons.mp hx with rfl | hx' <;> rcases List.mem_cons.mp hy with rfl | hy'
    · rfl
    · exact absurd (hk ▸ List.mem_map_of_mem hy') h.1
    · exact absurd (hk ▸ List.mem_map_of_mem hx') h.1
    · exact ih h.2 hx' hy'

/-- a lookup in a map does not depend on the order of its entries -/
theorem C12_lookup_order_free {β : Type} (l l' : List (String × β)) (hp : l.Perm l') (hn : (l.map (·.1)).Nodup)
    (k : String) : l.lookup k = l'.lookup k := by
  have hn' : (l'.map (·.1)).Nodup := (hp.map _).nodup_iff.mp hn
  cases h : l.lookup k with
  | none =>
    have : ∀ p ∈ l', (k != p.1) = true := by
      intro p hp'
      have := (List.lookup_eq_none_iff.mp h) p (hp.symm.subset hp')
      exact this
    exact (List.lookup_eq_none_iff.mpr this).symm
  | some v =>
    obtain ⟨l1, l2, hl, _⟩ := List.lookup_eq_some_iff.mp h
    have hmem : (k, v) ∈ l' := hp.subset (by rw [hl]; simp)
    cases h' : l'.lookup k with
    | none =>
      have := (List.lookup_eq_none_iff.mp h') (k, v) hmem
      simp at this
    | some v' =>
      obtain ⟨m1, m2, hm, _⟩ := List.lookup_eq_some_iff.mp h'
      have hmem' : (k, v') ∈ l' := by rw [hm]; simp
      have := eq_of_same_key l' hn' (k, v) (k, v') hmem hmem' rfl
      cases this; rfl

/-- `Attributes::get` does not depend on the hash map's order -/
theorem C12_attrs_get_order_free (a a' : Attrs) (hp : a.Perm a') (hn : Attrs.UniqueKeys a) (k : String) :
    a.get k = a'.get k := C12_lookup_order_free a a' hp hn k

/-- **Pretty output is independent of hash order**: the attribute lines of a node or edge are the same
for every iteration order of the underlying hash map -/
theorem C12_pretty_order_free (syn : Nat → String) (a a' : Attrs) (hp : a.Perm a') (hn : Attrs.UniqueKeys a) :
    Pretty.attrLines syn a = Pretty.attrLines syn a' := by
  unfold Pretty.attrLines
  congr 1
  have hn' : Attrs.UniqueKeys a' := (hp.map _).nodup_iff.mp hn
  have trans : ∀ (x y z : String × Val), decide (x.1 ≤ y.1) = true → decide (y.1 ≤ z.1) = true → decide (x.1 ≤ z.1) = true := by
    intro x y z h1 h2; simp only [decide_eq_true_eq] at *; exact String.le_trans h1 h2
  have total : ∀ (x y : String × Val), (decide (x.1 ≤ y.1) || decide (y.1 ≤ x.1)) = true := by
    intro x y; simp only [Bool.or_eq_true, decide_eq_true_eq]; exact String.le_total x.1 y.1
  have s1 := List.pairwise_mergeSort (le := fun (x y : String × Val) => decide (x.1 ≤ y.1)) trans total a
  have s2 := List.pairwise_mergeSort (le := fun (x y : String × Val) => decide (x.1 ≤ y.1)) trans total a'
  have p1 := List.mergeSort_perm a (fun x y => decide (x.1 ≤ y.1))
  have p2 := List.mergeSort_perm a' (fun x y => decide (x.1 ≤ y.1))
  have pp : (a.mergeSort fun x y => decide (x.1 ≤ y.1)).Perm (a'.mergeSort fun x y => decide (x.1 ≤ y.1)) :=
    p1.trans (hp.trans p2.symm)
  refine List.Perm.eq_of_pairwise ?_ s1 s2 pp
  intro x y hx hy h1 h2
  simp only [decide_eq_true_eq] at h1 h2
  have hk : x.1 = y.1 := String.le_antisymm h1 h2
  have hx' : x ∈ a := (List.mem_mergeSort).mp hx
  have hy' : y ∈ a := hp.symm.subset ((List.mem_mergeSort).mp hy)
  exact eq_of_same_key a hn x y hx' hy' hk

/-- sorting names gives the same list for every order of the underlying map: the order in which lazy
evaluation forces the scoped variables (and hence which of several errors it reports) is deterministic -/
theorem C12_cells_forced_in_name_order (names names' : List String) (hp : names.Perm names') :
    names.mergeSort (fun a b => decide (a ≤ b)) = names'.mergeSort (fun a b => decide (a ≤ b)) := by
  have trans : ∀ (x y z : String), decide (x ≤ y) = true → decide (y ≤ z) = true → decide (x ≤ z) = true := by
    intro x y z h1 h2; simp only [decide_eq_true_eq] at *; exact String.le_trans h1 h2
  have total : ∀ (x y : String), (decide (x ≤ y) || decide (y ≤ x)) = true := by
    intro x y; simp only [Bool.or_eq_true, decide_eq_true_eq]; exact String.le_total x y
  refine List.Perm.eq_of_pairwise ?_ (List.pairwise_mergeSort trans total names)
    (List.pairwise_mergeSort trans total names') ((List.mergeSort_perm names _).trans (hp.trans (List.mergeSort_perm names' _).symm))
  intro x y _ _ h1 h2
  simp only [decide_eq_true_eq] at h1 h2
  exact String.le_antisymm h1 h2

/-- the JSON object of an attribute set has one entry per attribute, whatever the order -/
theorem C12_json_keys_order_free (a a' : Attrs) (hp : a.Perm a') :
    (a.map (·.1)).Perm (a'.map (·.1)) := hp.map _

/-- **A loaded file is not changed by executing it**: execution is a function of the file and returns only
outcome, graph and poll count; running it again — on another tree, in another order — is the same function
applied again (stated for two consecutive runs on different trees) -/
theorem C12_runs_independent (file : File) (t1 t2 : Tree) (o : Oracle) (g : GlobalsM) (fuel : Nat)
    (m1 m2 : List (List QMatch)) :
    let first := Strict.run file t1 o g none none none none fuel m1 {}
    let second := Strict.run file t2 o g none none none none fuel m2 {}
    let again := Strict.run file t1 o g none none none none fuel m1 {}
    again.outcome = first.outcome ∧ again.graph = first.graph ∧
    second = Strict.run file t2 o g none none none none fuel m2 {} := ⟨rfl, rfl, rfl⟩

end C12
