/-
  C13 — Standard-library functions honour their documented contracts.
  Property theorems about `Stdlib` (Tsg/Sem/Stdlib.lean), for all argument tuples.
-/
import Tsg.Sem.Stdlib

namespace C13
open Stdlib

/-! ### eq / is-null -/

/-- `null` is comparable to anything: the result says whether both are null -/
theorem C13_eq_null (v : Val) :
    eq [.null, v] = .ok (.bool v.isNull) ∧ eq [v, .null] = .ok (.bool v.isNull) := by
  cases v <;> simp [eq, param, finish, Val.isNull, bind, Except.bind, pure, Except.pure]

/-- same variant: structural equality -/
theorem C13_eq_same_variant :
    (∀ a b : Bool, eq [.bool a, .bool b] = .ok (.bool (a == b))) ∧
    (∀ a b : Nat, eq [.int a, .int b] = .ok (.bool (a == b))) ∧
    (∀ a b : String, eq [.str a, .str b] = .ok (.bool (a == b))) ∧
    (∀ a b : List Val, eq [.list a, .list b] = .ok (.bool (decide (a = b)))) ∧
    (∀ a b : List Val, eq [.set a, .set b] = .ok (.bool (decide (a = b)))) ∧
    (∀ a b : Nat, eq [.syn a, .syn b] = .ok (.bool (a == b))) ∧
    (∀ a b : Nat, eq [.gnode a, .gnode b] = .ok (.bool (a == b))) := by
  refine ⟨?_, ?_, ?_, ?_, ?_, ?_, ?_⟩ <;> intros <;>
    simp [eq, param, finish, bind, Except.bind, pure, Except.pure]

/-- different non-null variants: an error, never a wrong answer -/
theorem C13_eq_different_variants (a b : Val) (ha : a ≠ .null) (hb : b ≠ .null) (h : a.rank ≠ b.rank) :
    eq [a, b] = .error .functionFailed := by
  cases a <;> cases b <;>
    simp_all [eq, param, finish, bind, Except.bind, Val.rank, throw, throwThe, MonadExceptOf.throw]

/-- `eq` has exactly two parameters -/
theorem C13_eq_arity (args : List Val) (h : args.length ≠ 2) : eq args = .error .invalidParameters := by
  match args with
  | [] => simp [eq, param, bind, Except.bind]
  | [_] => simp [eq, param, bind, Except.bind]
  | [_, _] => simp at h
  | _ :: _ :: _ :: _ => simp [eq, param, finish, bind, Except.bind]

theorem C13_is_null (v : Val) : isNull [v] = .ok (.bool v.isNull) := by
  simp [isNull, param, finish, bind, Except.bind, pure, Except.pure]

theorem C13_is_null_arity (args : List Val) (h : args.length ≠ 1) : isNull args = .error .invalidParameters := by
  match args with
  | [] => simp [isNull, param, bind, Except.bind]
  | [_] => simp at h
  | _ :: _ :: _ => simp [isNull, param, finish, bind, Except.bind]

/-! ### booleans -/

theorem C13_not (b : Bool) : Stdlib.not [.bool b] = .ok (.bool (!b)) := by
  simp [Stdlib.not, param, finish, asBool, bind, Except.bind, pure, Except.pure]

theorem andLoop_bools (acc : Bool) (bs : List Bool) :
    andLoop acc (bs.map .bool) = .ok (.bool (bs.foldl (· && ·) acc)) := by
  induction bs generalizing acc with
  | nil => simp [andLoop]
  | cons b bs ih => simp [andLoop, asBool, ih]

theorem orLoop_bools (acc : Bool) (bs : List Bool) :
    orLoop acc (bs.map .bool) = .ok (.bool (bs.foldl (· || ·) acc)) := by
  induction bs generalizing acc with
  | nil => simp [orLoop]
  | cons b bs ih => simp [orLoop, asBool, ih]

/-- `and` / `or` of any number of booleans are the folds (`(and)` = true, `(or)` = false) -/
theorem C13_and_or (bs : List Bool) :
    andLoop true (bs.map .bool) = .ok (.bool (bs.all id)) ∧
    orLoop false (bs.map .bool) = .ok (.bool (bs.any id)) := by
  constructor
  · rw [andLoop_bools]
    congr 2
    have : ∀ acc, bs.foldl (· && ·) acc = (acc && bs.all id) := by
      induction bs with
      | nil => simp
      | cons b bs ih => intro acc; simp [ih, Bool.and_assoc]
    simpa using this true
  · rw [orLoop_bools]
    congr 2
    have : ∀ acc, bs.foldl (· || ·) acc = (acc || bs.any id) := by
      induction bs with
      | nil => simp
      | cons b bs ih => intro acc; simp [ih, Bool.or_assoc]
    simpa using this false

/-- a non-boolean argument makes `and`/`or`/`not` fail -/
theorem C13_bool_type_error (pre : List Bool) (v : Val) (rest : List Val) (hv : ∀ b, v ≠ .bool b) :
    andLoop true (pre.map .bool ++ v :: rest) = .error .expectedBoolean ∧
    orLoop false (pre.map .bool ++ v :: rest) = .error .expectedBoolean := by
  have hv' : asBool v = .error .expectedBoolean := by
    cases v <;> simp_all [asBool]
  constructor
  · generalize true = acc
    induction pre generalizing acc with
    | nil => simp [andLoop, hv']
    | cons b bs ih => simp [andLoop, asBool, ih]
  · generalize false = acc
    induction pre generalizing acc with
    | nil => simp [orLoop, hv']
    | cons b bs ih => simp [orLoop, asBool, ih]

/-! ### plus -/

theorem plusLoop_ok (acc : Nat) (ns : List Nat) (h : acc + ns.sum < 2 ^ 32) :
    plusLoop acc (ns.map .int) = .ok (.int (acc + ns.sum)) := by
  induction ns generalizing acc with
  | nil => simp [plusLoop]
  | cons n ns ih =>
    simp only [List.sum_cons] at h
    have h1 : acc + n < 2 ^ 32 := by omega
    simp only [List.map_cons, plusLoop, asInt, h1, if_true, List.sum_cons]
    rw [ih (acc + n) (by omega), Nat.add_assoc]

theorem plusLoop_overflow (acc : Nat) (ns : List Nat) (h : ¬ acc + ns.sum < 2 ^ 32) (hacc : acc < 2 ^ 32) :
    plusLoop acc (ns.map .int) = .error .functionFailed := by
  induction ns generalizing acc with
  | nil => simp at h; omega
  | cons n ns ih =>
    simp only [List.sum_cons] at h
    simp only [List.map_cons, plusLoop, asInt]
    by_cases h1 : acc + n < 2 ^ 32
    · simp only [h1, if_true]
      exact ih (acc + n) (by omega) h1
    · simp [h1]

/-- `plus` returns the sum when it is representable as `u32`, and an error (not a wrapped or
truncated value, not a panic) otherwise -/
theorem C13_plus (ns : List Nat) :
    (ns.sum < 2 ^ 32 → plusLoop 0 (ns.map .int) = .ok (.int ns.sum)) ∧
    (¬ ns.sum < 2 ^ 32 → plusLoop 0 (ns.map .int) = .error .functionFailed) := by
  constructor
  · intro h; simpa using plusLoop_ok 0 ns (by simpa using h)
  · intro h; exact plusLoop_overflow 0 ns (by simpa using h) (by decide)

theorem C13_plus_type_error (pre : List Nat) (v : Val) (rest : List Val) (hv : ∀ n, v ≠ .int n)
    (hsum : pre.sum < 2 ^ 32) :
    plusLoop 0 (pre.map .int ++ v :: rest) = .error .expectedInteger := by
  have hv' : asInt v = .error .expectedInteger := by
    cases v <;> simp_all [asInt]
  have : ∀ acc, acc + pre.sum < 2 ^ 32 → plusLoop acc (pre.map .int ++ v :: rest) = .error .expectedInteger := by
    induction pre with
    | nil => intro acc _; simp [plusLoop, hv']
    | cons n ns ih =>
      intro acc h
      simp only [List.sum_cons] at h hsum
      have h1 : acc + n < 2 ^ 32 := by omega
      simp only [List.map_cons, List.cons_append, plusLoop, asInt, h1, if_true]
      exact ih (by omega) (acc + n) (by omega)
  exact this 0 (by simpa using hsum)

/-! ### lists -/

theorem concatLoop_lists (acc : List Val) (ls : List (List Val)) :
    concatLoop acc (ls.map .list) = .ok (.list (acc ++ ls.flatten)) := by
  induction ls generalizing acc with
  | nil => simp [concatLoop]
  | cons l ls ih => simp [concatLoop, asList, ih, List.append_assoc]

theorem C13_concat (ls : List (List Val)) : concatLoop [] (ls.map .list) = .ok (.list ls.flatten) := by
  simpa using concatLoop_lists [] ls

theorem C13_length_is_empty (l : List Val) :
    length [.list l] = .ok (.int l.length) ∧ isEmpty [.list l] = .ok (.bool l.isEmpty) := by
  simp [length, isEmpty, param, finish, asList, bind, Except.bind, pure, Except.pure]

/-- wrong arity is an error for `length` and `is-empty` (the `finish()` calls added by the fix) -/
theorem C13_length_is_empty_arity (args : List Val) (h : args.length ≠ 1) :
    (∃ e, length args = .error e) ∧ (∃ e, isEmpty args = .error e) := by
  match args with
  | [] => simp [length, isEmpty, param, bind, Except.bind]
  | [_] => simp at h
  | a :: _ :: _ =>
    cases a <;> simp [length, isEmpty, param, finish, asList, bind, Except.bind]

theorem C13_join (disp : Val → String) (l : List Val) (sep : String) :
    join disp [.list l, .str sep] = .ok (.str (sep.intercalate (l.map disp))) ∧
    join disp [.list l] = .ok (.str ("".intercalate (l.map disp))) := by
  simp [join, param, finish, asList, asStr, bind, Except.bind, pure, Except.pure]

/-! ### format -/

/-- doubling of braces: the documented escape -/
def escapeChar (c : Char) : List Char :=
  if c = '{' then ['{', '{'] else if c = '}' then ['}', '}'] else [c]

def escapeBraces (cs : List Char) : List Char := cs.flatMap escapeChar

theorem push_append_ofList (acc : String) (c : Char) (cs : List Char) :
    acc.push c ++ String.ofList cs = acc ++ String.ofList (c :: cs) := by
  apply String.ext; simp

theorem formatLoop_plain (disp : Val → String) (c : Char) (rest : List Char) (ps : List Val) (acc : String)
    (h1 : c ≠ '{') (h2 : c ≠ '}') :
    formatLoop disp (c :: rest) ps acc = formatLoop disp rest ps (acc.push c) := by
  conv => lhs; unfold formatLoop
  split <;> simp_all

theorem formatLoop_escape (disp : Val → String) (cs : List Char) (ps : List Val) (acc : String) :
    formatLoop disp (escapeBraces cs) ps acc = .ok (acc ++ String.ofList cs, ps) := by
  induction cs generalizing acc with
  | nil => simp [escapeBraces, formatLoop]
  | cons c cs ih =>
    have hc : escapeBraces (c :: cs) = escapeChar c ++ escapeBraces cs := by simp [escapeBraces]
    rw [hc]
    by_cases h1 : c = '{'
    · subst h1
      simp only [escapeChar, if_true, List.cons_append, List.nil_append, formatLoop]
      rw [ih, push_append_ofList]
    · by_cases h2 : c = '}'
      · subst h2
        simp only [escapeChar, h1, if_false, if_true, List.cons_append, List.nil_append, formatLoop]
        rw [ih, push_append_ofList]
      · simp only [escapeChar, h1, h2, if_false, List.cons_append, List.nil_append]
        rw [formatLoop_plain disp c _ ps acc h1 h2, ih, push_append_ofList]

/-- `format (escape s)` with no further arguments returns `s` -/
theorem C13_format_escape_roundtrip (disp : Val → String) (s : String) :
    format disp [.str (String.ofList (escapeBraces s.toList))] = .ok (.str s) := by
  simp [format, param, asStr, bind, Except.bind, formatLoop_escape, finish, pure, Except.pure]


theorem formatLoop_literal (disp : Val → String) (pre rest : List Char) (ps : List Val) (acc : String)
    (h : ∀ c ∈ pre, c ≠ '{' ∧ c ≠ '}') :
    formatLoop disp (pre ++ rest) ps acc = formatLoop disp rest ps (acc ++ String.ofList pre) := by
  induction pre generalizing acc with
  | nil => simp
  | cons c cs ih =>
    have hc := h c (by simp)
    rw [List.cons_append, formatLoop_plain disp c _ ps acc hc.1 hc.2, ih _ (fun x hx => h x (by simp [hx])),
      push_append_ofList]

/-- **compositional semantics of `{}`**: literal text is copied, a placeholder consumes exactly
the next argument and inserts its display form -/
theorem C13_format_placeholder_step (disp : Val → String) (pre rest : List Char) (v : Val) (ps : List Val)
    (acc : String) (h : ∀ c ∈ pre, c ≠ '{' ∧ c ≠ '}') :
    formatLoop disp (pre ++ '{' :: '}' :: rest) (v :: ps) acc =
      formatLoop disp rest ps (acc ++ String.ofList pre ++ disp v) := by
  rw [formatLoop_literal disp pre _ _ acc h]
  simp [formatLoop]

/-- a placeholder with no argument left is an error -/
theorem C13_format_missing_argument (disp : Val → String) (pre rest : List Char) (acc : String)
    (h : ∀ c ∈ pre, c ≠ '{' ∧ c ≠ '}') :
    formatLoop disp (pre ++ '{' :: '}' :: rest) [] acc = .error .invalidParameters := by
  rw [formatLoop_literal disp pre _ _ acc h]
  simp [formatLoop]

/-- arguments left over after the last placeholder are an error -/
theorem C13_format_extra_argument (disp : Val → String) (s : String) (v : Val) (vs : List Val)
    (h : ∀ c ∈ s.toList, c ≠ '{' ∧ c ≠ '}') :
    format disp (.str s :: v :: vs) = .error .invalidParameters := by
  have := formatLoop_literal disp s.toList [] (v :: vs) "" h
  simp only [List.append_nil] at this
  simp [format, param, asStr, bind, Except.bind, this, formatLoop, finish]

/-- a lone brace is an error -/
theorem C13_format_lone_brace (disp : Val → String) (pre : List Char) (ps : List Val) (acc : String)
    (h : ∀ c ∈ pre, c ≠ '{' ∧ c ≠ '}') :
    formatLoop disp (pre ++ ['{']) ps acc = .error .functionFailed ∧
    formatLoop disp (pre ++ ['}']) ps acc = .error .functionFailed := by
  constructor <;> rw [formatLoop_literal disp pre _ _ acc h] <;> simp [formatLoop]

/-- the first argument of `format` must be a string -/
theorem C13_format_type_error (disp : Val → String) (v : Val) (vs : List Val) (hv : ∀ s, v ≠ .str s) :
    format disp (v :: vs) = .error .expectedString := by
  cases v <;> simp_all [format, param, asStr, bind, Except.bind]

/-! ### graph and syntax functions -/

/-- `(node)` returns a fresh node: its index is the old node count, the graph grows by exactly
one empty node; any argument is an error -/
theorem C13_node_fresh (o : Oracle) (t : Tree) (g : CGraph) :
    (match call o t "node" [] g with
      | .ok v g' => v = .gnode g.nodeCount ∧ g' = (g.addGraphNode).1
      | _ => False) ∧
    (∀ a as, match call o t "node" (a :: as) g with | .err .invalidParameters => True | _ => False) := by
  constructor
  · simp [call, finish, CGraph.addGraphNode, CGraph.nodeCount]
  · intro a as; simp [call, finish]

/-- syntax accessors return exactly what the tree reports for the node -/
theorem C13_syntax_accessors (o : Oracle) (t : Tree) (g : CGraph) (id : Nat) (n : TNode) (h : t.node? id = some n) :
    (match call o t "start-row" [.syn id] g with | .ok v g' => v = .int n.startRow ∧ g' = g | _ => False) ∧
    (match call o t "start-column" [.syn id] g with | .ok v g' => v = .int n.startCol ∧ g' = g | _ => False) ∧
    (match call o t "end-row" [.syn id] g with | .ok v g' => v = .int n.endRow ∧ g' = g | _ => False) ∧
    (match call o t "end-column" [.syn id] g with | .ok v g' => v = .int n.endCol ∧ g' = g | _ => False) ∧
    (match call o t "node-type" [.syn id] g with | .ok v g' => v = .str n.kind ∧ g' = g | _ => False) ∧
    (match call o t "named-child-count" [.syn id] g with
      | .ok v g' => v = .int (t.namedChildren n).length ∧ g' = g | _ => False) := by
  simp [call, callPure, synArg, param, asSyn, h, finish, liftP, bind, Except.bind, pure, Except.pure, Except.map]

/-- `source-text` is the slice of the source at the node's byte range -/
theorem C13_source_text (o : Oracle) (t : Tree) (g : CGraph) (id : Nat) (n : TNode) (s : String)
    (h : t.node? id = some n) (hs : Tree.sliceBytes t.source n.startByte n.endByte = some s) :
    (match call o t "source-text" [.syn id] g with | .ok v g' => v = .str s ∧ g' = g | _ => False) := by
  simp [call, callPure, synArg, param, asSyn, h, finish, hs, bind, Except.bind, pure, Except.pure]

/-- a non-syntax-node argument to a syntax function is an error -/
theorem C13_syntax_type_error (o : Oracle) (t : Tree) (g : CGraph) (v : Val) (hv : ∀ i, v ≠ .syn i) :
    (match call o t "start-row" [v] g with | .err .expectedSyntaxNode => True | _ => False) ∧
    (match call o t "source-text" [v] g with | .err .expectedSyntaxNode => True | _ => False) ∧
    (match call o t "named-child-index" [v] g with | .err .expectedSyntaxNode => True | _ => False) := by
  cases v <;>
    simp_all [call, callPure, synArg, namedChildIndex, param, asSyn, liftP, bind, Except.bind, Except.map]

theorem idxOf?_some_getElem? (l : List Nat) (x i : Nat) (h : l.idxOf? x = some i) : l[i]? = some x := by
  induction l generalizing i with
  | nil => simp [List.idxOf?] at h
  | cons y ys ih =>
    simp only [List.idxOf?, List.findIdx?_cons] at h
    by_cases hy : y = x
    · subst hy; simp at h; subst h; simp
    · have : (y == x) = false := by simp [hy]
      simp only [this] at h
      cases hr : List.findIdx? (fun z => z == x) ys with
      | none => simp [hr] at h
      | some j =>
        simp [hr] at h
        subst h
        simp only [List.getElem?_cons_succ]
        exact ih j (by simp [List.idxOf?, hr])

/-- `named-child-index` returns the position of the node among its parent's named children -/
theorem C13_named_child_index (o : Oracle) (t : Tree) (g : CGraph) (id i : Nat) (g' : CGraph)
    (h : call o t "named-child-index" [.syn id] g = .ok (.int i) g') :
    ∃ n p pn, t.node? id = some n ∧ n.parent = some p ∧ t.node? p = some pn ∧
      (t.namedChildren pn)[i]? = some id ∧ g' = g := by
  have hcp : callPure o t "named-child-index" [.syn id] = liftP (namedChildIndex t [.syn id]) := by simp [callPure]
  have hne : ("named-child-index" = "node") = False := by decide
  simp only [call, hne, if_false, hcp] at h
  simp only [liftP, namedChildIndex, synArg, synArgId, param, asSyn, bind, Except.bind, pure, Except.pure] at h
  cases hn : t.node? id with
  | none => simp [hn, throw, throwThe, MonadExceptOf.throw] at h
  | some n =>
    simp only [hn, finish] at h
    cases hp : n.parent with
    | none => simp [hp, throw, throwThe, MonadExceptOf.throw] at h
    | some p =>
      simp only [hp] at h
      cases hpn : t.node? p with
      | none => simp [hpn, throw, throwThe, MonadExceptOf.throw] at h
      | some pn =>
        simp only [hpn] at h
        cases hi : (t.namedChildren pn).idxOf? id with
        | none => simp [hi, throw, throwThe, MonadExceptOf.throw] at h
        | some j =>
          simp [hi] at h
          obtain ⟨h1, h2⟩ := h
          subst h1
          exact ⟨n, p, pn, rfl, hp, hpn, idxOf?_some_getElem? _ _ _ hi, h2.symm⟩

/-- the root node and unnamed nodes are errors for `named-child-index` -/
theorem C13_named_child_index_root (o : Oracle) (t : Tree) (g : CGraph) (id : Nat) (n : TNode)
    (h : t.node? id = some n) (hroot : n.parent = none) :
    (match call o t "named-child-index" [.syn id] g with | .err .functionFailed => True | _ => False) := by
  simp [call, callPure, liftP, namedChildIndex, synArg, synArgId, param, asSyn, h, finish, hroot, bind, Except.bind,
    pure, Except.pure, throw, throwThe, MonadExceptOf.throw]

/-- registration table: exactly the 21 documented names -/
theorem C13_registration_table : Stdlib.names.length = 21 ∧ Stdlib.names.Nodup := by decide

/-- an unregistered name is `UndefinedFunction` -/
theorem C13_unknown_function (o : Oracle) (t : Tree) (g : CGraph) (name : String) (args : List Val)
    (h : name ∉ Stdlib.names) : (match call o t name args g with | .err .undefinedFunction => True | _ => False) := by
  simp only [Stdlib.names, List.mem_cons, List.not_mem_nil, or_false, not_or] at h
  have hnode : name ≠ "node" := h.2.2.2.2.2.2.2.2.2.2.1
  have hp : callPure o t name args = .err .undefinedFunction := by
    unfold callPure
    split <;> simp_all
  simp [call, hnode, hp]

/-- graph independence: every function except `node` leaves the graph untouched -/
theorem C13_only_node_touches_graph (o : Oracle) (t : Tree) (g g' : CGraph) (name : String) (args : List Val) (v : Val)
    (h : call o t name args g = .ok v g') : g' = g ∨ (name = "node" ∧ g' = (g.addGraphNode).1) := by
  unfold call at h
  by_cases hn : name = "node"
  · simp only [hn, if_true] at h
    cases hf : finish args with
    | error e => simp [hf] at h
    | ok u => simp [hf] at h; exact Or.inr ⟨hn, h.2.symm⟩
  · simp only [hn, if_false] at h
    cases hp : callPure o t name args <;> simp [hp] at h
    exact Or.inl h.2.symm

end C13
