/-
  C14 — JSON and pretty-printed output encode the graph faithfully and completely.
  Model: Tsg/Out/Json.lean, Tsg/Out/Pretty.lean.
-/
import Tsg.Out.Json
import Tsg.Out.Pretty
import Tsg.Proofs.Containers

namespace C14
open J

mutual
theorem toVal_ofVal : ∀ v : Val, toVal (ofVal v) = some v
  | .null => by simp [ofVal, toVal]
  | .bool b => by simp [ofVal, toVal]
  | .int n => by simp [ofVal, toVal]
  | .str s => by simp [ofVal, toVal]
  | .list vs => by simp [ofVal, toVal, toVals_ofVals vs]
  | .set vs => by simp [ofVal, toVal, toVals_ofVals vs]
  | .syn id => by simp [ofVal, toVal]
  | .gnode ix => by simp [ofVal, toVal]
theorem toVals_ofVals : ∀ vs : List Val, toVals (ofVals vs) = some vs
  | [] => by simp [ofVals, toVals]
  | v :: vs => by simp [ofVals, toVals, toVal_ofVal v, toVals_ofVals vs]
end

theorem toAttrs_ofAttrs (a : Attrs) : toAttrs (ofAttrs a) = some a := by
  simp only [ofAttrs, toAttrs]
  induction a with
  | nil => simp [toAttrsList]
  | cons p rest ih =>
    obtain ⟨k, v⟩ := p
    simp [toAttrsList, toVal_ofVal, ih]

theorem toEdges_ofEdges (es : List (Nat × Attrs)) : toEdges (es.map ofEdge) = some es := by
  induction es with
  | nil => simp [toEdges]
  | cons e rest ih =>
    obtain ⟨s, a⟩ := e
    simp [toEdges, toEdge, ofEdge, toAttrs_ofAttrs, ih]

theorem toNodes_ofNodes (i : Nat) (ns : List GNode) : toNodes i (ofNodes i ns) = some ns := by
  induction ns generalizing i with
  | nil => simp [ofNodes, toNodes]
  | cons n rest ih =>
    simp [ofNodes, toNodes, toNode, ofNode, toEdges_ofEdges, toAttrs_ofAttrs, ih]

/-- **Round trip.** Decoding the JSON serialisation reconstructs exactly the in-memory graph:
every node (id = index, in index order), every edge under its source in list order, every
attribute with its exact typed value — for every graph, nested lists and sets included. -/
theorem C14_json_roundtrip (g : CGraph) : toGraph (ofGraph g) = some g := by
  simp [toGraph, ofGraph, toNodes_ofNodes]

theorem length_ofNodes (i : Nat) (ns : List GNode) : (ofNodes i ns).length = ns.length := by
  induction ns generalizing i with
  | nil => rfl
  | cons n rest ih => simp [ofNodes, ih]

theorem getElem?_ofNodes (i k : Nat) (ns : List GNode) :
    (ofNodes i ns)[k]? = (ns[k]?).map (ofNode (i + k)) := by
  induction ns generalizing i k with
  | nil => simp [ofNodes]
  | cons n rest ih =>
    cases k with
    | zero => simp [ofNodes]
    | succ k =>
      simp only [ofNodes, List.getElem?_cons_succ, ih]
      congr 2; omega

/-- **Shape.** The serialisation lists each graph node exactly once, in index order, and the
k-th entry carries `"id": k`. -/
theorem C14_json_nodes_once_in_order (g : CGraph) :
    ∃ xs, ofGraph g = .arr xs ∧ xs.length = g.nodeCount ∧
      ∀ k n, g.nodes[k]? = some n → xs[k]? = some (ofNode k n) := by
  refine ⟨ofNodes 0 g.nodes, rfl, length_ofNodes 0 g.nodes, ?_⟩
  intro k n h
  simp [getElem?_ofNodes, h]

/-- each outgoing edge appears once under its source, ascending by sink (under the graph invariant
that every reachable graph satisfies, C17) -/
theorem C14_json_edges_ascending (g : CGraph) (h : CGraph.Inv g) (k : Nat) (n : GNode)
    (hk : g.nodes[k]? = some n) :
    ∃ es, ofNode k n = .obj [("id", .num k), ("edges", .arr es), ("attrs", ofAttrs n.attrs)] ∧
      es = n.edges.map ofEdge ∧ (n.edges.map (·.1)).Pairwise (· < ·) := by
  refine ⟨n.edges.map ofEdge, rfl, rfl, ?_⟩
  exact (GNode.sorted_iff_sinks n.edges).mp (CGraph.node_sorted g h k n hk)

/-- type tags of the value encoding -/
theorem C14_type_tags :
    ofVal .null = .obj [("type", .str "null")] ∧
    (∀ b, ofVal (.bool b) = .obj [("type", .str "bool"), ("bool", .bool b)]) ∧
    (∀ n, ofVal (.int n) = .obj [("type", .str "int"), ("int", .num n)]) ∧
    (∀ s, ofVal (.str s) = .obj [("type", .str "string"), ("string", .str s)]) ∧
    (∀ i, ofVal (.syn i) = .obj [("type", .str "syntaxNode"), ("id", .num i)]) ∧
    (∀ i, ofVal (.gnode i) = .obj [("type", .str "graphNode"), ("id", .num i)]) := by
  simp [ofVal]

/-! ### pretty printing -/

theorem sorted_perm (a : Attrs) : a.sorted.Perm a := List.mergeSort_perm a _

theorem sorted_pairwise (a : Attrs) : a.sorted.Pairwise (fun x y => x.1 ≤ y.1) := by
  have := List.pairwise_mergeSort (le := fun (x y : String × Val) => decide (x.1 ≤ y.1))
    (by intro a b c hab hbc; simp only [decide_eq_true_eq] at *; exact String.le_trans hab hbc)
    (by intro a b; simp only [Bool.or_eq_true, decide_eq_true_eq]; exact String.le_total a.1 b.1) a
  simpa [Attrs.sorted] using this

/-- the attribute lines of a node or edge are exactly its attributes (a permutation: none missing,
none invented), in ascending name order -/
theorem C14_pretty_attrs_complete_sorted (syn : Nat → String) (a : Attrs) :
    ∃ l : Attrs, Pretty.attrLines syn a = l.map (Pretty.attrLine syn) ∧ l.Perm a ∧
      l.Pairwise (fun x y => x.1 ≤ y.1) :=
  ⟨a.sorted, rfl, sorted_perm a, sorted_pairwise a⟩

/-- with unique names (a hash map has one entry per name) the order is strict -/
theorem C14_pretty_attrs_strictly_sorted (a : Attrs) (h : Attrs.UniqueKeys a) :
    a.sorted.Pairwise (fun x y => x.1 < y.1) := by
  have hp := sorted_pairwise a
  have hn : (a.sorted.map (·.1)).Nodup := by
    have : (a.sorted.map (·.1)).Perm (a.map (·.1)) := (sorted_perm a).map _
    exact this.nodup_iff.mpr h
  rw [List.Nodup, List.pairwise_map] at hn
  have := hp.and hn
  refine this.imp ?_
  intro x y ⟨hle, hne⟩
  exact Std.lt_of_le_of_ne hle hne

/-- the pretty form is, node by node in index order, the node header, its attribute lines, and per
edge (in edge-list order, i.e. ascending sink) the edge header and its attribute lines -/
theorem C14_pretty_structure (syn : Nat → String) (i : Nat) (n : GNode) (ns : List GNode) :
    Pretty.nodeBlocks syn i (n :: ns) =
      (("node " ++ toString i ++ "\n") :: Pretty.attrLines syn n.attrs
        ++ n.edges.flatMap (fun e => ("edge " ++ toString i ++ " -> " ++ toString e.1 ++ "\n") :: Pretty.attrLines syn e.2))
      ++ Pretty.nodeBlocks syn (i + 1) ns := by
  simp only [Pretty.nodeBlocks, Pretty.nodeBlock]
  congr 2

/-! non-vacuity: a concrete graph with nested values round-trips -/
def sampleGraph : CGraph :=
  { nodes := [{ edges := [(1, [("k", Val.list [Val.int 1, Val.set [Val.null, Val.str "x"]])])],
                attrs := [("a", Val.syn 3), ("b", Val.gnode 0)] }, { edges := [], attrs := [] }] }

example : toGraph (ofGraph sampleGraph) = some sampleGraph := C14_json_roundtrip _

end C14
