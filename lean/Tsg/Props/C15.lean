/-
  C15 — Debug attributes are correct and do not otherwise change the outcome.

  Proved here: what the debug configuration adds (the node attributes at creation, the edge attribute on
  a newly created edge only), and that removing the configured attribute names commutes with every
  graph operation that does not use them (the algebra behind neutrality). The whole-program neutrality
  statement `C15_full` is stated and left to the differential check (both configurations are run and the
  stripped graphs compared on every generated case).
-/
import Tsg.Proofs.Extends
import Tsg.Sem.Lazy

namespace C15

/-- the location rendering of debug attributes: 1-based line and column -/
theorem C15_location_text (l : Loc) :
    Strict.locString l = "line " ++ toString (l.row + 1) ++ " column " ++ toString (l.col + 1) := rfl

/-- the variable text of an unscoped / scoped variable -/
theorem C15_variable_text (x : String) (l : Loc) (scope : Expr) :
    (Var.unscoped x l).display = x ∧ (Var.scopedV scope x l).display = scope.display ++ "." ++ x := ⟨rfl, rfl⟩

/-- remove the configured debug attribute names from an attribute set -/
def stripAttrs (names : List String) (a : Attrs) : Attrs := a.filter fun kv => !names.contains kv.1

def stripNode (names : List String) (n : GNode) : GNode :=
  { edges := n.edges.map fun e => (e.1, stripAttrs names e.2), attrs := stripAttrs names n.attrs }

def strip (names : List String) (g : CGraph) : CGraph := { nodes := g.nodes.map (stripNode names) }

theorem stripAttrs_cons (names : List String) (k : String) (v : Val) (rest : Attrs) :
    stripAttrs names ((k, v) :: rest) =
      if names.contains k = true then stripAttrs names rest else (k, v) :: stripAttrs names rest := by
  unfold stripAttrs
  rw [List.filter_cons]
  cases names.contains k <;> simp

theorem lookup_stripAttrs (names : List String) (a : Attrs) (k : String) (hk : names.contains k = false) :
    (stripAttrs names a).lookup k = a.lookup k := by
  induction a with
  | nil => rfl
  | cons p rest ih =>
    obtain ⟨k', v'⟩ := p
    rw [stripAttrs_cons]
    by_cases hkk : k' = k
    · subst hkk
      simp only [hk, Bool.false_eq_true, if_false, List.lookup, beq_self_eq_true]
    · have hb : (k == k') = false := by simp [Ne.symm hkk]
      cases hn : names.contains k' with
      | true => simp only [if_true, List.lookup, hb]; exact ih
      | false => simp only [Bool.false_eq_true, if_false, List.lookup, hb]; exact ih

theorem stripAttrs_append (names : List String) (a b : Attrs) :
    stripAttrs names (a ++ b) = stripAttrs names a ++ stripAttrs names b := by
  simp [stripAttrs]

theorem stripAttrs_replace_debug (names : List String) (a : Attrs) (k : String) (v : Val) (hk : names.contains k = true) :
    stripAttrs names (Attrs.replace a k v) = stripAttrs names a := by
  induction a with
  | nil => rfl
  | cons p rest ih =>
    obtain ⟨k', v'⟩ := p
    by_cases hkk : k' = k
    · subst hkk; simp only [Attrs.replace, if_true, stripAttrs_cons, hk]
    · simp only [Attrs.replace, hkk, if_false, stripAttrs_cons, ih]

/-- adding a debug attribute is invisible after stripping -/
theorem C15_debug_attr_invisible (names : List String) (a : Attrs) (k : String) (v : Val) (hk : names.contains k = true) :
    stripAttrs names (Attrs.add a k v).1 = stripAttrs names a := by
  unfold Attrs.add
  cases hl : a.lookup k with
  | none =>
    simp only [stripAttrs_append]
    have : stripAttrs names [(k, v)] = [] := by rw [stripAttrs_cons, if_pos hk]; rfl
    rw [this]; simp
  | some old =>
    by_cases ho : old = v
    · simp [ho]
    · simp only [ho, if_false]; exact stripAttrs_replace_debug names a k v hk

theorem stripAttrs_replace_other (names : List String) (a : Attrs) (k : String) (v : Val) (hk : names.contains k = false) :
    stripAttrs names (Attrs.replace a k v) = Attrs.replace (stripAttrs names a) k v := by
  induction a with
  | nil => rfl
  | cons p rest ih =>
    obtain ⟨k', v'⟩ := p
    by_cases hkk : k' = k
    · subst hkk
      simp only [Attrs.replace, if_true, stripAttrs_cons, hk, Bool.false_eq_true, if_false]
    · simp only [Attrs.replace, hkk, if_false, stripAttrs_cons, ih]
      cases hn : names.contains k' with
      | true => simp
      | false => simp [Attrs.replace, hkk]

/-- adding any other attribute commutes with stripping, with the same conflict verdict: the
presence of debug attributes does not change whether an ordinary assignment conflicts -/
theorem C15_other_attr_commutes (names : List String) (a : Attrs) (k : String) (v : Val) (hk : names.contains k = false) :
    stripAttrs names (Attrs.add a k v).1 = (Attrs.add (stripAttrs names a) k v).1 ∧
    (Attrs.add a k v).2 = (Attrs.add (stripAttrs names a) k v).2 := by
  unfold Attrs.add
  rw [lookup_stripAttrs names a k hk]
  cases hl : a.lookup k with
  | none =>
    simp only [stripAttrs_append, and_true]
    have : stripAttrs names [(k, v)] = [(k, v)] := by
      rw [stripAttrs_cons, if_neg (by rw [hk]; simp)]; rfl
    rw [this]
  | some old =>
    by_cases ho : old = v
    · simp [ho]
    · simp only [ho, if_false, and_true]; exact stripAttrs_replace_other names a k v hk

/-- a newly created edge carries exactly the location attribute of the `edge` statement (when
configured), an existing edge is left as it is — so a second `edge` statement can never conflict -/
theorem C15_edge_attr (g : CGraph) (src sink : Nat) (la : String) (loc : Loc) (nd : GNode)
    (hinv : CGraph.Inv g) (hn : g.node? src = some nd) :
    (nd.getEdge sink = none →
      ∃ g', (GraphOp.addEdge src sink [(la, .str (Strict.locString loc))]).apply g = (.ok (some true), g') ∧
        g'.getEdge src sink = some [(la, .str (Strict.locString loc))]) ∧
    (∀ ea, nd.getEdge sink = some ea →
      (GraphOp.addEdge src sink [(la, .str (Strict.locString loc))]).apply g = (.ok (some false), g)) := by
  constructor
  · intro he
    -- C09_new_edge, restated
    have hsorted := CGraph.node_sorted g hinv src nd hn
    have hnew : (GNode.insertEdge nd.edges sink).2 = true :=
      (GNode.insertEdge_new_iff nd.edges sink hsorted).mpr (by simpa [GNode.getEdge] using he)
    refine ⟨g.setNode src { edges := GNode.setEdgeAttrs (GNode.insertEdge nd.edges sink).1 sink [(la, .str (Strict.locString loc))], attrs := nd.attrs }, by simp [GraphOp.apply, hn, GNode.addEdge, hnew], ?_⟩
    simp only [CGraph.getEdge, CGraph.node?, CGraph.getElem?_setNode, if_true]
    simp only [CGraph.node?] at hn
    simp only [hn, Option.map_some, GNode.getEdge]
    apply GNode.lookup_setEdgeAttrs_same
    rw [GNode.lookup_insertEdge_same _ _ hsorted]; simp
  · intro ea he
    have hsorted := CGraph.node_sorted g hinv src nd hn
    have hnot : (GNode.insertEdge nd.edges sink).2 = false := by
      cases hb : (GNode.insertEdge nd.edges sink).2 with
      | false => rfl
      | true =>
        have := (GNode.insertEdge_new_iff nd.edges sink hsorted).mp hb
        simp [GNode.getEdge] at he; rw [this] at he; cases he
    simp [GraphOp.apply, hn, GNode.addEdge, hnot]

/-- the full neutrality statement (strict): with debug attribute names that the file does not use,
stripping them from the debug run's result gives the plain run's result, success included -/
def C15_full : Prop :=
  ∀ (file : File) (tree : Tree) (oracle : Oracle) (globals : GlobalsM) (la va ma : String)
    (fuel : Nat) (ms : List (List QMatch)),
    let plain := Strict.run file tree oracle globals none none none none fuel ms {}
    let dbg := Strict.run file tree oracle globals (some la) (some va) (some ma) none fuel ms {}
    (plain.outcome = none ↔ dbg.outcome = none) ∧
    (plain.outcome = none → strip [la, va, ma] dbg.graph = strip [la, va, ma] plain.graph)

end C15
