/-
  C15 — Debug attributes are correct and do not otherwise change the outcome.

  Proved here: what the debug configuration adds (the node attributes at creation, the edge attribute on
  a newly created edge only), and that removing the configured attribute names commutes with every
  graph operation that does not use them (the algebra behind neutrality). The whole-program neutrality of
  strict execution is `C15_strict_neutral`; the lazy interpreter's is left to the differential check (both
  configurations are run and the stripped graphs compared on every generated case).
-/
import Tsg.Proofs.Extends
import Tsg.Sem.Lazy
import Tsg.Proofs.DebugNeutral
import Tsg.Proofs.LazyDebugNeutral

namespace C15

/-- the location rendering of debug attributes: 1-based line and column -/
theorem C15_location_text (l : Loc) :
    Strict.locString l = "line " ++ toString (l.row + 1) ++ " column " ++ toString (l.col + 1) := rfl

/-- the variable text of an unscoped / scoped variable -/
theorem C15_variable_text (x : String) (l : Loc) (scope : Expr) :
    (Var.unscoped x l).display = x ∧ (Var.scopedV scope x l).display = scope.display ++ "." ++ x := ⟨rfl, rfl⟩

/-- adding a debug attribute is invisible after stripping -/
theorem C15_debug_attr_invisible (names : List String) (a : Attrs) (k : String) (v : Val) (hk : names.contains k = true) :
    stripAttrs names (Attrs.add a k v).1 = stripAttrs names a :=
  stripAttrs_add_debug names a k v hk

/-- adding any other attribute commutes with stripping, with the same conflict verdict: the
presence of debug attributes does not change whether an ordinary assignment conflicts -/
theorem C15_other_attr_commutes (names : List String) (a : Attrs) (k : String) (v : Val) (hk : names.contains k = false) :
    stripAttrs names (Attrs.add a k v).1 = (Attrs.add (stripAttrs names a) k v).1 ∧
    (Attrs.add a k v).2 = (Attrs.add (stripAttrs names a) k v).2 :=
  stripAttrs_add_other names a k v hk

/-- a newly created edge carries exactly the location attribute of the `edge` statement (when
configured), an existing edge is left as it is — so a second `edge` statement can never conflict -/
theorem C15_edge_attr (g : CGraph) (src sink : Nat) (la : String) (loc : Loc) (nd : GNode)
    (hinv : CGraph.Inv g) (hn : g.node? src = some nd) :
    (nd.getEdge sink = none →
      ∃ g', (GraphOp.addEdge src sink [(la, .str (Strict.locString loc))]).apply g = (.ok (some true), g') ∧
        g'.getEdge src sink = some [(la, .str (Strict.locString loc))]) ∧
    (∀ ea, nd.getEdge sink = some ea →
      (GraphOp.addEdge src sink [(la, .str (Strict.locString loc))]).apply g = (.ok (some false), g)) := by
  constructor
  · intro he
    -- C09_new_edge, restated
    have hsorted := CGraph.node_sorted g hinv src nd hn
    have hnew : (GNode.insertEdge nd.edges sink).2 = true :=
      (GNode.insertEdge_new_iff nd.edges sink hsorted).mpr (by simpa [GNode.getEdge] using he)
    refine ⟨g.setNode src { edges := GNode.setEdgeAttrs (GNode.insertEdge nd.edges sink).1 sink [(la, .str (Strict.locString loc))], attrs := nd.attrs }, by simp [GraphOp.apply, hn, GNode.addEdge, hnew], ?_⟩
    simp only [CGraph.getEdge, CGraph.node?, CGraph.getElem?_setNode, if_true]
    simp only [CGraph.node?] at hn
    simp only [hn, Option.map_some, GNode.getEdge]
    apply GNode.lookup_setEdgeAttrs_same
    rw [GNode.lookup_insertEdge_same _ _ hsorted]; simp
  · intro ea he
    have hsorted := CGraph.node_sorted g hinv src nd hn
    have hnot : (GNode.insertEdge nd.edges sink).2 = false := by
      cases hb : (GNode.insertEdge nd.edges sink).2 with
      | false => rfl
      | true =>
        have := (GNode.insertEdge_new_iff nd.edges sink hsorted).mp hb
        simp [GNode.getEdge] at he; rw [this] at he; cases he
    simp [GraphOp.apply, hn, GNode.addEdge, hnot]

/-- **Debug attributes are neutral (strict mode), for whole programs.** If the three debug attribute names are
pairwise different and the file does not use them as attribute names (in its stanzas or in its attribute
shorthands), then the run with debug attributes and the run without them — from the same graph, with the same
globals, matches, oracle answers and cancellation flag — end the same way (success, or the same error with the same
contexts), after the same number of polls, with graphs that are equal once the debug attributes are removed.
(Proof: Tsg/Proofs/DebugSim.lean — a simulation relation on programs with one congruence lemma per program former
and per graph primitive; Tsg/Proofs/DebugNeutral.lean — every function of the strict interpreter under the debug
configuration simulates itself under the plain one.) -/
theorem C15_strict_neutral (file : File) (tree : Tree) (oracle : Oracle) (globals : GlobalsM) (la va ma : String)
    (cancelAt : Option Nat) (fuel : Nat) (ms : List (List QMatch)) (g0 : CGraph)
    (hd1 : la ≠ va) (hd2 : la ≠ ma) (hd3 : va ≠ ma)
    (hstanzas : ∀ st ∈ file.stanzas, DebugSim.AttrsClean [la, va, ma] (DebugSim.stmtsAttrs st.stmts))
    (hsh : ∀ sh ∈ file.shorthands, DebugSim.AttrsClean [la, va, ma] sh.attrs) :
    let plain := Strict.run file tree oracle globals none none none cancelAt fuel ms g0
    let dbg := Strict.run file tree oracle globals (some la) (some va) (some ma) cancelAt fuel ms g0
    dbg.outcome = plain.outcome ∧ strip [la, va, ma] dbg.graph = strip [la, va, ma] plain.graph ∧ dbg.polls = plain.polls :=
  DebugSim.strict_debug_neutral file tree oracle globals la va ma cancelAt fuel ms g0 hd1 hd2 hd3 hstanzas hsh

/-- the hypothesis on the names is needed: a file that itself assigns an attribute with the name of a debug attribute
conflicts with it (non-vacuity of the side condition, and of the theorem: the empty file satisfies all hypotheses) -/
example : DebugSim.AttrsClean ["dl", "dv", "dm"] (DebugSim.stmtsAttrs [Stmt.attrNode (.var "n" ⟨0, 0⟩) [("kind", .trueLit)] ⟨0, 0⟩]) := by
  intro a ha
  simp [DebugSim.stmtsAttrs, DebugSim.stmtAttrs] at ha
  subst ha
  decide

/-- **Debug attributes are neutral (lazy mode), for whole programs**: the same statement for `Lazy.run`, both phases.
The private states of the two runs are not equal here — an `edge` statement queued by the run with debug attributes
carries the location attribute — so the simulation relation compares them after removing the debug attributes of
queued `edge` statements, and carries the invariant that the attribute names of queued `attr` statements are not debug
names (Tsg/Proofs/LazyDebugNeutral.lean; the framework of Tsg/Proofs/DebugSim.lean is generic in that relation). -/
theorem C15_lazy_neutral (file : File) (tree : Tree) (oracle : Oracle) (globals : GlobalsM) (la va ma : String)
    (cancelAt : Option Nat) (fuel ef : Nat) (merged : List QMatch) (g0 : CGraph)
    (hd1 : la ≠ va) (hd2 : la ≠ ma) (hd3 : va ≠ ma)
    (hstanzas : ∀ st ∈ file.stanzas, DebugSim.AttrsClean [la, va, ma] (DebugSim.stmtsAttrs st.stmts))
    (hsh : ∀ sh ∈ file.shorthands, DebugSim.AttrsClean [la, va, ma] sh.attrs) :
    let plain := Lazy.run file tree oracle globals none none none cancelAt fuel ef merged g0
    let dbg := Lazy.run file tree oracle globals (some la) (some va) (some ma) cancelAt fuel ef merged g0
    dbg.outcome = plain.outcome ∧ strip [la, va, ma] dbg.graph = strip [la, va, ma] plain.graph ∧ dbg.polls = plain.polls :=
  DebugSim.lazy_debug_neutral file tree oracle globals la va ma cancelAt fuel ef merged g0 hd1 hd2 hd3 hstanzas hsh

end C15
