/-
  C16 — Globals are required unless defaulted, list-typed when declared, read-only.
  Model: `checkGlobals` (execution.rs:67-101), `Strict.unscopedGet/Add/Set`, `Lazy.unscopedGetL/...`.
-/
import Tsg.Proofs.Prog
import Tsg.Sem.Lazy

namespace C16

def isListQuant (q : Quant) : Bool := q == .zeroOrMore || q == .oneOrMore

/-- what is wrong with one declaration, given what is visible for its name -/
def fault (d : Global) (supplied : Option Val) : Option EK :=
  match supplied with
  | none => if d.default.isNone then some .missingGlobalVariable else none
  | some v =>
    if isListQuant d.quant then
      match v with
      | .list _ => none
      | _ => some .expectedList
    else none

theorem checkGlobals_cons (d : Global) (rest : List Global) (g : GlobalsM) :
    checkGlobals (d :: rest) g =
      match g.get d.name with
      | none =>
        match d.default with
        | some dv =>
          match g.add d.name (.str dv) with
          | .ok g' => checkGlobals rest g'
          | .error _ => .error .duplicateVariable
        | none => .error .missingGlobalVariable
      | some v =>
        if d.quant = .zeroOrMore ∨ d.quant = .oneOrMore then
          match v with
          | .list _ => checkGlobals rest g
          | _ => .error .expectedList
        else checkGlobals rest g := rfl

/-- **The first declaration decides.** If the first declaration is faulty — not supplied and without
default, or declared `*`/`+` and supplied with a non-list — the pre-check fails with exactly that error. -/
theorem C16_first_fault_is_reported (d : Global) (rest : List Global) (g : GlobalsM) (k : EK)
    (h : fault d (g.get d.name) = some k) : checkGlobals (d :: rest) g = .error k := by
  rw [checkGlobals_cons]
  unfold fault at h
  cases hg : g.get d.name with
  | none =>
    simp only [hg] at h
    cases hd : d.default with
    | none => simp [hd] at h; simp [h]
    | some dv => simp [hd] at h
  | some v =>
    simp only [hg] at h
    by_cases hq : isListQuant d.quant = true
    · have hq' : d.quant = .zeroOrMore ∨ d.quant = .oneOrMore := by
        simpa [isListQuant] using hq
      simp only [hq, if_true] at h
      cases v <;> simp_all
    · simp [hq] at h

/-- a supplied value is never replaced by the default, and a supplied non-faulty declaration changes nothing -/
theorem C16_supplied_wins (d : Global) (rest : List Global) (g : GlobalsM) (v : Val)
    (hs : g.get d.name = some v) (hok : fault d (some v) = none) :
    checkGlobals (d :: rest) g = checkGlobals rest g := by
  rw [checkGlobals_cons, hs]
  unfold fault at hok
  by_cases hq : isListQuant d.quant = true
  · have hq' : d.quant = .zeroOrMore ∨ d.quant = .oneOrMore := by simpa [isListQuant] using hq
    simp only [hq, if_true] at hok
    cases v <;> simp_all
  · have hq' : ¬ (d.quant = .zeroOrMore ∨ d.quant = .oneOrMore) := by simpa [isListQuant] using hq
    simp [hq']

/-- the default is used exactly when nothing is supplied: it is added to the (nested) set as a string -/
theorem C16_default_when_unsupplied (d : Global) (rest : List Global) (l : List (String × Val)) (outer : GlobalsM)
    (dv : String) (hs : GlobalsM.get (l :: outer) d.name = none) (hd : d.default = some dv) :
    checkGlobals (d :: rest) (l :: outer) = checkGlobals rest ((l ++ [(d.name, .str dv)]) :: outer) := by
  rw [checkGlobals_cons, hs, hd]
  have hl : l.lookup d.name = none := by
    simp only [GlobalsM.get] at hs
    cases h : l.lookup d.name with
    | none => rfl
    | some x => simp [h] at hs
  simp [GlobalsM.add, hl]

/-- **The caller's variable set is unchanged**: the pre-check works on a nested copy and only ever
adds to that copy's own layer — the caller's layers are returned as they were -/
theorem C16_caller_unchanged (decls : List Global) (l : List (String × Val)) (caller g' : GlobalsM)
    (h : checkGlobals decls (l :: caller) = .ok g') : g'.tail = caller := by
  induction decls generalizing l with
  | nil => simp [checkGlobals] at h; subst h; rfl
  | cons d rest ih =>
    rw [checkGlobals_cons] at h
    cases hg : GlobalsM.get (l :: caller) d.name with
    | none =>
      simp only [hg] at h
      cases hd : d.default with
      | none => simp [hd] at h
      | some dv =>
        simp only [hd] at h
        cases ha : GlobalsM.add (l :: caller) d.name (.str dv) with
        | error e => simp [ha] at h
        | ok g2 =>
          simp only [ha] at h
          simp only [GlobalsM.add] at ha
          cases hl : l.lookup d.name with
          | none => simp [hl] at ha; subst ha; exact ih _ h
          | some x => simp [hl] at ha
    | some v =>
      simp only [hg] at h
      split at h
      · cases v <;> first | exact ih _ h | simp at h
      · exact ih _ h

/-- within the DSL a global evaluates to its effective value in every stanza, block, scan arm, loop and
shorthand body: the lookup consults the globals before any local and ignores the interpreter state -/
theorem C16_same_value_everywhere (cfg : Cfg) (name : String) (v : Val) (h : cfg.globals.get name = some v)
    (s : Prog.MSt SRest) (l : Prog.MSt LSt) :
    Prog.run (Strict.unscopedGet cfg name) s = .ok v s ∧
    Prog.run (Lazy.unscopedGetL cfg name) l = .ok (.value v) l := by
  simp [Strict.unscopedGet, Lazy.unscopedGetL, Prog.primP, Prog.run, h]

/-- at run time a global can be neither hidden (`let`/`var`/`node`/`for`) nor assigned (`set`) -/
theorem C16_runtime_readonly (cfg : Cfg) (name : String) (v g : Val) (m : Bool) (h : cfg.globals.get name = some g)
    (s : Prog.MSt SRest) :
    Prog.run (Strict.unscopedAdd cfg name v m) s = .fail (.err (.base .duplicateVariable "")) s ∧
    Prog.run (Strict.unscopedSet cfg name v) s = .fail (.err (.base .cannotAssignImmutableVariable "")) s := by
  simp [Strict.unscopedAdd, Strict.unscopedSet, Prog.primP, Prog.run, h]

/-- the pre-check happens before anything else: a faulty first declaration fails the run with no poll
and an untouched graph (strict and lazy) -/
theorem C16_precheck_first (file : File) (tree : Tree) (oracle : Oracle) (globals : GlobalsM) (d : Global)
    (rest : List Global) (k : EK) (la va ma : Option String) (c : Option Nat) (fuel ef : Nat)
    (ms : List (List QMatch)) (merged : List QMatch) (g0 : CGraph)
    (hfile : file.globals = d :: rest) (hf : fault d (globals.nested.get d.name) = some k) :
    (Strict.run file tree oracle globals la va ma c fuel ms g0).outcome = some (.err (.base k "")) ∧
    (Strict.run file tree oracle globals la va ma c fuel ms g0).graph = g0 ∧
    (Lazy.run file tree oracle globals la va ma c fuel ef merged g0).outcome = some (.err (.base k "")) ∧
    (Lazy.run file tree oracle globals la va ma c fuel ef merged g0).polls = 0 := by
  have := C16_first_fault_is_reported d rest globals.nested k hf
  simp [Strict.run, Lazy.run, hfile, this]

/-- non-vacuity -/
example : fault { name := "g", quant := .zeroOrMore, default := none, loc := ⟨0, 0⟩ } (some (.str "x")) = some .expectedList := by
  decide

end C16
