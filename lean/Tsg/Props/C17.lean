/-
  C17 — Graph, attribute and variable containers behave like their map/set models.

  Property theorems only. Model: Tsg/Base/Graph.lean, Tsg/Base/Vars.lean; abstract specification:
  Tsg/Spec/Containers.lean; helper lemmas: Tsg/Proofs/Graph.lean, Tsg/Proofs/Containers.lean.
-/
import Tsg.Proofs.Containers

namespace C17
open CGraph

/-- every reachable graph satisfies the representation invariant (edge lists strictly ascending) -/
theorem C17_inv_all_sequences (ops : List GOp) (g : CGraph) (h : Inv g) :
    Inv (g.runOps ops).1 := by
  induction ops generalizing g with
  | nil => simpa [runOps] using h
  | cons op ops ih =>
    simp only [runOps]
    exact ih _ (inv_applyOp g op h)

/-- **Refinement.** For every operation sequence, the concrete containers return the same
observations as the plain map/set model and end in a state whose abstraction is the model's state. -/
theorem C17_refines_map_model (ops : List GOp) (g : CGraph) (h : Inv g) :
    abs (g.runOps ops).1 = ((abs g).runOps ops).1 ∧ (g.runOps ops).2 = ((abs g).runOps ops).2 := by
  induction ops generalizing g with
  | nil => simp [runOps, AGraph.runOps]
  | cons op ops ih =>
    obtain ⟨h1, h2⟩ := abs_applyOp g op h
    obtain ⟨ih1, ih2⟩ := ih _ (inv_applyOp g op h)
    simp only [runOps, AGraph.runOps]
    rw [← h1, ← h2]
    exact ⟨ih1, by rw [ih2]⟩

/-- from the empty graph: every history of public mutating operations -/
theorem C17_refines_from_empty (ops : List GOp) :
    abs (CGraph.empty.runOps ops).1 = (AGraph.empty.runOps ops).1 ∧
    (CGraph.empty.runOps ops).2 = (AGraph.empty.runOps ops).2 := by
  have := C17_refines_map_model ops CGraph.empty inv_empty
  have he : abs CGraph.empty = AGraph.empty := by
    apply AGraph_ext <;> simp [abs, CGraph.empty, AGraph.empty]
  rw [he] at this
  exact this

/-- node references are dense indices in creation order: the k-th `add_graph_node` returns k -/
theorem C17_nodes_dense (g : CGraph) :
    (g.addGraphNode).2 = g.nodeCount ∧ (g.addGraphNode).1.nodeCount = g.nodeCount + 1 := by
  simp [addGraphNode, nodeCount]

/-- `iter_nodes` = `0 .. node_count`: only `add_graph_node` changes the node count -/
theorem C17_node_count_only_addNode (g : CGraph) (op : GOp) :
    (g.applyOp op).1.nodeCount = g.nodeCount + (match op with | .addNode => 1 | _ => 0) := by
  cases op with
  | addNode => simp [applyOp, addGraphNode, nodeCount]
  | addEdge s t =>
    simp only [applyOp, addEdge, node?]
    cases g.nodes[s]? <;> simp [nodeCount, setNode]
  | nodeAttr n k v =>
    simp only [applyOp, addNodeAttr, node?]
    cases g.nodes[n]? <;> simp [nodeCount, setNode]
  | edgeAttr s t k v =>
    simp only [applyOp, addEdgeAttr, node?]
    cases g.nodes[s]? with
    | none => simp [nodeCount]
    | some nd =>
      simp only
      cases nd.getEdge t <;> simp [nodeCount, setNode]

/-- edge iteration is strictly ascending by sink in every reachable graph -/
theorem C17_iter_edges_ascending (ops : List GOp) (i : Nat) (nd : GNode)
    (h : (CGraph.empty.runOps ops).1.nodes[i]? = some nd) :
    (nd.edges.map (·.1)).Pairwise (· < ·) := by
  have hinv := C17_inv_all_sequences ops CGraph.empty inv_empty
  exact (GNode.sorted_iff_sinks nd.edges).mp (node_sorted _ hinv i nd h)

/-- `add_edge` reports "new" iff the edge was absent, and `edge_count` grows exactly then -/
theorem C17_add_edge_new_iff_absent (nd : GNode) (sink : Nat) (h : GNode.Sorted nd.edges) :
    ((nd.addEdge sink).2 = true ↔ nd.getEdge sink = none) ∧
    (nd.addEdge sink).1.edgeCount = nd.edgeCount + (if (nd.addEdge sink).2 then 1 else 0) := by
  refine ⟨GNode.insertEdge_new_iff nd.edges sink h, ?_⟩
  simp only [GNode.addEdge, GNode.edgeCount]
  exact GNode.length_insertEdge nd.edges sink

/-- `Attributes::add`: afterwards the attribute holds the new value; other keys are untouched;
a conflict is reported exactly when a different value was present -/
theorem C17_attrs_refine_map (a : Attrs) (k : String) (v : Val) :
    (Attrs.add a k v).1.get k = some v ∧
    (∀ k2, k2 ≠ k → (Attrs.add a k v).1.get k2 = a.get k2) ∧
    ((Attrs.add a k v).2 = true ↔ ∃ old, a.get k = some old ∧ old ≠ v) :=
  ⟨Attrs.get_add_same a k v, fun k2 h => Attrs.get_add_other a k k2 v h, Attrs.add_conflict_iff a k v⟩

/-- attribute names stay unique (a `HashMap` has one entry per key) -/
theorem C17_attrs_unique_keys (a : Attrs) (k : String) (v : Val) (h : Attrs.UniqueKeys a) :
    Attrs.UniqueKeys (Attrs.add a k v).1 := Attrs.uniqueKeys_add a k v h

/-! ### nested variable sets -/

/-- a nested set sees every outer binding it does not itself define -/
theorem C17_vars_nested_sees_outer (g : GlobalsM) (k : String) :
    g.nested.get k = g.get k := by
  simp [GlobalsM.nested, GlobalsM.get, List.lookup]

/-- no operation on the nested set changes the outer sets -/
theorem C17_vars_nested_never_changes_outer (l : List (String × Val)) (outer : GlobalsM) (k : String) (v : Val) :
    (∀ g', GlobalsM.add (l :: outer) k v = .ok g' → g'.tail = outer) ∧
    (GlobalsM.remove (l :: outer) k).tail = outer ∧
    (GlobalsM.clear (l :: outer)).tail = outer := by
  refine ⟨?_, rfl, rfl⟩
  intro g' h
  simp only [GlobalsM.add] at h
  cases hl : l.lookup k with
  | none => simp [hl] at h; subst h; rfl
  | some x => simp [hl] at h

/-- `add` succeeds exactly when the own layer lacks the name (outer bindings may be shadowed),
and then `get` returns the new value -/
theorem C17_vars_add (l : List (String × Val)) (outer : GlobalsM) (k : String) (v : Val) :
    (l.lookup k = none → ∃ g', GlobalsM.add (l :: outer) k v = .ok g' ∧ g'.get k = some v) ∧
    (l.lookup k ≠ none → GlobalsM.add (l :: outer) k v = .error .alreadyDefined) := by
  constructor
  · intro h
    refine ⟨(l ++ [(k, v)]) :: outer, by simp [GlobalsM.add, h], ?_⟩
    have : (l ++ [(k, v)]).lookup k = some v := by
      have := Attrs.lookup_append_single l k k v
      rw [this, h]; simp
    simp [GlobalsM.get, this]
  · intro h
    cases hl : l.lookup k with
    | none => exact absurd hl h
    | some x => simp [GlobalsM.add, hl]

/-! ### the hypotheses are satisfiable / the statements are not vacuous -/

example : Inv CGraph.empty := inv_empty

example : (CGraph.empty.runOps [.addNode, .addNode, .addEdge 0 1, .addEdge 0 1, .addEdge 0 0,
    .edgeAttr 0 1 "k" (.int 1), .edgeAttr 0 1 "k" (.int 2), .nodeAttr 1 "a" .null]).2 =
    [.node 0, .node 1, .edgeNew true, .edgeNew false, .edgeNew true, .attr false, .attr true, .attr false] := by
  decide

end C17
