/-
  C18 — Syntax-error discovery returns exactly the outermost error and missing nodes.
  Model: the cursor machine `ParseErrors.walkAll / walkFirst` (find_errors) and the specification
  `ParseErrors.outermost` (Tsg/Out/ParseErrors.lean).
-/
import Tsg.Out.ParseErrors

namespace C18
open ParseErrors

mutual
/-- iterations the loop spends on a subtree before it moves on from it -/
def steps : RTree → Nat
  | .node i cs =>
    match flag i with
    | some _ => 1
    | none =>
      match cs with
      | [] => 2
      | c :: rest => 1 + (steps c + stepsL rest)
/-- iterations for the remaining siblings, including the final `goto_parent` iteration -/
def stepsL : List RTree → Nat
  | [] => 1
  | t :: ts => steps t + stepsL ts
end

theorem steps_flagged (i : PInfo) (cs : List RTree) (e : PErr) (h : flag i = some e) : steps (.node i cs) = 1 := by
  unfold steps; simp [h]
theorem steps_leaf (i : PInfo) (h : flag i = none) : steps (.node i []) = 2 := by
  unfold steps; simp [h]
theorem steps_node (i : PInfo) (c : RTree) (rest : List RTree) (h : flag i = none) :
    steps (.node i (c :: rest)) = 1 + (steps c + stepsL rest) := by
  conv => lhs; unfold steps
  simp [h]
theorem stepsL_cons (t : RTree) (ts : List RTree) : stepsL (t :: ts) = steps t + stepsL ts := by rw [stepsL]
theorem stepsL_nil : stepsL [] = 1 := by rw [stepsL]
theorem outermost_flagged (i : PInfo) (cs : List RTree) (e : PErr) (h : flag i = some e) : outermost (.node i cs) = [e] := by
  unfold outermost; simp [h]
theorem outermost_unflagged (i : PInfo) (cs : List RTree) (h : flag i = none) : outermost (.node i cs) = outermostList cs := by
  unfold outermost; simp [h]
theorem outermostList_cons (t : RTree) (ts : List RTree) : outermostList (t :: ts) = outermost t ++ outermostList ts := by
  rw [outermostList]
theorem outermostList_nil : outermostList [] = [] := by rw [outermostList]

theorem walkAll_succ (fuel : Nat) (c : Cursor) (did : Bool) (acc : List PErr) :
    walkAll (fuel + 1) c did acc =
      match flag c.focus.info with
      | some e => moveOn fuel c (acc ++ [e])
      | none =>
        if did then moveOn fuel c acc
        else
          match c.focus.children with
          | k :: ks => walkAll fuel { focus := k, stack := (ks, c.focus) :: c.stack } false acc
          | [] => walkAll fuel c true acc := by
  rw [walkAll]
  cases flag c.focus.info with
  | some e => rfl
  | none =>
    cases did with
    | true => rfl
    | false => cases c.focus.children <;> rfl

theorem moveOn_parent (f : Nat) (c p : RTree) (st : List (List RTree × RTree)) (acc : List PErr) :
    moveOn f { focus := c, stack := ([], p) :: st } acc = walkAll f { focus := p, stack := st } true acc := by
  simp only [moveOn]

theorem moveOn_sibling (f : Nat) (c r p : RTree) (rs : List RTree) (st : List (List RTree × RTree)) (acc : List PErr) :
    moveOn f { focus := c, stack := (r :: rs, p) :: st } acc = walkAll f { focus := r, stack := (rs, p) :: st } false acc := by
  simp only [moveOn]

theorem moveOn_root (f : Nat) (c : RTree) (acc : List PErr) : moveOn f { focus := c, stack := [] } acc = acc := by
  simp only [moveOn]

mutual
/-- the loop, started on a subtree it has not visited, reports exactly `outermost` of that subtree and then
moves on (next sibling / parent / stop) -/
theorem walk_subtree : ∀ (t : RTree) (f : Nat) (st : List (List RTree × RTree)) (acc : List PErr),
    walkAll (steps t + f) { focus := t, stack := st } false acc = moveOn f { focus := t, stack := st } (acc ++ outermost t)
  | .node i cs, f, st, acc => by
    cases hfl : flag i with
    | some e =>
      rw [steps_flagged i cs e hfl, Nat.add_comm, walkAll_succ, outermost_flagged i cs e hfl]
      simp [RTree.info, hfl]
    | none =>
      cases cs with
      | nil =>
        rw [steps_leaf i hfl, show 2 + f = (f + 1) + 1 by omega, walkAll_succ, outermost_unflagged i [] hfl, outermostList_nil]
        simp only [RTree.info, hfl, RTree.children, Bool.false_eq_true, if_false]
        rw [walkAll_succ]
        simp [RTree.info, hfl]
      | cons c rest =>
        rw [steps_node i c rest hfl, show 1 + (steps c + stepsL rest) + f = (stepsL (c :: rest) + f) + 1 by rw [stepsL_cons]; omega, walkAll_succ]
        simp only [RTree.info, hfl, RTree.children, Bool.false_eq_true, if_false]
        rw [walk_forest c rest f (.node i (c :: rest)) st acc (by simp [RTree.info, hfl]), outermost_unflagged i (c :: rest) hfl]
termination_by t => sizeOf t
/-- ... and, started on the first of some siblings under an unflagged parent, reports `outermost` of all of
them in order and then moves on from the parent -/
theorem walk_forest : ∀ (c : RTree) (rest : List RTree) (f : Nat) (p : RTree) (st : List (List RTree × RTree))
    (acc : List PErr), flag p.info = none →
    walkAll (stepsL (c :: rest) + f) { focus := c, stack := (rest, p) :: st } false acc =
      moveOn f { focus := p, stack := st } (acc ++ outermostList (c :: rest))
  | c, [], f, p, st, acc, hp => by
    have : stepsL [c] + f = steps c + (f + 1) := by rw [stepsL_cons, stepsL_nil]; omega
    rw [this, walk_subtree c (f + 1) ((([] : List RTree), p) :: st) acc, moveOn_parent, walkAll_succ, outermostList_cons, outermostList_nil]
    simp [hp]
  | c, r :: rs, f, p, st, acc, hp => by
    have : stepsL (c :: r :: rs) + f = steps c + (stepsL (r :: rs) + f) := by rw [stepsL_cons]; omega
    rw [this, walk_subtree c (stepsL (r :: rs) + f) ((r :: rs, p) :: st) acc, moveOn_sibling,
      walk_forest r rs f p st (acc ++ outermost c) hp, outermostList_cons c (r :: rs), List.append_assoc]
termination_by c rest => sizeOf c + sizeOf rest
end

mutual
theorem steps_le : ∀ t : RTree, steps t ≤ 2 * size t
  | .node i cs => by
    cases hfl : flag i with
    | some e => rw [steps_flagged i cs e hfl]; simp [size]; omega
    | none =>
      cases cs with
      | nil => rw [steps_leaf i hfl]; simp [size, sizeList]
      | cons c rest =>
        have h1 := steps_le c
        have h2 := stepsL_le rest
        rw [steps_node i c rest hfl]
        simp only [size, sizeList]
        omega
theorem stepsL_le : ∀ ts : List RTree, stepsL ts ≤ 2 * sizeList ts + 1
  | [] => by rw [stepsL_nil]; simp [sizeList]
  | t :: ts => by
    have h1 := steps_le t
    have h2 := stepsL_le ts
    rw [stepsL_cons]
    simp only [sizeList]
    omega
end

/-- **Listing all parse errors** returns, in document order, exactly the ERROR and MISSING nodes that are
not inside another reported node — for every tree. (The fuel `2·|t| + 1` given to the loop is enough: the
loop terminates.) -/
theorem C18_walk_eq_outermost (t : RTree) : findAll t = outermost t := by
  unfold findAll
  by_cases h : hasError t = true
  · simp only [h, if_true]
    have hle := steps_le t
    have : 2 * size t + 1 = steps t + (2 * size t + 1 - steps t) := by omega
    rw [this, walk_subtree, moveOn_root]
    simp
  · simp only [h, Bool.false_eq_true, if_false]
    simp only [hasError, Bool.not_eq_true', Bool.not_eq_eq_eq_not, Bool.not_true, List.isEmpty_eq_false_iff, ne_eq,
      Decidable.not_not] at h
    exact h.symm

/-- an error-free tree yields no errors -/
theorem C18_clean_tree_none (t : RTree) (h : outermost t = []) : findAll t = [] := by
  rw [C18_walk_eq_outermost, h]

theorem walkFirst_succ (fuel : Nat) (c : Cursor) (did : Bool) :
    walkFirst (fuel + 1) c did =
      match flag c.focus.info with
      | some e => some e
      | none =>
        if did then moveOnFirst fuel c
        else
          match c.focus.children with
          | k :: ks => walkFirst fuel { focus := k, stack := (ks, c.focus) :: c.stack } false
          | [] => walkFirst fuel c true := by
  rw [walkFirst]
  cases flag c.focus.info with
  | some e => rfl
  | none =>
    cases did with
    | true => rfl
    | false => cases c.focus.children <;> rfl

theorem moveOnFirst_parent (f : Nat) (c p : RTree) (st : List (List RTree × RTree)) :
    moveOnFirst f { focus := c, stack := ([], p) :: st } = walkFirst f { focus := p, stack := st } true := by
  simp only [moveOnFirst]

theorem moveOnFirst_sibling (f : Nat) (c r p : RTree) (rs : List RTree) (st : List (List RTree × RTree)) :
    moveOnFirst f { focus := c, stack := (r :: rs, p) :: st } = walkFirst f { focus := r, stack := (rs, p) :: st } false := by
  simp only [moveOnFirst]

theorem moveOnFirst_root (f : Nat) (c : RTree) : moveOnFirst f { focus := c, stack := [] } = none := by
  simp only [moveOnFirst]

mutual
theorem first_subtree : ∀ (t : RTree) (f : Nat) (st : List (List RTree × RTree)),
    walkFirst (steps t + f) { focus := t, stack := st } false =
      match outermost t with
      | e :: _ => some e
      | [] => moveOnFirst f { focus := t, stack := st }
  | .node i cs, f, st => by
    cases hfl : flag i with
    | some e =>
      rw [steps_flagged i cs e hfl, Nat.add_comm, walkFirst_succ, outermost_flagged i cs e hfl]
      simp [RTree.info, hfl]
    | none =>
      cases cs with
      | nil =>
        rw [steps_leaf i hfl, show 2 + f = (f + 1) + 1 by omega, walkFirst_succ, outermost_unflagged i [] hfl, outermostList_nil]
        simp only [RTree.info, hfl, RTree.children, Bool.false_eq_true, if_false]
        rw [walkFirst_succ]
        simp [RTree.info, hfl]
      | cons c rest =>
        rw [steps_node i c rest hfl, show 1 + (steps c + stepsL rest) + f = (stepsL (c :: rest) + f) + 1 by rw [stepsL_cons]; omega, walkFirst_succ]
        simp only [RTree.info, hfl, RTree.children, Bool.false_eq_true, if_false]
        rw [first_forest c rest f (.node i (c :: rest)) st (by simp [RTree.info, hfl]), outermost_unflagged i (c :: rest) hfl]
termination_by t => sizeOf t
theorem first_forest : ∀ (c : RTree) (rest : List RTree) (f : Nat) (p : RTree) (st : List (List RTree × RTree)),
    flag p.info = none →
    walkFirst (stepsL (c :: rest) + f) { focus := c, stack := (rest, p) :: st } false =
      match outermostList (c :: rest) with
      | e :: _ => some e
      | [] => moveOnFirst f { focus := p, stack := st }
  | c, [], f, p, st, hp => by
    have : stepsL [c] + f = steps c + (f + 1) := by rw [stepsL_cons, stepsL_nil]; omega
    rw [this, first_subtree c (f + 1) ((([] : List RTree), p) :: st), outermostList_cons, outermostList_nil]
    cases ho : outermost c with
    | cons e es => simp
    | nil =>
      simp only [List.append_nil]
      rw [moveOnFirst_parent, walkFirst_succ]
      simp [hp]
  | c, r :: rs, f, p, st, hp => by
    have : stepsL (c :: r :: rs) + f = steps c + (stepsL (r :: rs) + f) := by rw [stepsL_cons]; omega
    rw [this, first_subtree c (stepsL (r :: rs) + f) ((r :: rs, p) :: st), outermostList_cons c (r :: rs)]
    cases ho : outermost c with
    | cons e es => simp
    | nil =>
      simp only [List.nil_append]
      rw [moveOnFirst_sibling, first_forest r rs f p st hp]
termination_by c rest => sizeOf c + sizeOf rest
end

/-- **Asking for the first error** returns the first of the errors that listing returns -/
theorem C18_first_is_head (t : RTree) : findFirst t = (outermost t).head? := by
  unfold findFirst
  by_cases h : hasError t = true
  · simp only [h, if_true]
    have hle := steps_le t
    have : 2 * size t + 1 = steps t + (2 * size t + 1 - steps t) := by omega
    rw [this, first_subtree]
    cases outermost t <;> simp [moveOnFirst_root]
  · simp only [h, Bool.false_eq_true, if_false]
    simp only [hasError, Bool.not_eq_true', Bool.not_eq_eq_eq_not, Bool.not_true, List.isEmpty_eq_false_iff, ne_eq,
      Decidable.not_not] at h
    simp [h]

/-- reported nodes are not nested: nothing below a reported node is reported -/
theorem C18_children_of_reported_skipped (i : PInfo) (cs : List RTree) (e : PErr) (h : flag i = some e) :
    findAll (.node i cs) = [e] := by
  rw [C18_walk_eq_outermost, outermost_flagged i cs e h]

/-- the plain display starts with `path:line:column: ` (1-based) and says what kind of error it is -/
theorem C18_display_cites_position (t : Tree) (path : String) (id : Nat) (n : TNode) (s : String)
    (hn : t.node? id = some n) (hd : displayPlain t path (.unexpected id) = some s) :
    ∃ rest, s = (path ++ ":" ++ toString (n.startRow + 1) ++ ":" ++ toString (n.startCol + 1) ++ ": " ++ "unexpected syntax") ++ rest := by
  simp only [displayPlain, hn] at hd
  split at hd
  · exact ⟨"\n", by injection hd with hd; exact hd.symm⟩
  · split at hd
    · cases hd
    · rename_i txt _
      exact ⟨": " ++ firstLineOf txt, by injection hd with hd; rw [← hd, String.append_assoc]⟩

/-- non-vacuity: an ERROR node inside an ERROR node is not reported -/
example :
    findAll (.node ⟨0, false, false⟩ [.node ⟨1, true, false⟩ [.node ⟨2, true, false⟩ []], .node ⟨3, false, true⟩ []])
      = [.unexpected 1, .missing 3] := by
  rw [C18_walk_eq_outermost]; decide

end C18
