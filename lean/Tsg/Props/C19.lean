/-
  C19 — The command-line tool reports exactly what the library computes (decision logic).
-/
import Tsg.Out.Cli

namespace C19
open Cli

/-- **Exit status.** The tool exits with status 0 exactly when the options are well-formed, the DSL file
loads, the source has no syntax errors (or they are allowed), and execution in the selected mode succeeds. -/
theorem C19_exit_zero_iff (o : CliOpts) (r : LibResults) :
    (outcome o r).exitZero = true ↔
      (¬ (o.output = true ∧ o.json = false)) ∧ globalsOk [] o.globals = true ∧ r.loadOk = true ∧
      (o.allowParseErrors = true ∨ r.sourceHasErrors = false) ∧ r.execOk = true := by
  unfold outcome
  cases ho : o.output <;> cases hj : o.json <;> cases hg : globalsOk [] o.globals <;> cases hl : r.loadOk <;>
    cases ha : o.allowParseErrors <;> cases he : r.execOk <;> cases hq : o.quiet <;>
    cases hp : r.sourceHasErrors <;> simp [cliFailure]

/-- **No graph on cliFailure**: a non-zero exit prints no graph and writes no file -/
theorem C19_no_graph_on_failure (o : CliOpts) (r : LibResults) (h : (outcome o r).exitZero = false) :
    (outcome o r).stdout = .nothing ∧ (outcome o r).outFile = false := by
  unfold outcome at h ⊢
  cases ho : o.output <;> cases hj : o.json <;> cases hg : globalsOk [] o.globals <;> cases hl : r.loadOk <;>
    cases ha : o.allowParseErrors <;> cases he : r.execOk <;> cases hq : o.quiet <;>
    cases hp : r.sourceHasErrors <;> simp_all [cliFailure]

/-- **Output selection** on success: `--json` prints the JSON (and, with `--output`, also writes it into the
named file — `display_json` writes to stdout in both cases); without `--json` the pretty-printed graph goes to
stdout unless `--quiet` -/
theorem C19_output_selection (o : CliOpts) (r : LibResults) (h : (outcome o r).exitZero = true) :
    (o.json = true ∧ o.output = true → (outcome o r).stdout = .json ∧ (outcome o r).outFile = true) ∧
    (o.json = true ∧ o.output = false → (outcome o r).stdout = .json ∧ (outcome o r).outFile = false) ∧
    (o.json = false ∧ o.quiet = false → (outcome o r).stdout = .pretty ∧ (outcome o r).outFile = false) ∧
    (o.json = false ∧ o.quiet = true → (outcome o r).stdout = .nothing ∧ (outcome o r).outFile = false) := by
  have hz := (C19_exit_zero_iff o r).mp h
  obtain ⟨h1, h2, h3, h4, h5⟩ := hz
  unfold outcome
  cases ho : o.output <;> cases hj : o.json <;> cases hq : o.quiet <;> cases ha : o.allowParseErrors <;>
    cases hp : r.sourceHasErrors <;> simp_all [cliFailure]

/-- **`--quiet` suppresses the pretty-printed graph and changes nothing else**: same exit status, same JSON
output, same output file -/
theorem C19_quiet_only_pretty (o : CliOpts) (r : LibResults) :
    let q := outcome { o with quiet := true } r
    let n := outcome { o with quiet := false } r
    q.exitZero = n.exitZero ∧ q.outFile = n.outFile ∧
    (n.stdout = .pretty → q.stdout = .nothing) ∧ (n.stdout ≠ .pretty → q.stdout = n.stdout) := by
  simp only [outcome]
  cases ho : o.output <;> cases hj : o.json <;> cases hg : globalsOk [] o.globals <;> cases hl : r.loadOk <;>
    cases ha : o.allowParseErrors <;> cases he : r.execOk <;>
    cases hp : r.sourceHasErrors <;> simp [cliFailure]

/-- a `--global` without `=` or with a repeated name makes the tool fail -/
theorem C19_bad_global_fails (o : CliOpts) (r : LibResults) (h : globalsOk [] o.globals = false) :
    (outcome o r).exitZero = false := by
  unfold outcome
  cases o.output <;> cases o.json <;> simp [h, cliFailure]

/-- the name of a global is everything before the first `=`; the value is passed as a string -/
theorem C19_global_name (n v : String) (hn : ¬ n.toList.contains '=' = true) :
    globalName (n ++ "=" ++ v) = some n := by
  unfold globalName
  have hmem : '=' ∈ (n ++ "=" ++ v).toList := by simp
  simp only [List.contains_eq_mem, hmem, decide_true, if_true]
  congr 1
  apply String.ext
  simp only [String.toList_append, String.toList_ofList]
  have : ∀ (l r : List Char), '=' ∉ l → (l ++ '=' :: r).takeWhile (· ≠ '=') = l := by
    intro l r hl
    induction l with
    | nil => simp
    | cons c cs ih =>
      simp only [List.mem_cons, not_or] at hl
      have := ih hl.2
      simp only [ne_eq, decide_not] at this
      simp [List.takeWhile, Ne.symm hl.1, this]
  have hl : '=' ∉ n.toList := by simpa using hn
  simpa using this n.toList v.toList hl

/-- non-vacuity -/
example : outcome { lazy := true, quiet := false, json := true, allowParseErrors := false, output := false, globals := ["a=1", "b=x=y"] }
    { loadOk := true, sourceHasErrors := false, execOk := true } = { exitZero := true, stdout := .json, outFile := false } := by
  simp [outcome, globalsOk, globalName]

end C19
