/-
  C20 — Execution errors identify the failing statement, stanza and matched node.
-/
import Tsg.Proofs.Prog
import Tsg.Sem.Lazy

namespace C20

/-- an error is either the bare cancellation error or carries a statement context at top level -/
def Contexted : XErr → Prop
  | .base .cancelled _ => True
  | .inCtx (.stmt _) _ => True
  | _ => False

/-- the first (outermost) statement context list of an error -/
def outerStmt : XErr → Option (List StmtCtx)
  | .inCtx (.stmt cs) _ => some cs
  | _ => none

/-- **`with_context` algebra** (error.rs:171-178): wrapping in a statement context leaves cancellation
alone, keeps an error that already has a statement context (the innermost statement wins), wraps an
`Other` context, and wraps a bare error. -/
theorem C20_withContext_keeps_innermost (c : StmtCtx) :
    (∀ l, (XErr.base .cancelled l).withContext (.stmt [c]) = .base .cancelled l) ∧
    (∀ cs cause, (XErr.inCtx (.stmt cs) cause).withContext (.stmt [c]) = .inCtx (.stmt cs) cause) ∧
    (∀ w cause, (XErr.inCtx (.other w) cause).withContext (.stmt [c]) = .inCtx (.stmt [c]) (.inCtx (.other w) cause)) ∧
    (∀ k l, k ≠ .cancelled → (XErr.base k l).withContext (.stmt [c]) = .inCtx (.stmt [c]) (.base k l)) := by
  refine ⟨fun _ => rfl, fun _ _ => rfl, fun _ _ => rfl, ?_⟩
  intro k l hk
  cases k <;> first | exact absurd rfl hk | rfl

/-- after wrapping in a statement context every error is contexted -/
theorem withContext_contexted (cs : List StmtCtx) (e : XErr) : Contexted (e.withContext (.stmt cs)) := by
  cases e with
  | base k l => cases k <;> simp [XErr.withContext, Contexted]
  | inCtx c cause => cases c <;> simp [XErr.withContext, Contexted]

/-- and the context it carries is either the one just added or the one it already had -/
theorem withContext_outer (c : StmtCtx) (e : XErr) (cs : List StmtCtx)
    (h : outerStmt (e.withContext (.stmt [c])) = some cs) : cs = [c] ∨ outerStmt e = some cs := by
  cases e with
  | base k l => cases k <;> simp_all [XErr.withContext, outerStmt]
  | inCtx c' cause => cases c' <;> simp_all [XErr.withContext, outerStmt]

/-- a contexted error stays contexted under any further wrapping (statement or `Other`) -/
theorem contexted_stable (c : Ctx) (e : XErr) (h : Contexted e) : Contexted (e.withContext c) ∧ e.withContext c = e := by
  cases e with
  | base k l => cases k <;> simp_all [XErr.withContext, Contexted]
  | inCtx c' cause => cases c' <;> simp_all [XErr.withContext, Contexted]

/-- every error that leaves a context-wrapped computation is contexted — for every program -/
theorem C20_wrapped_run_contexted {ρ α : Type} (cs : List StmtCtx) (m : Prog ρ α) (s s' : Prog.MSt ρ) (e : XErr)
    (h : Prog.run (Prog.withContext (.stmt cs) m) s = .fail (.err e) s') : Contexted e := by
  simp only [Prog.withContext, Prog.run] at h
  cases hm : Prog.run m s with
  | ok b s1 => simp [hm, Prog.run] at h
  | fail f s1 =>
    simp only [hm] at h
    cases f with
    | err e0 =>
      simp only [Fail.withContext] at h
      cases h
      exact withContext_contexted cs e0
    | panic site => simp [Fail.withContext] at h
    | need q => simp [Fail.withContext] at h
    | outOfFuel => simp [Fail.withContext] at h

/-- errors of a sequence of programs, each of which only fails with contexted errors -/
def OnlyContexted {ρ α : Type} (m : Prog ρ α) : Prop :=
  ∀ s s' e, Prog.run m s = .fail (.err e) s' → Contexted e

theorem onlyContexted_bind {ρ α β : Type} (m : Prog ρ α) (f : α → Prog ρ β)
    (hm : OnlyContexted m) (hf : ∀ a, OnlyContexted (f a)) : OnlyContexted (m >>= f) := by
  intro s s' e h
  rw [Prog.run_bind] at h
  cases hr : Prog.run m s with
  | ok a s1 => rw [hr] at h; exact hf a s1 s' e h
  | fail e0 s1 =>
    rw [hr] at h
    cases h
    exact hm s s' e hr

theorem onlyContexted_pure {ρ α : Type} (a : α) : OnlyContexted (pure a : Prog ρ α) := by
  intro s s' e h; simp [pure, Prog.run] at h

theorem onlyContexted_withContext {ρ α : Type} (cs : List StmtCtx) (m : Prog ρ α) :
    OnlyContexted (Prog.withContext (.stmt cs) m) :=
  fun s s' e h => C20_wrapped_run_contexted cs m s s' e h

/-- **Strict blocks.** Every error raised while executing the statements of a block (stanza body,
`if` arm, `for` body, scan arm) is the cancellation error or carries a statement context. -/
theorem C20_block_errors_contexted (cfg : Cfg) (fuel : Nat) (kind : Strict.BlockKind) (ss : List Stmt) (env : Env) :
    OnlyContexted (Strict.execBlock cfg fuel env kind ss) := by
  induction ss generalizing env with
  | nil => unfold Strict.execBlock; exact onlyContexted_pure ()
  | cons st rest ih =>
    unfold Strict.execBlock
    cases kind with
    | plain =>
      dsimp only
      apply onlyContexted_bind
      · exact onlyContexted_withContext _ _
      · intro _; exact ih _
    | scanArm what =>
      dsimp only
      apply onlyContexted_bind
      · exact onlyContexted_withContext _ _
      · intro _; exact ih _

/-- the statement location recorded for a top-level statement of a block is that statement's own
location; stanza location, node kind and node position are inherited from the block -/
theorem C20_block_context_fields (cfg : Cfg) (fuel : Nat) (env : Env) (st : Stmt) (rest : List Stmt) :
    Strict.execBlock cfg fuel env .plain (st :: rest) =
      (Prog.withContext (.stmt [{ env.ctx with stmtLoc := st.loc }])
          (Strict.execStmt cfg fuel { env with ctx := { env.ctx with stmtLoc := st.loc } } st) >>=
        fun _ => Strict.execBlock cfg fuel { env with ctx := { env.ctx with stmtLoc := st.loc } } .plain rest) := by
  rw [Strict.execBlock]

theorem onlyContexted_modifyR {ρ : Type} (f : ρ → ρ) : OnlyContexted (Prog.modifyR f) := by
  intro s s' e h; simp [Prog.modifyR, Prog.primP, Prog.run] at h

theorem onlyContexted_panic {ρ α : Type} (site : String) : OnlyContexted (Prog.panicAt site : Prog ρ α) := by
  intro s s' e h; simp [Prog.panicAt, Prog.run] at h

theorem onlyContexted_fullMatchNode {ρ : Type} (env : Env) (h : env.mat.nodes fullMatchName ≠ []) :
    OnlyContexted (Strict.fullMatchNode env : Prog ρ Nat) := by
  unfold Strict.fullMatchNode
  split
  · exact onlyContexted_pure _
  · next hnil => exact absurd hnil h

/-- **Whole strict run.** Once the globals pre-check has passed, every error that strict execution
returns is the cancellation error or carries the context of a statement — for matches that have their full-match
node, which is what a context cites. (A match that lost it — more than three captures on the root, a quantified
root — has no node to cite; since the repair of the `missing full capture` panic it fails with a bare
`UndefinedCapture`, see `C20_lost_full_match_is_bare`.) -/
theorem C20_strict_errors_contexted (cfg : Cfg) (fuel : Nat) (l : List (Stanza × List QMatch))
    (hfull : ∀ p ∈ l, ∀ m ∈ p.2, m.nodes fullMatchName ≠ []) :
    OnlyContexted (Strict.execStanzas cfg fuel l) := by
  have hmatch : ∀ st m, m.nodes fullMatchName ≠ [] → OnlyContexted (Strict.execMatch cfg fuel st m) := by
    intro st m hm
    unfold Strict.execMatch
    apply onlyContexted_bind
    · exact onlyContexted_modifyR _
    · intro _
      split
      · exact onlyContexted_pure ()
      · dsimp only
        apply onlyContexted_bind
        · exact onlyContexted_fullMatchNode _ hm
        · intro node
          split
          · exact onlyContexted_panic _
          · exact C20_block_errors_contexted cfg fuel .plain _ _
  have hmatches : ∀ st ms, (∀ m ∈ ms, m.nodes fullMatchName ≠ []) → OnlyContexted (Strict.execMatches cfg fuel st ms) := by
    intro st ms
    induction ms with
    | nil => intro _; unfold Strict.execMatches; exact onlyContexted_pure ()
    | cons m rest ih =>
      intro hms
      unfold Strict.execMatches
      exact onlyContexted_bind _ _ (hmatch st m (hms m (List.mem_cons_self ..)))
        (fun _ => ih (fun x hx => hms x (List.mem_cons_of_mem _ hx)))
  induction l with
  | nil => unfold Strict.execStanzas; exact onlyContexted_pure ()
  | cons p rest ih =>
    obtain ⟨st, ms⟩ := p
    unfold Strict.execStanzas
    exact onlyContexted_bind _ _ (hmatches st ms (fun m hm => hfull (st, ms) (List.mem_cons_self ..) m hm))
      (fun _ => ih (fun q hq => hfull q (List.mem_cons_of_mem _ hq)))

/-- a match without its full-match node fails, before any statement runs, with a bare `UndefinedCapture` -/
theorem C20_lost_full_match_is_bare {ρ : Type} (env : Env) (h : env.mat.nodes fullMatchName = []) :
    (Strict.fullMatchNode env : Prog ρ Nat) = Prog.throwK .undefinedCapture := by
  unfold Strict.fullMatchNode
  rw [h]

/-- a conflict found during lazy evaluation names both statements -/
theorem C20_conflict_names_both (p dbg : StmtCtx) :
    Lazy.conflictFail (some p) dbg = .err (.inCtx (.stmt [p, dbg]) (.base .duplicateAttribute "")) := rfl

end C20
