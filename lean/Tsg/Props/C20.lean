/-
  C20 — Execution errors identify the failing statement, stanza and matched node.
-/
import Tsg.Proofs.Prog
import Tsg.Sem.Lazy
import Tsg.Proofs.LazyForcing

namespace C20

/-- an error is either the bare cancellation error or carries a statement context at top level -/
def Contexted : XErr → Prop
  | .base .cancelled _ => True
  | .inCtx (.stmt _) _ => True
  | _ => False

/-- the first (outermost) statement context list of an error -/
def outerStmt : XErr → Option (List StmtCtx)
  | .inCtx (.stmt cs) _ => some cs
  | _ => none

/-- **`with_context` algebra** (error.rs:171-178): wrapping in a statement context leaves cancellation
alone, keeps an error that already has a statement context (the innermost statement wins), wraps an
`Other` context, and wraps a bare error. -/
theorem C20_withContext_keeps_innermost (c : StmtCtx) :
    (∀ l, (XErr.base .cancelled l).withContext (.stmt [c]) = .base .cancelled l) ∧
    (∀ cs cause, (XErr.inCtx (.stmt cs) cause).withContext (.stmt [c]) = .inCtx (.stmt cs) cause) ∧
    (∀ w cause, (XErr.inCtx (.other w) cause).withContext (.stmt [c]) = .inCtx (.stmt [c]) (.inCtx (.other w) cause)) ∧
    (∀ k l, k ≠ .cancelled → (XErr.base k l).withContext (.stmt [c]) = .inCtx (.stmt [c]) (.base k l)) := by
  refine ⟨fun _ => rfl, fun _ _ => rfl, fun _ _ => rfl, ?_⟩
  intro k l hk
  cases k <;> first | exact absurd rfl hk | rfl

/-- after wrapping in a statement context every error is contexted -/
theorem withContext_contexted (cs : List StmtCtx) (e : XErr) : Contexted (e.withContext (.stmt cs)) := by
  cases e with
  | base k l => cases k <;> simp [XErr.withContext, Contexted]
  | inCtx c cause => cases c <;> simp [XErr.withContext, Contexted]

/-- and the context it carries is either the one just added or the one it already had -/
theorem withContext_outer (c : StmtCtx) (e : XErr) (cs : List StmtCtx)
    (h : outerStmt (e.withContext (.stmt [c])) = some cs) : cs = [c] ∨ outerStmt e = some cs := by
  cases e with
  | base k l => cases k <;> simp_all [XErr.withContext, outerStmt]
  | inCtx c' cause => cases c' <;> simp_all [XErr.withContext, outerStmt]

/-- a contexted error stays contexted under any further wrapping (statement or `Other`) -/
theorem contexted_stable (c : Ctx) (e : XErr) (h : Contexted e) : Contexted (e.withContext c) ∧ e.withContext c = e := by
  cases e with
  | base k l => cases k <;> simp_all [XErr.withContext, Contexted]
  | inCtx c' cause => cases c' <;> simp_all [XErr.withContext, Contexted]

/-- every error that leaves a context-wrapped computation is contexted — for every program -/
theorem C20_wrapped_run_contexted {ρ α : Type} (cs : List StmtCtx) (m : Prog ρ α) (s s' : Prog.MSt ρ) (e : XErr)
    (h : Prog.run (Prog.withContext (.stmt cs) m) s = .fail (.err e) s') : Contexted e := by
  simp only [Prog.withContext, Prog.run] at h
  cases hm : Prog.run m s with
  | ok b s1 => simp [hm, Prog.run] at h
  | fail f s1 =>
    simp only [hm] at h
    cases f with
    | err e0 =>
      simp only [Fail.withContext] at h
      cases h
      exact withContext_contexted cs e0
    | panic site => simp [Fail.withContext] at h
    | need q => simp [Fail.withContext] at h
    | outOfFuel => simp [Fail.withContext] at h

/-- errors of a sequence of programs, each of which only fails with contexted errors -/
def OnlyContexted {ρ α : Type} (m : Prog ρ α) : Prop :=
  ∀ s s' e, Prog.run m s = .fail (.err e) s' → Contexted e

theorem onlyContexted_bind {ρ α β : Type} (m : Prog ρ α) (f : α → Prog ρ β)
    (hm : OnlyContexted m) (hf : ∀ a, OnlyContexted (f a)) : OnlyContexted (m >>= f) := by
  intro s s' e h
  rw [Prog.run_bind] at h
  cases hr : Prog.run m s with
  | ok a s1 => rw [hr] at h; exact hf a s1 s' e h
  | fail e0 s1 =>
    rw [hr] at h
    cases h
    exact hm s s' e hr

theorem onlyContexted_pure {ρ α : Type} (a : α) : OnlyContexted (pure a : Prog ρ α) := by
  intro s s' e h; simp [pure, Prog.run] at h

theorem onlyContexted_withContext {ρ α : Type} (cs : List StmtCtx) (m : Prog ρ α) :
    OnlyContexted (Prog.withContext (.stmt cs) m) :=
  fun s s' e h => C20_wrapped_run_contexted cs m s s' e h

/-- **Strict blocks.** Every error raised while executing the statements of a block (stanza body,
`if` arm, `for` body, scan arm) is the cancellation error or carries a statement context. -/
theorem C20_block_errors_contexted (cfg : Cfg) (fuel : Nat) (kind : Strict.BlockKind) (ss : List Stmt) (env : Env) :
    OnlyContexted (Strict.execBlock cfg fuel env kind ss) := by
  induction ss generalizing env with
  | nil => unfold Strict.execBlock; exact onlyContexted_pure ()
  | cons st rest ih =>
    unfold Strict.execBlock
    cases kind with
    | plain =>
      dsimp only
      apply onlyContexted_bind
      · exact onlyContexted_withContext _ _
      · intro _; exact ih _
    | scanArm what =>
      dsimp only
      apply onlyContexted_bind
      · exact onlyContexted_withContext _ _
      · intro _; exact ih _

/-- the statement location recorded for a top-level statement of a block is that statement's own
location; stanza location, node kind and node position are inherited from the block -/
theorem C20_block_context_fields (cfg : Cfg) (fuel : Nat) (env : Env) (st : Stmt) (rest : List Stmt) :
    Strict.execBlock cfg fuel env .plain (st :: rest) =
      (Prog.withContext (.stmt [{ env.ctx with stmtLoc := st.loc }])
          (Strict.execStmt cfg fuel { env with ctx := { env.ctx with stmtLoc := st.loc } } st) >>=
        fun _ => Strict.execBlock cfg fuel { env with ctx := { env.ctx with stmtLoc := st.loc } } .plain rest) := by
  rw [Strict.execBlock]

theorem onlyContexted_modifyR {ρ : Type} (f : ρ → ρ) : OnlyContexted (Prog.modifyR f) := by
  intro s s' e h; simp [Prog.modifyR, Prog.primP, Prog.run] at h

theorem onlyContexted_panic {ρ α : Type} (site : String) : OnlyContexted (Prog.panicAt site : Prog ρ α) := by
  intro s s' e h; simp [Prog.panicAt, Prog.run] at h

theorem onlyContexted_fullMatchNode {ρ : Type} (env : Env) (h : env.mat.nodes fullMatchName ≠ []) :
    OnlyContexted (Strict.fullMatchNode env : Prog ρ Nat) := by
  unfold Strict.fullMatchNode
  split
  · exact onlyContexted_pure _
  · next hnil => exact absurd hnil h

/-- **Whole strict run.** Once the globals pre-check has passed, every error that strict execution
returns is the cancellation error or carries the context of a statement — for matches that have their full-match
node, which is what a context cites. (A match that lost it — more than three captures on the root, a quantified
root — has no node to cite; since the repair of the `missing full capture` panic it fails with a bare
`UndefinedCapture`, see `C20_lost_full_match_is_bare`.) -/
theorem C20_strict_errors_contexted (cfg : Cfg) (fuel : Nat) (l : List (Stanza × List QMatch))
    (hfull : ∀ p ∈ l, ∀ m ∈ p.2, m.nodes fullMatchName ≠ []) :
    OnlyContexted (Strict.execStanzas cfg fuel l) := by
  have hmatch : ∀ st m, m.nodes fullMatchName ≠ [] → OnlyContexted (Strict.execMatch cfg fuel st m) := by
    intro st m hm
    unfold Strict.execMatch
    apply onlyContexted_bind
    · exact onlyContexted_modifyR _
    · intro _
      split
      · exact onlyContexted_pure ()
      · dsimp only
        apply onlyContexted_bind
        · exact onlyContexted_fullMatchNode _ hm
        · intro node
          split
          · exact onlyContexted_panic _
          · exact C20_block_errors_contexted cfg fuel .plain _ _
  have hmatches : ∀ st ms, (∀ m ∈ ms, m.nodes fullMatchName ≠ []) → OnlyContexted (Strict.execMatches cfg fuel st ms) := by
    intro st ms
    induction ms with
    | nil => intro _; unfold Strict.execMatches; exact onlyContexted_pure ()
    | cons m rest ih =>
      intro hms
      unfold Strict.execMatches
      exact onlyContexted_bind _ _ (hmatch st m (hms m (List.mem_cons_self ..)))
        (fun _ => ih (fun x hx => hms x (List.mem_cons_of_mem _ hx)))
  induction l with
  | nil => unfold Strict.execStanzas; exact onlyContexted_pure ()
  | cons p rest ih =>
    obtain ⟨st, ms⟩ := p
    unfold Strict.execStanzas
    exact onlyContexted_bind _ _ (hmatches st ms (fun m hm => hfull (st, ms) (List.mem_cons_self ..) m hm))
      (fun _ => ih (fun q hq => hfull q (List.mem_cons_of_mem _ hq)))

/-- a match without its full-match node fails, before any statement runs, with a bare `UndefinedCapture` -/
theorem C20_lost_full_match_is_bare {ρ : Type} (env : Env) (h : env.mat.nodes fullMatchName = []) :
    (Strict.fullMatchNode env : Prog ρ Nat) = Prog.throwK .undefinedCapture := by
  unfold Strict.fullMatchNode
  rw [h]

/-- a conflict found during lazy evaluation names both statements -/
theorem C20_conflict_names_both (p dbg : StmtCtx) :
    Lazy.conflictFail (some p) dbg = .err (.inCtx (.stmt [p, dbg]) (.base .duplicateAttribute "")) := rfl

/-! ### lazy execution: every error is the cancellation error or cites a statement -/

theorem onlyContexted_poll {ρ : Type} (l : String) : OnlyContexted (Prog.pollP l : Prog ρ Unit) := by
  intro s s' e h
  simp only [Prog.pollP, Prog.run] at h
  split at h
  · split at h
    · cases h; trivial
    · cases h
  · cases h

theorem onlyContexted_getR {ρ : Type} : OnlyContexted (Prog.getR : Prog ρ ρ) := by
  intro s s' e h; simp [Prog.getR, Prog.primP, Prog.run] at h

/-- **Lazy blocks.** Every error raised while executing the statements of a stanza body or of a scan arm lazily is
the cancellation error or carries a statement context (`if`/`for` bodies are not wrapped again: they are inside
the statement that contains them). -/
theorem C20_lazy_block_errors_contexted (cfg : Cfg) (fuel ef : Nat) (kind : Lazy.LBlockKind) (hk : kind ≠ .bare)
    (ss : List Stmt) (env : Env) : OnlyContexted (Lazy.lazyBlock cfg fuel ef env kind ss) := by
  induction ss generalizing env with
  | nil => unfold Lazy.lazyBlock; exact onlyContexted_pure ()
  | cons st rest ih =>
    unfold Lazy.lazyBlock
    cases kind with
    | top =>
      dsimp only
      exact onlyContexted_bind _ _ (onlyContexted_withContext _ _) fun _ => ih _
    | scanArm what =>
      dsimp only
      exact onlyContexted_bind _ _ (onlyContexted_withContext _ _) fun _ => ih _
    | bare => exact absurd rfl hk

theorem onlyContexted_execMergedL (cfg : Cfg) (fuel ef : Nat) (stanzas : List Stanza) (ms : List QMatch)
    (hfull : ∀ m ∈ ms, m.nodes fullMatchName ≠ []) : OnlyContexted (Lazy.execMergedL cfg fuel ef stanzas ms) := by
  induction ms with
  | nil => unfold Lazy.execMergedL; exact onlyContexted_pure ()
  | cons m rest ih =>
    unfold Lazy.execMergedL
    refine onlyContexted_bind _ _ ?_ fun _ => ih (fun x hx => hfull x (List.mem_cons_of_mem _ hx))
    unfold Lazy.lazyBlockOf
    split
    · exact onlyContexted_panic _
    · refine onlyContexted_bind _ _ (onlyContexted_poll _) fun _ => ?_
      unfold Lazy.execMatchL
      refine onlyContexted_bind _ _ (onlyContexted_modifyR _) fun _ => ?_
      have hm := hfull m (List.mem_cons_self ..)
      split
      · next hnil => exact absurd hnil hm
      · split
        · exact onlyContexted_panic _
        · exact C20_lazy_block_errors_contexted cfg fuel ef .top (by intro h; cases h) _ _

theorem onlyContexted_evalQueue (cfg : Cfg) (ef : Nat) (sts : List LStmt) : OnlyContexted (Lazy.evalQueue cfg ef sts) := by
  induction sts with
  | nil => unfold Lazy.evalQueue; exact onlyContexted_pure ()
  | cons st rest ih =>
    unfold Lazy.evalQueue
    refine onlyContexted_bind _ _ ?_ fun _ => ih
    unfold Lazy.evalLStmt
    refine onlyContexted_bind _ _ (onlyContexted_poll _) fun _ => ?_
    cases st <;> exact onlyContexted_withContext _ _

theorem onlyContexted_forceThunk (cfg : Cfg) (ef loc : Nat) : OnlyContexted (Lazy.forceThunk cfg ef loc) := by
  rw [Lazy.forceThunk.eq_def]
  refine onlyContexted_bind _ _ onlyContexted_getR fun r => ?_
  split
  · exact onlyContexted_panic _
  · exact onlyContexted_withContext _ _

theorem onlyContexted_forceAllThunks (cfg : Cfg) (ef : Nat) : ∀ (k i : Nat), OnlyContexted (Lazy.forceAllThunks cfg ef k i) := by
  intro k
  induction k with
  | zero => intro i; unfold Lazy.forceAllThunks; exact onlyContexted_pure ()
  | succ k ih =>
    intro i
    unfold Lazy.forceAllThunks
    exact onlyContexted_bind _ _ (onlyContexted_forceThunk _ _ _) fun _ => ih _

theorem onlyContexted_forcePairs (cfg : Cfg) (ef : Nat) (name : String) : ∀ (pairs : List (LVal × LVal × StmtCtx))
    (acc : List (Nat × LVal)) (dbgs : List (Nat × StmtCtx)), OnlyContexted (Lazy.forcePairs cfg ef name pairs acc dbgs) := by
  intro pairs
  induction pairs with
  | nil => intro acc dbgs; rw [Lazy.forcePairs.eq_def]; exact onlyContexted_pure _
  | cons p rest ih =>
    intro acc dbgs
    obtain ⟨scope, value, dbg⟩ := p
    rw [Lazy.forcePairs.eq_def]
    simp only
    refine onlyContexted_bind _ _ (onlyContexted_withContext _ _) fun node => ?_
    split
    · exact onlyContexted_withContext _ _
    · exact ih _ _

/-- forcing a cell that is not already being forced fails only with contexted errors -/
theorem onlyContexted_forceCell (cfg : Cfg) (ef : Nat) (name : String) (cell : ScopedCell) (hc : cell ≠ .forcing) :
    OnlyContexted (Lazy.forceCell cfg ef name cell) := by
  rw [Lazy.forceCell.eq_def]
  refine onlyContexted_bind _ _ (onlyContexted_modifyR _) fun _ => ?_
  cases cell with
  | unforced pairs => exact onlyContexted_forcePairs _ _ _ _ _ _
  | forcing => exact absurd rfl hc
  | forced map => exact onlyContexted_pure _

/-- errors of a program started in a state where no scoped-variable cell is being forced -/
def ContextedFromNF {α : Type} (m : Prog LSt α) : Prop :=
  ∀ s s' e, LazyForcing.NF s → Prog.run m s = .fail (.err e) s' → Contexted e

theorem ContextedFromNF.of {α : Type} {m : Prog LSt α} (h : OnlyContexted m) : ContextedFromNF m :=
  fun s s' e _ hr => h s s' e hr

theorem ContextedFromNF.bind {α β : Type} {m : Prog LSt α} {f : α → Prog LSt β} (hm : ContextedFromNF m)
    (hg : LazyForcing.Grow LazyForcing.No m) (hf : ∀ a, ContextedFromNF (f a)) : ContextedFromNF (m >>= f) := by
  intro s s' e hs h
  rw [Prog.run_bind] at h
  cases hr : Prog.run m s with
  | ok a s1 => rw [hr] at h; exact hf a s1 s' e (hg.keepsNF hr hs) h
  | fail e0 s1 =>
    rw [hr] at h
    cases h
    exact hm s s' e hs hr

/-- `LazyScopedVariables::evaluate_all`: started with no cell being forced, it fails only with contexted errors (the
bare `RecursivelyDefinedScopedVariable` of `force` on a cell found in state `Forcing` is unreachable at top level) -/
theorem contexted_forceAllCells (cfg : Cfg) (ef : Nat) (names : List String) : ContextedFromNF (Lazy.forceAllCells cfg ef names) := by
  induction names with
  | nil => unfold Lazy.forceAllCells; exact ContextedFromNF.of (onlyContexted_pure ())
  | cons name rest ih =>
    intro s s' e hs h
    unfold Lazy.forceAllCells at h
    rw [Prog.run_bind] at h
    have hget : Prog.run (Prog.getR : Prog LSt LSt) s = .ok s.rest s := rfl
    rw [hget] at h
    simp only at h
    cases hl : s.rest.cells.lookup name with
    | none => rw [hl] at h; exact ih s s' e hs h
    | some cell =>
      rw [hl] at h
      simp only at h
      have hc : cell ≠ .forcing := by
        intro hcf; subst hcf; exact hs name hl
      rw [Prog.run_bind] at h
      cases hfc : Prog.run (Lazy.forceCell cfg ef name cell) s with
      | fail e0 s1 =>
        rw [hfc] at h
        cases h
        exact onlyContexted_forceCell cfg ef name cell hc s s' e hfc
      | ok map s1 =>
        rw [hfc] at h
        simp only at h
        rw [Prog.run_bind] at h
        have hset : Prog.run (Prog.modifyR fun s => Lazy.setCell s name (.forced map)) s1 =
            .ok () { s1 with rest := Lazy.setCell s1.rest name (.forced map) } := rfl
        rw [hset] at h
        simp only at h
        refine ih _ s' e ?_ h
        -- no cell is being forced after the store: the mark of `name` was overwritten, the others were not there
        intro n hn
        unfold LazyForcing.Forcing at hn
        rw [LazyForcing.lookup_setCell] at hn
        by_cases hnn : n = name
        · simp [hnn] at hn
        · simp only [hnn, if_false] at hn
          rcases (LazyForcing.grow_forceCell cfg ef name cell).h s map s1 hfc n hn with h4 | h4
          · exact hs n h4
          · exact hnn h4

/-- **Whole lazy run.** Once the globals pre-check has passed, every error that lazy execution returns — while building
the lazy graph, while evaluating the queued statements, or while forcing the thunks and scoped variables nothing asked
for — is the cancellation error or carries the context of a statement, for matches that have their full-match node. -/
theorem C20_lazy_errors_contexted (cfg : Cfg) (fuel ef : Nat) (stanzas : List Stanza) (merged : List QMatch)
    (hfull : ∀ m ∈ merged, m.nodes fullMatchName ≠ []) :
    ContextedFromNF (Lazy.execMergedL cfg fuel ef stanzas merged >>= fun _ => Lazy.evaluatePhase cfg ef) := by
  refine ContextedFromNF.bind (.of (onlyContexted_execMergedL cfg fuel ef stanzas merged hfull)) (LazyForcing.grow_execMergedL ..) fun _ => ?_
  unfold Lazy.evaluatePhase
  refine ContextedFromNF.bind (.of onlyContexted_getR) LazyForcing.Grow.getR fun r => ?_
  refine ContextedFromNF.bind (.of (onlyContexted_evalQueue _ _ _)) (LazyForcing.grow_evalQueue ..) fun _ => ?_
  refine ContextedFromNF.bind (.of (onlyContexted_evalQueue _ _ _)) (LazyForcing.grow_evalQueue ..) fun _ => ?_
  refine ContextedFromNF.bind (.of (onlyContexted_evalQueue _ _ _)) (LazyForcing.grow_evalQueue ..) fun _ => ?_
  refine ContextedFromNF.bind (.of onlyContexted_getR) LazyForcing.Grow.getR fun r2 => ?_
  refine ContextedFromNF.bind (.of (onlyContexted_forceAllThunks _ _ _ _)) (LazyForcing.grow_forceAllThunks ..) fun _ => ?_
  refine ContextedFromNF.bind (.of onlyContexted_getR) LazyForcing.Grow.getR fun r3 => ?_
  exact contexted_forceAllCells _ _ _

/-- the same, for `Lazy.run` itself: the run starts with no scoped-variable cell at all -/
theorem C20_lazy_run_errors_contexted (file : File) (tree : Tree) (oracle : Oracle) (globals : GlobalsM)
    (la va ma : Option String) (cancelAt : Option Nat) (fuel ef : Nat) (merged : List QMatch) (g0 : CGraph) (gl : GlobalsM)
    (hc : checkGlobals file.globals globals.nested = .ok gl)
    (hfull : ∀ m ∈ merged, m.nodes fullMatchName ≠ []) (e : XErr)
    (h : (Lazy.run file tree oracle globals la va ma cancelAt fuel ef merged g0).outcome = some (.err e)) : Contexted e := by
  simp only [Lazy.run, hc] at h
  let cfg : Cfg := { tree, oracle, globals := gl, inherited := file.inherited, shorthands := file.shorthands,
                     locAttr := la, varAttr := va, matchAttr := ma }
  let r0 : LSt := { locals := [[]], thunks := [], cells := [], edgeQ := [], attrQ := [], printQ := [], prevDbg := [] }
  let s0 : Prog.MSt LSt := { graph := g0, rest := r0, ps := { polls := 0, cancelAt } }
  have hnf : LazyForcing.NF s0 := by intro n hn; simp [LazyForcing.Forcing, s0, r0] at hn
  cases hr : Prog.run (Lazy.execMergedL cfg fuel ef file.stanzas merged >>= fun _ => Lazy.evaluatePhase cfg ef) s0 with
  | ok u s1 =>
    have : (Prog.toResult (Prog.run (Lazy.execMergedL cfg fuel ef file.stanzas merged >>= fun _ => Lazy.evaluatePhase cfg ef) s0)).outcome = some (.err e) := h
    rw [hr] at this
    simp [Prog.toResult] at this
  | fail f s1 =>
    have : (Prog.toResult (Prog.run (Lazy.execMergedL cfg fuel ef file.stanzas merged >>= fun _ => Lazy.evaluatePhase cfg ef) s0)).outcome = some (.err e) := h
    rw [hr] at this
    simp only [Prog.toResult, Option.some.injEq] at this
    subst this
    exact C20_lazy_errors_contexted cfg fuel ef file.stanzas merged hfull s0 s1 e hnf hr

end C20
