/-
  Executable forms of the contracts under which the interpreters are proved panic-free (what tree-sitter and the caller
  guarantee about the inputs of a run). The driver evaluates them on every request, so that the evidence records on how
  many executed cases the hypotheses of the theorems actually held.
-/
import Tsg.Sem.Lazy

namespace Contracts

mutual
def wfB (n : Nat) : Val → Bool
  | .gnode i => decide (i < n)
  | .list vs => wfsB n vs
  | .set vs => wfsB n vs
  | _ => true
def wfsB (n : Nat) : List Val → Bool
  | [] => true
  | v :: r => wfB n v && wfsB n r
end

/-- every node's byte range can be sliced out of the source -/
def treeOKB (t : Tree) : Bool :=
  t.nodes.toList.all fun nd => (Tree.sliceBytes t.source nd.startByte nd.endByte).isSome

/-- the caller's graph-node globals are nodes of the initial graph -/
def globalsWfB (n : Nat) (g : GlobalsM) : Bool := g.all fun l => l.all fun e => wfB n e.2

/-- a match respects the quantifiers of the stanza's captures and has its full-match node in the tree -/
def matchOKB (tree : Tree) (st : Stanza) (m : QMatch) : Bool :=
  (st.captures.all fun c => c.2 != .zero) &&
  (match m.nodes fullMatchName with
   | n :: _ => (tree.node? n).isSome
   | [] => true)

def mergedOKB (tree : Tree) (stanzas : List Stanza) (m : QMatch) : Bool :=
  match stanzas[m.patternIx]? with
  | some st => matchOKB tree st m
  | none => false

def strictMatchesOKB (tree : Tree) (stanzas : List Stanza) (ms : List (List QMatch)) : Bool :=
  (stanzas.zip ms).all fun p => p.2.all fun m => matchOKB tree p.1 m

def mergedAllOKB (tree : Tree) (stanzas : List Stanza) (merged : List QMatch) : Bool :=
  merged.all fun m => mergedOKB tree stanzas m

end Contracts
