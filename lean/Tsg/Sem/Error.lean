/-
  Error kinds: the variants of `ExecutionError` (src/execution/error.rs:19-76) without their
  free-text payload, plus the outcomes the Rust type system does not show: a panic at a named
  site, and a request to the harness for an oracle answer the table does not contain.
-/
import Tsg.Base.Value

/-- variants of `ExecutionError` other than `InContext` -/
inductive EK where
  | cancelled
  | cannotAssignImmutableVariable
  | cannotAssignScopedVariable
  | cannotDefineMutableScopedVariable
  | duplicateAttribute
  | duplicateEdge
  | duplicateVariable
  | expectedGraphNode
  | expectedList
  | expectedBoolean
  | expectedInteger
  | expectedString
  | expectedSyntaxNode
  | invalidParameters
  | invalidVariableScope
  | missingGlobalVariable
  | recursivelyDefinedScopedVariable
  | recursivelyDefinedVariable
  | undefinedCapture
  | undefinedFunction
  | undefinedRegexCapture
  | undefinedScopedVariable
  | emptyRegexCapture
  | undefinedEdge
  | undefinedVariable
  | variableScopesAlreadyForced
  | functionFailed
  deriving Repr, DecidableEq, Inhabited

namespace EK
def name : EK → String
  | cancelled => "Cancelled"
  | cannotAssignImmutableVariable => "CannotAssignImmutableVariable"
  | cannotAssignScopedVariable => "CannotAssignScopedVariable"
  | cannotDefineMutableScopedVariable => "CannotDefineMutableScopedVariable"
  | duplicateAttribute => "DuplicateAttribute"
  | duplicateEdge => "DuplicateEdge"
  | duplicateVariable => "DuplicateVariable"
  | expectedGraphNode => "ExpectedGraphNode"
  | expectedList => "ExpectedList"
  | expectedBoolean => "ExpectedBoolean"
  | expectedInteger => "ExpectedInteger"
  | expectedString => "ExpectedString"
  | expectedSyntaxNode => "ExpectedSyntaxNode"
  | invalidParameters => "InvalidParameters"
  | invalidVariableScope => "InvalidVariableScope"
  | missingGlobalVariable => "MissingGlobalVariable"
  | recursivelyDefinedScopedVariable => "RecursivelyDefinedScopedVariable"
  | recursivelyDefinedVariable => "RecursivelyDefinedVariable"
  | undefinedCapture => "UndefinedCapture"
  | undefinedFunction => "UndefinedFunction"
  | undefinedRegexCapture => "UndefinedRegexCapture"
  | undefinedScopedVariable => "UndefinedScopedVariable"
  | emptyRegexCapture => "EmptyRegexCapture"
  | undefinedEdge => "UndefinedEdge"
  | undefinedVariable => "UndefinedVariable"
  | variableScopesAlreadyForced => "VariableScopesAlreadyForced"
  | functionFailed => "FunctionFailed"
end EK

/-- a question for an external library that the supplied oracle table does not answer -/
inductive Need where
  | regexAt (pattern subject : String) (offset : Nat)
  | replaceAll (pattern text replacement : String)
  deriving Repr, DecidableEq, Inhabited

/-- result of `Regex::captures(&subject[offset..])`: group-0 span relative to the suffix, and the
text of every group (index 0 first; `none` = group did not participate) -/
structure RMatch where
  start : Nat
  stop : Nat
  groups : List (Option String)
  deriving Repr, DecidableEq, Inhabited

/-- the `regex` crate as a parameter. Outer `none` = not in the table (the driver answers NEED). -/
structure Oracle where
  regexAt : String → String → Nat → Option (Option RMatch)
  /-- inner `none` = the pattern does not compile -/
  replaceAll : String → String → String → Option (Option String)

instance : Inhabited Oracle := ⟨⟨fun _ _ _ => none, fun _ _ _ => none⟩⟩
