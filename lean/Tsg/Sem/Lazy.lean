/-
  Model of lazy execution (src/execution/lazy.rs, lazy/values.rs, lazy/store.rs,
  lazy/statements.rs), code-shaped: the execute phase builds lazy values, a thunk store, the
  scoped-variable store and three statement queues; the evaluate phase runs edges, then
  attributes, then prints, then forces every thunk and every scoped variable.

  Forcing (`evalL`) has no syntactic measure (thunks refer to thunks); it takes fuel `ef`.
-/
import Tsg.Sem.Strict

/-- `LazyValue` (lazy/values.rs:27-34) -/
inductive LVal where
  | value (v : Val)
  | list (es : List LVal)
  | set (es : List LVal)
  | var (loc : Nat)
  | scopedVar (scope : LVal) (name : String)
  | call (fn : String) (args : List LVal)
  deriving Repr, Inhabited

/-- `ThunkState` -/
inductive ThunkState where
  | unforced (v : LVal)
  | forcing
  | forced (v : Val)
  deriving Repr, Inhabited

structure LThunk where
  state : ThunkState
  dbg : StmtCtx
  deriving Repr, Inhabited

/-- `ScopedValues` -/
inductive ScopedCell where
  | unforced (pairs : List (LVal × LVal × StmtCtx))
  | forcing
  | forced (map : List (Nat × LVal))
  deriving Repr, Inhabited

/-- `LazyStatement` -/
inductive LStmt where
  | attrNode (node : LVal) (attrs : List (String × LVal)) (dbg : StmtCtx)
  | createEdge (src sink : LVal) (attrs : Attrs) (dbg : StmtCtx)
  | attrEdge (src sink : LVal) (attrs : List (String × LVal)) (dbg : StmtCtx)
  | print (args : List (Option LVal)) (dbg : StmtCtx)
  deriving Repr, Inhabited

/-- `GraphElementKey` -/
inductive ElemKey where
  | nodeAttr (n : Nat) (name : String)
  | edgeAttr (s t : Nat) (name : String)
  deriving Repr, DecidableEq, Inhabited

/-- private state of a lazy run (the graph and the poll counter live in `Prog.MSt`) -/
structure LSt where
  locals : Frames LVal
  thunks : List LThunk
  /-- `LazyScopedVariables.variables`, keyed by variable name -/
  cells : List (String × ScopedCell)
  edgeQ : List LStmt
  attrQ : List LStmt
  printQ : List LStmt
  prevDbg : List (ElemKey × StmtCtx)
  deriving Inhabited

abbrev LM := Prog LSt

namespace Lazy
open Prog (pollP failP throwK panicAt gopP primP withContext getR modifyR ofExcept ofExceptF)

def setThunk (s : LSt) (loc : Nat) (st : ThunkState) : LSt :=
  match s.thunks[loc]? with
  | some t => { s with thunks := s.thunks.set loc { t with state := st } }
  | none => s

def setCell (s : LSt) (name : String) (c : ScopedCell) : LSt :=
  if (s.cells.lookup name).isSome then
    { s with cells := s.cells.map fun e => if e.1 = name then (name, c) else e }
  else { s with cells := s.cells ++ [(name, c)] }

/-- `LazyStore::add` -/
def storeAdd (v : LVal) (dbg : StmtCtx) : LM LVal := primP fun s =>
  (.ok (.var s.thunks.length), { s with thunks := s.thunks ++ [{ state := .unforced v, dbg }] })

def callFnL (cfg : Cfg) (name : String) (args : List Val) : LM Val := Strict.callFn cfg name args

def asGraphNodeL : Val → LM Nat
  | .gnode i => pure i
  | _ => throwK .expectedGraphNode

def asSyntaxNodeL : Val → LM Nat
  | .syn i => pure i
  | _ => throwK .expectedSyntaxNode

mutual

/-- `LazyValue::evaluate` -/
def evalL (cfg : Cfg) (ef : Nat) (lv : LVal) : LM Val :=
  match ef with
  | 0 => failP .outOfFuel
  | ef' + 1 => do
    pollP "evaluating value"
    match lv with
    | .value v => pure v
    | .list es => do
      let vs ← evalLs cfg ef' es
      pure (.list vs)
    | .set es => do
      let vs ← evalLs cfg ef' es
      pure (.set (Val.setOfList vs))
    | .var loc => forceThunk cfg ef' loc
    | .scopedVar scope name => do
      let sv ← withContext (.other "Evaluating scope of variable") (do
        let v ← evalL cfg ef' scope
        asSyntaxNodeL v)
      let target ← resolveScoped cfg ef' sv name
      evalL cfg ef' target
    | .call fn args => do
      let vs ← evalLs cfg ef' args
      callFnL cfg fn vs
termination_by (ef, 0, 0)

def evalLs (cfg : Cfg) (ef : Nat) (es : List LVal) : LM (List Val) :=
  match es with
  | [] => pure []
  | e :: rest => do
    let v ← evalL cfg ef e
    let vs ← evalLs cfg ef rest
    pure (v :: vs)
termination_by (ef, 1, es.length + 1)

/-- `LazyStore::evaluate` + `Thunk::force` (store.rs:76-85, 275-292): a failed force leaves the
thunk in state `Forcing` -/
def forceThunk (cfg : Cfg) (ef : Nat) (loc : Nat) : LM Val := do
  let s ← getR
  match s.thunks[loc]? with
  | none => panicAt "store index"
  | some t =>
    withContext (.stmt [t.dbg]) (do
      modifyR fun s => setThunk s loc .forcing
      match t.state with
      | .unforced lv => do
        let v ← evalL cfg ef lv
        modifyR fun s => setThunk s loc (.forced v)
        pure v
      | .forced v => do
        modifyR fun s => setThunk s loc (.forced v)
        pure v
      | .forcing => throwK .recursivelyDefinedVariable)
termination_by (ef, 1, 0)

/-- `LazyScopedVariables::force` on `Unforced(pairs)` -/
def forcePairs (cfg : Cfg) (ef : Nat) (name : String) (pairs : List (LVal × LVal × StmtCtx))
    (acc : List (Nat × LVal)) (dbgs : List (Nat × StmtCtx)) : LM (List (Nat × LVal)) :=
  match pairs with
  | [] => pure acc
  | (scope, value, dbg) :: rest => do
    let node ← withContext (.stmt [dbg]) (withContext (.other "Evaluating scope of variable") (do
      let v ← evalL cfg ef scope
      asSyntaxNodeL v))
    match dbgs.lookup node with
    | some prev => withContext (.stmt [prev, dbg]) (throwK .duplicateVariable)
    | none => forcePairs cfg ef name rest (acc ++ [(node, value)]) (dbgs ++ [(node, dbg)])
termination_by (ef, 1, pairs.length + 1)

/-- forces the cell of `name` and leaves it `Forced` (on failure it stays `Forcing`) -/
def forceCell (cfg : Cfg) (ef : Nat) (name : String) (cell : ScopedCell) : LM (List (Nat × LVal)) := do
  modifyR fun s => setCell s name .forcing
  match cell with
  | .unforced pairs => forcePairs cfg ef name pairs [] []
  | .forcing => throwK .recursivelyDefinedScopedVariable
  | .forced map => pure map
termination_by (ef, 2, 0)

/-- `LazyScopedVariables::evaluate` (store.rs:138-177) -/
def resolveScoped (cfg : Cfg) (ef : Nat) (node : Nat) (name : String) : LM LVal := do
  let s ← getR
  match s.cells.lookup name with
  | none => throwK .undefinedScopedVariable
  | some cell => do
    let map ← forceCell cfg ef name cell
    modifyR fun s => setCell s name (.forced map)
    match map.lookup node with
    | some v => pure v
    | none =>
      if cfg.inherited.contains name then
        match (cfg.tree.ancestors node).findSome? fun a => map.lookup a with
        | some v => pure v
        | none => throwK .undefinedScopedVariable
      else throwK .undefinedScopedVariable
termination_by (ef, 3, 0)

end


/-! ### execute phase (lazy.rs:227-876) -/

def pushFrameL : LM Unit := modifyR fun s => { s with locals := s.locals.push }
def popFrameL : LM Unit := modifyR fun s => { s with locals := s.locals.pop }
def clearFrameL : LM Unit := modifyR fun s => { s with locals := s.locals.clear }

/-- `UnscopedVariable::evaluate_lazy` -/
def unscopedGetL (cfg : Cfg) (name : String) : LM LVal := primP fun s =>
  match cfg.globals.get name with
  | some v => (.ok (.value v), s)
  | none =>
    match s.locals.get name with
    | some lv => (.ok lv, s)
    | none => (.error (.err (.base .undefinedVariable "")), s)

/-- `locals.add(name, variable, mutable)` -/
def localsAddL (name : String) (var : LVal) (mutable : Bool) : LM Unit := primP fun s =>
  match s.locals.add name var mutable with
  | .ok l => (.ok (), { s with locals := l })
  | .error _ => (.error (.err (.base .duplicateVariable "")), s)

/-- `locals.set(name, variable)` with the error mapping of `set_lazy` -/
def localsSetL (name : String) (var : LVal) : LM Unit := primP fun s =>
  match s.locals.set name var with
  | .ok l => (.ok (), { s with locals := l })
  | .error _ =>
    if (s.locals.get name).isSome then (.error (.err (.base .cannotAssignImmutableVariable "")), s)
    else (.error (.err (.base .undefinedVariable "")), s)

/-- `UnscopedVariable::add_lazy` -/
def unscopedAddL (cfg : Cfg) (ctx : StmtCtx) (name : String) (v : LVal) (mutable : Bool) : LM Unit :=
  match cfg.globals.get name with
  | some _ => throwK .duplicateVariable
  | none => do
    let var ← storeAdd v ctx
    localsAddL name var mutable

/-- `UnscopedVariable::set_lazy` -/
def unscopedSetL (cfg : Cfg) (ctx : StmtCtx) (name : String) (v : LVal) : LM Unit :=
  match cfg.globals.get name with
  | some _ => throwK .cannotAssignImmutableVariable
  | none => do
    let var ← storeAdd v ctx
    localsSetL name var

/-- `LazyScopedVariables::add` (store.rs:108-136) -/
def cellAdd (scope : LVal) (name : String) (value : LVal) (dbg : StmtCtx) : LM Unit := primP fun s =>
  match s.cells.lookup name with
  | none => (.ok (), setCell s name (.unforced [(scope, value, dbg)]))
  | some (.unforced pairs) => (.ok (), setCell s name (.unforced (pairs ++ [(scope, value, dbg)])))
  | some .forcing => (.error (.err (.base .recursivelyDefinedScopedVariable "")), s)
  | some (.forced _) => (.error (.err (.base .variableScopesAlreadyForced "")), s)

/-- how the statements of a block are wrapped (lazy.rs: top level and scan arms wrap, `if`/`for`
bodies only update the context) -/
inductive LBlockKind where
  | top
  | scanArm (what : String)
  | bare
  deriving Repr, Inhabited

def pushStmt (st : LStmt) : LM Unit := modifyR fun s =>
  match st with
  | .attrNode .. => { s with attrQ := s.attrQ ++ [st] }
  | .createEdge .. => { s with edgeQ := s.edgeQ ++ [st] }
  | .attrEdge .. => { s with attrQ := s.attrQ ++ [st] }
  | .print .. => { s with printQ := s.printQ ++ [st] }

mutual

/-- `Expression::evaluate_lazy` -/
def lazyExpr (cfg : Cfg) (fuel ef : Nat) (env : Env) (e : Expr) : LM LVal :=
  match e with
  | .falseLit => pure (.value (.bool false))
  | .nullLit => pure (.value .null)
  | .trueLit => pure (.value (.bool true))
  | .int n => pure (.value (.int n))
  | .str s => pure (.value (.str s))
  | .list es => do
    let vs ← lazyExprs cfg fuel ef env es
    pure (.list vs)
  | .set es => do
    let vs ← lazyExprs cfg fuel ef env es
    pure (.set vs)
  | .listComp elem var _ value _ => do
    let lv ← lazyExpr cfg fuel ef env value
    let v ← evalL cfg ef lv
    let vals ← ofExcept (Stdlib.asList v)
    pushFrameL
    let out ← lazyComp cfg fuel ef env elem var vals
    popFrameL
    pure (.list out)
  | .setComp elem var _ value _ => do
    let lv ← lazyExpr cfg fuel ef env value
    let v ← evalL cfg ef lv
    let vals ← ofExcept (Stdlib.asList v)
    pushFrameL
    let out ← lazyComp cfg fuel ef env elem var vals
    popFrameL
    pure (.set out)
  | .capture name q _ _ _ =>
    match q with
    | .zero => throwK .undefinedCapture   -- not resolved by the checker (shorthand bodies); repaired: was unreachable!()
    | _ =>
      match env.quants.lookup name with
      | some q' => do
        let v ← Strict.fromNodes q' (env.mat.nodes name)
        pure (.value v)
      | none => panicAt "capture:unresolved"
  | .var name _ => unscopedGetL cfg name
  | .scopedVar scope name _ => do
    let sv ← lazyExpr cfg fuel ef env scope
    pure (.scopedVar sv name)
  | .call fn args => do
    let vs ← lazyExprs cfg fuel ef env args
    pure (.call fn vs)
  | .regexCap ix =>
    match env.caps[ix]? with
    | some s => pure (.value (.str s))
    | none => throwK .undefinedRegexCapture
termination_by (fuel, sizeOf e, 0)

def lazyExprs (cfg : Cfg) (fuel ef : Nat) (env : Env) (es : List Expr) : LM (List LVal) :=
  match es with
  | [] => pure []
  | e :: rest => do
    let v ← lazyExpr cfg fuel ef env e
    let vs ← lazyExprs cfg fuel ef env rest
    pure (v :: vs)
termination_by (fuel, sizeOf es, 0)

def lazyComp (cfg : Cfg) (fuel ef : Nat) (env : Env) (elem : Expr) (var : String) (vals : List Val) : LM (List LVal) :=
  match vals with
  | [] => pure []
  | v :: rest => do
    clearFrameL
    unscopedAddL cfg env.ctx var (.value v) false
    let x ← lazyExpr cfg fuel ef env elem
    let xs ← lazyComp cfg fuel ef env elem var rest
    pure (x :: xs)
termination_by (fuel, sizeOf elem, vals.length + 1)

end

/-- `Expression::evaluate_eager` (lazy.rs:546-560) -/
def eagerExpr (cfg : Cfg) (fuel ef : Nat) (env : Env) (e : Expr) : LM Val := do
  let lv ← lazyExpr cfg fuel ef env e
  evalL cfg ef lv

/-- `Variable::add_lazy` -/
def varAddL (cfg : Cfg) (fuel ef : Nat) (env : Env) (v : Var) (value : LVal) (mutable : Bool) : LM Unit :=
  match v with
  | .unscoped name _ => unscopedAddL cfg env.ctx name value mutable
  | .scopedV scope name _ =>
    if mutable then throwK .cannotDefineMutableScopedVariable
    else do
      let sv ← lazyExpr cfg fuel ef env scope
      let var ← storeAdd value env.ctx
      cellAdd sv name var env.ctx

/-- `Variable::set_lazy` -/
def varSetL (cfg : Cfg) (env : Env) (v : Var) (value : LVal) : LM Unit :=
  match v with
  | .unscoped name _ => unscopedSetL cfg env.ctx name value
  | .scopedV _ _ _ => throwK .cannotAssignScopedVariable

/-- `Condition::test_eager` -/
def testCondL (cfg : Cfg) (fuel ef : Nat) (env : Env) : Cond → LM Bool
  | .some e _ => do let v ← eagerExpr cfg fuel ef env e; pure (!v.isNull)
  | .none e _ => do let v ← eagerExpr cfg fuel ef env e; pure v.isNull
  | .bool e _ => do
    let v ← eagerExpr cfg fuel ef env e
    ofExcept (Stdlib.asBool v)

def testCondsL (cfg : Cfg) (fuel ef : Nat) (env : Env) : List Cond → LM Bool
  | [] => pure true
  | c :: rest => do
    let b ← testCondL cfg fuel ef env c
    let bs ← testCondsL cfg fuel ef env rest
    pure (b && bs)

def printArgsL (cfg : Cfg) (fuel ef : Nat) (env : Env) : List Expr → LM (List (Option LVal))
  | [] => pure []
  | .str _ :: rest => do
    let xs ← printArgsL cfg fuel ef env rest
    pure (none :: xs)
  | e :: rest => do
    let lv ← lazyExpr cfg fuel ef env e
    let xs ← printArgsL cfg fuel ef env rest
    pure (some lv :: xs)

/-- `Attribute::execute_lazy` / `AttributeShorthand::execute_lazy`: collects lazy attributes -/
def lazyAttrs (cfg : Cfg) (fuel ef : Nat) (env : Env) (attrs : List AttrE) (acc : List (String × LVal)) :
    LM (List (String × LVal)) :=
  match attrs with
  | [] => pure acc
  | (name, e) :: rest => do
    pollP "executing attribute"
    let v ← lazyExpr cfg fuel ef env e
    match Strict.findShorthand cfg name with
    | some sh =>
      match fuel with
      | 0 => failP .outOfFuel
      | fuel' + 1 => do
        let saved ← getR
        modifyR fun s => { s with locals := [[]] }
        unscopedAddL cfg env.ctx sh.var v false
        let acc' ← lazyAttrs cfg fuel' ef env sh.attrs acc
        modifyR fun s => { s with locals := saved.locals }
        lazyAttrs cfg (fuel' + 1) ef env rest acc'
    | none => lazyAttrs cfg fuel ef env rest (acc ++ [(name, v)])
termination_by (fuel, sizeOf attrs)
decreasing_by
  all_goals simp_wf
  · apply Prod.Lex.left; omega
  · apply Prod.Lex.right; simp; omega
  · apply Prod.Lex.right; simp; omega

mutual

/-- `Statement::execute_lazy` -/
def lazyStmt (cfg : Cfg) (fuel ef : Nat) (env : Env) (st : Stmt) : LM Unit := do
  pollP "executing statement"
  match st with
  | .declImm v e _ => do
    let value ← lazyExpr cfg fuel ef env e
    varAddL cfg fuel ef env v value false
  | .declMut v e _ => do
    let value ← lazyExpr cfg fuel ef env e
    varAddL cfg fuel ef env v value true
  | .assign v e _ => do
    let value ← lazyExpr cfg fuel ef env e
    varSetL cfg env v value
  | .createNode v _ => do
    let n ← gopP .addNode
    match cfg.varAttr with
    | some a => Strict.addDebugNodeAttr n a (.str v.display)
    | none => pure ()
    match cfg.locAttr with
    | some a => Strict.addDebugNodeAttr n a (.str (Strict.locString v.loc))
    | none => pure ()
    match cfg.matchAttr with
    | some a => do
      match env.mat.nodes fullMatchName with
      | m :: _ => Strict.addDebugNodeAttr n a (.syn m)
      | [] => throwK .undefinedCapture
    | none => pure ()
    varAddL cfg fuel ef env v (.value (.gnode n)) false
  | .attrNode ne attrs _ => do
    let node ← lazyExpr cfg fuel ef env ne
    let as ← lazyAttrs cfg fuel ef env attrs []
    pushStmt (.attrNode node as env.ctx)
  | .createEdge a b loc => do
    let src ← lazyExpr cfg fuel ef env a
    let sink ← lazyExpr cfg fuel ef env b
    let attrs : Attrs := match cfg.locAttr with
      | some la => [(la, .str (Strict.locString loc))]
      | none => []
    pushStmt (.createEdge src sink attrs env.ctx)
  | .attrEdge a b attrs _ => do
    let src ← lazyExpr cfg fuel ef env a
    let sink ← lazyExpr cfg fuel ef env b
    let as ← lazyAttrs cfg fuel ef env attrs []
    pushStmt (.attrEdge src sink as env.ctx)
  | .scan e arms _ => do
    let v ← eagerExpr cfg fuel ef env e
    let subject ← ofExcept (Stdlib.asStr v)
    lazyScanLoop cfg fuel ef env arms subject 0
  | .print es _ => do
    let args ← printArgsL cfg fuel ef env es
    pushStmt (.print args env.ctx)
  | .ifS arms _ => lazyIfArms cfg fuel ef env arms
  | .forIn var _ e body _ => do
    let v ← eagerExpr cfg fuel ef env e
    let vals ← ofExcept (Stdlib.asList v)
    pushFrameL
    lazyFor cfg fuel ef env var body vals
    popFrameL
termination_by (fuel, sizeOf st, 0)

def lazyBlock (cfg : Cfg) (fuel ef : Nat) (env : Env) (kind : LBlockKind) (ss : List Stmt) : LM Unit :=
  match ss with
  | [] => pure ()
  | st :: rest => do
    let ctx' := { env.ctx with stmtLoc := st.loc }
    let env' := { env with ctx := ctx' }
    match kind with
    | .top => withContext (.stmt [ctx']) (lazyStmt cfg fuel ef env' st)
    | .scanArm what => withContext (.stmt [ctx']) (withContext (.other what) (lazyStmt cfg fuel ef env' st))
    | .bare => lazyStmt cfg fuel ef env' st
    lazyBlock cfg fuel ef env' kind rest
termination_by (fuel, sizeOf ss, 0)

def lazyIfArms (cfg : Cfg) (fuel ef : Nat) (env : Env) (arms : List (List Cond × List Stmt × Loc)) : LM Unit :=
  match arms with
  | [] => pure ()
  | (conds, body, _) :: rest => do
    let ok ← testCondsL cfg fuel ef env conds
    if ok then do
      pushFrameL
      lazyBlock cfg fuel ef env .bare body
      popFrameL
    else lazyIfArms cfg fuel ef env rest
termination_by (fuel, sizeOf arms, 0)

def lazyFor (cfg : Cfg) (fuel ef : Nat) (env : Env) (var : String) (body : List Stmt) (vals : List Val) : LM Unit :=
  match vals with
  | [] => pure ()
  | v :: rest => do
    clearFrameL
    unscopedAddL cfg env.ctx var (.value v) false
    lazyBlock cfg fuel ef env .bare body
    lazyFor cfg fuel ef env var body rest
termination_by (fuel, sizeOf body, vals.length + 1)

/-- per-arm matches with a poll before each arm (lazy.rs:344-361) -/
def lazyScanCollect (o : Oracle) (subject : String) (i : Nat) :
    List (String × List Stmt × Loc) → Nat → LM (List (RMatch × Nat))
  | [], _ => pure []
  | (re, _, _) :: rest, idx => do
    pollP "processing scan matches"
    match o.regexAt re subject i with
    | none => failP (.need (.regexAt re subject i))
    | some none => lazyScanCollect o subject i rest (idx + 1)
    | some (some m) =>
      if m.stop ≤ m.start then throwK .emptyRegexCapture
      else do
        let ms ← lazyScanCollect o subject i rest (idx + 1)
        pure ((m, idx) :: ms)

def lazyScanLoop (cfg : Cfg) (fuel ef : Nat) (env : Env) (arms : List (String × List Stmt × Loc))
    (subject : String) (i : Nat) : LM Unit :=
  if h : i < subject.utf8ByteSize then do
    let ms ← lazyScanCollect cfg.oracle subject i arms 0
    match Strict.scanBest ms with
    | none => pure ()
    | some (m, k) =>
      if hk : (arms[k]?).isSome then
        if hm : 0 < m.stop then do
          have : sizeOf (Strict.armBody arms k) < sizeOf arms := Strict.armBody_lt arms k hk
          pushFrameL
          lazyBlock cfg fuel ef { env with caps := Strict.capsOf m } (.scanArm (Strict.armRegex arms k)) (Strict.armBody arms k)
          popFrameL
          lazyScanLoop cfg fuel ef env arms subject (i + m.stop)
        else throwK .emptyRegexCapture
      else panicAt "scan:arm index"
  else pure ()
termination_by (fuel, sizeOf arms, subject.utf8ByteSize - i + 1)

end

/-- `Stanza::execute_lazy` for one match (lazy.rs:174-224) -/
def execMatchL (cfg : Cfg) (fuel ef : Nat) (st : Stanza) (m : QMatch) : LM Unit := do
  modifyR fun s => { s with locals := s.locals.clear }
  let env0 : Env := { caps := [], mat := m, quants := st.captures, ctx := default }
  match m.nodes fullMatchName with
  | [] => throwK .undefinedCapture
  | node :: _ =>
    match cfg.tree.node? node with
    | none => panicAt "tree:node"
    | some tn =>
      let ctx : StmtCtx := { stmtLoc := default, stanzaLoc := st.rangeStart,
                             srcLoc := { row := tn.startRow, col := tn.startCol }, nodeKind := tn.kind }
      lazyBlock cfg fuel ef { env0 with ctx := ctx } .top st.stmts

/-- one match of the merged query (lazy.rs:75-92, 126-128): `pattern_index` selects the stanza, a poll, the block -/
def lazyBlockOf (cfg : Cfg) (fuel ef : Nat) (stanzas : List Stanza) (m : QMatch) : LM Unit :=
  match stanzas[m.patternIx]? with
  | none => panicAt "stanza index"
  | some st => do
    pollP "processing matches"
    execMatchL cfg fuel ef st m

/-- the merged-query driver (lazy.rs:114-131) -/
def execMergedL (cfg : Cfg) (fuel ef : Nat) (stanzas : List Stanza) : List QMatch → LM Unit
  | [] => pure ()
  | m :: rest => do
    lazyBlockOf cfg fuel ef stanzas m
    execMergedL cfg fuel ef stanzas rest

/-! ### evaluate phase (lazy/statements.rs) -/

def recordPrev (key : ElemKey) (dbg : StmtCtx) : LM (Option StmtCtx) := primP fun s =>
  let prev := s.prevDbg.lookup key
  let rest := s.prevDbg.filter (·.1 ≠ key)
  (.ok prev, { s with prevDbg := rest ++ [(key, dbg)] })

/-- the failure of a conflicting attribute found during lazy evaluation: it names both statements,
or only the current one when the earlier value was not set by a statement of this execution -/
def conflictFail (prev : Option StmtCtx) (dbg : StmtCtx) : Fail :=
  match prev with
  | none => .err (.inCtx (.stmt [dbg]) (.base .duplicateAttribute ""))
  | some p => .err (.inCtx (.stmt [p, dbg]) (.base .duplicateAttribute ""))

def evalNodeAttrs (cfg : Cfg) (ef : Nat) (node : Nat) (dbg : StmtCtx) : List (String × LVal) → LM Unit
  | [] => pure ()
  | (name, lv) :: rest => do
    let v ← evalL cfg ef lv
    let prev ← recordPrev (.nodeAttr node name) dbg
    let r ← gopP (.addNodeAttr node name v (conflictFail prev dbg))
    match r with
    | none => panicAt "graph index"
    | some () => evalNodeAttrs cfg ef node dbg rest

def evalEdgeAttrs (cfg : Cfg) (ef : Nat) (src sink : Nat) (dbg : StmtCtx) : List (String × LVal) → LM Unit
  | [] => pure ()
  | (name, lv) :: rest => do
    let v ← evalL cfg ef lv
    let g ← gopP .read
    match g.getEdge src sink with
    | none =>
      if (g.node? src).isNone then panicAt "graph index" else throwK .undefinedEdge
    | some _ => do
      let prev ← recordPrev (.edgeAttr src sink name) dbg
      let r ← gopP (.addEdgeAttr src sink name v (conflictFail prev dbg))
      match r with
      | some (some ()) => evalEdgeAttrs cfg ef src sink dbg rest
      | _ => panicAt "graph index"

def evalPrintL (cfg : Cfg) (ef : Nat) : List (Option LVal) → LM Unit
  | [] => pure ()
  | none :: rest => evalPrintL cfg ef rest
  | some lv :: rest => do
    let _ ← evalL cfg ef lv
    evalPrintL cfg ef rest

/-- `LazyStatement::evaluate` -/
def evalLStmt (cfg : Cfg) (ef : Nat) (st : LStmt) : LM Unit := do
  pollP "evaluating statement"
  match st with
  | .attrNode node attrs dbg =>
    withContext (.stmt [dbg]) (do
      let n ← withContext (.other "Evaluating target node") (do
        let v ← evalL cfg ef node
        asGraphNodeL v)
      evalNodeAttrs cfg ef n dbg attrs)
  | .createEdge src sink attrs dbg =>
    withContext (.stmt [dbg]) (do
      let a ← withContext (.other "Evaluating edge source") (do
        let v ← evalL cfg ef src
        asGraphNodeL v)
      let b ← withContext (.other "Evaluating edge sink") (do
        let v ← evalL cfg ef sink
        asGraphNodeL v)
      let r ← gopP (.addEdge a b attrs)
      match r with
      | none => panicAt "graph index"
      | some _ => pure ())
  | .attrEdge src sink attrs dbg =>
    withContext (.stmt [dbg]) (do
      let a ← withContext (.other "Evaluating edge source") (do
        let v ← evalL cfg ef src
        asGraphNodeL v)
      let b ← withContext (.other "Evaluating edge sink") (do
        let v ← evalL cfg ef sink
        asGraphNodeL v)
      evalEdgeAttrs cfg ef a b dbg attrs)
  | .print args dbg => withContext (.stmt [dbg]) (evalPrintL cfg ef args)

def evalQueue (cfg : Cfg) (ef : Nat) : List LStmt → LM Unit
  | [] => pure ()
  | st :: rest => do
    evalLStmt cfg ef st
    evalQueue cfg ef rest

/-- `LazyStore::evaluate_all`: thunks in store order -/
def forceAllThunks (cfg : Cfg) (ef : Nat) : Nat → Nat → LM Unit
  | 0, _ => pure ()
  | n + 1, i => do
    let _ ← forceThunk cfg ef i
    forceAllThunks cfg ef n (i + 1)

/-- `LazyScopedVariables::evaluate_all`: names in ascending order (after the determinism fix) -/
def forceAllCells (cfg : Cfg) (ef : Nat) : List String → LM Unit
  | [] => pure ()
  | name :: rest => do
    let s ← getR
    match s.cells.lookup name with
    | none => pure ()
    | some cell => do
      let map ← forceCell cfg ef name cell
      modifyR fun s => setCell s name (.forced map)
    forceAllCells cfg ef rest

/-- `LazyGraph::evaluate` then the two `evaluate_all` (lazy.rs:94-109) -/
def evaluatePhase (cfg : Cfg) (ef : Nat) : LM Unit := do
  let s ← getR
  evalQueue cfg ef s.edgeQ
  evalQueue cfg ef s.attrQ
  evalQueue cfg ef s.printQ
  let s ← getR
  forceAllThunks cfg ef s.thunks.length 0
  let s ← getR
  forceAllCells cfg ef ((s.cells.map (·.1)).mergeSort (fun a b => decide (a ≤ b)))

end Lazy

/-- `File::execute_lazy_into` -/
def Lazy.run (file : File) (tree : Tree) (oracle : Oracle) (callerGlobals : GlobalsM)
    (locAttr varAttr matchAttr : Option String) (cancelAt : Option Nat) (fuel ef : Nat)
    (merged : List QMatch) (g0 : CGraph) : RunResult :=
  match checkGlobals file.globals callerGlobals.nested with
  | .error k => { outcome := some (.err (.base k "")), graph := g0, polls := 0 }
  | .ok globals =>
    let cfg : Cfg := { tree, oracle, globals, inherited := file.inherited, shorthands := file.shorthands,
                       locAttr, varAttr, matchAttr }
    let r0 : LSt := { locals := [[]], thunks := [], cells := [], edgeQ := [], attrQ := [], printQ := [], prevDbg := [] }
    let s0 : Prog.MSt LSt := { graph := g0, rest := r0, ps := { polls := 0, cancelAt := cancelAt } }
    let prog : LM Unit := do
      Lazy.execMergedL cfg fuel ef file.stanzas merged
      Lazy.evaluatePhase cfg ef
    Prog.toResult (Prog.run prog s0)
