/-
  The execution monad shared by the strict and lazy interpreter models: state + failure,
  with the cancellation poll counter (`Sem/Poll`) and the error-context algebra (`Sem/Ctx`,
  src/execution/error.rs:160-180).
-/
import Tsg.Sem.Error
import Tsg.Syntax.Ast

/-- `StatementContext` without the rendered statement text -/
structure StmtCtx where
  stmtLoc : Loc
  stanzaLoc : Loc
  srcLoc : Loc
  nodeKind : String
  deriving Repr, DecidableEq, Inhabited

/-- `execution::error::Context` -/
inductive Ctx where
  | stmt (cs : List StmtCtx)
  | other (what : String)
  deriving Repr, DecidableEq, Inhabited

/-- `ExecutionError`: a variant (with the cancellation label, if any) under a chain of contexts -/
inductive XErr where
  | base (k : EK) (label : String)
  | inCtx (c : Ctx) (cause : XErr)
  deriving Repr, DecidableEq, Inhabited

inductive Fail where
  | err (e : XErr)
  | panic (site : String)
  | need (q : Need)
  | outOfFuel
  deriving Repr, DecidableEq, Inhabited

namespace XErr
/-- innermost cause -/
def root : XErr → XErr
  | base k l => base k l
  | inCtx _ c => root c
def rootKind : XErr → EK
  | base k _ => k
  | inCtx _ c => rootKind c
end XErr

/-- `ResultWithExecutionError::with_context` on the error value (error.rs:171-178) -/
def XErr.withContext (c : Ctx) : XErr → XErr
  | .base .cancelled l => .base .cancelled l
  | .inCtx (.other w) cause => .inCtx c (.inCtx (.other w) cause)
  | .inCtx (.stmt cs) cause => .inCtx (.stmt cs) cause
  | .base k l => .inCtx c (.base k l)

def Fail.withContext (c : Ctx) : Fail → Fail
  | .err e => .err (e.withContext c)
  | f => f

/-- result of a computation over state `σ` -/
inductive Res (σ α : Type) where
  | ok (a : α) (s : σ)
  | fail (f : Fail) (s : σ)
  deriving Inhabited

/-- state-and-failure monad -/
def ExecM (σ α : Type) := σ → Res σ α

namespace ExecM
variable {σ α β : Type}

@[inline] protected def pure (a : α) : ExecM σ α := fun s => .ok a s

@[inline] protected def bind (m : ExecM σ α) (f : α → ExecM σ β) : ExecM σ β := fun s =>
  match m s with
  | .ok a s' => f a s'
  | .fail e s' => .fail e s'

instance : Monad (ExecM σ) where
  pure := ExecM.pure
  bind := ExecM.bind

@[inline] def fail (f : Fail) : ExecM σ α := fun s => .fail f s
@[inline] def throwK (k : EK) : ExecM σ α := fun s => .fail (.err (.base k "")) s
@[inline] def panicAt (site : String) : ExecM σ α := fun s => .fail (.panic site) s
@[inline] def getSt : ExecM σ σ := fun s => .ok s s
@[inline] def setSt (s : σ) : ExecM σ Unit := fun _ => .ok () s
@[inline] def modifySt (f : σ → σ) : ExecM σ Unit := fun s => .ok () (f s)

/-- `result.with_context(|| c)` -/
@[inline] def withContext (c : Ctx) (m : ExecM σ α) : ExecM σ α := fun s =>
  match m s with
  | .ok a s' => .ok a s'
  | .fail f s' => .fail (f.withContext c) s'

/-- lift an `Except EK` (type coercions of `Value`) -/
@[inline] def ofExcept : Except EK α → ExecM σ α
  | .ok a => ExecM.pure a
  | .error k => throwK k

end ExecM

/-- states that carry the cancellation poll counter -/
class HasPolls (σ : Type) where
  polls : σ → Nat
  setPolls : σ → Nat → σ
  cancelAt : σ → Option Nat

/-- `cancellation_flag.check(label)?`: the flag signals from its `cancelAt`-th poll onwards -/
def poll {σ : Type} [HasPolls σ] (label : String) : ExecM σ Unit := fun s =>
  let n := HasPolls.polls s + 1
  let s' := HasPolls.setPolls s n
  match HasPolls.cancelAt s with
  | some k => if k ≤ n then .fail (.err (.base .cancelled label)) s' else .ok () s'
  | none => .ok () s'
