/-
  Programs over separated effects. The interpreter models (`Strict`, `Lazy`) are written as terms of
  `Prog ρ`: a tree of

    * `poll`   — a cancellation poll (the only operation that sees the poll counter / the flag),
    * `gop`    — an operation on the result graph, from a fixed small set (`GraphOp`),
    * `prim`   — an arbitrary (possibly failing) function on the interpreter's private state `ρ`
                 (locals, scoped variables, thunk store, queues, ...),
    * `ctx`    — `result.with_context(..)` around a sub-computation,
    * `fail` / `pure`.

  `Prog.run` gives the semantics. Because the effects are separated *by typing*, properties such as
  "cancelling at poll k" (C11) or "the graph only grows" (C09) are theorems about `Prog.run t` for
  *every* term `t` — hence for every DSL file, tree, match list and globals — by one induction on
  `t` (Tsg/Proofs/Prog.lean), without an induction over the interpreters.
-/
import Tsg.Base.Graph
import Tsg.Base.Tree
import Tsg.Sem.Monad
import Tsg.Sem.Stdlib

/-- operations on the result graph -/
inductive GraphOp : Type → Type where
  /-- the current graph (read-only) -/
  | read : GraphOp CGraph
  /-- `Graph::add_graph_node` -/
  | addNode : GraphOp Nat
  /-- `graph[src].add_edge(sink)`; if the edge is new it gets `attrs`. `none` = `src` out of range -/
  | addEdge (src sink : Nat) (attrs : Attrs) : GraphOp (Option Bool)
  /-- `graph[n].attributes.add(k, v)`: `none` = out of range. A conflicting value is stored (the code
  overwrites) and the program fails with `onConflict` -/
  | addNodeAttr (n : Nat) (k : String) (v : Val) (onConflict : Fail) : GraphOp (Option Unit)
  /-- `graph[src].get_edge_mut(sink).attributes.add(k, v)`: `none` = out of range, `some none` = no edge -/
  | addEdgeAttr (src sink : Nat) (k : String) (v : Val) (onConflict : Fail) : GraphOp (Option (Option Unit))
  /-- a standard-library call (may add a graph node) -/
  | callFn (o : Oracle) (t : Tree) (name : String) (args : List Val) : GraphOp Val

namespace GraphOp

/-- semantics of a graph operation: result (or failure of the whole program) and new graph -/
def apply : {α : Type} → GraphOp α → CGraph → Except Fail α × CGraph
  | _, .read, g => (.ok g, g)
  | _, .addNode, g => let (g', n) := g.addGraphNode; (.ok n, g')
  | _, .addEdge src sink attrs, g =>
    match g.node? src with
    | none => (.ok none, g)
    | some nd =>
      let (nd', isNew) := nd.addEdge sink
      if isNew then (.ok (some true), g.setNode src { nd' with edges := GNode.setEdgeAttrs nd'.edges sink attrs })
      else (.ok (some false), g)
  | _, .addNodeAttr n k v onConflict, g =>
    match g.addNodeAttr n k v with
    | none => (.ok none, g)
    | some (g', false) => (.ok (some ()), g')
    | some (g', true) => (.error onConflict, g')
  | _, .addEdgeAttr src sink k v onConflict, g =>
    match g.addEdgeAttr src sink k v with
    | none => (.ok none, g)
    | some none => (.ok (some none), g)
    | some (some (g', false)) => (.ok (some (some ())), g')
    | some (some (g', true)) => (.error onConflict, g')
  | _, .callFn o t name args, g =>
    match Stdlib.call o t name args g with
    | .ok v g' => (.ok v, g')
    | .err k => (.error (.err (.base k "")), g)
    | .panic site => (.error (.panic site), g)
    | .need q => (.error (.need q), g)

end GraphOp

/-- programs over private state `ρ` -/
inductive Prog (ρ : Type) : Type → Type 1 where
  | pure {α : Type} (a : α) : Prog ρ α
  | fail {α : Type} (f : Fail) : Prog ρ α
  | poll {α : Type} (label : String) (k : Unit → Prog ρ α) : Prog ρ α
  | gop {α β : Type} (op : GraphOp β) (k : β → Prog ρ α) : Prog ρ α
  | prim {α β : Type} (f : ρ → Except Fail β × ρ) (k : β → Prog ρ α) : Prog ρ α
  | ctx {α β : Type} (c : Ctx) (m : Prog ρ β) (k : β → Prog ρ α) : Prog ρ α

namespace Prog
variable {ρ : Type}

protected def bind {α β : Type} : Prog ρ α → (α → Prog ρ β) → Prog ρ β
  | .pure a, f => f a
  | .fail e, _ => .fail e
  | .poll l k, f => .poll l (fun u => Prog.bind (k u) f)
  | .gop op k, f => .gop op (fun b => Prog.bind (k b) f)
  | .prim g k, f => .prim g (fun b => Prog.bind (k b) f)
  | .ctx c m k, f => .ctx c m (fun b => Prog.bind (k b) f)

instance : Monad (Prog ρ) where
  pure := Prog.pure
  bind := Prog.bind

/-- the cancellation flag as the program sees it: a poll counter and the poll at which it fires -/
structure PollSt where
  polls : Nat
  cancelAt : Option Nat
  deriving Repr, DecidableEq, Inhabited

/-- full machine state -/
structure MSt (ρ : Type) where
  graph : CGraph
  rest : ρ
  ps : PollSt

/-- semantics -/
def run {α : Type} : Prog ρ α → MSt ρ → Res (MSt ρ) α
  | .pure a, s => .ok a s
  | .fail f, s => .fail f s
  | .poll label k, s =>
    let n := s.ps.polls + 1
    let s' := { s with ps := { s.ps with polls := n } }
    match s.ps.cancelAt with
    | some c => if c ≤ n then .fail (.err (.base .cancelled label)) s' else run (k ()) s'
    | none => run (k ()) s'
  | .gop op k, s =>
    match op.apply s.graph with
    | (.ok b, g') => run (k b) { s with graph := g' }
    | (.error f, g') => .fail f { s with graph := g' }
  | .prim f k, s =>
    match f s.rest with
    | (.ok b, r') => run (k b) { s with rest := r' }
    | (.error e, r') => .fail e { s with rest := r' }
  | .ctx c m k, s =>
    match run m s with
    | .ok b s' => run (k b) s'
    | .fail f s' => .fail (f.withContext c) s'

/-! smart constructors -/

def pollP (label : String) : Prog ρ Unit := .poll label .pure
def failP {α : Type} (f : Fail) : Prog ρ α := .fail f
def throwK {α : Type} (k : EK) : Prog ρ α := .fail (.err (.base k ""))
def panicAt {α : Type} (site : String) : Prog ρ α := .fail (.panic site)
def gopP {β : Type} (op : GraphOp β) : Prog ρ β := .gop op .pure
def primP {β : Type} (f : ρ → Except Fail β × ρ) : Prog ρ β := .prim f .pure
def withContext {α : Type} (c : Ctx) (m : Prog ρ α) : Prog ρ α := .ctx c m .pure
/-- read the private state -/
def getR : Prog ρ ρ := primP fun r => (.ok r, r)
/-- total update of the private state -/
def modifyR (f : ρ → ρ) : Prog ρ Unit := primP fun r => (.ok (), f r)
def ofExcept {α : Type} : Except EK α → Prog ρ α
  | .ok a => .pure a
  | .error k => throwK k
def ofExceptF {α : Type} : Except Fail α → Prog ρ α
  | .ok a => .pure a
  | .error f => .fail f

end Prog

/-- result of a whole run -/
structure RunResult where
  outcome : Option Fail     -- `none` = Ok(())
  graph : CGraph
  polls : Nat

def Prog.toResult {ρ : Type} : Res (Prog.MSt ρ) Unit → RunResult
  | .ok () s => { outcome := none, graph := s.graph, polls := s.ps.polls }
  | .fail f s => { outcome := some f, graph := s.graph, polls := s.ps.polls }
