/-
  Model of the standard library (src/functions.rs:166-660), function by function, including the
  order in which each implementation consumes (`param`) and closes (`finish`) its parameter list.
-/
import Tsg.Base.Graph
import Tsg.Base.Tree
import Tsg.Sem.Error

inductive FnRes where
  | ok (v : Val) (g : CGraph)
  | err (k : EK)
  | panic (site : String)
  | need (q : Need)
  deriving Inhabited

namespace Stdlib

/-- `Parameters::param` -/
def param : List Val → Except EK (Val × List Val)
  | [] => .error .invalidParameters
  | v :: rest => .ok (v, rest)

/-- `Parameters::finish` -/
def finish : List Val → Except EK Unit
  | [] => .ok ()
  | _ :: _ => .error .invalidParameters

def asBool : Val → Except EK Bool
  | .bool b => .ok b
  | _ => .error .expectedBoolean
def asInt : Val → Except EK Nat
  | .int n => .ok n
  | _ => .error .expectedInteger
def asStr : Val → Except EK String
  | .str s => .ok s
  | _ => .error .expectedString
def asList : Val → Except EK (List Val)
  | .list vs => .ok vs
  | _ => .error .expectedList
def asSyn : Val → Except EK Nat
  | .syn id => .ok id
  | _ => .error .expectedSyntaxNode

/-- functions.rs:180-240 -/
def eq (args : List Val) : Except EK Val := do
  let (left, r1) ← param args
  let (right, r2) ← param r1
  finish r2
  match left, right with
  | .null, .null => pure (.bool true)
  | .null, _ => pure (.bool false)
  | _, .null => pure (.bool false)
  | .bool a, .bool b => pure (.bool (a == b))
  | .int a, .int b => pure (.bool (a == b))
  | .str a, .str b => pure (.bool (a == b))
  | .list a, .list b => pure (.bool (decide (a = b)))
  | .set a, .set b => pure (.bool (decide (a = b)))
  | .syn a, .syn b => pure (.bool (a == b))
  | .gnode a, .gnode b => pure (.bool (a == b))
  | _, _ => throw .functionFailed

def isNull (args : List Val) : Except EK Val := do
  let (p, r) ← param args
  finish r
  pure (.bool p.isNull)

def not (args : List Val) : Except EK Val := do
  let (p, r) ← param args
  let b ← asBool p
  finish r
  pure (.bool (!b))

/-- `while let Ok(p) = param() { result &= p.as_boolean()? }` -/
def andLoop : Bool → List Val → Except EK Val
  | acc, [] => .ok (.bool acc)
  | acc, v :: rest =>
    match asBool v with
    | .ok b => andLoop (acc && b) rest
    | .error e => .error e

def orLoop : Bool → List Val → Except EK Val
  | acc, [] => .ok (.bool acc)
  | acc, v :: rest =>
    match asBool v with
    | .ok b => orLoop (acc || b) rest
    | .error e => .error e

/-- `plus` with `checked_add` (functions.rs math::Plus): the DSL integer type is `u32` -/
def plusLoop : Nat → List Val → Except EK Val
  | acc, [] => .ok (.int acc)
  | acc, v :: rest =>
    match asInt v with
    | .ok n => if acc + n < 2 ^ 32 then plusLoop (acc + n) rest else .error .functionFailed
    | .error e => .error e

/-- the body of `format` (functions.rs:533-556): walks the format string; `{}` consumes the next
parameter. Returns the text and the unconsumed parameters. -/
def formatLoop (disp : Val → String) : List Char → List Val → String → Except EK (String × List Val)
  | [], ps, acc => .ok (acc, ps)
  | '{' :: '{' :: rest, ps, acc => formatLoop disp rest ps (acc.push '{')
  | '{' :: '}' :: rest, ps, acc =>
    match ps with
    | [] => .error .invalidParameters
    | v :: ps' => formatLoop disp rest ps' (acc ++ disp v)
  | '{' :: _ :: _, _, _ => .error .functionFailed
  | ['{'], _, _ => .error .functionFailed
  | '}' :: '}' :: rest, ps, acc => formatLoop disp rest ps (acc.push '}')
  | '}' :: _ :: _, _, _ => .error .functionFailed
  | ['}'], _, _ => .error .functionFailed
  | c :: rest, ps, acc => formatLoop disp rest ps (acc.push c)

def format (disp : Val → String) (args : List Val) : Except EK Val := do
  let (f, r) ← param args
  let fs ← asStr f
  let (out, rest) ← formatLoop disp fs.toList r ""
  finish rest
  pure (.str out)

def concatLoop : List Val → List Val → Except EK Val
  | acc, [] => .ok (.list acc)
  | acc, v :: rest =>
    match asList v with
    | .ok l => concatLoop (acc ++ l) rest
    | .error e => .error e

def isEmpty (args : List Val) : Except EK Val := do
  let (p, r) ← param args
  let l ← asList p
  finish r
  pure (.bool l.isEmpty)

def length (args : List Val) : Except EK Val := do
  let (p, r) ← param args
  let l ← asList p
  finish r
  pure (.int l.length)

def join (disp : Val → String) (args : List Val) : Except EK Val := do
  let (p, r) ← param args
  let l ← asList p
  match r with
  | [] => pure (.str ("".intercalate (l.map disp)))
  | s :: r2 =>
    let sep ← asStr s
    finish r2
    pure (.str (sep.intercalate (l.map disp)))

/-- the common prefix of all syntax functions: `graph[param()?.into_syntax_node_ref()?]; finish()?` -/
def synArg (t : Tree) (args : List Val) : Except EK TNode := do
  let (p, r) ← param args
  let id ← asSyn p
  match t.node? id with
  | none => throw .expectedSyntaxNode   -- unreachable: ids come from the tree
  | some n =>
    finish r
    pure n

def synArgId (args : List Val) : Except EK Nat := do
  let (p, _) ← param args
  asSyn p

def namedChildIndex (t : Tree) (args : List Val) : Except EK Val := do
  let n ← synArg t args
  let id ← synArgId args
  match n.parent with
  | none => throw .functionFailed
  | some p =>
    match t.node? p with
    | none => throw .functionFailed
    | some pn =>
      match (t.namedChildren pn).idxOf? id with
      | some i => pure (.int i)
      | none => throw .functionFailed

/-- names registered by `Functions::stdlib()` (functions.rs:100-140) -/
def names : List String :=
  ["eq", "is-null", "named-child-index", "source-text", "start-row", "start-column", "end-row",
   "end-column", "node-type", "named-child-count", "node", "not", "and", "or", "plus", "format",
   "replace", "concat", "is-empty", "join", "length"]

/-- outcome of a function that does not touch the graph -/
inductive PureRes where
  | ok (v : Val)
  | err (k : EK)
  | panic (site : String)
  | need (q : Need)

def liftP : Except EK Val → PureRes
  | .ok v => .ok v
  | .error e => .err e

/-- every standard function except `node` (which adds a graph node) -/
def callPure (o : Oracle) (t : Tree) (name : String) (args : List Val) : PureRes :=
  let disp := Val.display t.synShow
  match name with
  | "eq" => liftP (eq args)
  | "is-null" => liftP (isNull args)
  | "named-child-index" => liftP (namedChildIndex t args)
  | "source-text" =>
    match synArg t args with
    | .error e => .err e
    | .ok n =>
      match Tree.sliceBytes t.source n.startByte n.endByte with
      | some s => .ok (.str s)
      | none => .panic "source-text:slice"
  | "start-row" => liftP ((synArg t args).map fun n => .int n.startRow)
  | "start-column" => liftP ((synArg t args).map fun n => .int n.startCol)
  | "end-row" => liftP ((synArg t args).map fun n => .int n.endRow)
  | "end-column" => liftP ((synArg t args).map fun n => .int n.endCol)
  | "node-type" => liftP ((synArg t args).map fun n => .str n.kind)
  | "named-child-count" => liftP ((synArg t args).map fun n => .int (t.namedChildren n).length)
  | "not" => liftP (not args)
  | "and" => liftP (andLoop true args)
  | "or" => liftP (orLoop false args)
  | "plus" => liftP (plusLoop 0 args)
  | "format" => liftP (format disp args)
  | "replace" =>
    match param args with
    | .error e => .err e
    | .ok (tv, r1) =>
      match asStr tv with
      | .error e => .err e
      | .ok text =>
        match param r1 with
        | .error e => .err e
        | .ok (pv, r2) =>
          match asStr pv with
          | .error e => .err e
          | .ok pat =>
            -- the pattern is compiled before the replacement is fetched
            match r2 with
            | [] =>
              match o.replaceAll pat text "" with
              | none => .need (.replaceAll pat text "")
              | some none => .err .functionFailed
              | some (some _) => .err .invalidParameters
            | rv :: r3 =>
              match asStr rv with
              | .error e =>
                match o.replaceAll pat text "" with
                | none => .need (.replaceAll pat text "")
                | some none => .err .functionFailed
                | some (some _) => .err e
              | .ok repl =>
                match o.replaceAll pat text repl with
                | none => .need (.replaceAll pat text repl)
                | some none => .err .functionFailed
                | some (some out) =>
                  match finish r3 with
                  | .error e => .err e
                  | .ok () => .ok (.str out)
  | "concat" => liftP (concatLoop [] args)
  | "is-empty" => liftP (isEmpty args)
  | "join" => liftP (join disp args)
  | "length" => liftP (length args)
  | _ => .err .undefinedFunction

/-- `Functions::call` on the standard library -/
def call (o : Oracle) (t : Tree) (name : String) (args : List Val) (g : CGraph) : FnRes :=
  if name = "node" then
    match finish args with
    | .error e => .err e
    | .ok () => let (g', i) := g.addGraphNode; .ok (.gnode i) g'
  else
    match callPure o t name args with
    | .ok v => .ok v g
    | .err k => .err k
    | .panic site => .panic site
    | .need q => .need q

end Stdlib
