/-
  Model of strict execution (src/execution/strict.rs, src/execution.rs), code-shaped:
  concrete graph, cancellation polls, error contexts, debug attributes, `locals.clear()`,
  nested variable frames, shorthand expansion.

  Recursion: well-founded on `(fuel, size of the AST fragment, loop counter)`. `fuel` only
  decreases when an attribute shorthand is expanded (the code recurses through shorthand names
  without a cycle check, so no measure exists for that step).
-/
import Tsg.Base.Graph
import Tsg.Base.Vars
import Tsg.Base.Tree
import Tsg.Sem.Monad
import Tsg.Sem.Stdlib
import Tsg.Sem.Prog

/-- one query match: pattern index and, per capture name, the captured nodes in the order
`nodes_for_capture_index` yields them -/
structure QMatch where
  patternIx : Nat
  caps : List (String × List Nat)
  deriving Repr, Inhabited

def QMatch.nodes (m : QMatch) (name : String) : List Nat := (m.caps.lookup name).getD []

/-- `ExecutionConfig` plus the read-only parts of the file -/
structure Cfg where
  tree : Tree
  oracle : Oracle
  globals : GlobalsM
  inherited : List String
  shorthands : List Shorthand
  locAttr : Option String
  varAttr : Option String
  matchAttr : Option String
  deriving Inhabited

/-- private mutable state of a strict run (the graph and the poll counter live in `Prog.MSt`) -/
structure SRest where
  locals : Frames Val
  /-- `ScopedVariables.scopes`: syntax node id ↦ its variables (value, mutable) -/
  scopedVars : List (Nat × Frame Val)
  deriving Inhabited

/-- lexical context of a block -/
structure Env where
  /-- `current_regex_captures` -/
  caps : List String
  mat : QMatch
  /-- capture name ↦ quantifier of the running stanza's own query -/
  quants : List (String × Quant)
  ctx : StmtCtx
  deriving Inhabited

abbrev SM := Prog SRest

namespace Strict
open Prog (pollP failP throwK panicAt gopP primP withContext getR modifyR ofExcept ofExceptF)

/-- `Value::from_nodes` (execution.rs:318-346) -/
def fromNodes {ρ : Type} (q : Quant) (nodes : List Nat) : Prog ρ Val :=
  match q with
  | .zero => panicAt "from_nodes:unreachable"
  | .one =>
    match nodes with
    | n :: _ => pure (.syn n)
    | [] => throwK .undefinedCapture   -- repaired: `Capture::evaluate` checks before `Value::from_nodes`, whose `expect("missing capture")` panicked
  | .zeroOrMore | .oneOrMore => pure (.list (nodes.map .syn))
  | .zeroOrOne =>
    match nodes with
    | [] => pure .null
    | n :: _ => pure (.syn n)

def asGraphNode : Val → SM Nat
  | .gnode i => pure i
  | _ => throwK .expectedGraphNode

def asSyntaxScope : Val → SM Nat
  | .syn i => pure i
  | _ => throwK .invalidVariableScope

def scopedFrame (s : SRest) (node : Nat) : Frame Val := (s.scopedVars.lookup node).getD []

def setScopedFrame (s : SRest) (node : Nat) (f : Frame Val) : SRest :=
  if (s.scopedVars.lookup node).isSome then
    { s with scopedVars := s.scopedVars.map fun e => if e.1 = node then (node, f) else e }
  else { s with scopedVars := s.scopedVars ++ [(node, f)] }

def frameGet (f : Frame Val) (name : String) : Option Val := (f.lookup name).map (·.1)

/-- `ScopedVariable::get` after the scope has been evaluated (strict.rs:748-779) -/
def scopedLookup (cfg : Cfg) (s : SRest) (node : Nat) (name : String) : Option Val :=
  match frameGet (scopedFrame s node) name with
  | some v => some v
  | none =>
    if cfg.inherited.contains name then
      (cfg.tree.ancestors node).findSome? fun a => frameGet (scopedFrame s a) name
    else none

def scopedAdd (node : Nat) (name : String) (v : Val) (mutable : Bool) : SM Unit := primP fun s =>
  match Frames.add [scopedFrame s node] name v mutable with
  | .ok [f] => (.ok (), setScopedFrame s node f)
  | .ok _ => (.error (.panic "scoped:frames"), s)
  | .error _ => (.error (.err (.base .duplicateVariable "")), setScopedFrame s node (scopedFrame s node))

def scopedSet (node : Nat) (name : String) (v : Val) : SM Unit := primP fun s =>
  match Frames.set [scopedFrame s node] name v with
  | .ok [f] => (.ok (), setScopedFrame s node f)
  | .ok _ => (.error (.panic "scoped:frames"), s)
  | .error _ => (.error (.err (.base .duplicateVariable "")), setScopedFrame s node (scopedFrame s node))

/-- `UnscopedVariable::get` (strict.rs:823-830): globals take precedence -/
def unscopedGet (cfg : Cfg) (name : String) : SM Val := primP fun s =>
  match cfg.globals.get name with
  | some v => (.ok v, s)
  | none =>
    match s.locals.get name with
    | some v => (.ok v, s)
    | none => (.error (.err (.base .undefinedVariable "")), s)

def unscopedAdd (cfg : Cfg) (name : String) (v : Val) (mutable : Bool) : SM Unit := primP fun s =>
  match cfg.globals.get name with
  | some _ => (.error (.err (.base .duplicateVariable "")), s)
  | none =>
    match s.locals.add name v mutable with
    | .ok l => (.ok (), { s with locals := l })
    | .error _ => (.error (.err (.base .duplicateVariable "")), s)

def unscopedSet (cfg : Cfg) (name : String) (v : Val) : SM Unit := primP fun s =>
  match cfg.globals.get name with
  | some _ => (.error (.err (.base .cannotAssignImmutableVariable "")), s)
  | none =>
    match s.locals.set name v with
    | .ok l => (.ok (), { s with locals := l })
    | .error _ =>
      if (s.locals.get name).isSome then (.error (.err (.base .cannotAssignImmutableVariable "")), s)
      else (.error (.err (.base .undefinedVariable "")), s)

def pushFrame : SM Unit := modifyR fun s => { s with locals := s.locals.push }
def popFrame : SM Unit := modifyR fun s => { s with locals := s.locals.pop }
def clearFrame : SM Unit := modifyR fun s => { s with locals := s.locals.clear }

/-- `Functions::call` on the standard library, threading the graph -/
def callFn {ρ : Type} (cfg : Cfg) (name : String) (args : List Val) : Prog ρ Val :=
  gopP (.callFn cfg.oracle cfg.tree name args)

/-- where an `attr` statement puts its attributes -/
inductive Target where
  | node (n : Nat)
  | edge (src sink : Nat)
  deriving Repr, Inhabited

/-- the `add_attribute` closures of `AddGraphNodeAttribute` / `AddEdgeAttribute` -/
def addAttribute {ρ : Type} (t : Target) (name : String) (v : Val) : Prog ρ Unit :=
  match t with
  | .node n => do
    let r ← gopP (.addNodeAttr n name v (.err (.base .duplicateAttribute "")))
    match r with
    | none => panicAt "graph index"
    | some () => pure ()
  | .edge src sink => do
    let r ← gopP (.addEdgeAttr src sink name v (.err (.base .duplicateAttribute "")))
    match r with
    | none => panicAt "graph index"
    | some none => throwK .undefinedEdge
    | some (some ()) => pure ()

/-- `Attributes::add` on a graph node for the debug attributes -/
def addDebugNodeAttr {ρ : Type} (n : Nat) (name : String) (v : Val) : Prog ρ Unit := addAttribute (.node n) name v

def locString (l : Loc) : String := "line " ++ toString (l.row + 1) ++ " column " ++ toString (l.col + 1)

/-- the full-match node of the running match; a match that lost it is an `UndefinedCapture` error (repaired:
    was `expect("missing full capture")`) -/
def fullMatchNode {ρ : Type} (env : Env) : Prog ρ Nat :=
  match env.mat.nodes fullMatchName with
  | n :: _ => pure n
  | [] => throwK .undefinedCapture

/-- matches of all arms at offset `i`, in arm order; stops at the first empty match -/
def scanCollect (o : Oracle) (subject : String) (i : Nat) :
    List (String × List Stmt × Loc) → Nat → Except Fail (List (RMatch × Nat))
  | [], _ => .ok []
  | (re, _, _) :: rest, idx =>
    match o.regexAt re subject i with
    | none => .error (.need (.regexAt re subject i))
    | some none => scanCollect o subject i rest (idx + 1)
    | some (some m) =>
      if m.stop ≤ m.start then .error (.err (.base .emptyRegexCapture ""))
      else
        match scanCollect o subject i rest (idx + 1) with
        | .ok ms => .ok ((m, idx) :: ms)
        | .error e => .error e

/-- `sort_by_key(|(captures, index)| (range.start, *index))` -/
def scanKeyLe (a b : RMatch × Nat) : Bool :=
  a.1.start < b.1.start || (a.1.start == b.1.start && a.2 ≤ b.2)

def scanBest (ms : List (RMatch × Nat)) : Option (RMatch × Nat) := (ms.mergeSort scanKeyLe).head?

/-- `$k` values of a match: group text, or "" for a group that did not participate -/
def capsOf (m : RMatch) : List String := m.groups.map fun g => g.getD ""

/-- the statements of arm `k` -/
def armBody (arms : List (String × List Stmt × Loc)) (k : Nat) : List Stmt :=
  match arms[k]? with
  | some (_, body, _) => body
  | none => []

/-- the regex text of arm `k` (used in the `Other` context of errors raised in the arm) -/
def armRegex (arms : List (String × List Stmt × Loc)) (k : Nat) : String :=
  match arms[k]? with
  | some (re, _, _) => re
  | none => ""

theorem armBody_lt (arms : List (String × List Stmt × Loc)) (k : Nat) (h : (arms[k]?).isSome) :
    sizeOf (armBody arms k) < sizeOf arms := by
  unfold armBody
  cases hk : arms[k]? with
  | none => simp [hk] at h
  | some arm =>
    obtain ⟨re, body, loc⟩ := arm
    have h1 := List.sizeOf_lt_of_mem (List.mem_of_getElem? hk)
    simp at h1 ⊢; omega

def findShorthand (cfg : Cfg) (name : String) : Option Shorthand := cfg.shorthands.find? (·.name = name)

mutual

def evalExpr (cfg : Cfg) (fuel : Nat) (env : Env) (e : Expr) : SM Val :=
  match e with
  | .falseLit => pure (.bool false)
  | .nullLit => pure .null
  | .trueLit => pure (.bool true)
  | .int n => pure (.int n)
  | .str s => pure (.str s)
  | .list es => do
    let vs ← evalExprs cfg fuel env es
    pure (.list vs)
  | .set es => do
    let vs ← evalExprs cfg fuel env es
    pure (.set (Val.setOfList vs))
  | .listComp elem var _ value _ => do
    let v ← evalExpr cfg fuel env value
    let vals ← ofExcept (Stdlib.asList v)
    pushFrame
    let out ← evalComp cfg fuel env elem var vals
    popFrame
    pure (.list out)
  | .setComp elem var _ value _ => do
    let v ← evalExpr cfg fuel env value
    let vals ← ofExcept (Stdlib.asList v)
    pushFrame
    let out ← evalComp cfg fuel env elem var vals
    popFrame
    pure (.set (Val.setOfList out))
  | .capture name q _ _ _ =>
    match q with
    | .zero => throwK .undefinedCapture   -- not resolved by the checker (shorthand bodies); repaired: was unreachable!()
    | _ =>
      match env.quants.lookup name with
      | some q' => fromNodes q' (env.mat.nodes name)
      | none => panicAt "capture:unresolved"
  | .var name _ => unscopedGet cfg name
  | .scopedVar scope name _ => do
    let sv ← evalExpr cfg fuel env scope
    let node ← asSyntaxScope sv
    let s ← getR
    match scopedLookup cfg s node name with
    | some v => pure v
    | none => throwK .undefinedVariable
  | .call fn args => do
    let vs ← evalExprs cfg fuel env args
    callFn cfg fn vs
  | .regexCap ix =>
    match env.caps[ix]? with
    | some s => pure (.str s)
    | none => throwK .undefinedRegexCapture
termination_by (fuel, sizeOf e, 0)

def evalExprs (cfg : Cfg) (fuel : Nat) (env : Env) (es : List Expr) : SM (List Val) :=
  match es with
  | [] => pure []
  | e :: rest => do
    let v ← evalExpr cfg fuel env e
    let vs ← evalExprs cfg fuel env rest
    pure (v :: vs)
termination_by (fuel, sizeOf es, 0)

/-- the loop of a list/set comprehension: `loop_locals.clear(); variable.add(value); element.evaluate` -/
def evalComp (cfg : Cfg) (fuel : Nat) (env : Env) (elem : Expr) (var : String) (vals : List Val) : SM (List Val) :=
  match vals with
  | [] => pure []
  | v :: rest => do
    clearFrame
    unscopedAdd cfg var v false
    let x ← evalExpr cfg fuel env elem
    let xs ← evalComp cfg fuel env elem var rest
    pure (x :: xs)
termination_by (fuel, sizeOf elem, vals.length + 1)

end

/-- `Variable::add` (strict.rs:715-725, 782-802, 832-847) -/
def varAdd (cfg : Cfg) (fuel : Nat) (env : Env) (v : Var) (value : Val) (mutable : Bool) : SM Unit :=
  match v with
  | .unscoped name _ => unscopedAdd cfg name value mutable
  | .scopedV scope name _ => do
    let sv ← evalExpr cfg fuel env scope
    let node ← asSyntaxScope sv
    scopedAdd node name value mutable

/-- `Variable::set` -/
def varSet (cfg : Cfg) (fuel : Nat) (env : Env) (v : Var) (value : Val) : SM Unit :=
  match v with
  | .unscoped name _ => unscopedSet cfg name value
  | .scopedV scope name _ => do
    let sv ← evalExpr cfg fuel env scope
    let node ← asSyntaxScope sv
    scopedSet node name value

/-- `Condition::test` -/
def testCond (cfg : Cfg) (fuel : Nat) (env : Env) : Cond → SM Bool
  | .some e _ => do let v ← evalExpr cfg fuel env e; pure (!v.isNull)
  | .none e _ => do let v ← evalExpr cfg fuel env e; pure v.isNull
  | .bool e _ => do
    let v ← evalExpr cfg fuel env e
    ofExcept (Stdlib.asBool v)

/-- `result &= condition.test(exec)?` over all conditions (no short-circuit) -/
def testConds (cfg : Cfg) (fuel : Nat) (env : Env) : List Cond → SM Bool
  | [] => pure true
  | c :: rest => do
    let b ← testCond cfg fuel env c
    let bs ← testConds cfg fuel env rest
    pure (b && bs)

/-- evaluation of `print` arguments (the text goes to stderr and is not modelled) -/
def evalPrintArgs (cfg : Cfg) (fuel : Nat) (env : Env) : List Expr → SM Unit
  | [] => pure ()
  | .str _ :: rest => evalPrintArgs cfg fuel env rest
  | e :: rest => do
    let _ ← evalExpr cfg fuel env e
    evalPrintArgs cfg fuel env rest

/-- `Attribute::execute` / `AttributeShorthand::execute` (strict.rs:866-917) -/
def execAttrs (cfg : Cfg) (fuel : Nat) (env : Env) (t : Target) (attrs : List AttrE) : SM Unit :=
  match attrs with
  | [] => pure ()
  | (name, e) :: rest => do
    pollP "executing attribute"
    let v ← evalExpr cfg fuel env e
    match findShorthand cfg name with
    | some sh =>
      match fuel with
      | 0 => failP .outOfFuel
      | fuel' + 1 => do
        -- `shorthand_locals = VariableMap::new()`: the body sees no locals of the caller
        let saved ← getR
        modifyR fun s => { s with locals := [[]] }
        unscopedAdd cfg sh.var v false
        execAttrs cfg fuel' env t sh.attrs
        modifyR fun s => { s with locals := saved.locals }
        execAttrs cfg (fuel' + 1) env t rest
    | none => do
      addAttribute t name v
      execAttrs cfg fuel env t rest
termination_by (fuel, sizeOf attrs)
decreasing_by
  all_goals simp_wf
  · apply Prod.Lex.left; omega
  · apply Prod.Lex.right; simp; omega
  · apply Prod.Lex.right; simp; omega

/-- how the statements of a block are wrapped in contexts -/
inductive BlockKind where
  | plain          -- stanza body / if arm / for body: `with_context(statement context)`
  | scanArm (what : String)  -- scan arm: `with_context(Other)` then `with_context(statement context)`
  deriving Repr, Inhabited

mutual

def execStmt (cfg : Cfg) (fuel : Nat) (env : Env) (st : Stmt) : SM Unit := do
  pollP "executing statement"
  match st with
  | .declImm v e _ => do
    let value ← evalExpr cfg fuel env e
    varAdd cfg fuel env v value false
  | .declMut v e _ => do
    let value ← evalExpr cfg fuel env e
    varAdd cfg fuel env v value true
  | .assign v e _ => do
    let value ← evalExpr cfg fuel env e
    varSet cfg fuel env v value
  | .createNode v _ => do
    let n ← gopP .addNode
    match cfg.varAttr with
    | some a => addDebugNodeAttr n a (.str v.display)
    | none => pure ()
    match cfg.locAttr with
    | some a => addDebugNodeAttr n a (.str (locString v.loc))
    | none => pure ()
    match cfg.matchAttr with
    | some a => do
      let m ← fullMatchNode env
      addDebugNodeAttr n a (.syn m)
    | none => pure ()
    varAdd cfg fuel env v (.gnode n) false
  | .attrNode ne attrs _ => do
    let nv ← evalExpr cfg fuel env ne
    let n ← asGraphNode nv
    execAttrs cfg fuel env (.node n) attrs
  | .createEdge a b loc => do
    let av ← evalExpr cfg fuel env a
    let src ← asGraphNode av
    let bv ← evalExpr cfg fuel env b
    let sink ← asGraphNode bv
    let attrs : Attrs := match cfg.locAttr with
      | some la => [(la, .str (locString loc))]
      | none => []
    let r ← gopP (.addEdge src sink attrs)
    match r with
    | none => panicAt "graph index"
    | some _ => pure ()
  | .attrEdge a b attrs _ => do
    let av ← evalExpr cfg fuel env a
    let src ← asGraphNode av
    let bv ← evalExpr cfg fuel env b
    let sink ← asGraphNode bv
    execAttrs cfg fuel env (.edge src sink) attrs
  | .scan e arms _ => do
    let v ← evalExpr cfg fuel env e
    let subject ← ofExcept (Stdlib.asStr v)
    scanLoop cfg fuel env arms subject 0
  | .print es _ => evalPrintArgs cfg fuel env es
  | .ifS arms _ => execIfArms cfg fuel env arms
  | .forIn var _ e body _ => do
    let v ← evalExpr cfg fuel env e
    let vals ← ofExcept (Stdlib.asList v)
    pushFrame
    execFor cfg fuel env var body vals
    popFrame
termination_by (fuel, sizeOf st, 0)

/-- statements of a block: context update per statement, result wrapped in the contexts -/
def execBlock (cfg : Cfg) (fuel : Nat) (env : Env) (kind : BlockKind) (ss : List Stmt) : SM Unit :=
  match ss with
  | [] => pure ()
  | st :: rest => do
    let ctx' := { env.ctx with stmtLoc := st.loc }
    let env' := { env with ctx := ctx' }
    match kind with
    | .plain => withContext (.stmt [ctx']) (execStmt cfg fuel env' st)
    | .scanArm what => withContext (.stmt [ctx']) (withContext (.other what) (execStmt cfg fuel env' st))
    execBlock cfg fuel env' kind rest
termination_by (fuel, sizeOf ss, 0)

/-- `If::execute`: the first arm whose conditions all hold -/
def execIfArms (cfg : Cfg) (fuel : Nat) (env : Env) (arms : List (List Cond × List Stmt × Loc)) : SM Unit :=
  match arms with
  | [] => pure ()
  | (conds, body, _) :: rest => do
    let ok ← testConds cfg fuel env conds
    if ok then do
      pushFrame
      execBlock cfg fuel env .plain body
      popFrame
    else execIfArms cfg fuel env rest
termination_by (fuel, sizeOf arms, 0)

/-- `ForIn::execute` loop: `loop_locals.clear(); variable.add(value); body` -/
def execFor (cfg : Cfg) (fuel : Nat) (env : Env) (var : String) (body : List Stmt) (vals : List Val) : SM Unit :=
  match vals with
  | [] => pure ()
  | v :: rest => do
    clearFrame
    unscopedAdd cfg var v false
    execBlock cfg fuel env .plain body
    execFor cfg fuel env var body rest
termination_by (fuel, sizeOf body, vals.length + 1)

/-- `Scan::execute` loop (strict.rs:375-448) -/
def scanLoop (cfg : Cfg) (fuel : Nat) (env : Env) (arms : List (String × List Stmt × Loc))
    (subject : String) (i : Nat) : SM Unit :=
  if h : i < subject.utf8ByteSize then do
    pollP "processing scan matches"
    match scanCollect cfg.oracle subject i arms 0 with
    | .error f => failP f
    | .ok ms =>
      match scanBest ms with
      | none => pure ()
      | some (m, k) =>
        if hk : (arms[k]?).isSome then
          if hm : 0 < m.stop then do
            have : sizeOf (armBody arms k) < sizeOf arms := armBody_lt arms k hk
            pushFrame
            execBlock cfg fuel { env with caps := capsOf m } (.scanArm (armRegex arms k)) (armBody arms k)
            popFrame
            scanLoop cfg fuel env arms subject (i + m.stop)
          else failP (.err (.base .emptyRegexCapture ""))
        else panicAt "scan:arm index"
  else pure ()
termination_by (fuel, sizeOf arms, subject.utf8ByteSize - i + 1)

end

/-- `Stanza::execute` for one match (strict.rs:166-209) -/
def execMatch (cfg : Cfg) (fuel : Nat) (st : Stanza) (m : QMatch) : SM Unit := do
  modifyR fun s => { s with locals := s.locals.clear }
  match st.stmts with
  | [] => pure ()
  | stmts =>
    let env0 : Env := { caps := [], mat := m, quants := st.captures, ctx := default }
    let node ← fullMatchNode env0
    match cfg.tree.node? node with
    | none => panicAt "tree:node"
    | some tn =>
      let ctx : StmtCtx := { stmtLoc := default, stanzaLoc := st.rangeStart,
                             srcLoc := { row := tn.startRow, col := tn.startCol }, nodeKind := tn.kind }
      execBlock cfg fuel { env0 with ctx := ctx } .plain stmts

def execMatches (cfg : Cfg) (fuel : Nat) (st : Stanza) : List QMatch → SM Unit
  | [] => pure ()
  | m :: rest => do
    execMatch cfg fuel st m
    execMatches cfg fuel st rest

/-- stanzas in file order, each over its own match list (strict.rs:93-125) -/
def execStanzas (cfg : Cfg) (fuel : Nat) : List (Stanza × List QMatch) → SM Unit
  | [] => pure ()
  | (st, ms) :: rest => do
    execMatches cfg fuel st ms
    execStanzas cfg fuel rest

end Strict

/-- `File::check_globals` (execution.rs:67-101) on a nested copy of the caller's globals -/
def checkGlobals : List Global → GlobalsM → Except EK GlobalsM
  | [], g => .ok g
  | gl :: rest, g =>
    match g.get gl.name with
    | none =>
      match gl.default with
      | some d =>
        match g.add gl.name (.str d) with
        | .ok g' => checkGlobals rest g'
        | .error _ => .error .duplicateVariable
      | none => .error .missingGlobalVariable
    | some v =>
      if gl.quant = .zeroOrMore ∨ gl.quant = .oneOrMore then
        match v with
        | .list _ => checkGlobals rest g
        | _ => .error .expectedList
      else checkGlobals rest g

/-- `File::execute_strict_into` -/
def Strict.run (file : File) (tree : Tree) (oracle : Oracle) (callerGlobals : GlobalsM)
    (locAttr varAttr matchAttr : Option String) (cancelAt : Option Nat) (fuel : Nat)
    (matchLists : List (List QMatch)) (g0 : CGraph) : RunResult :=
  match checkGlobals file.globals callerGlobals.nested with
  | .error k => { outcome := some (.err (.base k "")), graph := g0, polls := 0 }
  | .ok globals =>
    let cfg : Cfg := { tree, oracle, globals, inherited := file.inherited, shorthands := file.shorthands,
                       locAttr, varAttr, matchAttr }
    let s0 : Prog.MSt SRest := { graph := g0, rest := { locals := [[]], scopedVars := [] },
                                 ps := { polls := 0, cancelAt } }
    Prog.toResult (Prog.run (Strict.execStanzas cfg fuel (file.stanzas.zip matchLists)) s0)
