/-
  Abstract specification of the containers: a graph is a node count, a partial map of node
  attributes and a partial map from ordered node pairs to edge attribute maps. Operation
  sequences on the concrete model (`CGraph`) are shown to refine it (Props/C17).
-/
import Tsg.Base.Graph
import Tsg.Base.Vars

/-- the plain map/set model of a graph -/
structure AGraph where
  n : Nat
  nattr : Nat → String → Option Val
  edge : Nat → Nat → Option (String → Option Val)

/-- mutating graph operations of the public API (reads are determined by `abs`) -/
inductive GOp where
  | addNode
  | addEdge (s t : Nat)
  | nodeAttr (n : Nat) (k : String) (v : Val)
  | edgeAttr (s t : Nat) (k : String) (v : Val)

/-- what a mutating operation returns to the caller -/
inductive GObs where
  | node (i : Nat)          -- add_graph_node: the new reference
  | edgeNew (isNew : Bool)  -- add_edge: Ok / Err
  | attr (conflict : Bool)  -- Attributes::add: Ok / Err
  | noEdge                  -- get_edge_mut returned None
  | invalid                 -- source index out of range (the Rust code panics; never generated)
  deriving DecidableEq, Repr

namespace CGraph

def applyOp (g : CGraph) : GOp → CGraph × GObs
  | .addNode => let (g', i) := g.addGraphNode; (g', .node i)
  | .addEdge s t =>
    match g.addEdge s t with
    | some (g', isNew) => (g', .edgeNew isNew)
    | none => (g, .invalid)
  | .nodeAttr n k v =>
    match g.addNodeAttr n k v with
    | some (g', c) => (g', .attr c)
    | none => (g, .invalid)
  | .edgeAttr s t k v =>
    match g.addEdgeAttr s t k v with
    | some (some (g', c)) => (g', .attr c)
    | some none => (g, .noEdge)
    | none => (g, .invalid)

def runOps (g : CGraph) : List GOp → CGraph × List GObs
  | [] => (g, [])
  | op :: ops =>
    let (g', o) := g.applyOp op
    let (g'', os) := runOps g' ops
    (g'', o :: os)

/-- abstraction function -/
def abs (g : CGraph) : AGraph where
  n := g.nodes.length
  nattr := fun i k => (g.nodes[i]?).bind (fun nd => nd.attrs.get k)
  edge := fun i j => (g.nodes[i]?).bind (fun nd => (nd.getEdge j).map (fun a k => a.get k))

end CGraph

namespace AGraph

def empty : AGraph := { n := 0, nattr := fun _ _ => none, edge := fun _ _ => none }

/-- the specification of each operation on plain maps -/
def step (a : AGraph) : GOp → AGraph × GObs
  | .addNode => ({ a with n := a.n + 1 }, .node a.n)
  | .addEdge s t =>
    if s < a.n then
      match a.edge s t with
      | some _ => (a, .edgeNew false)
      | none => ({ a with edge := fun i j => if i = s ∧ j = t then some (fun _ => none) else a.edge i j }, .edgeNew true)
    else (a, .invalid)
  | .nodeAttr n k v =>
    if n < a.n then
      ({ a with nattr := fun i k' => if i = n ∧ k' = k then some v else a.nattr i k' },
        .attr (match a.nattr n k with | some old => decide (old ≠ v) | none => false))
    else (a, .invalid)
  | .edgeAttr s t k v =>
    if s < a.n then
      match a.edge s t with
      | none => (a, .noEdge)
      | some m =>
        ({ a with edge := fun i j => if i = s ∧ j = t then some (fun k' => if k' = k then some v else m k') else a.edge i j },
          .attr (match m k with | some old => decide (old ≠ v) | none => false))
    else (a, .invalid)

def runOps (a : AGraph) : List GOp → AGraph × List GObs
  | [] => (a, [])
  | op :: ops =>
    let (a', o) := a.step op
    let (a'', os) := runOps a' ops
    (a'', o :: os)

end AGraph
