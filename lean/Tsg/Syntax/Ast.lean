/-
  Model of `ast.rs`: the AST of a graph DSL file, with source locations and the fields the checker
  fills in (capture quantifier and indices).
-/
import Tsg.Base.Value

structure Loc where
  row : Nat
  col : Nat
  deriving Repr, DecidableEq, Inhabited

/-- `tree_sitter::CaptureQuantifier` -/
inductive Quant where
  | zero | zeroOrOne | zeroOrMore | one | oneOrMore
  deriving Repr, DecidableEq, Inhabited

inductive Expr where
  | falseLit
  | nullLit
  | trueLit
  | int (n : Nat)
  | str (s : String)
  | list (es : List Expr)
  | set (es : List Expr)
  | listComp (elem : Expr) (var : String) (varLoc : Loc) (value : Expr) (loc : Loc)
  | setComp (elem : Expr) (var : String) (varLoc : Loc) (value : Expr) (loc : Loc)
  | capture (name : String) (q : Quant) (fileIx stanzaIx : Nat) (loc : Loc)
  | var (name : String) (loc : Loc)
  | scopedVar (scope : Expr) (name : String) (loc : Loc)
  | call (fn : String) (args : List Expr)
  | regexCap (ix : Nat)
  deriving Repr, Inhabited

/-- `ast::Variable` -/
inductive Var where
  | unscoped (name : String) (loc : Loc)
  | scopedV (scope : Expr) (name : String) (loc : Loc)
  deriving Repr, Inhabited

/-- `ast::Attribute` -/
abbrev AttrE := String × Expr

inductive Cond where
  | some (e : Expr) (loc : Loc)
  | none (e : Expr) (loc : Loc)
  | bool (e : Expr) (loc : Loc)
  deriving Repr, Inhabited

inductive Stmt where
  | declImm (v : Var) (e : Expr) (loc : Loc)
  | declMut (v : Var) (e : Expr) (loc : Loc)
  | assign (v : Var) (e : Expr) (loc : Loc)
  | createNode (v : Var) (loc : Loc)
  | attrNode (n : Expr) (attrs : List AttrE) (loc : Loc)
  | createEdge (a b : Expr) (loc : Loc)
  | attrEdge (a b : Expr) (attrs : List AttrE) (loc : Loc)
  | scan (e : Expr) (arms : List (String × List Stmt × Loc)) (loc : Loc)
  | print (es : List Expr) (loc : Loc)
  | ifS (arms : List (List Cond × List Stmt × Loc)) (loc : Loc)
  | forIn (var : String) (varLoc : Loc) (e : Expr) (body : List Stmt) (loc : Loc)
  deriving Repr, Inhabited

namespace Stmt
/-- `Statement::location` (strict.rs:230-244) -/
def loc : Stmt → Loc
  | declImm _ _ l | declMut _ _ l | assign _ _ l | createNode _ l | attrNode _ _ l | createEdge _ _ l
  | attrEdge _ _ _ l | scan _ _ l | print _ l | ifS _ l | forIn _ _ _ _ l => l
end Stmt

structure Global where
  name : String
  quant : Quant
  default : Option String
  loc : Loc
  deriving Repr, Inhabited

structure Shorthand where
  name : String
  var : String
  varLoc : Loc
  attrs : List AttrE
  loc : Loc
  deriving Repr, Inhabited

structure Stanza where
  stmts : List Stmt
  fullMatchStanzaIx : Nat
  fullMatchFileIx : Nat
  rangeStart : Loc
  rangeEnd : Loc
  /-- capture names of the stanza's own query with tree-sitter's quantifier for each
  (`stanza.query.capture_names()`, `capture_quantifiers(0)`), in index order -/
  captures : List (String × Quant)
  deriving Repr, Inhabited

structure File where
  globals : List Global
  inherited : List String
  stanzas : List Stanza
  shorthands : List Shorthand
  deriving Repr, Inhabited

def fullMatchName : String := "__tsg__full_match"

/-! ### `Display` of expressions and variables (ast.rs), used by the variable-name debug attribute -/

namespace Expr

mutual
def display : Expr → String
  | falseLit => "false"
  | nullLit => "#null"
  | trueLit => "true"
  | int n => toString n
  | str s => Val.strDebug s
  | list es => "[" ++ Val.commaSep (displayList es) ++ "]"
  | set es => "{" ++ Val.commaSep (displayList es) ++ "}"
  | listComp elem v _ value _ => "[ " ++ display elem ++ " for " ++ v ++ " in " ++ display value ++ " ]"
  | setComp elem v _ value _ => "{ " ++ display elem ++ " for " ++ v ++ " in " ++ display value ++ " }"
  | capture name _ _ _ _ => "@" ++ name
  | var name _ => name
  | scopedVar scope name _ => display scope ++ "." ++ name
  | call fn args => "(" ++ fn ++ String.join ((displayList args).map (" " ++ ·)) ++ ")"
  | regexCap ix => "$" ++ toString ix
def displayList : List Expr → List String
  | [] => []
  | e :: es => display e :: displayList es
end

end Expr

namespace Var
def display : Var → String
  | unscoped name _ => name
  | scopedV scope name _ => scope.display ++ "." ++ name
def loc : Var → Loc
  | unscoped _ l => l
  | scopedV _ _ l => l
end Var
