/-
  Model of `checker.rs` + the `VariableMap` of `variables.rs`: the static checks run at load time, which also
  resolve captures (quantifier, stanza and file capture indices) in the AST.

  Scopes are a stack of association lists, innermost first (`VariableMap::nested`). A nested block pushes an
  empty scope and pops it afterwards; the popped stack is returned because `set` in a nested block may
  replace the recorded result of a mutable variable of an outer block.

  Outside answers: `regex.captures("").is_some()` per scan arm (`CCtx.nullable`). The merged file query is
  modelled by its contract (capture names = union of the stanza queries' names in order of first
  appearance; a capture's quantifier in pattern i = its quantifier in stanza i's own query) — the harness
  re-checks that contract against tree-sitter on every case.
-/
import Tsg.Syntax.Ast

/-- `VariableError` -/
inductive VarErrK where
  | cannotAssignImmutable
  | alreadyDefined
  | undefined
  deriving Repr, DecidableEq, Inhabited

/-- `CheckError` variants with their payloads -/
inductive CheckErrK where
  | cannotHideGlobalVariable (name : String) (l : Loc)
  | cannotSetGlobalVariable (name : String) (l : Loc)
  | duplicateGlobalVariable (name : String) (l : Loc)
  | expectedListValue (l : Loc)
  | expectedLocalValue (l : Loc)
  | expectedOptionalValue (l : Loc)
  | nullableRegex (re : String) (l : Loc)
  | undefinedSyntaxCapture (name : String) (l : Loc)
  | undefinedVariable (name : String) (l : Loc)
  | unusedCaptures (names : String) (l : Loc)
  | variable (e : VarErrK) (name : String) (l : Loc)
  deriving Repr, DecidableEq, Inhabited

inductive CFail where
  | err (e : CheckErrK)
  | needNullable (pattern : String)
  | panic (site : String)
  deriving Repr, DecidableEq, Inhabited

namespace Checker

/-- `VariableResult` -/
structure VRes where
  isLocal : Bool
  quant : Quant
  deriving Repr, DecidableEq, Inhabited

/-- `variables::Variable<VariableResult>` -/
structure CVar where
  res : VRes
  mutable : Bool
  deriving Repr, DecidableEq, Inhabited

abbrev Scope := List (String × CVar)
/-- innermost scope first -/
abbrev Scopes := List Scope

/-- `VariableMap::get` -/
def scopesGet : Scopes → String → Option VRes
  | [], _ => none
  | sc :: rest, name =>
    match sc.lookup name with
    | some v => some v.res
    | none => scopesGet rest name

/-- `VariableMap::add`: only the innermost scope is consulted -/
def scopesAdd : Scopes → String → VRes → Bool → Except VarErrK Scopes
  | [], _, _, _ => .error .undefined   -- no scope: unreachable, the checker always has one
  | sc :: rest, name, v, m =>
    match sc.lookup name with
    | some _ => .error .alreadyDefined
    | none => .ok (((name, { res := v, mutable := m }) :: sc) :: rest)

def scopeReplace (sc : Scope) (name : String) (v : CVar) : Scope :=
  sc.map fun (k, old) => if k = name then (k, v) else (k, old)

/-- `VariableMap::set`: the nearest scope that has the name decides -/
def scopesSet : Scopes → String → VRes → Except VarErrK Scopes
  | [], _, _ => .error .undefined
  | sc :: rest, name, v =>
    match sc.lookup name with
    | some old =>
      if old.mutable then .ok (scopeReplace sc name { res := v, mutable := true } :: rest)
      else .error .cannotAssignImmutable
    | none =>
      match scopesSet rest name v with
      | .ok rest' => .ok (sc :: rest')
      | .error e => .error e

/-- checker context (`CheckContext` without the locals) -/
structure CCtx where
  globals : List (String × VRes)
  /-- the stanza query's capture names and quantifiers, in index order -/
  stanzaCaps : List (String × Quant)
  /-- the merged file query's capture names, in index order -/
  fileCaps : List String
  /-- `Regex::captures("").is_some()` -/
  nullable : String → Option Bool

/-- `ExpressionResult` -/
structure ERes where
  isLocal : Bool
  quant : Quant
  used : List String
  deriving Repr, Inhabited

def ERes.toV (r : ERes) : VRes := { isLocal := r.isLocal, quant := r.quant }

def errC {α : Type} (e : CheckErrK) : Except CFail α := .error (.err e)

def isListQuant (q : Quant) : Bool := q == .zeroOrMore || q == .oneOrMore

/-- `UnscopedVariable::check_add` -/
def unscopedAdd (c : CCtx) (sc : Scopes) (name : String) (l : Loc) (v : VRes) (m : Bool) : Except CFail Scopes :=
  if (c.globals.lookup name).isSome then errC (.cannotHideGlobalVariable name l)
  else
    let v' : VRes := if m then { v with isLocal := false } else v
    match scopesAdd sc name v' m with
    | .ok sc' => .ok sc'
    | .error e => errC (.variable e name l)

/-- `UnscopedVariable::check_set` -/
def unscopedSet (c : CCtx) (sc : Scopes) (name : String) (l : Loc) (v : VRes) : Except CFail Scopes :=
  if (c.globals.lookup name).isSome then errC (.cannotSetGlobalVariable name l)
  else
    match scopesSet sc name { v with isLocal := false } with
    | .ok sc' => .ok sc'
    | .error e => errC (.variable e name l)

/-- `UnscopedVariable::check_get`: globals first -/
def unscopedGet (c : CCtx) (sc : Scopes) (name : String) (l : Loc) : Except CFail ERes :=
  match c.globals.lookup name with
  | some v => .ok { isLocal := v.isLocal, quant := v.quant, used := [] }
  | none =>
    match scopesGet sc name with
    | some v => .ok { isLocal := v.isLocal, quant := v.quant, used := [] }
    | none => errC (.undefinedVariable name l)

mutual

/-- `Expression::check`: the resolved expression and its result -/
def checkExpr (c : CCtx) (sc : Scopes) : Expr → Except CFail (Expr × ERes)
  | .falseLit => .ok (.falseLit, { isLocal := true, quant := .one, used := [] })
  | .nullLit => .ok (.nullLit, { isLocal := true, quant := .one, used := [] })
  | .trueLit => .ok (.trueLit, { isLocal := true, quant := .one, used := [] })
  | .int n => .ok (.int n, { isLocal := true, quant := .one, used := [] })
  | .str s => .ok (.str s, { isLocal := true, quant := .one, used := [] })
  | .regexCap i => .ok (.regexCap i, { isLocal := true, quant := .one, used := [] })
  | .list es =>
    match checkExprs c sc es with
    | .error e => .error e
    | .ok (es', loc, used) => .ok (.list es', { isLocal := loc, quant := .zeroOrMore, used })
  | .set es =>
    match checkExprs c sc es with
    | .error e => .error e
    | .ok (es', loc, used) => .ok (.set es', { isLocal := loc, quant := .zeroOrMore, used })
  | .call f es =>
    match checkExprs c sc es with
    | .error e => .error e
    | .ok (es', loc, used) => .ok (.call f es', { isLocal := loc, quant := .one, used })
  | .listComp elem v vl value l =>
    match checkExpr c sc value with
    | .error e => .error e
    | .ok (value', rv) =>
      if !rv.isLocal then errC (.expectedLocalValue l)
      else if !isListQuant rv.quant then errC (.expectedListValue l)
      else
        match unscopedAdd c ([] :: sc) v vl rv.toV false with
        | .error e => .error e
        | .ok sc' =>
          match checkExpr c sc' elem with
          | .error e => .error e
          | .ok (elem', re) =>
            .ok (.listComp elem' v vl value' l, { isLocal := re.isLocal, quant := .zeroOrMore, used := rv.used ++ re.used })
  | .setComp elem v vl value l =>
    match checkExpr c sc value with
    | .error e => .error e
    | .ok (value', rv) =>
      if !rv.isLocal then errC (.expectedLocalValue l)
      else if !isListQuant rv.quant then errC (.expectedListValue l)
      else
        match unscopedAdd c ([] :: sc) v vl rv.toV false with
        | .error e => .error e
        | .ok sc' =>
          match checkExpr c sc' elem with
          | .error e => .error e
          | .ok (elem', re) =>
            .ok (.setComp elem' v vl value' l, { isLocal := re.isLocal, quant := .zeroOrMore, used := rv.used ++ re.used })
  | .capture name _ _ _ l =>
    match c.stanzaCaps.findIdx? (·.1 = name) with
    | none => errC (.undefinedSyntaxCapture name l)
    | some six =>
      match c.fileCaps.findIdx? (· = name) with
      | none => .error (.panic "missing capture index for name")
      | some fix =>
        let q := ((c.stanzaCaps.lookup name).getD .zero)
        .ok (.capture name q fix six l, { isLocal := true, quant := q, used := [name] })
  | .var name l =>
    match unscopedGet c sc name l with
    | .error e => .error e
    | .ok r => .ok (.var name l, r)
  | .scopedVar scope name l =>
    match checkExpr c sc scope with
    | .error e => .error e
    | .ok (scope', r) => .ok (.scopedVar scope' name l, { isLocal := false, quant := .one, used := r.used })

/-- elements of a list/set literal or call: (resolved, conjunction of locality, used captures) -/
def checkExprs (c : CCtx) (sc : Scopes) : List Expr → Except CFail (List Expr × Bool × List String)
  | [] => .ok ([], true, [])
  | e :: es =>
    match checkExpr c sc e with
    | .error err => .error err
    | .ok (e', r) =>
      match checkExprs c sc es with
      | .error err => .error err
      | .ok (es', loc, used) => .ok (e' :: es', r.isLocal && loc, r.used ++ used)

end

/-- `Variable::check_add` -/
def varAdd (c : CCtx) (sc : Scopes) (v : Var) (val : VRes) (m : Bool) : Except CFail (Var × Scopes × List String) :=
  match v with
  | .unscoped name l =>
    match unscopedAdd c sc name l val m with
    | .error e => .error e
    | .ok sc' => .ok (.unscoped name l, sc', [])
  | .scopedV scope name l =>
    match checkExpr c sc scope with
    | .error e => .error e
    | .ok (scope', r) => .ok (.scopedV scope' name l, sc, r.used)

/-- `Variable::check_set` -/
def varSet (c : CCtx) (sc : Scopes) (v : Var) (val : VRes) : Except CFail (Var × Scopes × List String) :=
  match v with
  | .unscoped name l =>
    match unscopedSet c sc name l val with
    | .error e => .error e
    | .ok sc' => .ok (.unscoped name l, sc', [])
  | .scopedV scope name l =>
    match checkExpr c sc scope with
    | .error e => .error e
    | .ok (scope', r) => .ok (.scopedV scope' name l, sc, r.used)

/-- attributes of an `attr` statement -/
def checkAttrs (c : CCtx) (sc : Scopes) : List AttrE → Except CFail (List AttrE × List String)
  | [] => .ok ([], [])
  | (name, e) :: rest =>
    match checkExpr c sc e with
    | .error err => .error err
    | .ok (e', r) =>
      match checkAttrs c sc rest with
      | .error err => .error err
      | .ok (rest', used) => .ok ((name, e') :: rest', r.used ++ used)

/-- `Condition::check` -/
def checkCond (c : CCtx) (sc : Scopes) : Cond → Except CFail (Cond × List String)
  | .some e l =>
    match checkExpr c sc e with
    | .error err => .error err
    | .ok (e', r) =>
      if !r.isLocal then errC (.expectedLocalValue l)
      else if r.quant != .zeroOrOne then errC (.expectedOptionalValue l)
      else .ok (.some e' l, r.used)
  | .none e l =>
    match checkExpr c sc e with
    | .error err => .error err
    | .ok (e', r) =>
      if !r.isLocal then errC (.expectedLocalValue l)
      else if r.quant != .zeroOrOne then errC (.expectedOptionalValue l)
      else .ok (.none e' l, r.used)
  | .bool e l =>
    match checkExpr c sc e with
    | .error err => .error err
    | .ok (e', r) =>
      if !r.isLocal then errC (.expectedLocalValue l)
      else .ok (.bool e' l, r.used)

def checkConds (c : CCtx) (sc : Scopes) : List Cond → Except CFail (List Cond × List String)
  | [] => .ok ([], [])
  | cd :: rest =>
    match checkCond c sc cd with
    | .error err => .error err
    | .ok (cd', u) =>
      match checkConds c sc rest with
      | .error err => .error err
      | .ok (rest', used) => .ok (cd' :: rest', u ++ used)

mutual

/-- `Statement::check`: resolved statement, scopes afterwards, used captures -/
def checkStmt (c : CCtx) (sc : Scopes) : Stmt → Except CFail (Stmt × Scopes × List String)
  | .declImm v e l =>
    match checkExpr c sc e with
    | .error err => .error err
    | .ok (e', r) =>
      match varAdd c sc v r.toV false with
      | .error err => .error err
      | .ok (v', sc', u) => .ok (.declImm v' e' l, sc', r.used ++ u)
  | .declMut v e l =>
    match checkExpr c sc e with
    | .error err => .error err
    | .ok (e', r) =>
      match varAdd c sc v r.toV true with
      | .error err => .error err
      | .ok (v', sc', u) => .ok (.declMut v' e' l, sc', r.used ++ u)
  | .assign v e l =>
    match checkExpr c sc e with
    | .error err => .error err
    | .ok (e', r) =>
      match varSet c sc v r.toV with
      | .error err => .error err
      | .ok (v', sc', u) => .ok (.assign v' e' l, sc', r.used ++ u)
  | .createNode v l =>
    match varAdd c sc v { isLocal := true, quant := .one } false with
    | .error err => .error err
    | .ok (v', sc', u) => .ok (.createNode v' l, sc', u)
  | .attrNode n attrs l =>
    match checkExpr c sc n with
    | .error err => .error err
    | .ok (n', r) =>
      match checkAttrs c sc attrs with
      | .error err => .error err
      | .ok (attrs', u) => .ok (.attrNode n' attrs' l, sc, r.used ++ u)
  | .createEdge a b l =>
    match checkExpr c sc a with
    | .error err => .error err
    | .ok (a', ra) =>
      match checkExpr c sc b with
      | .error err => .error err
      | .ok (b', rb) => .ok (.createEdge a' b' l, sc, ra.used ++ rb.used)
  | .attrEdge a b attrs l =>
    match checkExpr c sc a with
    | .error err => .error err
    | .ok (a', ra) =>
      match checkExpr c sc b with
      | .error err => .error err
      | .ok (b', rb) =>
        match checkAttrs c sc attrs with
        | .error err => .error err
        | .ok (attrs', u) => .ok (.attrEdge a' b' attrs' l, sc, ra.used ++ rb.used ++ u)
  | .scan e arms l =>
    match checkExpr c sc e with
    | .error err => .error err
    | .ok (e', r) =>
      if !r.isLocal then errC (.expectedLocalValue l)
      else
        match checkScanArms c sc arms with
        | .error err => .error err
        | .ok (arms', sc', u) => .ok (.scan e' arms' l, sc', r.used ++ u)
  | .print es l =>
    match checkExprs c sc es with
    | .error err => .error err
    | .ok (es', _, u) => .ok (.print es' l, sc, u)
  | .ifS arms l =>
    match checkIfArms c sc arms with
    | .error err => .error err
    | .ok (arms', sc', u) => .ok (.ifS arms' l, sc', u)
  | .forIn v vl e body l =>
    match checkExpr c sc e with
    | .error err => .error err
    | .ok (e', r) =>
      if !r.isLocal then errC (.expectedLocalValue l)
      else if !isListQuant r.quant then errC (.expectedListValue l)
      else
        match unscopedAdd c ([] :: sc) v vl r.toV false with
        | .error err => .error err
        | .ok sc1 =>
          match checkStmts c sc1 body with
          | .error err => .error err
          | .ok (body', sc2, u) => .ok (.forIn v vl e' body' l, sc2.tail, r.used ++ u)

/-- statements of one block, in order, in the same scopes -/
def checkStmts (c : CCtx) (sc : Scopes) : List Stmt → Except CFail (List Stmt × Scopes × List String)
  | [] => .ok ([], sc, [])
  | s :: rest =>
    match checkStmt c sc s with
    | .error err => .error err
    | .ok (s', sc1, u) =>
      match checkStmts c sc1 rest with
      | .error err => .error err
      | .ok (rest', sc2, used) => .ok (s' :: rest', sc2, u ++ used)

/-- scan arms: nullable-regex rule, then the body in a nested scope -/
def checkScanArms (c : CCtx) (sc : Scopes) :
    List (String × List Stmt × Loc) → Except CFail (List (String × List Stmt × Loc) × Scopes × List String)
  | [] => .ok ([], sc, [])
  | (re, body, al) :: rest =>
    match c.nullable re with
    | none => .error (.needNullable re)
    | some true => errC (.nullableRegex re al)
    | some false =>
      match checkStmts c ([] :: sc) body with
      | .error err => .error err
      | .ok (body', sc1, u) =>
        match checkScanArms c sc1.tail rest with
        | .error err => .error err
        | .ok (rest', sc2, used) => .ok ((re, body', al) :: rest', sc2, u ++ used)

/-- if arms: conditions in the enclosing scopes, then the body in a nested scope -/
def checkIfArms (c : CCtx) (sc : Scopes) :
    List (List Cond × List Stmt × Loc) → Except CFail (List (List Cond × List Stmt × Loc) × Scopes × List String)
  | [] => .ok ([], sc, [])
  | (conds, body, al) :: rest =>
    match checkConds c sc conds with
    | .error err => .error err
    | .ok (conds', uc) =>
      match checkStmts c ([] :: sc) body with
      | .error err => .error err
      | .ok (body', sc1, u) =>
        match checkIfArms c sc1.tail rest with
        | .error err => .error err
        | .ok (rest', sc2, used) => .ok ((conds', body', al) :: rest', sc2, uc ++ u ++ used)

end

/-- insertion sort of capture names (they are distinct) -/
def insertSorted (s : String) : List String → List String
  | [] => [s]
  | x :: xs => if s < x then s :: x :: xs else x :: insertSorted s xs

def sortStrings (l : List String) : List String := l.foldr insertSorted []

/-- positions paired with elements -/
def enumFrom {α : Type} : Nat → List α → List (Nat × α)
  | _, [] => []
  | n, x :: xs => (n, x) :: enumFrom (n + 1) xs

/-- the unused-capture report of a stanza (`Stanza::check`, checker.rs:181-200) -/
def unusedCaptures (st : Stanza) (used : List String) : List String :=
  let all := (enumFrom 0 st.captures).filter (fun p => p.1 != st.fullMatchStanzaIx) |>.map (·.2.1)
  sortStrings ((all.filter fun n => !used.contains n && !n.startsWith "_").map ("@" ++ ·))

/-- `Stanza::check` -/
def checkStanza (globals : List (String × VRes)) (fileCaps : List String) (nullable : String → Option Bool)
    (st : Stanza) : Except CFail Stanza :=
  let c : CCtx := { globals, stanzaCaps := st.captures, fileCaps, nullable }
  match fileCaps.findIdx? (· = fullMatchName) with
  | none => .error (.panic "missing capture index for full match")
  | some fm =>
    match checkStmts c [[]] st.stmts with
    | .error e => .error e
    | .ok (stmts', _, used) =>
      let unused := unusedCaptures st used
      if unused.isEmpty then .ok { st with stmts := stmts', fullMatchFileIx := fm }
      else errC (.unusedCaptures (" ".intercalate unused) st.rangeStart)

/-- the global table with duplicate detection (checker.rs:125-143) -/
def checkGlobals : List Global → List (String × VRes) → Except CFail (List (String × VRes))
  | [], acc => .ok acc
  | g :: rest, acc =>
    if (acc.lookup g.name).isSome then errC (.duplicateGlobalVariable g.name g.loc)
    else checkGlobals rest ((g.name, { isLocal := true, quant := g.quant }) :: acc)

def dedup : List String → List String → List String
  | [], acc => acc.reverse
  | x :: xs, acc => if acc.contains x then dedup xs acc else dedup xs (x :: acc)

/-- capture names of the merged file query: union in order of first appearance -/
def fileCaptureNames (f : File) : List String :=
  dedup (f.stanzas.flatMap fun st => st.captures.map (·.1)) []

def checkStanzas (globals : List (String × VRes)) (fileCaps : List String) (nullable : String → Option Bool) :
    List Stanza → Except CFail (List Stanza)
  | [] => .ok []
  | st :: rest =>
    match checkStanza globals fileCaps nullable st with
    | .error e => .error e
    | .ok st' =>
      match checkStanzas globals fileCaps nullable rest with
      | .error e => .error e
      | .ok rest' => .ok (st' :: rest')

/-- `File::check` -/
def check (nullable : String → Option Bool) (f : File) : Except CFail File :=
  match checkGlobals f.globals [] with
  | .error e => .error e
  | .ok globals =>
    match checkStanzas globals (fileCaptureNames f) nullable f.stanzas with
    | .error e => .error e
    | .ok stanzas => .ok { f with stanzas }

end Checker
