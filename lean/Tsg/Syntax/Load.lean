/-
  `File::from_str` = parse, then check (parser.rs:33-39).
-/
import Tsg.Syntax.Parser
import Tsg.Syntax.Checker

inductive LoadResult where
  | loaded (f : File)
  | parseError (e : PErrK)
  | checkError (e : CheckErrK)
  /-- an outside answer is missing (harness protocol) -/
  | needQuery (q : String)
  | needRegex (p : String)
  | needNullable (p : String)
  | outOfFuel
  | panic (site : String)
  deriving Repr, Inhabited

def Loader.load (o : POracle) (nullable : String → Option Bool) (text : String) : LoadResult :=
  match Parser.parse o text with
  | .error (.err e) => .parseError e
  | .error (.need (.query q)) => .needQuery q
  | .error (.need (.regex p)) => .needRegex p
  | .error .outOfFuel => .outOfFuel
  | .error (.panic s) => .panic s
  | .ok f =>
    match Checker.check nullable f with
    | .ok f' => .loaded f'
    | .error (.err e) => .checkError e
    | .error (.needNullable p) => .needNullable p
    | .error (.panic s) => .panic s
