/-
  Model of `parser.rs`, function by function. The parser is written as a term of `PP`, a small
  program type whose only state-changing primitive is `next` (consume one character): every other
  primitive reads. `PP.run` gives the semantics over `PS` = remaining characters, (row, column) and
  byte offset. Because all consumption goes through `next`, "the recorded location is the row/column of
  the consumed prefix" is a theorem about `PP.run` for every term (Props/C07).

  External answers (tree-sitter's `Query::new`, `Regex::new`, Unicode character classes of non-ASCII
  characters) come from `POracle`.
-/
import Tsg.Syntax.Ast

/-- parser state: `chars` (remaining), `location`, `offset` -/
structure PS where
  rest : List Char
  row : Nat
  col : Nat
  off : Nat
  deriving Repr, DecidableEq, Inhabited

/-- `ParseError` variants (parser.rs:55-82) with the payloads that identify them -/
inductive PErrK where
  | expectedQuantifier (l : Loc)
  | expectedToken (tok : String) (l : Loc)
  | expectedVariable (l : Loc)
  | expectedUnscopedVariable (l : Loc)
  | invalidRegex (re : String) (l : Loc)
  | invalidRegexCapture (l : Loc)
  | invalidIntegerConstant (text : String) (l : Loc)
  | queryError (row col off : Nat)
  | unexpectedCharacter (c : Char) (within : String) (l : Loc)
  | unexpectedEOF (l : Loc)
  | unexpectedKeyword (kw : String) (l : Loc)
  | unexpectedLiteral (lit : String) (l : Loc)
  | unexpectedQueryPatterns (l : Loc)
  deriving Repr, DecidableEq, Inhabited

/-- questions to the outside world -/
inductive PQ where
  | query (text : String)       -- `Query::new(language, text)`
  | regex (pattern : String)    -- `Regex::new(pattern).is_ok()`
  deriving Repr, DecidableEq, Inhabited

inductive PFail where
  | err (e : PErrK)
  | need (q : PQ)
  | outOfFuel
  | panic (site : String)
  deriving Repr, DecidableEq, Inhabited

/-- answer of `Query::new` -/
inductive QueryAns where
  | valid (patterns : Nat) (captures : List (String × Quant))
  | invalid (row col off : Nat)
  /-- the call did not return: tree-sitter 0.24.7's Rust binding panics while building the error for a query whose
      error is at offset 0 (`source.as_bytes()[offset - 1]`), e.g. a stanza query that begins with an unknown field -/
  | bindingPanic
  deriving Repr, DecidableEq, Inhabited

structure POracle where
  query : String → Option QueryAns
  regexValid : String → Option Bool
  /-- Unicode classes of a non-ASCII character: (is_whitespace, is_alphabetic, is_alphanumeric) -/
  charClass : Char → Bool × Bool × Bool
  /-- iteration bound for the character loops: any number ≥ length of the text + 2 -/
  fuel : Nat

/-- parser programs -/
inductive PP : Type → Type 1 where
  | pure {α : Type} (a : α) : PP α
  | fail {α : Type} (f : PFail) : PP α
  /-- consume one character (`chars.next()`, `offset += len_utf8`, `location.advance`) -/
  | next {α : Type} (k : Option Char → PP α) : PP α
  /-- read-only view of the state (`chars.peek()`, `source[offset..]`, `location`, `offset`) -/
  | view {α : Type} (k : PS → PP α) : PP α
  /-- run `m`; hand its result (success or error) to `k` WITHOUT restoring the state (`if let Ok(..) = ..`) -/
  | attempt {α β : Type} (m : PP β) (k : Except PErrK β → PP α) : PP α

namespace PP

protected def bind {α β : Type} : PP α → (α → PP β) → PP β
  | .pure a, f => f a
  | .fail e, _ => .fail e
  | .next k, f => .next (fun c => PP.bind (k c) f)
  | .view k, f => .view (fun s => PP.bind (k s) f)
  | .attempt m k, f => .attempt m (fun r => PP.bind (k r) f)

instance : Monad PP where
  pure := PP.pure
  bind := PP.bind

/-- `Location::advance` + `offset += ch.len_utf8()` -/
def advance (s : PS) (c : Char) (rest : List Char) : PS :=
  if c = '\n' then { rest := rest, row := s.row + 1, col := 0, off := s.off + c.utf8Size }
  else { rest := rest, row := s.row, col := s.col + 1, off := s.off + c.utf8Size }

/-- semantics -/
def run {α : Type} : PP α → PS → Except PFail α × PS
  | .pure a, s => (.ok a, s)
  | .fail f, s => (.error f, s)
  | .next k, s =>
    match s.rest with
    | [] => run (k none) s
    | c :: rest => run (k (some c)) (advance s c rest)
  | .view k, s => run (k s) s
  | .attempt m k, s =>
    match run m s with
    | (.ok b, s') => run (k (.ok b)) s'
    | (.error (.err e), s') => run (k (.error e)) s'
    | (.error f, s') => (.error f, s')

def failE {α : Type} (e : PErrK) : PP α := .fail (.err e)
def getS : PP PS := .view .pure
def nextC : PP (Option Char) := .next .pure
def attemptP {β : Type} (m : PP β) : PP (Except PErrK β) := .attempt m .pure

end PP

namespace Parser
open PP (failE getS nextC attemptP)

def locOf (s : PS) : Loc := { row := s.row, col := s.col }

/-- `char::is_whitespace` (ASCII part exact: U+0009..U+000D, U+0020) -/
def isWs (o : POracle) (c : Char) : Bool :=
  if c.toNat < 128 then c = ' ' || (9 ≤ c.toNat && c.toNat ≤ 13) else (o.charClass c).1
def isAlpha (o : POracle) (c : Char) : Bool :=
  if c.toNat < 128 then ('a' ≤ c && c ≤ 'z') || ('A' ≤ c && c ≤ 'Z') else (o.charClass c).2.1
def isAlnum (o : POracle) (c : Char) : Bool :=
  if c.toNat < 128 then ('a' ≤ c && c ≤ 'z') || ('A' ≤ c && c ≤ 'Z') || ('0' ≤ c && c ≤ '9') else (o.charClass c).2.2
def isDigit (c : Char) : Bool := '0' ≤ c && c ≤ '9'
def isIdentStart (o : POracle) (c : Char) : Bool := c = '_' || isAlpha o c
def isIdent (o : POracle) (c : Char) : Bool := c = '_' || c = '-' || isAlnum o c

/-- `peek()`: error at end of input -/
def peek : PP Char := do
  let s ← getS
  match s.rest with
  | c :: _ => pure c
  | [] => failE (.unexpectedEOF (locOf s))

def tryPeek : PP (Option Char) := do
  let s ← getS
  pure s.rest.head?

/-- `next()` -/
def next : PP Char := do
  let s ← getS
  match s.rest with
  | [] => failE (.unexpectedEOF (locOf s))
  | _ :: _ =>
    let c ← nextC
    match c with
    | some c => pure c
    | none => failE (.unexpectedEOF (locOf s))

def skip : PP Unit := do let _ ← next; pure ()

/-- `consume_whitespace` (parser.rs:249-265); `fuel` ≥ remaining length -/
def consumeWhitespace (o : POracle) : Nat → Bool → PP Unit
  | 0, _ => pure ()
  | fuel + 1, inComment => do
    let c ← tryPeek
    match c with
    | none => pure ()
    | some ch =>
      if inComment then do
        skip
        consumeWhitespace o fuel (ch != '\n')
      else if ch = ';' then do
        skip
        consumeWhitespace o fuel true
      else if !isWs o ch then pure ()
      else do
        skip
        consumeWhitespace o fuel false

def ws (o : POracle) : PP Unit := consumeWhitespace o o.fuel false

/-- `consume_while(f)`, returning the consumed characters -/
def consumeWhile (f : Char → Bool) : Nat → List Char → PP (List Char)
  | 0, acc => pure acc.reverse
  | fuel + 1, acc => do
    let c ← tryPeek
    match c with
    | none => pure acc.reverse
    | some ch => if f ch then do skip; consumeWhile f fuel (ch :: acc) else pure acc.reverse

def consumeWhileAll (o : POracle) (f : Char → Bool) : PP (List Char) := consumeWhile f o.fuel []

def consumeN : Nat → PP Unit
  | 0 => pure ()
  | n + 1 => do skip; consumeN n

/-- `consume_token(token)` (parser.rs:283-289): prefix match on the remaining input -/
def consumeToken (tok : String) : PP Unit := do
  let s ← getS
  if tok.toList.isPrefixOf s.rest then consumeN tok.length
  else failE (.expectedToken tok (locOf s))

/-- `consume_keyword(token)`: the token must not be followed by an identifier character -/
def consumeKeyword (o : POracle) (tok : String) : PP Unit := do
  let s ← getS
  if tok.toList.isPrefixOf s.rest && !((s.rest.drop tok.length).head?.map (isIdent o)).getD false then consumeN tok.length
  else failE (.expectedToken tok (locOf s))

/-- `parse_name(within)` -/
def parseName (o : POracle) (within : String) : PP String := do
  let ch ← next
  if !isIdentStart o ch then do
    let s ← getS
    failE (.unexpectedCharacter ch within (locOf s))
  else do
    let rest ← consumeWhileAll o (isIdent o)
    pure (String.ofList (ch :: rest))

def parseIdentifier (o : POracle) (within : String) : PP String := parseName o within

/-- the escape table of `parse_string`: `\\0 \\n \\r \\t`; any other escaped character stands for itself -/
def unescape (ch : Char) : Char :=
  if ch = '0' then '\x00' else if ch = 'n' then '\n' else if ch = 'r' then '\r' else if ch = 't' then '\t' else ch

/-- `parse_string` (parser.rs:742-765); `fuel` ≥ remaining length -/
def parseStringLoop : Nat → Bool → List Char → PP String
  | 0, _, _ => .fail .outOfFuel
  | fuel + 1, escape, acc => do
    let ch ← next
    if escape then
      parseStringLoop fuel false (unescape ch :: acc)
    else if ch = '"' then pure (String.ofList acc.reverse)
    else if ch = '\\' then parseStringLoop fuel true acc
    else parseStringLoop fuel false (ch :: acc)

def parseString (o : POracle) : PP String := do
  consumeToken "\""
  parseStringLoop o.fuel false []

def digitsToNat (cs : List Char) : Nat := cs.foldl (fun n c => n * 10 + (c.toNat - 48)) 0

/-- `parse_integer_constant` (with the overflow repair) -/
def parseIntegerConstant (o : POracle) : PP Expr := do
  let s0 ← getS
  let ds ← consumeWhileAll o isDigit
  let text := String.ofList ds
  let n := digitsToNat ds
  if n < 2 ^ 32 then pure (.int n) else failE (.invalidIntegerConstant text (locOf s0))

/-- `parse_literal` -/
def parseLiteral (o : POracle) : PP Expr := do
  let s0 ← getS
  consumeToken "#"
  let lit ← parseName o "literal"
  if lit = "false" then pure .falseLit
  else if lit = "null" then pure .nullLit
  else if lit = "true" then pure .trueLit
  else failE (.unexpectedLiteral lit (locOf s0))

/-- `parse_regex_capture` (with the overflow repair) -/
def parseRegexCapture (o : POracle) : PP Expr := do
  let s0 ← getS
  consumeToken "$"
  let ds ← consumeWhileAll o isDigit
  if ds.isEmpty then failE (.invalidRegexCapture (locOf s0))
  else
    let n := digitsToNat ds
    if n < 2 ^ 64 then pure (.regexCap n) else failE (.invalidRegexCapture (locOf s0))

/-- `parse_capture` -/
def parseCapture (o : POracle) : PP Expr := do
  let s0 ← getS
  consumeToken "@"
  let ch ← next
  if !isIdentStart o ch then do
    let s ← getS
    failE (.unexpectedCharacter ch "query capture" (locOf s))
  else do
    let rest ← consumeWhileAll o (isIdent o)
    pure (.capture (String.ofList (ch :: rest)) .zero (2 ^ 64 - 1) (2 ^ 64 - 1) (locOf s0))

/-- unresolved index: `usize::MAX` -/
def usizeMax : Nat := 2 ^ 64 - 1

mutual

/-- `parse_expression` (parser.rs:767-806) -/
def parseExpression (o : POracle) : Nat → PP Expr
  | 0 => .fail .outOfFuel
  | fuel + 1 => do
    let c ← peek
    let e ←
      if c = '#' then parseLiteral o
      else if c = '"' then do let s ← parseString o; pure (.str s)
      else if c = '@' then parseCapture o
      else if c = '$' then parseRegexCapture o
      else if c = '(' then parseCall o fuel
      else if c = '[' then parseList o fuel
      else if c = '{' then parseSet o fuel
      else if isDigit c then parseIntegerConstant o
      else if isIdentStart o c then do
        let s ← getS
        let name ← parseIdentifier o "variable name"
        pure (.var name (locOf s))
      else do
        let s ← getS
        failE (.unexpectedCharacter c "expression" (locOf s))
    ws o
    scopedChain o fuel e

/-- the `while self.try_peek() == Some('.')` loop of `parse_expression` -/
def scopedChain (o : POracle) : Nat → Expr → PP Expr
  | 0, _ => .fail .outOfFuel
  | fuel + 1, e => do
    let c ← tryPeek
    if c = some '.' then do
      skip
      ws o
      let s ← getS
      let name ← parseIdentifier o "scoped variable name"
      ws o
      scopedChain o fuel (.scopedVar e name (locOf s))
    else pure e

/-- `parse_call` -/
def parseCall (o : POracle) : Nat → PP Expr
  | 0 => .fail .outOfFuel
  | fuel + 1 => do
    consumeToken "("
    ws o
    let f ← parseIdentifier o "function name"
    ws o
    let args ← parseCallArgs o fuel
    consumeToken ")"
    pure (.call f args)

def parseCallArgs (o : POracle) : Nat → PP (List Expr)
  | 0 => .fail .outOfFuel
  | fuel + 1 => do
    let c ← peek
    if c = ')' then pure []
    else do
      let e ← parseExpression o fuel
      ws o
      let rest ← parseCallArgs o fuel
      pure (e :: rest)

/-- `parse_sequence(end_marker)` -/
def parseSequence (o : POracle) (endMarker : Char) : Nat → PP (List Expr)
  | 0 => .fail .outOfFuel
  | fuel + 1 => do
    let c ← peek
    if c = endMarker then pure []
    else do
      let e ← parseExpression o fuel
      ws o
      let c2 ← peek
      if c2 ≠ endMarker then do
        consumeToken ","
        ws o
      let rest ← parseSequence o endMarker fuel
      pure (e :: rest)

/-- `parse_list` / `parse_set` share their shape; `close` is `]` or `}` -/
def parseCollection (o : POracle) (isList : Bool) : Nat → PP Expr
  | 0 => .fail .outOfFuel
  | fuel + 1 => do
    let s0 ← getS
    let openT := if isList then "[" else "{"
    let closeT := if isList then "]" else "}"
    let closeC := if isList then ']' else '}'
    let mk := fun (es : List Expr) => if isList then Expr.list es else Expr.set es
    consumeToken openT
    ws o
    let r0 ← attemptP (consumeToken closeT)
    match r0 with
    | .ok () => pure (mk [])
    | .error _ => do
      let first ← parseExpression o fuel
      ws o
      let r1 ← attemptP (consumeToken closeT)
      match r1 with
      | .ok () => pure (mk [first])
      | .error _ => do
        let r2 ← attemptP (consumeToken ",")
        match r2 with
        | .ok () => do
          ws o
          let rest ← parseSequence o closeC fuel
          ws o
          consumeToken closeT
          pure (mk (first :: rest))
        | .error _ => do
          consumeToken "for"
          ws o
          let v ← parseUnscopedVariable o fuel
          ws o
          consumeToken "in"
          ws o
          let value ← parseExpression o fuel
          ws o
          consumeToken closeT
          pure (if isList then .listComp first v.1 v.2 value (locOf s0) else .setComp first v.1 v.2 value (locOf s0))

def parseList (o : POracle) (fuel : Nat) : PP Expr := parseCollection o true fuel
def parseSet (o : POracle) (fuel : Nat) : PP Expr := parseCollection o false fuel

/-- `parse_variable` -/
def parseVariable (o : POracle) : Nat → PP Var
  | 0 => .fail .outOfFuel
  | fuel + 1 => do
    let s0 ← getS
    let e ← parseExpression o fuel
    match e with
    | .var name l => pure (.unscoped name l)
    | .scopedVar scope name l => pure (.scopedV scope name l)
    | _ => failE (.expectedVariable (locOf s0))

/-- `parse_unscoped_variable`: (name, location) -/
def parseUnscopedVariable (o : POracle) : Nat → PP (String × Loc)
  | 0 => .fail .outOfFuel
  | fuel + 1 => do
    let v ← parseVariable o fuel
    match v with
    | .unscoped name l => pure (name, l)
    | .scopedV _ _ l => failE (.expectedUnscopedVariable l)

end

/-- `parse_attribute` -/
def parseAttribute (o : POracle) (fuel : Nat) : PP AttrE := do
  let name ← parseIdentifier o "attribute name"
  ws o
  let c ← tryPeek
  if c = some '=' then do
    consumeToken "="
    ws o
    let e ← parseExpression o fuel
    pure (name, e)
  else pure (name, .trueLit)

/-- `parse_attributes` -/
def parseAttributesLoop (o : POracle) (fuel : Nat) : Nat → PP (List AttrE)
  | 0 => .fail .outOfFuel
  | n + 1 => do
    let c ← tryPeek
    if c = some ',' then do
      skip
      ws o
      let a ← parseAttribute o fuel
      ws o
      let rest ← parseAttributesLoop o fuel n
      pure (a :: rest)
    else pure []

def parseAttributes (o : POracle) (fuel : Nat) : PP (List AttrE) := do
  let a ← parseAttribute o fuel
  ws o
  let rest ← parseAttributesLoop o fuel fuel
  pure (a :: rest)

/-- `parse_condition` (with the keyword repair) -/
def parseCondition (o : POracle) (fuel : Nat) : PP Cond := do
  let s0 ← getS
  let l := locOf s0
  let r1 ← attemptP (consumeKeyword o "some")
  let c ← match r1 with
    | .ok () => do
      ws o
      let e ← parseExpression o fuel
      pure (Cond.some e l)
    | .error _ => do
      let r2 ← attemptP (consumeKeyword o "none")
      match r2 with
      | .ok () => do
        ws o
        let e ← parseExpression o fuel
        pure (Cond.none e l)
      | .error _ => do
        let r3 ← attemptP (parseExpression o fuel)
        match r3 with
        | .ok e => do
          ws o
          pure (Cond.bool e l)
        | .error _ => failE (.expectedToken "(some|none)? EXPRESSION" l)
  ws o
  pure c

/-- `parse_conditions` -/
def parseConditions (o : POracle) (fuel : Nat) : Nat → PP (List Cond)
  | 0 => .fail .outOfFuel
  | n + 1 => do
    let c ← parseCondition o fuel
    ws o
    let nx ← tryPeek
    if nx = some ',' then do
      consumeToken ","
      ws o
      let rest ← parseConditions o fuel n
      pure (c :: rest)
    else pure [c]

mutual

/-- `parse_statements` -/
def parseStatements (o : POracle) : Nat → PP (List Stmt)
  | 0 => .fail .outOfFuel
  | fuel + 1 => do
    consumeToken "{"
    ws o
    let ss ← parseStatementsLoop o fuel
    consumeToken "}"
    pure ss

def parseStatementsLoop (o : POracle) : Nat → PP (List Stmt)
  | 0 => .fail .outOfFuel
  | fuel + 1 => do
    let c ← peek
    if c = '}' then pure []
    else do
      let s ← parseStatement o fuel
      ws o
      let rest ← parseStatementsLoop o fuel
      pure (s :: rest)

/-- `elif` arms -/
def parseElifs (o : POracle) (loc : Loc) : Nat → PP (List (List Cond × List Stmt × Loc))
  | 0 => .fail .outOfFuel
  | fuel + 1 => do
    let r ← attemptP (consumeToken "elif")
    match r with
    | .ok () => do
      ws o
      let conds ← parseConditions o fuel fuel
      ws o
      let body ← parseStatements o fuel
      ws o
      ws o
      let s ← getS
      let rest ← parseElifs o (locOf s) fuel
      pure ((conds, body, loc) :: rest)
    | .error _ => pure []

/-- `parse_statement` (parser.rs:484-695) -/
def parseStatement (o : POracle) : Nat → PP Stmt
  | 0 => .fail .outOfFuel
  | fuel + 1 => do
    let s0 ← getS
    let kwLoc := locOf s0
    let keyword ← parseName o "keyword"
    ws o
    if keyword = "let" then do
      let v ← parseVariable o fuel
      ws o; consumeToken "="; ws o
      let e ← parseExpression o fuel
      pure (.declImm v e kwLoc)
    else if keyword = "var" then do
      let v ← parseVariable o fuel
      ws o; consumeToken "="; ws o
      let e ← parseExpression o fuel
      pure (.declMut v e kwLoc)
    else if keyword = "set" then do
      let v ← parseVariable o fuel
      ws o; consumeToken "="; ws o
      let e ← parseExpression o fuel
      pure (.assign v e kwLoc)
    else if keyword = "node" then do
      let v ← parseVariable o fuel
      pure (.createNode v kwLoc)
    else if keyword = "edge" then do
      let a ← parseExpression o fuel
      ws o; consumeToken "->"; ws o
      let b ← parseExpression o fuel
      pure (.createEdge a b kwLoc)
    else if keyword = "attr" then do
      consumeToken "("
      ws o
      let a ← parseExpression o fuel
      ws o
      let c ← peek
      if c = '-' then do
        consumeToken "->"
        ws o
        let b ← parseExpression o fuel
        ws o; consumeToken ")"; ws o
        let attrs ← parseAttributes o fuel
        pure (.attrEdge a b attrs kwLoc)
      else do
        ws o; consumeToken ")"; ws o
        let attrs ← parseAttributes o fuel
        pure (.attrNode a attrs kwLoc)
    else if keyword = "print" then do
      let e ← parseExpression o fuel
      ws o
      let rest ← parsePrintArgs o fuel
      ws o
      pure (.print (e :: rest) kwLoc)
    else if keyword = "scan" then do
      let e ← parseExpression o fuel
      ws o; consumeToken "{"; ws o
      let arms ← parseScanArmsChecked o kwLoc fuel
      consumeToken "}"
      pure (.scan e arms kwLoc)
    else if keyword = "if" then do
      ws o
      let conds ← parseConditions o fuel fuel
      ws o
      let body ← parseStatements o fuel
      ws o
      let s1 ← getS
      let elifs ← parseElifs o (locOf s1) fuel
      let s2 ← getS
      let r ← attemptP (consumeToken "else")
      let elseArm ← match r with
        | .ok () => do
          ws o
          let b ← parseStatements o fuel
          ws o
          ws o
          pure [(([] : List Cond), b, locOf s2)]
        | .error _ => pure []
      pure (.ifS ((conds, body, kwLoc) :: elifs ++ elseArm) kwLoc)
    else if keyword = "for" then do
      ws o
      let v ← parseUnscopedVariable o fuel
      ws o; consumeToken "in"; ws o
      let e ← parseExpression o fuel
      ws o
      let body ← parseStatements o fuel
      pure (.forIn v.1 v.2 e body kwLoc)
    else failE (.unexpectedKeyword keyword kwLoc)

/-- the `while self.try_peek() == Some(',')` loop of `print` -/
def parsePrintArgs (o : POracle) : Nat → PP (List Expr)
  | 0 => .fail .outOfFuel
  | fuel + 1 => do
    let c ← tryPeek
    if c = some ',' then do
      consumeToken ","
      ws o
      let e ← parseExpression o fuel
      ws o
      let rest ← parsePrintArgs o fuel
      pure (e :: rest)
    else pure []

/-- scan arms with the regex validity check (`Regex::new(&pattern)`) -/
def parseScanArmsChecked (o : POracle) (kwLoc : Loc) : Nat → PP (List (String × List Stmt × Loc))
  | 0 => .fail .outOfFuel
  | fuel + 1 => do
    let c ← peek
    if c = '}' then pure []
    else do
      let s0 ← getS
      let pattern ← parseString o
      match o.regexValid pattern with
      | none => .fail (.need (.regex pattern))
      | some false => failE (.invalidRegex pattern (locOf s0))
      | some true => do
        ws o
        let body ← parseStatements o fuel
        ws o
        let rest ← parseScanArmsChecked o kwLoc fuel
        pure ((pattern, body, kwLoc) :: rest)

end

/-- `skip_query` (parser.rs:419-458): advance to the `{` that opens the stanza body; returns the skipped text -/
def skipQuery : Nat → Nat → Bool → Bool → Bool → List Char → PP (List Char)
  | 0, _, _, _, _, _ => .fail .outOfFuel
  | fuel + 1, depth, inString, inEscape, inComment, acc => do
    let ch ← peek
    if inEscape then do skip; skipQuery fuel depth inString false inComment (ch :: acc)
    else if inString then
      if ch = '\\' then do skip; skipQuery fuel depth true true inComment (ch :: acc)
      else if ch = '"' || ch = '\n' then do skip; skipQuery fuel depth false false inComment (ch :: acc)
      else do skip; skipQuery fuel depth true false inComment (ch :: acc)
    else if inComment then do
      skip
      skipQuery fuel depth false false (ch != '\n') (ch :: acc)
    else if ch = '"' then do skip; skipQuery fuel depth true false false (ch :: acc)
    else if ch = '(' then do skip; skipQuery fuel (depth + 1) false false false (ch :: acc)
    else if ch = ')' then do skip; skipQuery fuel (depth - 1) false false false (ch :: acc)
    else if ch = '{' then pure acc.reverse
    else if ch = ';' then do skip; skipQuery fuel depth false false true (ch :: acc)
    else do skip; skipQuery fuel depth false false false (ch :: acc)

/-- `parse_quantifier` -/
def parseQuantifier (o : POracle) : PP Quant := do
  let c ← tryPeek
  match c with
  | none => pure .one
  | some ch => do
    skip
    if ch = '?' then pure .zeroOrOne
    else if ch = '*' then pure .zeroOrMore
    else if ch = '+' then pure .oneOrMore
    else if !isWs o ch then do
      let s ← getS
      failE (.expectedQuantifier (locOf s))
    else pure .one

/-- `parse_global` -/
def parseGlobal (o : POracle) : PP Global := do
  let s0 ← getS
  let name ← parseIdentifier o "global variable"
  let q ← parseQuantifier o
  ws o
  let r ← attemptP (consumeToken "=")
  match r with
  | .ok () => do
    ws o
    let d ← parseString o
    pure { name, quant := q, default := some d, loc := locOf s0 }
  | .error _ => pure { name, quant := q, default := none, loc := locOf s0 }

/-- `parse_shorthand` -/
def parseShorthand (o : POracle) (fuel : Nat) : PP Shorthand := do
  let s0 ← getS
  let name ← parseIdentifier o "shorthand name"
  ws o; consumeToken "="; ws o
  let v ← parseUnscopedVariable o fuel
  ws o; consumeToken "=>"; ws o
  let attrs ← parseAttributes o fuel
  pure { name, var := v.1, varLoc := v.2, attrs, loc := locOf s0 }

/-- `parse_query` + `parse_stanza` -/
def parseStanza (o : POracle) (fuel : Nat) : PP Stanza := do
  let s0 ← getS
  let qtext ← skipQuery o.fuel 0 false false false []
  let qsrc := String.ofList qtext ++ "@" ++ fullMatchName
  match o.query qsrc with
  | none => .fail (.need (.query qsrc))
  | some .bindingPanic => .fail (.panic "tree_sitter::Query::new")
  | some (.invalid r c off) =>
    failE (.queryError (r + s0.row) (if r = 0 then c + s0.col else c) (off + s0.off))
  | some (.valid patterns caps) =>
    if patterns > 1 then failE (.unexpectedQueryPatterns (locOf s0))
    else
      match caps.findIdx? (·.1 = fullMatchName) with
      | none => .fail (.panic "missing capture index for full match")
      | some ix => do
        ws o
        let stmts ← parseStatements o fuel
        let s2 ← getS
        pure { stmts, fullMatchStanzaIx := ix, fullMatchFileIx := usizeMax, rangeStart := locOf s0, rangeEnd := locOf s2,
               captures := caps }

/-- shorthands live in a `HashMap`: a later definition replaces an earlier one of the same name -/
def addShorthand (shs : List Shorthand) (sh : Shorthand) : List Shorthand :=
  (shs.filter (·.name ≠ sh.name)) ++ [sh]

/-- `parse_into_file` (parser.rs:291-316), without the final merged-query construction -/
def parseFileLoop (o : POracle) (fuel : Nat) : Nat → File → PP File
  | 0, _ => .fail .outOfFuel
  | n + 1, file => do
    let c ← tryPeek
    match c with
    | none => pure file
    | some _ => do
      let r1 ← attemptP (consumeToken "attribute")
      let file' ← match r1 with
        | .ok () => do
          ws o
          let sh ← parseShorthand o fuel
          pure { file with shorthands := addShorthand file.shorthands sh }
        | .error _ => do
          let r2 ← attemptP (consumeToken "global")
          match r2 with
          | .ok () => do
            ws o
            let g ← parseGlobal o
            pure { file with globals := file.globals ++ [g] }
          | .error _ => do
            let r3 ← attemptP (consumeToken "inherit")
            match r3 with
            | .ok () => do
              ws o
              consumeToken "."
              let name ← parseIdentifier o "inherit"
              pure { file with inherited := if file.inherited.contains name then file.inherited else file.inherited ++ [name] }
            | .error _ => do
              let st ← parseStanza o fuel
              pure { file with stanzas := file.stanzas ++ [st] }
      ws o
      parseFileLoop o fuel n file'

def parseFile (o : POracle) (fuel : Nat) : PP File := do
  ws o
  parseFileLoop o fuel fuel { globals := [], inherited := [], stanzas := [], shorthands := [] }

def initState (text : String) : PS := { rest := text.toList, row := 0, col := 0, off := 0 }

/-- `Parser::new(content).parse_into_file(file)` -/
def parse (o : POracle) (text : String) : Except PFail File :=
  let n := text.length + 2
  (PP.run (parseFile { o with fuel := n } (8 * n)) (initState text)).1

end Parser
