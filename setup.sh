#!/bin/bash
# Builds the framework from files on disk only (offline).
set -e
cd "$(dirname "$0")"
export CARGO_NET_OFFLINE=true
mkdir -p evidence replays
(cd harness && cp -f /repo/Cargo.lock Cargo.lock.repo 2>/dev/null || true; cargo build --offline 2>&1 | tail -3)
(cd lean && lake build Tsg tsgdriver 2>&1 | tail -3)
bash tools/stage_cli_env.sh
(cd /repo && CARGO_TARGET_DIR=/verif/harness/target-cli cargo build --offline --features cli 2>&1 | tail -1)
echo "setup done"
