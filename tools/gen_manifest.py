#!/usr/bin/env python3
"""Regenerates /verif/MANIFEST.json from the table below (kept in one place so the file stays valid)."""
import json, os

VERIF = os.path.dirname(os.path.dirname(os.path.abspath(__file__)))

TRUST = ("Lean 4.33.0 kernel, axioms propext/Classical.choice/Quot.sound only (audited with #print axioms on every run); "
         "hand-written Lean model tied to /repo by the differential correspondence run of the same check (not a proof); "
         "tree-sitter, regex, serde_json and std collections are oracles with the contracts of DESIGN.md section 4.4")

# property -> (technique, level text, design_ref, extra note)
CLAIMED = {
    "C17": ("Lean 4 refinement proof (concrete containers refine a plain map/set model, for all operation sequences) + differential correspondence of the model against src/graph.rs and src/variables.rs",
            "Kernel-checked theorems: every sequence of mutating operations on the container model returns the observations of, and abstracts to, a plain map/set specification (C17_refines_from_empty), edge lists stay strictly ascending, attribute add conflicts iff a different value was present, nested variable sets never change outer ones. The model is tied to the Rust containers by replaying random operation sequences (<= 200 ops, > 8 edges per node) on both and comparing every observation and the final graph.",
            "DESIGN.md section 7, C17"),
    "C13": ("Lean 4 theorems per stdlib function over all argument tuples (model mirrors each Function::call incl. param/finish order) + differential correspondence against Functions::stdlib().call + tree-sitter Node API as direct oracle",
            "Kernel-checked contracts for every argument tuple: eq (null comparable to anything, structural within a variant, error across variants, arity), is-null, not/and/or (folds, type errors), plus (sum iff < 2^32, FunctionFailed on overflow), format (escape round-trip, compositional placeholder step, missing/extra argument, lone brace), concat/length/is-empty/join (incl. arity), node freshness, syntax accessors equal to the tree, named-child-index position, registration table, unknown function. The regex behind `replace` is an oracle. Tie: 6000 (quick) generated calls per run incl. wrong arity/type, compared outcome-by-outcome; syntax accessors additionally against tree-sitter's Node API.",
            "DESIGN.md section 7, C13"),
    "C14": ("Lean 4 round-trip theorem decode(toJson g) = g for all graphs (nested lists/sets by mutual structural induction) + pretty-print completeness/sortedness theorems + differential correspondence against serde_json::to_value and pretty_print()",
            "Kernel-checked: decoding the JSON model reconstructs exactly the graph (C14_json_roundtrip), nodes once in index order with id = index, edges ascending by sink under the graph invariant, type tags, pretty attribute lines are a permutation of the attributes sorted by name (strictly, with unique names), block structure of the pretty form. Tie: generated graphs (0-40 nodes, > 8 edges per node, values nested to depth 3 with quotes/control/non-ASCII characters, syntax and graph node references) serialised by the real code and compared with the model; plus an independent decoder of the real JSON and a text round trip as direct oracle. JSON string escaping is serde_json's (oracle); Rust's {:?} escaping of non-ASCII is assumed printable.",
            "DESIGN.md section 7, C14"),
}

NOT_YET = {}

def main():
    props = [json.loads(l) for l in open(os.path.join(VERIF, "properties.jsonl"))]
    checks, na = [], []
    for p in props:
        pid = p["id"]
        if pid in CLAIMED:
            tech, text, ref = CLAIMED[pid]
            checks.append({
                "property_id": pid,
                "quick_cmd": f"./check {pid} --tier quick",
                "thorough_cmd": f"./check {pid} --tier thorough",
                "evidence_file": f"/verif/evidence/{pid}.json",
                "replay_cmd_template": f"./check {pid} --replay {{path}}",
                "engine": "lean-model+correspondence",
                "level_claimed": {"category": "proof", "text": text, "design_ref": ref},
                "level_note": TRUST,
                "technique": tech,
            })
        else:
            na.append({"property_id": pid, "reason": NOT_YET.get(pid, "not claimed yet: model, theorems and correspondence for this property are still being built (the technique applies; see DESIGN.md section 7)")})
    man = {
        "version": 1,
        "setup_cmd": "./setup.sh",
        "hooks": {
            "guard": "tsg_verif",
            "enable": "none needed: every type and field the harness uses is public; the harness depends on /repo by path and is rebuilt by each check",
            "baseline_off_cmd": "cd /repo && cargo test --workspace --no-fail-fast --offline",
            "source_commits": [],
            "add_only": True,
        },
        "engines": [{
            "name": "lean-model+correspondence",
            "path": "/verif/lean (model, theorems, driver), /verif/harness (Rust correspondence harness), /verif/check",
            "serves_properties": sorted(CLAIMED.keys()),
            "kind_free_text": "machine-checked proof in Lean 4 over a hand-written executable model; differential correspondence check model vs implementation on generated inputs",
        }],
        "checks": checks,
        "not_applicable": na,
        "notes": "See DESIGN.md. Every check rebuilds the harness against /repo's working tree, rebuilds the Lean theorems, audits axioms, runs the correspondence, and writes evidence/<id>.json.",
    }
    json.dump(man, open(os.path.join(VERIF, "MANIFEST.json"), "w"), indent=1)

if __name__ == "__main__":
    main()
