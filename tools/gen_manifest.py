#!/usr/bin/env python3
"""Regenerates /verif/MANIFEST.json from the table below (kept in one place so the file stays valid)."""
import json, os

VERIF = os.path.dirname(os.path.dirname(os.path.abspath(__file__)))

TRUST = ("Lean 4.33.0 kernel, axioms propext/Classical.choice/Quot.sound only (audited with #print axioms on every run); "
         "hand-written Lean model tied to /repo by the differential correspondence run of the same check (not a proof); "
         "tree-sitter, regex, serde_json and std collections are oracles with the contracts of DESIGN.md section 4.4")

# property -> (technique, level text, design_ref, extra note)
CLAIMED = {
    "C17": ("Lean 4 refinement proof (concrete containers refine a plain map/set model, for all operation sequences) + differential correspondence of the model against src/graph.rs and src/variables.rs",
            "Kernel-checked theorems: every sequence of mutating operations on the container model returns the observations of, and abstracts to, a plain map/set specification (C17_refines_from_empty), edge lists stay strictly ascending, attribute add conflicts iff a different value was present, nested variable sets never change outer ones. The model is tied to the Rust containers by replaying random operation sequences (<= 200 ops, > 8 edges per node) on both and comparing every observation and the final graph.",
            "DESIGN.md section 7, C17"),
    "C13": ("Lean 4 theorems per stdlib function over all argument tuples (model mirrors each Function::call incl. param/finish order) + differential correspondence against Functions::stdlib().call + tree-sitter Node API as direct oracle",
            "Kernel-checked contracts for every argument tuple: eq (null comparable to anything, structural within a variant, error across variants, arity), is-null, not/and/or (folds, type errors), plus (sum iff < 2^32, FunctionFailed on overflow), format (escape round-trip, compositional placeholder step, missing/extra argument, lone brace), concat/length/is-empty/join (incl. arity), node freshness, syntax accessors equal to the tree, named-child-index position, registration table, unknown function. The regex behind `replace` is an oracle. Tie: 6000 (quick) generated calls per run incl. wrong arity/type, compared outcome-by-outcome; syntax accessors additionally against tree-sitter's Node API.",
            "DESIGN.md section 7, C13"),
    "C14": ("Lean 4 round-trip theorem decode(toJson g) = g for all graphs (nested lists/sets by mutual structural induction) + pretty-print completeness/sortedness theorems + differential correspondence against serde_json::to_value and pretty_print()",
            "Kernel-checked: decoding the JSON model reconstructs exactly the graph (C14_json_roundtrip), nodes once in index order with id = index, edges ascending by sink under the graph invariant, type tags, pretty attribute lines are a permutation of the attributes sorted by name (strictly, with unique names), block structure of the pretty form. Tie: generated graphs (0-40 nodes, > 8 edges per node, values nested to depth 3 with quotes/control/non-ASCII characters, syntax and graph node references) serialised by the real code and compared with the model; plus an independent decoder of the real JSON and a text round trip as direct oracle. JSON string escaping is serde_json's (oracle); Rust's {:?} escaping of non-ASCII is assumed printable.",
            "DESIGN.md section 7, C14"),
    "C01": ("Lean 4 theorems over the strict interpreter model (driver = stanzas in file order x matches in order, first failure wins; statement rules) + differential correspondence of File::execute (strict) against the model on generated programs x trees",
            "Kernel-checked for every file, tree and match list: strict execution is exactly the sequence of block executions 'for each stanza in file order, for each match in order' (C01_blocks_once_per_match_in_order), the first failing block is the result, blocks start from cleared locals, capture values by quantifier, if/for unfolding rules. The statement-level semantics is a code-shaped model whose agreement with the Rust executor is checked differentially: outcome class and, on success, the whole graph including node numbering, on generated programs covering the whole statement/expression grammar (incl. injected runtime faults) x generated/corpus Python trees. A refinement proof to a separate reference specification is not yet done; the claim is partial there.",
            "DESIGN.md section 7, C01"),
    "C02": ("Lean 4 theorems relating the strict and lazy interpreter models (shared capture/scan/graph-operation mechanisms) + differential correspondence of each mode against its model + strict-vs-lazy comparison on the implementation up to graph isomorphism",
            "Kernel-checked: the lazy scan collection loop computes the strict loop's result (C02_scan_collect_agree), both modes use one capture-value function, one match selection and the same failing graph operations; out-of-range $n is the same error in both modes. The full agreement statement C02_full is stated, not proved; it is covered differentially: in-fragment generated programs (a third with an injected fault) x trees, each mode compared with its model (outcome, graph) and strict compared with lazy on the real code (success coincides, graphs isomorphic, order-independent failures fail in both, no panic).",
            "DESIGN.md section 7, C02"),
    "C09": ("Lean 4 proof that every successful program term only extends the graph (Prog.run_extends, by induction on the effect-separated program, instantiated for strict and lazy execute_into) + differential histories of execute_into calls",
            "Kernel-checked for every file, tree, matches, globals and initial graph: a successful strict or lazy execute_into leaves every existing node, edge and attribute binding in place, keeps indices (new nodes after existing ones) and keeps edge lists strictly ascending, i.e. at most one edge per ordered pair (C09_execute_into_extends_strict/lazy); re-creating an edge leaves the graph unchanged; an equal re-assignment is a no-op and a different one fails the run. Tie: histories of 1-3 execute_into calls in either mode on a pre-populated graph with graph nodes passed back as globals, compared with the model from the same initial graph, plus a direct before ⊑ after check.",
            "DESIGN.md section 7, C09"),
    "C11": ("Lean 4 proof of cancellation simulation for every program term (Prog.cancel_sim, induction on the effect-separated program; only `poll` can see the flag), instantiated for whole strict and lazy runs + exhaustive cancellation at every poll on the implementation",
            "Kernel-checked for every file, tree, matches, globals, mode and every k >= 1: if the uncancelled run performs at least k polls, the run whose flag fires at poll k returns exactly the Cancelled error (unwrapped, no other error, no success) after exactly k polls; otherwise the flag changes nothing (C11_cancel_at_k_strict/lazy); with_context never wraps Cancelled; every statement polls first. Tie: for generated programs the real executor is cancelled at EVERY poll k = 1..N in both modes (result must be top-level Cancelled with k polls), a never-signalling counting flag must reproduce the NoCancellation result, and the model's poll count must not exceed the implementation's (no mandatory poll lost).",
            "DESIGN.md section 7, C11"),
    "C15": ("Lean 4 theorems on the debug-attribute algebra (stripping commutes with every graph operation on other names, debug additions are invisible after stripping, new-edge-only location attribute) + differential runs of both configurations in both modes",
            "Kernel-checked: adding a configured debug attribute is invisible after stripping; any other attribute assignment commutes with stripping with the same conflict verdict; a newly created edge gets exactly the location attribute and an existing edge is untouched, so a second edge statement cannot conflict; rendering of location and variable text. Whole-program neutrality (C15_full) is stated, not proved; it is checked on every generated case by running plain and debug configurations in both modes on the real code (success must coincide, stripped graphs equal) and comparing each with the model (which fixes the debug attribute values).",
            "DESIGN.md section 7, C15"),
    "C20": ("Lean 4 theorems on the error-context algebra and on context wrapping of every block (all programs), + differential comparison of the complete context chain of every failing run",
            "Kernel-checked: the four-way with_context algebra (innermost statement context wins, Other is wrapped, Cancelled passes); every error leaving a context-wrapped computation is Cancelled or carries a statement context, for every program; hence every error of a strict block and of a whole strict run (after the globals pre-check) is contexted (C20_strict_errors_contexted); the recorded statement location of a block statement is its own; lazy conflicts name both statements. Tie (hard): for fault-injected and naturally failing programs in both modes the complete chain of contexts (statement, stanza and source locations, node kind of every StatementContext) equals the model's; plus direct checks that the locations name a real stanza and a real node, and that the pretty rendering cites the DSL and source files.",
            "DESIGN.md section 7, C20"),
    "C03": ("Lean 4 theorems on the match drivers of both modes (one block per reported match, stanza selected by pattern index, capture values by quantifier, no cross-talk, capture-table index round trip) + differential probe programs and try_visit_matches against independent per-stanza QueryCursor runs",
            "Kernel-checked for every file and match list: strict runs exactly one block per (stanza, match) in file/match order; lazy runs exactly one block per merged match for the stanza at its pattern index; a capture evaluates through the running stanza's own quantifier table and the match only (no cross-talk), with the documented value shape, totally under tree-sitter's quantifier contract; name<->index of a duplicate-free capture table is a bijection. Tree-sitter's match lists are oracles. Tie: multi-stanza files from 30 query shapes with every capture probed into an attribute, both modes vs the model (which binds by name from the harness's own per-stanza cursor run); File/Stanza::try_visit_matches vs that run; the checker's recorded capture indices vs the queries' name tables; the merged-query = union contract is re-checked on every case.",
            "DESIGN.md section 7, C03"),
    "C04": ("Lean 4 theorems on the scoped-variable store (visible on the same node, untouched elsewhere, inherit-nearest, duplicates are errors in both modes) + differential scoped-variable-heavy programs in both modes",
            "Kernel-checked for every store state: after a successful definition the value is found on that node (the store is keyed by node identity only); other nodes' variables are untouched; without `inherit` a node lacking the variable yields nothing, with `inherit` the nearest of node :: ancestors that has it; a second definition fails with DuplicateVariable and keeps the stored value; in lazy mode forcing two pairs with the same scope fails naming both statements. Tie: generated programs defining/reading scoped variables through different captures, list elements, nested scopes and inherit declarations, both modes, outcome class + error variant + graph against the model (store keyed by pre-order index; ancestor walk over exported parent links; id injectivity checked per tree).",
            "DESIGN.md section 7, C04"),
    "C07": ("Lean 4 theorems on the parser model as effect-separated programs (location = position of the consumed prefix for every parser program; layout gaps skipped exactly; identifiers read whole, keywords by whole word; string/integer literal round-trips) + differential parsing of generated programs under random layouts and of damaged texts",
            "Kernel-checked for every text: every state any parser program observes (the only source of recorded locations) is the zero-based (row, character column, byte offset) of the prefix consumed so far; consume_whitespace consumes exactly the gap (whitespace and `;` comments of any content) before a token; parse_name reads the maximal identifier, consume_keyword rejects a keyword followed by an identifier character, and a statement whose first identifier is not one of the ten keywords is reported whole as UnexpectedKeyword; parse_string returns exactly the characters spelled under the escape table for every spelling; integer literals denote their decimal value or InvalidIntegerConstant. The composition through the recursive grammar is not a theorem; it is covered by the tie: complete AST with all locations (or ParseError variant + payload + location) equal between parser.rs and the model on generated programs re-laid-out with random gaps (tabs, CR/LF, comments with multi-byte text, NBSP, keyword-prefixed identifiers) and on token/character-damaged texts; every recorded location must point at its construct's first character; the relayout must parse to the house layout's AST modulo locations. tree-sitter Query::new, Regex::new and Unicode character classes are oracles.",
            "DESIGN.md section 7, C07"),
    "C08": ("Lean 4 proof that attribute assignment is permutation-invariant (success and resulting map), phase order and queue routing of the lazy graph + execution of ALL permutations of the stanzas of generated files",
            "Kernel-checked: for every attribute set and assignment list, every permutation of the list succeeds iff the list does and yields the same map (C08_attrs_order_free, via refinement to a plain-map fold and a swap lemma); the evaluate phase runs edges, then attributes, then prints, then thunks, then scoped cells; statements are queued by kind only. The whole-program statement C08_full is stated, not proved; it is checked by executing every permutation (n! for n <= 4 quick / 5 thorough, sampled beyond) of every generated file lazily on the real code (success must coincide, graphs isomorphic) and comparing sampled permutations with the model.",
            "DESIGN.md section 7, C08"),
    "C10": ("Lean 4 theorems on the scan loops of both modes (selection = lexicographic minimum by (start, arm), candidates non-empty, one-iteration unfolding, strict advance) + differential scan programs against a reference arg-min loop and the model",
            "Kernel-checked for every matcher (oracle), subject and arm list: the selected match is among the per-arm first matches and is the (start, arm)-lexicographic minimum; nothing selected iff no arm matches; every collected match is non-empty and an empty first match raises EmptyRegexCapture; $k binds the group text or the empty string; one iteration = poll, collect, stop or run the selected arm in a fresh scope and continue exactly after the match end, which is strictly further (termination is also forced by Lean's termination checker on the model); the lazy loop has the same shape over the same selection. Tie: generated regex arm lists (classes, alternation, optional groups, $, multi-byte, word-boundary, nullable) x subjects, nested scans, both modes: the recorded (arm, $0..$n) sequence against a reference loop over the real regex crate, and against the model.",
            "DESIGN.md section 7, C10"),
    "C16": ("Lean 4 theorems on the globals pre-check and lookup precedence + exhaustive enumeration of declaration sets x supply patterns x nesting x mode",
            "Kernel-checked: a faulty first declaration (unsupplied without default, or */+ with a non-list) fails the run with that error before any poll or graph change, in both modes; a supplied value is never replaced by a default; a default is added exactly when nothing is supplied; the pre-check leaves the caller's layers untouched; a global evaluates to its effective value whatever the interpreter state, and cannot be hidden or assigned at run time. Tie: exhaustive product of 1-2 (quick) / 3 (thorough) declarations x {none,?,*,+} x default x 8 supply kinds x direct/nested Variables x both modes: expected outcome computed from the declarations, effective values read back at every block depth (if, for, scan arm, shorthand), caller's Variables compared before/after, static rules (duplicate, hide, set) rejected at load; all against the model as well.",
            "DESIGN.md section 7, C16"),
    "C18": ("Lean 4 proof that the tree-cursor loop of find_errors equals the declarative 'outermost flagged nodes in document order' for every tree (mutual induction over rose trees, with fuel sufficiency), first = head; + differential comparison incl. both displays and the owning variants moved across threads",
            "Kernel-checked for every tree: the cursor machine (flags, goto_first_child / next_sibling / parent, did_visit_children) returns exactly the ERROR/MISSING nodes not inside another reported node, in document order, within 2|t|+1 iterations (C18_walk_eq_outermost); first-error mode returns the head of that list (C18_first_is_head); children of a reported node are skipped; an error-free tree yields none; the plain display starts with path:line:column and the kind. Tie: Python sources with 0-6 injected faults: ParseError::all/first vs an independent recursive walk over Node::children and vs the model; display / display_pretty text equal to the model's (Excerpt incl. column clamping); into_all / into_first queried on another thread; tree-sitter's has_error contract re-checked. The soundness of the unsafe Send/Sync impls and the lifetime transmute is memory safety and outside the model (the cross-thread run only exercises it).",
            "DESIGN.md section 7, C18"),
    "C19": ("Lean 4 theorems on the decision logic of the CLI (exit status iff, output selection, quiet only affects the pretty graph, no graph on failure, --global parsing) + runs of the real binary against the library called in-process",
            "Kernel-checked over all option sets and library results (the decision table is finite and proved by exhaustive case analysis): exit status 0 iff options well-formed, file loads, no syntax errors or they are allowed, execution succeeds; on failure nothing is printed and no file written; --json prints the JSON and with --output also writes the file; --quiet only suppresses the pretty graph; a --global without '=' or with a repeated name fails; the global's name is the text before the first '='. clap, the grammar loader, process plumbing and file I/O are not modelled (partial). Tie: the real binary built from /repo with --features cli runs offline (staged grammar directory) on generated pairs incl. rejected files, failing executions and faulty sources x option sets; exit status, kind of stdout and presence of the output file vs the model; stdout / file contents vs the library's pretty_print / JSON (syntax-node ids normalised).",
            "DESIGN.md section 7, C19"),
    "C12": ("Lean 4 theorems that nothing observable depends on hash-container order (lookups, pretty attribute lines, lazy forcing order invariant under permutation of the underlying association lists) on a model whose entry points are pure functions + transcript equality across repeated loads, interleaved and concurrent executions and separate OS processes",
            "Kernel-checked: map lookups, Attributes::get, the pretty-printed attribute lines and the order in which lazy evaluation forces scoped variables are invariant under every permutation of the underlying (hash) container; execution is a function of (file, tree, matches, globals, config) that returns only outcome, graph and poll count. Thread interference, allocator- and address-dependent behaviour cannot be exhibited by a pure model (partial there): the check runs each generated file (valid, runtime-faulty, statically faulty) 3x through the loader, executes it in both modes on 3 trees in two interleavings and from 4 (quick) / 16 (thorough) threads sharing &File, and has 3 / 6 child processes with fresh hash seeds reproduce the whole transcript from the same seed; every transcript must be identical; globals are compared before/after; one run per case is compared with the model.",
            "DESIGN.md section 7, C12"),
}

NOT_YET = {}

def main():
    props = [json.loads(l) for l in open(os.path.join(VERIF, "properties.jsonl"))]
    checks, na = [], []
    for p in props:
        pid = p["id"]
        if pid in CLAIMED:
            tech, text, ref = CLAIMED[pid]
            checks.append({
                "property_id": pid,
                "quick_cmd": f"./check {pid} --tier quick",
                "thorough_cmd": f"./check {pid} --tier thorough",
                "evidence_file": f"/verif/evidence/{pid}.json",
                "replay_cmd_template": f"./check {pid} --replay {{path}}",
                "engine": "lean-model+correspondence",
                "level_claimed": {"category": "proof", "text": text, "design_ref": ref},
                "level_note": TRUST,
                "technique": tech,
            })
        else:
            na.append({"property_id": pid, "reason": NOT_YET.get(pid, "not claimed yet: model, theorems and correspondence for this property are still being built (the technique applies; see DESIGN.md section 7)")})
    man = {
        "version": 1,
        "setup_cmd": "./setup.sh",
        "hooks": {
            "guard": "tsg_verif",
            "enable": "none needed: every type and field the harness uses is public; the harness depends on /repo by path and is rebuilt by each check",
            "baseline_off_cmd": "cd /repo && cargo test --workspace --no-fail-fast --offline",
            "source_commits": [],
            "add_only": True,
        },
        "engines": [{
            "name": "lean-model+correspondence",
            "path": "/verif/lean (model, theorems, driver), /verif/harness (Rust correspondence harness), /verif/check",
            "serves_properties": sorted(CLAIMED.keys()),
            "kind_free_text": "machine-checked proof in Lean 4 over a hand-written executable model; differential correspondence check model vs implementation on generated inputs",
        }],
        "checks": checks,
        "not_applicable": na,
        "notes": "See DESIGN.md. Every check rebuilds the harness against /repo's working tree, rebuilds the Lean theorems, audits axioms, runs the correspondence, and writes evidence/<id>.json.",
    }
    json.dump(man, open(os.path.join(VERIF, "MANIFEST.json"), "w"), indent=1)

if __name__ == "__main__":
    main()
