#!/bin/bash
# usage: seeded_confirm.sh <name> <worktree> <dir with patch.diff + demo.rs>
# Confirms in the scratch worktree: (1) demo passes on the original code, (2) with the patch the crate builds and the
# existing suite passes, (3) with the patch the demo fails. Prints one line per step and a final CONFIRMED / NOT-CONFIRMED.
name=$1; wt=$2; dir=$3
export CARGO_NET_OFFLINE=true
cd "$wt" || exit 2
git checkout -q -- . ; rm -f tests/seeded_demo.rs
cp "$dir/demo.rs" tests/seeded_demo.rs
if cargo test --offline --test seeded_demo >/tmp/sc_$name.1 2>&1; then s1=pass; else s1=fail; fi
echo "[$name] demo on original code: $s1"
rm -f tests/seeded_demo.rs
if ! git apply "$dir/patch.diff"; then echo "[$name] patch does not apply"; echo "[$name] NOT-CONFIRMED"; exit 1; fi
cargo test --workspace --no-fail-fast --offline >/tmp/sc_$name.2 2>&1
s2=$(grep -E "^test result" /tmp/sc_$name.2 | head -1)
echo "[$name] existing suite with patch: $s2"
cp "$dir/demo.rs" tests/seeded_demo.rs
if cargo test --offline --test seeded_demo >/tmp/sc_$name.3 2>&1; then s3=pass; else s3=fail; fi
echo "[$name] demo on patched code: $s3"
rm -f tests/seeded_demo.rs
if [ "$s1" = pass ] && [ "$s3" = fail ] && echo "$s2" | grep -q "162 passed; 0 failed"; then echo "[$name] CONFIRMED"; else echo "[$name] NOT-CONFIRMED"; exit 1; fi
