#!/bin/bash
# usage: seeded_eval.sh <seed-dir> <Cxx> [<Cyy> ...]
# Applies <seed-dir>/patch.diff to /repo, runs the quick check of each listed property, reverts /repo.
# Prints for each property: DETECTED (VIOLATION lines, exit 1) or MISSED (exit 0).
dir=$1; shift
cd /verif
if [ -n "$(git -C /repo status --porcelain)" ]; then echo "/repo is not clean"; exit 2; fi
if ! git -C /repo apply "$dir/patch.diff"; then echo "patch does not apply"; exit 2; fi
for p in "$@"; do
  out=$(./check $p 2>&1); rc=$?
  nv=$(echo "$out" | grep -c "^VIOLATION")
  first=$(echo "$out" | grep "^VIOLATION" | head -1)
  summary=$(echo "$out" | tail -1)
  if [ $rc -ne 0 ] && [ $nv -gt 0 ]; then echo "$p DETECTED ($nv violation lines) :: $first :: $summary"; else echo "$p MISSED rc=$rc :: $summary"; fi
done
git -C /repo checkout -q -- .
git -C /repo status --porcelain
