#!/bin/bash
# Stages the offline environment the CLI needs: a grammar directory (tree-sitter-python sources from the
# cargo registry cache) and a tree-sitter config pointing at it. Idempotent.
set -e
ENVD=/verif/cli-env
SRC=$(ls -d ~/.cargo/registry/src/*/tree-sitter-python-0.23.5 | head -1)
mkdir -p $ENVD/parsers $ENVD/home/.config/tree-sitter $ENVD/home/.cache $ENVD/work
if [ ! -d $ENVD/parsers/tree-sitter-python ]; then
  cp -r "$SRC" $ENVD/parsers/tree-sitter-python
fi
cat > $ENVD/home/.config/tree-sitter/config.json <<JSON
{"parser-directories": ["$ENVD/parsers"]}
JSON
echo staged
